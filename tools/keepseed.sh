#!/bin/bash
# keepseed.sh <src dir with patch.diff demo_test.go meta.json> <seed id e.g. C03-1> <detected: yes|no> "<signatures / note>"
src="$1"; id="$2"; det="$3"; note="$4"
/verif/tools/confirmseed.sh "$src" > /tmp/keepseed.$$ 2>&1 || { cat /tmp/keepseed.$$; echo "not kept"; rm -f /tmp/keepseed.$$; exit 1; }
mkdir -p /verif/seeded/$id
cp "$src/patch.diff" "$src/demo_test.go" /verif/seeded/$id/
jq --arg det "$det" --arg note "$note" --arg conf "$(grep '^demo on clean' /tmp/keepseed.$$)" --arg head "$(git -C /repo rev-parse --short HEAD)" \
  '. + {confirmed_by: "tools/confirmseed.sh in a scratch worktree of /repo", confirmation: $conf, repo_head_when_confirmed: $head, ran: ("tools/tryseed.sh seeded/'$id'/patch.diff " + .property + " quick"), detected: $det, detection_note: $note}' "$src/meta.json" > /verif/seeded/$id/meta.json
rm -f /tmp/keepseed.$$; echo "kept $id"
