#!/bin/bash
# Runs the repository's own suite with the verif guard OFF and compares with the stable_pass list of
# /root/.vp/BASELINE.json. Exit 0 iff every stable test passed. /repo must be clean afterwards.
export GOFLAGS=-mod=mod GOPROXY=off GOSUMDB=off GOTOOLCHAIN=local
out=$(mktemp)
REPO="${BASELINE_REPO:-/repo}"
(cd "$REPO" && go test -json -vet=off -count=1 -timeout 25m ./... > "$out" 2>/dev/null)
# Several packages of the suite rewrite the same files under _fixtures/refactor and restore them
# afterwards; run side by side they occasionally trip over each other (BASELINE.json lists two of them
# as flaky for that reason). Packages with a failure are therefore re-run once, one at a time, on a
# restored fixture tree; the later result of a test replaces the earlier one.
failed=$(python3 - "$out" <<'PY'
import json,sys
pk=set()
for line in open(sys.argv[1]):
    try: e=json.loads(line)
    except Exception: continue
    if e.get("Test") and e.get("Action")=="fail": pk.add(e["Package"])
print(" ".join(sorted(pk)))
PY
)
if [ -n "$failed" ]; then
  git -C "$REPO" checkout -- _fixtures 2>/dev/null
  (cd "$REPO" && go test -json -vet=off -count=1 -p 1 -timeout 25m $failed >> "$out" 2>/dev/null)
  git -C "$REPO" checkout -- _fixtures 2>/dev/null
fi
python3 - "$out" <<'PY'
import json,sys
res={}
for line in open(sys.argv[1]):
    try: e=json.loads(line)
    except Exception: continue
    if e.get("Test") and e.get("Action") in ("pass","fail","skip"):
        res[e["Package"]+"::"+e["Test"]]=e["Action"]
base=json.load(open("/root/.vp/BASELINE.json"))
bad=[t for t in base["stable_pass"] if res.get(t)!="pass"]
print("stable tests: %d, passing now: %d, total observed pass=%d fail=%d"%(len(base["stable_pass"]),len(base["stable_pass"])-len(bad),sum(1 for v in res.values() if v=="pass"),sum(1 for v in res.values() if v=="fail")))
for t in bad: print("NOT PASSING:",t,res.get(t))
others=[t for t,v in res.items() if v=="fail" and t not in base["stable_pass"]]
for t in others: print("failing (not in stable list):",t)
sys.exit(1 if bad else 0)
PY
rc=$?
rm -f "$out"
git -C "$REPO" status --short | head -5
exit $rc
