#!/bin/bash
# tryseed.sh <patch.diff> <ID> [tier]  -- run a check against a scratch worktree of /repo with the patch applied.
# (Development aid for working through many seeded changes side by side; a kept seed is confirmed once more by applying
# it to /repo itself, see seeded/README.)
patch="$(realpath "$1")"; ID="$2"; tier="${3:-quick}"
wt=$(mktemp -d /tmp/wt-try-XXXXXX); rmdir "$wt"
git -C /repo worktree add -q "$wt" HEAD || exit 3
if ! git -C "$wt" apply "$patch" 2>/dev/null && ! git -C "$wt" apply -3 "$patch"; then echo "PATCH DOES NOT APPLY"; git -C /repo worktree remove --force "$wt"; exit 3; fi
VERIF_REPO="$wt" /verif/check.sh "$ID" "$tier" > "$wt.log" 2>&1; rc=$?
grep -E "^(VIOLATION|KNOWN-FINDING|INCONCLUSIVE|BUILD-FAILED|mismatch)" "$wt.log" | cut -c1-300 | head -8
tail -1 "$wt.log" | grep -q . ; grep -E "^$ID (quick|thorough)" "$wt.log"
echo "exit=$rc"
tag=$(echo "$wt" | tr -c 'A-Za-z0-9' '_'); rm -rf "/verif/bin/alt/$tag" "$wt.log"
git -C /repo worktree remove --force "$wt"
exit $rc
