#!/bin/bash
# applyfix.sh <patch> <commit message file or string>  -- apply a repair to /repo as one "fix:" commit after the baseline passes
patch="$(realpath "$1")"; msg="$2"
cd /repo || exit 1
[ -n "$(git status --porcelain)" ] && { echo "/repo not clean"; git status --short; exit 1; }
git apply "$patch" 2>/dev/null || git apply -3 "$patch" || { echo "patch does not apply"; exit 1; }
export GOFLAGS=-mod=mod GOPROXY=off GOSUMDB=off GOTOOLCHAIN=local
gofmt -l $(git diff --name-only | grep '\.go$') 
go build ./... || { echo "build failed"; git checkout -- .; exit 1; }
if ! /verif/tools/baseline.sh; then echo "BASELINE FAILED - reverting"; git checkout -- .; exit 1; fi
git checkout -- _fixtures 2>/dev/null
git commit -qam "$msg" && git log --format='%h %s' -1
