#!/bin/bash
# sweep.sh <tier> <seeds...> -- runs every registered check at the given seeds and prints one line per run
tier="$1"; shift
ids=$(jq -r '.checks[].property_id' MANIFEST.json)
for s in "$@"; do
  for id in $ids; do
    out=$(VERIF_SEED=$s ./check.sh $id $tier 2>&1); rc=$?
    echo "seed=$s $id rc=$rc $(echo "$out" | grep -E "^$id (quick|thorough)" | cut -c1-200)"
    if [ $rc -ne 0 ]; then echo "$out" | grep -E "^(VIOLATION|mismatch|INCONCLUSIVE|BUILD-FAILED)" | cut -c1-300 | head -5; fi
  done
done
