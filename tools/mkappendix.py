#!/usr/bin/env python3
"""Regenerates the auto-generated tables of DESIGN.md (between BEGIN/END AUTO markers) from KNOWN_FINDINGS.txt and seeded/*/meta.json."""
import json, os, re, glob, subprocess
V = os.path.dirname(os.path.dirname(os.path.abspath(__file__)))

def fixes_table():
    rows = []
    for line in open(os.path.join(V, "KNOWN_FINDINGS.txt")):
        line = line.strip()
        m = re.match(r"fixed: property=(C\d+) (\w+) (.*)", line)
        if m:
            rows.append((m.group(1), "fixed `%s`" % m.group(2), m.group(3)))
        m = re.match(r"finding: property=(C\d+) sig=(\S+) (.*)", line)
        if m:
            rows.append((m.group(1), "known finding `%s`" % m.group(2), m.group(3)))
    rows.sort(key=lambda r: (r[0], r[1].startswith("known")))
    out = ["| property | status | what failed on the tree as found |", "|---|---|---|"]
    for r in rows:
        out.append("| %s | %s | %s |" % (r[0], r[1], r[2].replace("|", "\\|")))
    nfix = sum(1 for r in rows if r[1].startswith("fixed"))
    out.append("")
    out.append("%d repaired defects (one `fix:` commit each in /repo), %d recorded known findings." % (nfix, len(rows) - nfix))
    return "\n".join(out)

def seeds_table():
    out = ["| seed | property | what the change does / what it needs to manifest | caught | by (signatures) / what was strengthened |", "|---|---|---|---|---|"]
    n = caught = first = 0
    for d in sorted(glob.glob(os.path.join(V, "seeded", "*"))):
        mp = os.path.join(d, "meta.json")
        if not os.path.exists(mp):
            continue
        m = json.load(open(mp))
        n += 1
        det = str(m.get("detected", "?"))
        if det.startswith("yes"):
            caught += 1
        note = m.get("detection_note", "")
        if det == "yes" and "missed at first" not in note.lower():
            first += 1
        what = (m.get("title") or "") + " — needs: " + str(m.get("needs_to_manifest") or m.get("needs") or "")
        what = re.sub(r"\s+", " ", what)
        if len(what) > 330:
            what = what[:330] + "…"
        out.append("| %s | %s | %s | %s | %s |" % (os.path.basename(d), m.get("property", "?"), what.replace("|", "\\|"), det, note.replace("|", "\\|")))
    out.append("")
    out.append("%d seeded changes kept (each confirmed in a scratch worktree: applies, builds, the repository's 191 stable tests still pass, its demonstration fails with the change and passes without); %d are detected by the quick tier now, %d of them were detected by the checks as they stood when the change arrived, the others led to the strengthening noted in the last column." % (n, caught, first))
    return "\n".join(out)

def replace(text, name, body):
    pat = re.compile(r"(<!-- BEGIN AUTO:%s -->\n).*?(<!-- END AUTO:%s -->)" % (name, name), re.S)
    if not pat.search(text):
        return text
    return pat.sub(lambda m: m.group(1) + body + "\n" + m.group(2), text)

p = os.path.join(V, "DESIGN.md")
t = open(p).read()
t = replace(t, "fixes", fixes_table())
t = replace(t, "seeds", seeds_table())
open(p, "w").write(t)
print("DESIGN.md tables regenerated")
