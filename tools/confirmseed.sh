#!/bin/bash
# confirmseed.sh <dir with patch.diff + demo_test.go>
# Confirms a seeded change in a scratch worktree: (1) demo passes on the unchanged tree, (2) patch applies and builds,
# (3) the repository's stable baseline still passes with the patch, (4) the demo fails with the patch.
d="$1"
export GOFLAGS=-mod=mod GOPROXY=off GOSUMDB=off GOTOOLCHAIN=local
wt=$(mktemp -d /tmp/wt-conf-XXXXXX); rmdir "$wt"
git -C /repo worktree add -q "$wt" HEAD || exit 3
place=$(head -1 "$d/demo_test.go" | sed -n 's#.*place in \([^ ]*\) as \([^ ]*\).*#\1/\2#p')
[ -z "$place" ] && { echo "cannot read placement from demo_test.go first line"; git -C /repo worktree remove --force "$wt"; exit 3; }
pkgdir=$(dirname "$place")
cp "$d/demo_test.go" "$wt/$place"
(cd "$wt" && go test -vet=off -count=1 -run 'Demo' "./$pkgdir/" > "$wt.clean.log" 2>&1); rc_clean=$?
rm -f "$wt/$place"
if ! git -C "$wt" apply "$d/patch.diff" 2>/dev/null && ! git -C "$wt" apply -3 "$d/patch.diff" 2>/dev/null; then echo "PATCH DOES NOT APPLY"; git -C /repo worktree remove --force "$wt"; exit 3; fi
(cd "$wt" && go build ./... ) > "$wt.build.log" 2>&1; rc_build=$?
BASELINE_REPO="$wt" /verif/tools/baseline.sh > "$wt.base.log" 2>&1; rc_base=$?
git -C "$wt" checkout -- _fixtures 2>/dev/null
cp "$d/demo_test.go" "$wt/$place"
(cd "$wt" && go test -vet=off -count=1 -run 'Demo' "./$pkgdir/" > "$wt.patched.log" 2>&1); rc_patched=$?
echo "demo on clean tree: rc=$rc_clean (want 0); build with patch: rc=$rc_build (want 0); baseline with patch: rc=$rc_base (want 0) [$(head -1 $wt.base.log)]; demo with patch: rc=$rc_patched (want != 0)"
ok=1; [ $rc_clean -eq 0 ] && [ $rc_build -eq 0 ] && [ $rc_base -eq 0 ] && [ $rc_patched -ne 0 ] || ok=0
[ $ok -eq 0 ] && { tail -5 "$wt.clean.log" "$wt.build.log" "$wt.base.log"; }
rm -f "$wt".*.log
git -C /repo worktree remove --force "$wt"
[ $ok -eq 1 ] && echo CONFIRMED || echo NOT-CONFIRMED
[ $ok -eq 1 ]
