#!/usr/bin/env python3
"""Generates /verif/MANIFEST.json from the table below (kept in one place so the file is always valid)."""
import json, os, sys
V = "/verif"
ALL = ["C%02d" % i for i in range(1, 21)]

COMMON_NOTE = ("Trusted base: the generator's ground truth (self-checked: planted positions are re-read from the rendered text), "
               "the reference oracle in harness/oracle, Go toolchain. Decides only the executions produced: 'held on K cases', never 'verified'.")

CHECKS = {
 "C01": dict(
   text="Runtime monitoring: generated conventional Java trees with planted declarations (classes/interfaces, generics, arrays, annotated/final parameters, constructors, overloads incl. on one line, abstract/interface methods, class annotations of every argument form, identifier lengths 1-40, hostile layouts; test files by name and directory, .gitignore patterns, non-Java decoys) run through the real identifier pass and full pass (API and `coca analysis`); an exactly-once monitor joins planted and observed type and function entries (package, name, kind, path, superclass, annotations, return type, ordered parameters) and rejects anything undeclared or from excluded files.",
   technique="generated workloads with planted ground truth + offline exactly-once/conservation monitor over the code model",
   design="§4 C01"),
 "C02": dict(
   text="Runtime monitoring: generated method bodies with planted call sites (all receiver classes, chains, nesting, lambdas, creations; any column; several per line; shadowing and name reuse across methods/files; suffix-colliding imports; same simple name in two packages) run through the real full pass and `coca analysis`; the monitor compares, per function and in source order, recorded calls with planted sites (kind, callee/created type, line and column range of the callee identifier) and the receiver's type and package where the statement's resolution clause applies.",
   technique="generated workloads with planted call sites + offline sequence-equality monitor (order, position, receiver resolution)",
   design="§4 C02"),
 "C03": dict(
   text="Runtime monitoring: thousands of generated call-relation models (cycles, self-loops, parallel edges, unresolved callees, quoted names) x roots x lookup/DI/API lists are run through the real CallGraph.Analysis / AnalysisByFiles and the real `coca call` / `coca api -c`; an offline monitor joins the emitted DOT edges with the model's call relation (soundness, root completeness, exactness when the unfolded tree fits 6 expansions, Size = edges+1, observable expansion count) and two independent DOT parsers judge well-formedness. Termination is observed as return / process death per case.",
   technique="generated workloads + offline reference-model monitor over emitted DOT edges (edge soundness/completeness), recover()/process-death crash monitor",
   design="§4 C03"),
 "C04": dict(
   text="Runtime monitoring: generated models (fan-in with repeated calls, callers with callers, cycles through the target, mutual recursion, external callees) x targets run through the real RCallGraph.Analysis, `coca rcall` and `coca call -l`; the monitor checks the callback map for exact multiset equality with the inverse project-internal call relation and the DOT edges against the caller-chain relation (membership, direct-caller completeness, well-formedness by two parsers).",
   technique="generated workloads + offline reference-model monitor (inverse-relation equality, caller-chain membership), crash monitor",
   design="§4 C04"),
 "C05": dict(
   text="Runtime monitoring: generated projects whose call sites are biased towards one method (implicit/field/parameter/local receivers across files, several sites per line, declaration and call on one line, 2-/3-/4-byte UTF-8 in comments and literals before sites, same-named decoys) x rename requests with |new| in 1..40; the real full-pass model is handed to the real RenameMethodApp / `coca refactor -R`; a byte-level frame monitor compares every file with the original in which exactly the model-attributed identifier tokens are replaced, then the tree is re-analysed and compared with the renamed original model.",
   technique="generated workloads with planted token offsets + byte-level frame-condition monitor + re-analysis equality",
   design="§4 C05"),
 "C06": dict(
   text="Runtime monitoring: generated directories of 1-8 Java files, each import planted with its kind (single / wildcard / static method / static constant) and the roles its name plays in that file (type of field/parameter/local/return, generic argument, annotation, new, static receiver, catch, throws, none); bytes of every file before/after the real RemoveUnusedImportApp Analysis+Refactoring, after a second run, and through `coca refactor -m cfg -p dir`; monitor: frame (only whole import lines deleted), soundness (deleted => unreferenced), completeness (every planted-unused import deleted in every file), idempotence.",
   technique="generated workloads with planted import roles + byte-level frame/soundness/completeness/idempotence monitor",
   design="§4 C06"),
 "C07": dict(
   text="Runtime monitoring of metamorphic relations between executions in ONE process: the same generated project (name reuse across files and methods, suffix-colliding imports, same class name in two packages, controllers with/without class-level mapping) is analysed under permuted file lists / re-sorted directory layouts, sub- and supersets with the identifier set held fixed, and repeated calls, through the identifier pass, full pass, bad-smell pass and API pass; per-file result slices must be identical. Call graph and reverse call graph are generated for A, for A again, and for A after a different model B: equal edge sets.",
   technique="metamorphic-relation monitor over pairs of real executions in one process (permutation / subset / repetition)",
   design="§4 C07"),
 "C08": dict(
   text="Runtime monitoring of repeated executions: the same input goes N times through the real pipeline in one process (13 reports from identifier/full model to concept list) and M times through the CLI pipeline in fresh processes (19 outputs), plus git summaries, cloc and the Go front-end; outputs are canonicalised exactly as far as the statement allows (function order inside a type free, reports as collections, promised orders on untied keys) and compared. Go's per-range random map start is the schedule being sampled; the evidence reports how many distinct function orders were observed.",
   technique="repetition monitor over canonicalised outputs of real runs (in-process and fresh processes), sampling map-iteration schedules",
   design="§4 C08"),
 "C09": dict(
   text="Runtime crash monitoring: accepted Java files from three sources - a hand-written generator over the Java-17 constructs of the shipped grammar (enums, records, annotation types, sealed types, nested/local/anonymous classes, generic methods/constructors, this(...)/super(...), inner creators, every statement and expression form, annotations in every position incl. type annotations on qualified types, non-ASCII identifiers, Spring mappings, TODO comments), a generic sentence sampler over the rule text of the shipped JavaParser.g4/JavaLexer.g4, and every fixture file under token-level semantics-preserving rewrites - are run through the identifier pass, full pass, bad-smell pass, API scan, refactoring scan and todo scan under recover(), each result is serialised, an unusual file is analysed together with ordinary files (their types must be present), and the CLI commands must exit 0 without a trace; crashes are de-duplicated by pass and first coca frame.",
   technique="grammar-directed hostile workloads + recover()/process-death crash monitor per pass, CLI exit-status monitor",
   design="§4 C09"),

 "C10": dict(
   text="Runtime monitoring: generated classes/interfaces with planted declaration lines, closing-brace lines, parameter counts, top-level if/switch counts, condition spans and method mixes, bounded-exhaustive at T-2..T+2 of every documented threshold (263 boundary points) and random elsewhere, x all 128 ignore subsets on boundary projects, run through BadSmellApp.AnalysisPath + IdentifyBadSmell, SortSmellByType and `coca bs [-x] [-s type]`; monitor: multiset equality of the seven documented kinds with the truth table (file, line, size), ignore removes exactly the named kinds, sort order non-increasing per sized kind.",
   technique="bounded-exhaustive threshold workloads with planted truth + offline truth-table monitor",
   design="§4 C10"),
 "C18": dict(
   text="Runtime monitoring: (a) synthetic call models -> BuildCallMap equals the per-method count of recorded call sites, never-called methods absent, `coca count` listing reproducible; (b) generated Java projects with methods in every modifier order, returns of null on any path, @Nullable/@CheckForNull in any annotation position, Util classes -> Analyser.Analysis and `coca analysis`+`coca evaluate` (table and evaluate.json) equal the planted counts and nullable set; (c) camel-case method-name lists -> concept word counts sum to the planted non-stop-word count.",
   technique="generated workloads with planted counts + offline conservation monitor (counts / sets / sums)",
   design="§4 C18"),

 "C11": dict(
   text="Runtime monitoring: generated JUnit-style trees (test classes by name and under src/test/java, flat and Maven layouts, production classes with the same patterns) whose test methods are assembled from planted evidence (annotations in every order, prints, sleeps, redundant assertions, assertions by every documented prefix with multiplicities around 5, plain calls, helpers with/without assertions) run through TbsApp.AnalysisPath wired as cmd/tbs.go does and through `coca tbs [--sort]`; monitor: multiset equality of findings per (file, type[, line]) with the model of the statement.",
   technique="generated workloads with planted evidence + offline exactly-once monitor over test-smell findings; known findings matched by planted-ground-truth signature",
   design="§4 C11"),
 "C12": dict(
   text="Runtime monitoring: generated Spring projects (controllers with @RestController/@Controller and optional class-level @RequestMapping in both annotation orders and all value forms, handlers in shorthand / value= / method= forms, non-handler members first and interleaved, annotated fields, @RequestBody on any parameter, non-controller classes with the same method annotations) analysed in several layouts (walk orders, subsets, each controller alone) through JavaApiApp.AnalysisPath wired as cmd/api.go does and through `coca analysis` + `coca api -f` (apis.json, api.csv); monitor: multiset equality of (verb, URI, request body, package, class, method) with the planted handlers, nothing from non-controllers, and identical entries for a controller in every project containing it.",
   technique="generated workloads with planted handlers + offline exactly-once monitor and independence (metamorphic) relation",
   design="§4 C12"),


 "C13": dict(
   text="Runtime monitoring: generated code models (types over package trees 1-5 deep, implements/extends/field/call relations to project types, externals, self, Main/main, colliding package-segment concatenations) x include filters x merge modes run through the real ArchApp.Analysis, MergeHeaderFile, ToMapDot and `coca arch [-x][-H][-P]`; the monitor checks node list, relation restricted to node pairs, the package quotient without self-loops and the DOT (gographviz parse, each type a leaf once under its package clusters, edges only between displayed nodes) against a reference relation built from the statement.",
   technique="generated workloads + offline reference-model monitor (relation/quotient equality, DOT structure), crash monitor",
   design="§4 C13"),
 "C14": dict(
   text="Runtime monitoring: real repositories are built with the installed git from generated operation scripts (create/modify/delete/renames of all notations, binary files, paths with spaces, empty commits, merges, hostile author names and subjects); ground truth is read back from git's machine-readable -z --raw --numstat channel; the real `coca git` (commits.json) and BuildMessageByInput on the exact argv of cmd/git.go are compared commit by commit (rev/author/date/subject equality, per-commit change-set equality, no foreign change).",
   technique="generated git histories + offline monitor joining git's -z ground truth with commits.json (exactly-once / no-misattribution)",
   design="§4 C14"),
 "C15": dict(
   text="Runtime monitoring: synthesised commit lists (rename chains in brace and full-path notation incl. {sub => } / { => sub}, delete-then-recreate, shared files/authors, ties, conventional-commit subjects), partly rendered to log text and parsed, run through GetTeamSummary / CalculateCodeAge / GetTopAuthors / BasicSummary / BuildChangeMap and the tables of `coca git -b -t -a -o -m`; a reference fold written from the statement decides values and promised orders.",
   technique="generated histories + offline reference fold (conservation of commits/authors/lines, rename carry-over, promised orders)",
   design="§4 C15"),
 "C16": dict(
   text="Runtime monitoring: generated source trees in six languages with planted code/comment/blank line counts (ignored dirs, empty dirs, root files, nested dirs) run through the real `coca cloc --by-directory [-i]` and `--top-file --top-size N` (stdout, cloc.csv, sort_cloc.json; cwd inside and outside); monitor checks header, one row per non-ignored sub-directory, cell = planted code lines, summary = sum, top-file order/truncation/figures. The same workloads are repeated with a -race build of coca under GOMAXPROCS 1/2/4/16; DATA RACE reports are counted from the GORACE log and de-duplicated by outermost coca/scc frame pair.",
   technique="generated trees + offline conservation monitor over CLI output; Go race detector on the scc pipeline under varied GOMAXPROCS",
   design="§4 C16"),
 "C17": dict(
   text="Runtime monitoring: generated source texts (code tokens, string/char/back-tick literals containing comment markers and TODO, line/block/hash comments from a comment grammar: empty, one char, marker only, colon/assignee forms, mixed case, multi-line, TODO-later decoys, unterminated block at EOF) x all 32 subsets of a 5-extension filter run through TodoApp.AnalysisPath and `coca todo`; monitor checks exact multiset equality of (file, start line, assignee, normalised message) with the planted comments and that no shape crashes the scan.",
   technique="generated workloads + offline exactly-once monitor (planted vs reported TODO entries), recover()/process-death crash monitor",
   design="§4 C17"),
 "C19": dict(
   text="Runtime monitoring: generated pom.xml (0-15 dependencies, children in any order, comments, properties, dependencyManagement and plugin sections) and build.gradle files (single/double-quoted and parenthesised string notation, several configurations, project(), fileTree(), map notation, surrounding blocks; every script first accepted by coca's own Groovy parser) plus source trees importing chosen groups, run through AnalysisMaven / AnalysisGradleString / DepAnalysisApp.AnalysisPath and the `dep deps` binary; monitor: extracted list equals the declared string-notation dependencies in order (group, artifact, scope/configuration), other notations contribute and disturb nothing, unused report equals the exact sub-list.",
   technique="generated build files with planted dependencies + offline list-equality monitor, crash monitor",
   design="§4 C19"),
 "C20": dict(
   text="Runtime monitoring: generated Python modules (imports in all forms, decorated classes with methods, decorated functions, nested defs; accepted by coca's own Python parser) and Go files (structs with fields, interfaces, value/pointer-receiver methods after their type, free functions, call statements/defer/assignments/returns; accepted by go/parser) run through PythonIdentApp / GoIdentApp / CocagoParser / CommonAnalysis and the real golang/python mains; monitor: every planted declaration appears exactly once under its own name and owner; no crash.",
   technique="generated workloads with planted declarations + offline exactly-once / own-owner monitor, crash monitor",
   design="§4 C20"),
}

# built but not yet registered (waiting for repairs of another property to land)
DISABLED = set()

def main():
    checks = []
    for pid in ALL:
        if pid not in CHECKS or pid in DISABLED: continue
        c = CHECKS[pid]
        checks.append({
            "property_id": pid,
            "quick_cmd": "./check.sh %s quick" % pid,
            "thorough_cmd": "./check.sh %s thorough" % pid,
            "evidence_file": "/verif/evidence/%s.json" % pid,
            "replay_cmd_template": "./check.sh %s quick --replay {path}" % pid,
            "engine": "harness",
            "level_claimed": {"category": c.get("level", "exploration"), "text": c["text"], "design_ref": "DESIGN.md " + c["design"]},
            "level_note": c.get("note", COMMON_NOTE),
            "technique": c["technique"],
        })
    na = [{"property_id": p, "reason": "check not built yet in this round (work in progress; runtime monitoring applies, see DESIGN.md §4)"} for p in ALL if p not in CHECKS or p in DISABLED]
    hooks_commits = []
    hf = os.path.join(V, "tools", "hook_commits.txt")
    if os.path.exists(hf):
        hooks_commits = [l.split()[0] for l in open(hf) if l.strip() and not l.startswith("#")]
    m = {
        "version": 1,
        "setup_cmd": "./setup.sh",
        "hooks": {
            "guard": "verif",
            "enable": "go build -tags verif (checks pass -tags verif to every build of /repo and of the harness)",
            "baseline_off_cmd": "/verif/tools/baseline.sh",
            "source_commits": hooks_commits,
            "add_only": True,
        },
        "engines": [{"name": "harness", "path": "/verif/harness", "serves_properties": [c["property_id"] for c in checks],
                     "kind_free_text": "Go module: workload generators with planted ground truth, adapters driving coca's real entry points and CLI, offline reference-model monitors, coordinator with one worker process per core and per-case crash attribution"}],
        "checks": checks,
        "not_applicable": na,
        "notes": "All checks: exit 0 = held on everything explored (KNOWN-FINDING lines allowed), exit 1 + VIOLATION line = violation, exit 2 = inconclusive/build failure. VERIF_SEED and VERIF_TIER honoured. See DESIGN.md.",
    }
    json.dump(m, open(os.path.join(V, "MANIFEST.json"), "w"), indent=1)
    print("MANIFEST.json: %d checks, %d not_applicable" % (len(checks), len(na)))

main()
