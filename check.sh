#!/bin/bash
# check.sh <ID> <quick|thorough> [--replay FILE]
# Rebuilds the harness binary for the property (which compiles the coca packages from /repo's current
# working tree through the `replace` directive) and the coca CLI, then runs the check.
set -u
ID="${1:?usage: check.sh <ID> <quick|thorough> [--replay FILE]}"
TIER="${2:-quick}"
shift; shift || true
id=$(echo "$ID" | tr 'A-Z' 'a-z')
export GOFLAGS=-mod=mod GOPROXY=off GOSUMDB=off GOTOOLCHAIN=local
export VERIF_DIR=/verif
cd /verif/harness || exit 2
mkdir -p /verif/bin /verif/evidence
cp /repo/go.sum go.sum
build_log=$(mktemp)
trap 'rm -f "$build_log"' EXIT
if ! go build -tags verif -o /verif/bin/$id ./cmd/$id >"$build_log" 2>&1; then
  echo "BUILD-FAILED harness for $ID against /repo's working tree:"; cat "$build_log"; exit 2
fi
# the CLI, rebuilt from the working tree (per-property output path: checks may run side by side)
if ! (cd /repo && go build -tags verif -o /verif/bin/coca-$id . ) >"$build_log" 2>&1; then
  echo "BUILD-FAILED coca CLI from /repo's working tree:"; cat "$build_log"; exit 2
fi
export VERIF_COCA=/verif/bin/coca-$id
export VERIF_BIN=/verif/bin
case "$ID" in
  C16)
    if ! (cd /repo && go build -race -tags verif -o /verif/bin/coca-race . ) >"$build_log" 2>&1; then
      echo "BUILD-FAILED coca -race:"; cat "$build_log"; exit 2
    fi ;;
  C19)
    (cd /repo && go build -tags verif -o /verif/bin/coca-dep ./analysis/dep ) >"$build_log" 2>&1 || { echo "BUILD-FAILED dep main"; cat "$build_log"; exit 2; } ;;
  C20)
    (cd /repo && go build -tags verif -o /verif/bin/coca-golang ./analysis/golang && go build -tags verif -o /verif/bin/coca-python ./analysis/python ) >"$build_log" 2>&1 || { echo "BUILD-FAILED go/python mains"; cat "$build_log"; exit 2; } ;;
esac
exec /verif/bin/$id --tier "$TIER" "$@"
