#!/bin/bash
# check.sh <ID> <quick|thorough> [--replay FILE]
# Rebuilds the harness binary for the property (which compiles the coca packages from /repo's current
# working tree through the `replace` directive) and the coca CLI, then runs the check.
set -u
ID="${1:?usage: check.sh <ID> <quick|thorough> [--replay FILE]}"
TIER="${2:-quick}"
shift; shift || true
id=$(echo "$ID" | tr 'A-Z' 'a-z')
export GOFLAGS=-mod=mod GOPROXY=off GOSUMDB=off GOTOOLCHAIN=local
# the directory this script lives in (normally /verif; a snapshot of it when started through `vp run`)
ROOT="$(cd "$(dirname "${BASH_SOURCE[0]}")" && pwd)"
export VERIF_DIR="$ROOT"
cd "$ROOT/harness" || exit 2
mkdir -p "$ROOT/bin" "$ROOT/evidence"
# VERIF_REPO (default /repo) lets the same check run against a scratch worktree (used only when trying
# seeded changes side by side; registered commands always run against /repo). Binaries and evidence of such
# runs go to a private directory so that they never mix with runs against /repo.
REPO="${VERIF_REPO:-/repo}"
MODFLAG=""
BIN="$ROOT/bin"
if [ "$REPO" != "/repo" ]; then
  tag=$(echo "$REPO" | tr -c 'A-Za-z0-9' '_')
  BIN="$ROOT/bin/alt/$tag"; mkdir -p "$BIN"
  sed "s#=> /repo#=> $REPO#" go.mod > "$BIN/go.mod"; cp "$REPO/go.sum" "$BIN/go.sum"
  MODFLAG="-modfile=$BIN/go.mod"
  export VERIF_EVIDENCE_DIR="$BIN/evidence" VERIF_REPLAY_DIR="$BIN/replay"
else
  cp /repo/go.sum go.sum
fi
build_log=$(mktemp)
trap 'rm -f "$build_log"' EXIT
if ! go build $MODFLAG -tags verif -o $BIN/$id ./cmd/$id >"$build_log" 2>&1; then
  echo "BUILD-FAILED harness for $ID against /repo's working tree:"; cat "$build_log"; exit 2
fi
# the CLI, rebuilt from the working tree (per-property output path: checks may run side by side)
if ! (cd "$REPO" && go build -tags verif -o $BIN/coca-$id . ) >"$build_log" 2>&1; then
  echo "BUILD-FAILED coca CLI from /repo's working tree:"; cat "$build_log"; exit 2
fi
export VERIF_COCA=$BIN/coca-$id
export VERIF_BIN=$BIN
export VERIF_REPO_DIR="$REPO"
case "$ID" in
  C16)
    if ! (cd "$REPO" && go build -race -tags verif -o $BIN/coca-race . ) >"$build_log" 2>&1; then
      echo "BUILD-FAILED coca -race:"; cat "$build_log"; exit 2
    fi ;;
  C19)
    (cd "$REPO" && go build -tags verif -o $BIN/coca-dep ./analysis/dep ) >"$build_log" 2>&1 || { echo "BUILD-FAILED dep main"; cat "$build_log"; exit 2; } ;;
  C20)
    (cd "$REPO" && go build -tags verif -o $BIN/coca-golang ./analysis/golang && go build -tags verif -o $BIN/coca-python ./analysis/python ) >"$build_log" 2>&1 || { echo "BUILD-FAILED go/python mains"; cat "$build_log"; exit 2; } ;;
esac
exec $BIN/$id --tier "$TIER" "$@"
