package run

// Rand is a splitmix64 stream. Every case gets its own stream derived from
// (property id, VERIF_SEED, case index), so a case's content never depends on
// which worker runs it or on what ran before it.
type Rand struct{ s uint64 }

func NewRand(seed uint64) *Rand { return &Rand{s: seed} }

func hashString(s string) uint64 {
	var h uint64 = 1469598103934665603
	for i := 0; i < len(s); i++ {
		h ^= uint64(s[i])
		h *= 1099511628211
	}
	return h
}

// CaseRand derives the stream of one case.
func CaseRand(prop string, seed int64, index int) *Rand {
	r := &Rand{s: hashString(prop) ^ (uint64(seed) * 0x9E3779B97F4A7C15) ^ (uint64(index+1) * 0xD1B54A32D192ED03)}
	r.Uint64()
	r.Uint64()
	return r
}

func (r *Rand) Uint64() uint64 {
	r.s += 0x9E3779B97F4A7C15
	z := r.s
	z = (z ^ (z >> 30)) * 0xBF58476D1CE4E5B9
	z = (z ^ (z >> 27)) * 0x94D049BB133111EB
	return z ^ (z >> 31)
}

// Intn returns a value in [0,n). n<=0 yields 0.
func (r *Rand) Intn(n int) int {
	if n <= 0 {
		return 0
	}
	return int(r.Uint64() % uint64(n))
}

// Range returns a value in [lo,hi] inclusive.
func (r *Rand) Range(lo, hi int) int {
	if hi <= lo {
		return lo
	}
	return lo + r.Intn(hi-lo+1)
}

func (r *Rand) Bool() bool { return r.Uint64()&1 == 1 }

// Chance is true with probability num/den.
func (r *Rand) Chance(num, den int) bool { return r.Intn(den) < num }

func (r *Rand) Pick(xs []string) string { return xs[r.Intn(len(xs))] }

func (r *Rand) Perm(n int) []int {
	p := make([]int, n)
	for i := range p {
		p[i] = i
	}
	for i := n - 1; i > 0; i-- {
		j := r.Intn(i + 1)
		p[i], p[j] = p[j], p[i]
	}
	return p
}

// Fork gives an independent child stream (so that adding draws in one part of a
// generator does not shift every later part).
func (r *Rand) Fork() *Rand { return &Rand{s: r.Uint64() ^ 0xA5A5A5A5DEADBEEF} }

func (r *Rand) PickInt(xs ...int) int { return xs[r.Intn(len(xs))] }
