// Package run is the coordinator / worker skeleton shared by every property check.
//
//	cNN --tier quick|thorough            coordinator: derive case list, fan out to worker processes,
//	                                     aggregate, write evidence, print verdict lines
//	cNN --replay FILE                    re-execute exactly the case recorded in FILE
//	cNN --worker I/K --out F --from J    (internal) run cases J, J+K, ... and log outcomes to F
//
// A case is a pure function of (property, VERIF_SEED, index). Workers log "B <index>" before
// running a case and "E <json>" after it, so a process death (fatal error, os.Exit inside coca,
// stack overflow) is attributed to one case, confirmed alone in a fresh process, and the rest of
// the batch goes on.
package run

import (
	"bufio"
	"crypto/sha256"
	"encoding/hex"
	"encoding/json"
	"flag"
	"fmt"
	"io/ioutil"
	"os"
	"os/exec"
	"path/filepath"
	"runtime"
	"runtime/debug"
	"sort"
	"strconv"
	"strings"
	"sync"
	"syscall"
	"time"
)

// VerifDir is the root of the verification tree (check.sh exports the directory it lives in).
var VerifDir = func() string {
	if d := os.Getenv("VERIF_DIR"); d != "" {
		return d
	}
	return "/verif"
}()

// Violation is one mismatch between planted and observed events.
type Violation struct {
	Sig string `json:"sig"` // class of the mismatch, a predicate over the planted ground truth
	Msg string `json:"msg"`
}

// Outcome is what one case reports.
type Outcome struct {
	Case         int                 `json:"case"`
	Status       string              `json:"status"` // ok | violation | inconclusive | crash | watchdog
	Violations   []Violation         `json:"violations,omitempty"`
	Inconclusive string              `json:"inconclusive,omitempty"`
	NonTrivial   bool                `json:"nontrivial"`
	Shape        string              `json:"shape"`
	Counters     map[string]int      `json:"counters,omitempty"`
	Sample       interface{}         `json:"sample,omitempty"`
	Witness      interface{}         `json:"witness,omitempty"`
	Sets         map[string][]string `json:"sets,omitempty"`        // named sets whose union is reported (distinct things seen)
	CPUSeconds   float64             `json:"cpu_seconds,omitempty"` // single-case watchdog: CPU time the child had used when stopped
	StackTail    string              `json:"stack_tail,omitempty"`  // single-case watchdog: head of the goroutine dump (SIGQUIT)
}

func (o *Outcome) Count(key string, n int) {
	if o.Counters == nil {
		o.Counters = map[string]int{}
	}
	o.Counters[key] += n
}

// Seen adds a member to a named set; the coordinator reports the size of the union over all cases.
func (o *Outcome) Seen(set, member string) {
	if o.Sets == nil {
		o.Sets = map[string][]string{}
	}
	for _, m := range o.Sets[set] {
		if m == member {
			return
		}
	}
	if len(o.Sets[set]) < 64 {
		o.Sets[set] = append(o.Sets[set], member)
	}
}

func (o *Outcome) Violate(sig, format string, args ...interface{}) {
	msg := fmt.Sprintf(format, args...)
	if len(msg) > 1500 {
		msg = msg[:1500] + "…"
	}
	if len(o.Violations) < 20 {
		o.Violations = append(o.Violations, Violation{Sig: sig, Msg: msg})
	}
	o.Status = "violation"
}

func (o *Outcome) SetInconclusive(why string) {
	if o.Status == "violation" {
		return
	}
	o.Status = "inconclusive"
	o.Inconclusive = why
}

// Ctx is handed to a case.
type Ctx struct {
	Prop    string
	Tier    string
	Seed    int64
	Index   int
	Rng     *Rand
	BinDir  string // /verif/bin
	CocaBin string // freshly built coca CLI (may be empty if the check does not need it)
	Replay  bool   // running under --replay: keep witness regardless
	scratch string
	root    string
}

// Scratch returns a fresh per-case directory (removed after the case).
func (c *Ctx) Scratch() string {
	if c.scratch == "" {
		c.scratch = filepath.Join(c.root, "k"+strconv.Itoa(c.Index))
		os.MkdirAll(c.scratch, 0o755)
	}
	return c.scratch
}

// Check describes one property's machinery.
type Check struct {
	ID          string
	Level       string // evidence level
	Rule        string // how cases are generated; what is non-trivial / distinct
	Assumptions []string
	Cases       func(tier string) int
	Run         func(c *Ctx, o *Outcome)
	// Floor is the minimum number of distinct non-trivial cases below which the run is inconclusive.
	Floor func(tier string) int
	// CrashIsViolation: a process death inside a case refutes the property (true for all coca checks:
	// every property quantifies over inputs on which the tool is expected to produce a result).
	CrashSig func(stderrTail string) string
	// Extra lets a check add coordinator-level keys to the evidence (and extra violations).
	Extra      func(a *Aggregate)
	MaxSamples int
	// CaseWatchdog is the wall-clock cap of one case inside a worker (default 180 s; typical cases take milliseconds).
	// A case that hits it is re-run alone with twice the cap.
	CaseWatchdog time.Duration
	// WatchdogIsViolation: for properties with a termination clause, a case that hits the watchdog in the worker AND
	// again alone in a fresh process is reported as a violation (labelled as wall-clock based); otherwise it is
	// inconclusive.
	WatchdogIsViolation bool
	// HangCPU > 0: a case that hits the watchdog in the worker and, re-run alone in a fresh process, is still running
	// after having consumed at least this much CPU time (user+system of the child, so machine load does not count) is
	// a violation "no-termination/cpu-bound@<site>" with the goroutine dump as evidence. Typical cases of such a check
	// need well under a second of CPU.
	HangCPU time.Duration
}

// Aggregate is what the coordinator accumulated.
type Aggregate struct {
	Check          *Check
	Tier           string
	Seed           int64
	Outcomes       int
	Counters       map[string]int
	Sets           map[string]map[string]bool
	Shapes         map[string]bool
	Samples        []interface{}
	Inconclusive   map[string]int
	Crashes        int
	Watchdog       int
	Violations     []CaseViolation
	Extra          map[string]interface{}
	fallbackSample interface{}
	sigSeen        map[string]bool
	BinDir         string
	CocaBin        string
}

type CaseViolation struct {
	Case    int
	V       Violation
	Witness interface{}
}

func envInt(name string, def int64) int64 {
	if v := os.Getenv(name); v != "" {
		if n, err := strconv.ParseInt(v, 10, 64); err == nil {
			return n
		}
	}
	return def
}

// Guard runs f and converts a panic into a value; it returns the first frames that belong to coca.
func Guard(f func()) (panicked bool, value string, site string) {
	defer func() {
		if r := recover(); r != nil {
			panicked = true
			value = fmt.Sprint(r)
			if len(value) > 300 {
				value = value[:300]
			}
			site = cocaFrame(string(debug.Stack()))
		}
	}()
	f()
	return
}

func cocaFrame(stack string) string {
	lines := strings.Split(stack, "\n")
	for i, l := range lines {
		if strings.Contains(l, "modernizing/coca/") && !strings.HasPrefix(strings.TrimSpace(l), "/") {
			fn := strings.TrimSpace(l)
			if j := strings.LastIndex(fn, "("); j > 0 {
				fn = fn[:j]
			}
			fn = strings.TrimPrefix(fn, "github.com/modernizing/coca/")
			_ = i
			return fn
		}
	}
	return "?"
}

func ShapeHash(parts ...interface{}) string {
	h := sha256.New()
	for _, p := range parts {
		fmt.Fprintf(h, "%v|", p)
	}
	return hex.EncodeToString(h.Sum(nil))[:16]
}

// Main is the entry point of every cNN binary.
func Main(chk *Check) {
	tier := flag.String("tier", "quick", "quick|thorough")
	replay := flag.String("replay", "", "replay file")
	worker := flag.String("worker", "", "I/K (internal)")
	out := flag.String("out", "", "worker log (internal)")
	from := flag.Int("from", 0, "first case index for this worker (internal)")
	single := flag.Int("single", -1, "run one case alone (internal)")
	flag.Parse()
	if t := os.Getenv("VERIF_TIER"); t != "" && !isFlagSet("tier") {
		*tier = t
	}
	if *tier != "quick" && *tier != "thorough" {
		fmt.Fprintln(os.Stderr, "tier must be quick or thorough")
		os.Exit(2)
	}
	seed := envInt("VERIF_SEED", 1)
	binDir := os.Getenv("VERIF_BIN")
	if binDir == "" {
		binDir = filepath.Join(VerifDir, "bin")
	}
	cocaBin := os.Getenv("VERIF_COCA")

	switch {
	case *worker != "":
		runWorker(chk, *tier, seed, *worker, *out, *from, binDir, cocaBin)
	case *single >= 0:
		runSingle(chk, *tier, seed, *single, binDir, cocaBin, *out)
	case *replay != "":
		os.Exit(runReplay(chk, *replay, binDir, cocaBin))
	default:
		os.Exit(coordinate(chk, *tier, seed, binDir, cocaBin))
	}
}

func isFlagSet(name string) bool {
	set := false
	flag.Visit(func(f *flag.Flag) {
		if f.Name == name {
			set = true
		}
	})
	return set
}

func scratchRoot(prop string) string {
	base := os.Getenv("TMPDIR")
	if base == "" {
		base = "/tmp"
	}
	dir, err := ioutil.TempDir(base, "vf"+strings.ToLower(prop)+"-")
	if err != nil {
		panic(err)
	}
	return dir
}

func execCase(chk *Check, tier string, seed int64, idx int, binDir, cocaBin, root string, replay bool) *Outcome {
	ctx := &Ctx{Prop: chk.ID, Tier: tier, Seed: seed, Index: idx, Rng: CaseRand(chk.ID, seed, idx), BinDir: binDir, CocaBin: cocaBin, root: root, Replay: replay}
	o := &Outcome{Case: idx, Status: "ok"}
	panicked, val, site := Guard(func() { chk.Run(ctx, o) })
	if panicked {
		// a panic that escaped the adapter's own guards is a harness bug or an unguarded coca crash;
		// report it as a crash of this case
		o.Status = "crash"
		o.Violations = append(o.Violations, Violation{Sig: "panic@" + site, Msg: "unrecovered panic in case: " + val})
	}
	if ctx.scratch != "" {
		os.RemoveAll(ctx.scratch)
	}
	return o
}

var quietOnce sync.Once

// quiet points fd 1 at /dev/null: coca prints progress lines with fmt.Println.
func quiet() {
	quietOnce.Do(func() {
		if os.Getenv("VERIF_LOUD") != "" {
			return
		}
		null, err := os.OpenFile(os.DevNull, os.O_WRONLY, 0)
		if err == nil {
			syscall.Dup2(int(null.Fd()), 1)
		}
	})
}

const caseWatchdog = 180 * time.Second

func runWorker(chk *Check, tier string, seed int64, spec, out string, from int, binDir, cocaBin string) {
	var i, k int
	fmt.Sscanf(spec, "%d/%d", &i, &k)
	f, err := os.OpenFile(out, os.O_APPEND|os.O_CREATE|os.O_WRONLY, 0o644)
	if err != nil {
		fmt.Fprintln(os.Stderr, err)
		os.Exit(2)
	}
	quiet()
	// hard cap on the address space of a worker (and of the CLI children it starts): a case that makes the code under
	// test (or a generator) allocate without bound dies alone and is attributed to that case, instead of taking the
	// machine down. The coordinator and single-case replays are not capped.
	if os.Getenv("VERIF_NO_RLIMIT") == "" {
		lim := uint64(envInt("VERIF_WORKER_AS_GB", 6)) << 30
		syscall.Setrlimit(syscall.RLIMIT_AS, &syscall.Rlimit{Cur: lim, Max: lim})
	}
	root := scratchRoot(chk.ID)
	defer os.RemoveAll(root)
	n := chk.Cases(tier)
	wd := chk.watchdog()
	if v := envInt("VERIF_WATCHDOG_S", 0); v > 0 {
		wd = time.Duration(v) * time.Second
	}
	violating := 0
	knownSigs := loadKnown(chk.ID)
	violationLimit := int(envInt("VERIF_WORKER_VIOLATION_LIMIT", 40))
	for j := from; j < n; j++ {
		if j%k != i {
			continue
		}
		fmt.Fprintf(f, "B %d\n", j)
		timer := time.AfterFunc(wd, func() {
			fmt.Fprintf(f, "T %d\n", j)
			os.RemoveAll(root)
			os.Exit(3)
		})
		o := execCase(chk, tier, seed, j, binDir, cocaBin, root, false)
		timer.Stop()
		if o.Status == "ok" && j >= 8*chk.maxSamples()*k {
			o.Sample = nil
		}
		if o.Status != "violation" && o.Status != "crash" {
			o.Witness = nil
		}
		b, err := json.Marshal(o)
		if err != nil {
			b, _ = json.Marshal(&Outcome{Case: j, Status: "inconclusive", Inconclusive: "outcome not serialisable: " + err.Error()})
		}
		if len(b) > 1<<20 {
			// a huge witness (e.g. a graph of tens of thousands of edge lines) is not shipped to the coordinator:
			// the case is a pure function of (seed, index) and --replay regenerates it
			o.Witness = fmt.Sprintf("witness omitted (%d bytes); the replay command regenerates the case", len(b))
			o.Sample = nil
			b, _ = json.Marshal(o)
		}
		fmt.Fprintf(f, "E %s\n", b)
		unknown := false
		for _, v := range o.Violations {
			if _, ok := knownSigs[v.Sig]; !ok {
				unknown = true
			}
		}
		if unknown {
			violating++
			if violating >= violationLimit {
				// enough witnesses from this worker: on a broken tree every further case only costs time
				// (the run is reported as violated either way; the evidence shows how many cases ran)
				fmt.Fprintf(f, "X %d\n", j)
				break
			}
		}
	}
	f.Close()
	os.RemoveAll(root)
}

func (c *Check) watchdog() time.Duration {
	if c.CaseWatchdog > 0 {
		return c.CaseWatchdog
	}
	return caseWatchdog
}

func (c *Check) maxSamples() int {
	if c.MaxSamples > 0 {
		return c.MaxSamples
	}
	return 3
}

func runSingle(chk *Check, tier string, seed int64, idx int, binDir, cocaBin, out string) {
	quiet()
	root := scratchRoot(chk.ID)
	o := execCase(chk, tier, seed, idx, binDir, cocaBin, root, true)
	os.RemoveAll(root)
	b, _ := json.Marshal(o)
	if out != "" {
		ioutil.WriteFile(out, b, 0o644)
	}
	os.Exit(0)
}

type replayFile struct {
	Property  string      `json:"property"`
	Tier      string      `json:"tier"`
	Seed      int64       `json:"seed"`
	Case      int         `json:"case"`
	Violation Violation   `json:"violation"`
	Witness   interface{} `json:"witness,omitempty"`
	Note      string      `json:"note"`
}

func runReplay(chk *Check, path string, binDir, cocaBin string) int {
	b, err := ioutil.ReadFile(path)
	if err != nil {
		fmt.Fprintln(os.Stderr, err)
		return 2
	}
	var rf replayFile
	if err := json.Unmarshal(b, &rf); err != nil {
		fmt.Fprintln(os.Stderr, err)
		return 2
	}
	if rf.Property != chk.ID {
		fmt.Fprintf(os.Stderr, "replay file is for %s, this is %s\n", rf.Property, chk.ID)
		return 2
	}
	o := singleInChild(chk, rf.Tier, rf.Seed, rf.Case, 10*caseWatchdog)
	known := loadKnown(chk.ID)
	rc := 0
	for _, v := range o.Violations {
		if kf, ok := known[v.Sig]; ok {
			fmt.Printf("KNOWN-FINDING: property=%s %s\n", chk.ID, kf)
			continue
		}
		fmt.Printf("replayed case %d: %s: %s\n", rf.Case, v.Sig, v.Msg)
		fmt.Printf("VIOLATION property=%s replay=%s\n", chk.ID, path)
		rc = 1
	}
	if rc == 0 {
		fmt.Printf("replayed case %d of %s (seed %d, %s): status %s, no violation\n", rf.Case, chk.ID, rf.Seed, rf.Tier, o.Status)
	}
	return rc
}

// singleInChild runs one case alone in a fresh process and returns its outcome (or a crash outcome).
func singleInChild(chk *Check, tier string, seed int64, idx int, timeout time.Duration) *Outcome {
	tmp, _ := ioutil.TempFile("", "vfsingle")
	tmp.Close()
	defer os.Remove(tmp.Name())
	errf, _ := ioutil.TempFile("", "vfsingle-err")
	defer os.Remove(errf.Name())
	cmd := exec.Command(os.Args[0], "--tier", tier, "--single", strconv.Itoa(idx), "--out", tmp.Name())
	// GOTRACEBACK=crash: on SIGQUIT (our watchdog) every thread dumps its stack, also the one that is spinning
	cmd.Env = append(os.Environ(), "VERIF_SEED="+strconv.FormatInt(seed, 10), "GOTRACEBACK=crash")
	cmd.Stderr = errf
	cmd.Stdout = nil
	done := make(chan error, 1)
	cmd.Start()
	go func() { done <- cmd.Wait() }()
	select {
	case <-done:
	case <-time.After(timeout):
		// ask for a goroutine dump first (SIGQUIT makes the Go runtime print all stacks and exit), then kill
		cmd.Process.Signal(syscall.SIGQUIT)
		select {
		case <-done:
		case <-time.After(10 * time.Second):
			cmd.Process.Kill()
			<-done
		}
		cpu := 0.0
		if ps := cmd.ProcessState; ps != nil {
			cpu = (ps.UserTime() + ps.SystemTime()).Seconds()
		}
		errf.Close()
		return &Outcome{Case: idx, Status: "watchdog", Inconclusive: "single-case watchdog fired", CPUSeconds: cpu, StackTail: hangStacks(errf.Name())}
	}
	errf.Close()
	b, _ := ioutil.ReadFile(tmp.Name())
	var o Outcome
	if len(b) > 0 && json.Unmarshal(b, &o) == nil {
		return &o
	}
	tail := tailOf(errf.Name(), 4000)
	sig := "process-death"
	if chk.CrashSig != nil {
		sig = chk.CrashSig(tail)
	} else {
		sig = "process-death@" + deathSite(tail)
	}
	return &Outcome{Case: idx, Status: "crash", Violations: []Violation{{Sig: sig, Msg: "process died while running this case alone: " + firstLines(tail, 6)}}}
}

// hangStacks extracts from a SIGQUIT dump the goroutines that were running coca code (the rest is runtime noise).
func hangStacks(path string) string {
	b, _ := ioutil.ReadFile(path)
	var keep []string
	for _, blk := range strings.Split(string(b), "\n\n") {
		if strings.Contains(blk, "modernizing/coca/") && strings.HasPrefix(strings.TrimSpace(blk), "goroutine ") {
			if len(blk) > 3000 {
				blk = blk[:3000]
			}
			keep = append(keep, blk)
		}
	}
	out := strings.Join(keep, "\n\n")
	if len(out) > 12000 {
		out = out[:12000]
	}
	return out
}

func deathSite(tail string) string {
	if strings.Contains(tail, "stack overflow") || strings.Contains(tail, "goroutine stack exceeds") {
		return "stack-overflow"
	}
	if f := cocaFrame(tail); f != "?" {
		return f
	}
	return "exit"
}

func tailOf(path string, n int) string {
	b, _ := ioutil.ReadFile(path)
	// keep the head (panic message + first frames), that is where the site is
	if len(b) > n {
		b = b[:n]
	}
	return string(b)
}

func firstLines(s string, n int) string {
	ls := strings.Split(s, "\n")
	if len(ls) > n {
		ls = ls[:n]
	}
	return strings.Join(ls, " / ")
}

// loadKnown reads KNOWN_FINDINGS.txt: "finding: property=<id> sig=<sig> <text>".
func loadKnown(prop string) map[string]string {
	known := map[string]string{}
	b, err := ioutil.ReadFile(filepath.Join(VerifDir, "KNOWN_FINDINGS.txt"))
	if err != nil {
		return known
	}
	for _, line := range strings.Split(string(b), "\n") {
		line = strings.TrimSpace(line)
		if !strings.HasPrefix(line, "finding:") {
			continue
		}
		fields := strings.Fields(line)
		var p, sig string
		rest := []string{}
		for _, f := range fields[1:] {
			switch {
			case strings.HasPrefix(f, "property=") && p == "":
				p = strings.TrimPrefix(f, "property=")
			case strings.HasPrefix(f, "sig=") && sig == "":
				sig = strings.TrimPrefix(f, "sig=")
			default:
				rest = append(rest, f)
			}
		}
		if p == prop && sig != "" {
			known[sig] = "sig=" + sig + " " + strings.Join(rest, " ")
		}
	}
	return known
}

func coordinate(chk *Check, tier string, seed int64, binDir, cocaBin string) int {
	start := time.Now()
	n := chk.Cases(tier)
	k := runtime.NumCPU()
	if v := envInt("VERIF_WORKERS", 0); v > 0 {
		k = int(v)
	}
	if k > n {
		k = n
	}
	if k < 1 {
		k = 1
	}
	logDir, _ := ioutil.TempDir("", "vflog-"+strings.ToLower(chk.ID)+"-")
	defer os.RemoveAll(logDir)
	// everything the workers and the commands they start put into a temporary directory (scratch trees of cases,
	// coca's profile*/ directories, single-case files) lives below one directory that this run removes when it ends,
	// also when a worker died or was killed by its watchdog
	runTmp, rerr := ioutil.TempDir("", "vfrun-"+strings.ToLower(chk.ID)+"-")
	if rerr == nil {
		defer os.RemoveAll(runTmp)
		os.Setenv("TMPDIR", runTmp)
	}

	agg := &Aggregate{Check: chk, Tier: tier, Seed: seed, Counters: map[string]int{}, Sets: map[string]map[string]bool{},
		Shapes: map[string]bool{}, Inconclusive: map[string]int{}, Extra: map[string]interface{}{}, BinDir: binDir, CocaBin: cocaBin}
	var mu sync.Mutex
	var wg sync.WaitGroup
	for i := 0; i < k; i++ {
		wg.Add(1)
		go func(i int) {
			defer wg.Done()
			from := 0
			wdCount, deathCount := 0, 0
			for attempt := 0; attempt < 200; attempt++ {
				logf := filepath.Join(logDir, fmt.Sprintf("w%d-%d.log", i, attempt))
				cmd := exec.Command(os.Args[0], "--tier", tier, "--worker", fmt.Sprintf("%d/%d", i, k), "--out", logf, "--from", strconv.Itoa(from))
				cmd.Env = append(os.Environ(), "VERIF_SEED="+strconv.FormatInt(seed, 10))
				errPath := logf + ".err"
				ef, _ := os.Create(errPath)
				cmd.Stderr = ef
				cmd.Stdout = nil
				err := cmd.Run()
				ef.Close()
				open := -1
				watchdog := false
				fh, _ := os.Open(logf)
				if fh != nil {
					sc := bufio.NewScanner(fh)
					sc.Buffer(make([]byte, 1<<20), 1<<28)
					for sc.Scan() {
						line := sc.Text()
						switch {
						case strings.HasPrefix(line, "B "):
							open, _ = strconv.Atoi(line[2:])
						case strings.HasPrefix(line, "T "):
							watchdog = true
						case strings.HasPrefix(line, "E "):
							var o Outcome
							if json.Unmarshal([]byte(line[2:]), &o) == nil {
								mu.Lock()
								agg.add(&o)
								mu.Unlock()
							}
							open = -1
						}
					}
					fh.Close()
				}
				if err == nil && open < 0 {
					return
				}
				if open < 0 {
					// died outside a case (start-up problem): report and stop this worker
					mu.Lock()
					agg.Inconclusive["worker died outside a case: "+firstLines(tailOf(errPath, 600), 3)]++
					mu.Unlock()
					return
				}
				// confirm the open case alone in a fresh process
				o := singleInChild(chk, tier, seed, open, 2*chk.watchdog())
				if watchdog {
					wdCount++
					if o.Status == "watchdog" {
						o.Violations = nil
						if chk.WatchdogIsViolation {
							o.Status = "violation"
							o.Violations = []Violation{{Sig: "no-termination/watchdog", Msg: fmt.Sprintf("case did not return within %s in the worker nor within %s alone in a fresh process (wall-clock based verdict)", chk.watchdog(), 2*chk.watchdog())}}
						} else if chk.HangCPU > 0 && o.CPUSeconds >= chk.HangCPU.Seconds() {
							o.Status = "violation"
							o.Violations = []Violation{{Sig: "no-termination/cpu-bound@" + cocaFrame(o.StackTail), Msg: fmt.Sprintf("case did not return within %s in the worker; alone in a fresh process it was still running after %.0f s of CPU time (typical cases need < 1 s); stacks: %s", chk.watchdog(), o.CPUSeconds, firstLines(o.StackTail, 14))}}
						}
					}
				} else {
					deathCount++
				}
				o.Case = open
				mu.Lock()
				agg.add(o)
				mu.Unlock()
				if wdCount >= 2 || deathCount >= 6 {
					// this worker keeps hitting the watchdog / keeps dying: the tree is broken in a way that makes
					// every further case cost minutes; what was seen is reported, the rest of its share is not run
					return
				}
				from = open + 1
			}
		}(i)
	}
	wg.Wait()

	if chk.Extra != nil {
		chk.Extra(agg)
	}
	return agg.finish(start, n)
}

func (a *Aggregate) add(o *Outcome) {
	a.Outcomes++
	for k, v := range o.Counters {
		a.Counters[k] += v
	}
	for s, ms := range o.Sets {
		if a.Sets[s] == nil {
			a.Sets[s] = map[string]bool{}
		}
		for _, m := range ms {
			a.Sets[s][m] = true
		}
	}
	if o.NonTrivial && o.Status != "inconclusive" && o.Status != "watchdog" {
		a.Shapes[o.Shape] = true
	}
	if o.Sample != nil && o.Status == "ok" {
		if o.NonTrivial && len(a.Samples) < a.Check.maxSamples() {
			a.Samples = append(a.Samples, o.Sample)
		} else if a.fallbackSample == nil {
			a.fallbackSample = o.Sample
		}
	}
	switch o.Status {
	case "inconclusive":
		a.Inconclusive[o.Inconclusive]++
	case "watchdog":
		a.Watchdog++
	case "crash":
		a.Crashes++
	}
	for _, v := range o.Violations {
		// the witness is kept for the first case of each signature only (that is the one written to the replay file)
		var w interface{}
		if !a.sigSeen[v.Sig] {
			if a.sigSeen == nil {
				a.sigSeen = map[string]bool{}
			}
			a.sigSeen[v.Sig] = true
			w = o.Witness
		}
		a.Violations = append(a.Violations, CaseViolation{Case: o.Case, V: v, Witness: w})
	}
}

// AddViolation lets Extra hooks report coordinator-level violations (e.g. race reports).
func (a *Aggregate) AddViolation(caseIdx int, sig, msg string, witness interface{}) {
	a.Violations = append(a.Violations, CaseViolation{Case: caseIdx, V: Violation{Sig: sig, Msg: msg}, Witness: witness})
}

func (a *Aggregate) finish(start time.Time, planned int) int {
	chk := a.Check
	known := loadKnown(chk.ID)
	sort.SliceStable(a.Violations, func(i, j int) bool { return a.Violations[i].Case < a.Violations[j].Case })
	knownSeen := map[string]int{}
	bySig := map[string][]CaseViolation{}
	var sigOrder []string
	for _, cv := range a.Violations {
		if _, ok := known[cv.V.Sig]; ok {
			knownSeen[cv.V.Sig]++
			continue
		}
		if _, ok := bySig[cv.V.Sig]; !ok {
			sigOrder = append(sigOrder, cv.V.Sig)
		}
		bySig[cv.V.Sig] = append(bySig[cv.V.Sig], cv)
	}
	var ksigs []string
	for s := range knownSeen {
		ksigs = append(ksigs, s)
	}
	sort.Strings(ksigs)
	for _, s := range ksigs {
		fmt.Printf("KNOWN-FINDING: property=%s %s (seen in %d cases of this run)\n", chk.ID, known[s], knownSeen[s])
	}
	nViol := 0
	replayDir := filepath.Join(VerifDir, "replay")
	if d := os.Getenv("VERIF_REPLAY_DIR"); d != "" {
		replayDir = d
	}
	for _, sig := range sigOrder {
		cvs := bySig[sig]
		nViol += len(cvs)
		cv := cvs[0]
		for _, cand := range cvs {
			if cand.Witness != nil {
				cv = cand // the case whose witness was kept
				break
			}
		}
		os.MkdirAll(replayDir, 0o755)
		path := filepath.Join(replayDir, fmt.Sprintf("%s-s%d-%s-c%d.json", chk.ID, a.Seed, a.Tier, cv.Case))
		rf := replayFile{Property: chk.ID, Tier: a.Tier, Seed: a.Seed, Case: cv.Case, Violation: cv.V, Witness: cv.Witness,
			Note: fmt.Sprintf("%d cases of this run show this signature; replay: ./check.sh %s %s --replay %s", len(cvs), chk.ID, a.Tier, path)}
		b, _ := json.MarshalIndent(rf, "", " ")
		ioutil.WriteFile(path, b, 0o644)
		fmt.Printf("mismatch [%s] in %d case(s), first case %d: %s\n", sig, len(cvs), cv.Case, cv.V.Msg)
		fmt.Printf("VIOLATION property=%s replay=%s\n", chk.ID, path)
	}

	distinct := len(a.Shapes)
	incon := 0
	for _, v := range a.Inconclusive {
		incon += v
	}
	cov := map[string]interface{}{
		"evaluations":          a.Outcomes,
		"distinct_nontrivial":  distinct,
		"rule":                 chk.Rule,
		"samples":              a.Samples,
		"cases_planned":        planned,
		"inconclusive_cases":   incon,
		"inconclusive_reasons": a.Inconclusive,
		"crashes":              a.Crashes,
		"watchdog_firings":     a.Watchdog,
		"known_findings_seen":  knownSeen,
		"counters":             a.Counters,
		"workers":              runtime.NumCPU(),
	}
	sets := map[string]int{}
	for s, m := range a.Sets {
		sets[s] = len(m)
	}
	cov["distinct_seen"] = sets
	for k, v := range a.Extra {
		cov[k] = v
	}
	if a.Samples == nil && a.fallbackSample != nil {
		cov["samples"] = []interface{}{a.fallbackSample}
	} else if a.Samples == nil {
		cov["samples"] = []interface{}{}
	}
	ev := map[string]interface{}{
		"property_id": chk.ID,
		"tier":        a.Tier,
		"seed":        a.Seed,
		"level":       chk.Level,
		"coverage":    cov,
		"assumptions": chk.Assumptions,
		"wall_s":      time.Since(start).Seconds(),
		"violations":  nViol,
	}
	evDir := filepath.Join(VerifDir, "evidence")
	if d := os.Getenv("VERIF_EVIDENCE_DIR"); d != "" {
		evDir = d
	}
	os.MkdirAll(evDir, 0o755)
	b, _ := json.MarshalIndent(ev, "", " ")
	ioutil.WriteFile(filepath.Join(evDir, chk.ID+".json"), b, 0o644)

	fmt.Printf("%s %s seed=%d: %d/%d cases executed, %d distinct non-trivial, %d inconclusive, %d crashes, %d watchdog, %d violations (%d known-finding hits), %.1fs\n",
		chk.ID, a.Tier, a.Seed, a.Outcomes, planned, distinct, incon, a.Crashes, a.Watchdog, nViol, len(a.Violations)-nViol, time.Since(start).Seconds())
	var ckeys []string
	for k := range a.Counters {
		ckeys = append(ckeys, k)
	}
	sort.Strings(ckeys)
	for _, k := range ckeys {
		fmt.Printf("  %-40s %d\n", k, a.Counters[k])
	}
	for s, m := range sets {
		fmt.Printf("  distinct %-31s %d\n", s, m)
	}
	if nViol > 0 {
		return 1
	}
	floor := 2
	if chk.Floor != nil {
		floor = chk.Floor(a.Tier)
	}
	if a.Outcomes < planned || distinct < floor || incon*50 > planned {
		fmt.Printf("INCONCLUSIVE property=%s executed=%d planned=%d distinct_nontrivial=%d floor=%d inconclusive=%d\n", chk.ID, a.Outcomes, planned, distinct, floor, incon)
		for r, c := range a.Inconclusive {
			fmt.Printf("  inconclusive x%d: %s\n", c, r)
		}
		return 2
	}
	return 0
}
