package oracle

// Reference model for C19 (build dependencies and the unused report). No coca imports: the expected values are
// derived from what the generator wrote (gen/buildgen) and from the property statement only.
//
//	extracted list  == the string-notation entries of the dependencies block, in declaration order, each with
//	                   (group id, artifact id, scope/configuration); project(...)/fileTree(...) entries contribute
//	                   nothing and disturb nothing.
//	unused report   == the sub-list of those entries whose group id is a substring of no import of any Java
//	                   source file of the project.
//
// Deliberately left open (the statement does not decide it, so neither does the oracle):
//   - a <dependency> without <scope>: scope "" and Maven's default "compile" are both accepted;
//   - a map-notation entry (group: 'g', name: 'a'): the statement calls it "another notation" that is skipped, but
//     an implementation that extracts it *correctly* as (g, a, configuration) at its position is not refuted;
//     anything else at that position is a mismatch;
//   - coordinates written in other sections (dependencyManagement, plugin/profile dependencies, buildscript
//     classpath): observed entries equal to one of them are set aside before the comparison (and counted);
//     they must not disturb the entries of the dependencies block.

import (
	"fmt"
	"strings"

	"verifharness/gen/buildgen"
)

// Dep is one observed (or expected) dependency triple.
type Dep struct {
	Group    string `json:"group"`
	Artifact string `json:"artifact"`
	Scope    string `json:"scope"`
}

func (d Dep) String() string { return fmt.Sprintf("(%q, %q, %q)", d.Group, d.Artifact, d.Scope) }

// DepMismatch is one refutation.
type DepMismatch struct {
	Sig string
	Msg string
	// Shared: the signature names a defect of the Java model that is the same for both build systems and both
	// boundaries; callers must not prefix it
	Shared bool
}

const (
	modeSkip      = iota // contributes nothing (project, fileTree)
	modeRequired         // must appear here
	modeOptional         // may appear here (map notation, correctly extracted)
	modeForbidden        // must not appear (unused report: the group is imported)
)

type item struct {
	mode   int
	dep    Dep
	scopes []string // accepted scope values
	style  string
	text   string
	note   string
}

func (it item) matches(d Dep) bool {
	if d.Group != it.dep.Group || d.Artifact != it.dep.Artifact {
		return false
	}
	for _, s := range it.scopes {
		if d.Scope == s {
			return true
		}
	}
	return false
}

func scopesOf(b *buildgen.Build, e buildgen.Entry) []string {
	if b.System == "maven" && e.Scope == "" {
		return []string{"", "compile"}
	}
	return []string{e.Scope}
}

// DepStats says what the comparison saw.
type DepStats struct {
	Expected        int  // required entries
	Matched         int  // required entries found at their position
	OptionalMatched int  // map-notation entries extracted correctly
	SetAside        int  // observed entries equal to coordinates of another section
	Skipped         int  // other-notation entries planted
	CopyReadTwice   bool // the pom copy in the build output was reported as a second pom (accepted)
}

func setAside(b *buildgen.Build, observed []Dep) (rest []Dep, n int) {
	else_ := map[[2]string]bool{}
	for _, e := range b.Elsewhere {
		else_[[2]string{e.Group, e.Artifact}] = true
	}
	for _, d := range observed {
		if else_[[2]string{d.Group, d.Artifact}] {
			n++
			continue
		}
		rest = append(rest, d)
	}
	return
}

// align walks the planted items and the observed list together and reports the first disagreement.
func align(sys, what string, items []item, observed []Dep, st *DepStats) []DepMismatch {
	p := 0
	var skipped []item // other-notation items since the last match
	lastReq := -1
	for i, it := range items {
		if it.mode == modeRequired {
			lastReq = i
		}
	}
	matchesLater := func(from int, d Dep) bool {
		for _, it := range items[from:] {
			if (it.mode == modeRequired || it.mode == modeOptional) && it.matches(d) {
				return true
			}
		}
		return false
	}
	for i, it := range items {
		switch it.mode {
		case modeSkip:
			st.Skipped++
			skipped = append(skipped, it)
			continue
		case modeForbidden:
			if p < len(observed) && it.matches(observed[p]) {
				if it.note != "" {
					return []DepMismatch{{Sig: "unused/reported-though-imported-" + it.note, Shared: true,
						Msg: fmt.Sprintf("%s: entry %d %s is reported at position %d although its group id occurs in an import (%s); declared as: %s", what, i, observed[p], p, it.note, oneLine(it.text))}}
				}
				return []DepMismatch{{Sig: sys + "/" + what + "/reported-though-imported",
					Msg: fmt.Sprintf("%s: entry %d %s is reported at position %d although its group id occurs in an import; declared as: %s", what, i, observed[p], p, oneLine(it.text))}}
			}
			continue
		case modeOptional:
			if p < len(observed) && it.matches(observed[p]) {
				p++
				st.OptionalMatched++
				skipped = nil
			} else {
				skipped = append(skipped, it)
			}
			continue
		}
		st.Expected++
		if p < len(observed) && it.matches(observed[p]) {
			p++
			st.Matched++
			skipped = nil
			continue
		}
		// disagreement at a required entry
		pos := ""
		if i == lastReq {
			pos = "-last"
		}
		switch {
		case p >= len(observed):
			return []DepMismatch{{Sig: sys + "/" + what + "/entry-missing" + pos + "/" + it.style,
				Msg: fmt.Sprintf("%s: declared entry %d %s (%s) is missing: the observed list ends after %d entries; declared as: %s", what, i, it.dep, it.style, len(observed), oneLine(it.text))}}
		case matchesLater(i+1, observed[p]):
			return []DepMismatch{{Sig: sys + "/" + what + "/entry-missing/" + it.style,
				Msg: fmt.Sprintf("%s: declared entry %d %s (%s) is missing: position %d holds %s, which belongs to a later declaration; declared as: %s", what, i, it.dep, it.style, p, observed[p], oneLine(it.text))}}
		case len(skipped) > 0 && observed[p].Artifact != it.dep.Artifact:
			cu := culprit(skipped, observed[p])
			return []DepMismatch{{Sig: sys + "/" + what + "/extra-entry-from/" + cu.style,
				Msg: fmt.Sprintf("%s: position %d holds %s, which no string-notation declaration accounts for; it follows the %s entry `%s` that must be skipped", what, p, observed[p], cu.style, oneLine(cu.text))}}
		default:
			var diff []string
			if observed[p].Group != it.dep.Group {
				diff = append(diff, "group")
			}
			if observed[p].Artifact != it.dep.Artifact {
				diff = append(diff, "artifact")
			}
			if !it.matches(Dep{it.dep.Group, it.dep.Artifact, observed[p].Scope}) {
				diff = append(diff, "scope")
			}
			return []DepMismatch{{Sig: sys + "/" + what + "/entry-wrong-" + strings.Join(diff, "+") + "/" + it.style,
				Msg: fmt.Sprintf("%s: declared entry %d is %s (%s), observed %s at position %d; declared as: %s", what, i, it.dep, it.style, observed[p], p, oneLine(it.text))}}
		}
	}
	if p < len(observed) {
		if len(skipped) > 0 {
			cu := culprit(skipped, observed[p])
			return []DepMismatch{{Sig: sys + "/" + what + "/extra-entry-from/" + cu.style,
				Msg: fmt.Sprintf("%s: position %d holds %s, which no string-notation declaration accounts for; it follows the %s entry `%s` that must be skipped", what, p, observed[p], cu.style, oneLine(cu.text))}}
		}
		return []DepMismatch{{Sig: sys + "/" + what + "/extra-entry",
			Msg: fmt.Sprintf("%s: %d observed entries, %d accounted for by the declarations; first surplus entry %s", what, len(observed), p, observed[p])}}
	}
	return nil
}

// culprit picks, among the entries that had to be skipped since the last match, the one whose text the surplus
// observation was evidently cut from (so that the signature names the planted notation); default: the first.
func culprit(skipped []item, d Dep) item {
	strip := func(s string) string {
		return strings.NewReplacer(" ", "", "'", "", "\"", "", "\t", "").Replace(s)
	}
	for _, it := range skipped {
		t := strip(it.text)
		if g := strip(d.Group); g != "" && strings.Contains(t, g) {
			return it
		}
	}
	return skipped[0]
}

func oneLine(s string) string {
	s = strings.Join(strings.Fields(s), " ")
	if len(s) > 200 {
		s = s[:200] + "…"
	}
	return s
}

// ExpectedExtracted is the list the statement demands (required entries only).
func ExpectedExtracted(b *buildgen.Build) []Dep {
	var out []Dep
	for _, e := range b.Entries {
		if e.Kind == buildgen.KindString {
			out = append(out, Dep{e.Group, e.Artifact, e.Scope})
		}
	}
	return out
}

// CheckExtracted compares the extracted list with the declarations.
func CheckExtracted(b *buildgen.Build, observed []Dep) ([]DepMismatch, DepStats) {
	var st DepStats
	rest, n := setAside(b, observed)
	st.SetAside = n
	var items []item
	for _, e := range b.Entries {
		it := item{dep: Dep{e.Group, e.Artifact, e.Scope}, scopes: scopesOf(b, e), style: e.Style, text: e.Text}
		switch e.Kind {
		case buildgen.KindString:
			it.mode = modeRequired
		case buildgen.KindMap:
			it.mode = modeOptional
		default:
			it.mode = modeSkip
		}
		items = append(items, it)
	}
	return align(b.System, "extracted", items, rest, &st), st
}

// Imports returns every import written in the source tree (qualified name as written, without `static` and
// without a trailing `.*`).
func Imports(p *buildgen.Project) []string {
	var out []string
	for _, f := range p.Java {
		out = append(out, f.Imports...)
	}
	return out
}

// ImportedBy returns the kinds of the files that contain an import in which group occurs.
func ImportedBy(p *buildgen.Project, group string) (kinds []string) {
	for _, f := range p.Java {
		for _, im := range f.Imports {
			// an on-demand import is written with a trailing ".*"; a group id never contains '*', and it cannot
			// end in '.', so "occurs in the import" does not depend on whether the ".*" is counted
			if strings.Contains(im, group) {
				kinds = append(kinds, f.Kind)
				break
			}
		}
	}
	return
}

// ExpectedUnused is the list the statement demands (per build file, in declaration order; for a dual-build
// project the lists of the two files are concatenated here, but see CheckUnused: their interleaving is free).
func ExpectedUnused(p *buildgen.Project) []Dep {
	var out []Dep
	for _, b := range p.Builds() {
		for _, e := range b.Entries {
			if e.Kind == buildgen.KindString && len(ImportedBy(p, e.Group)) == 0 {
				out = append(out, Dep{e.Group, e.Artifact, e.Scope})
			}
		}
	}
	return out
}

// CheckUnused compares the unused report with the statement.
//
// Dual-build project (pom.xml and build.gradle in one directory): the declared dependencies are those of both
// files. The statement fixes the order inside one dependencies block (declaration order) but not how two build
// files of one project are enumerated, so the report is split by the file that declares each entry (artifact ids
// of the two files are disjoint by construction) and each part is compared, in order, with that file's expected
// sub-list; any interleaving of the two parts is accepted. An entry that neither file declares is a mismatch.
//
// Project with a copy of its pom in the build output (Project.OutputCopy): whether target/classes/META-INF/maven/
// .../pom.xml declares dependencies of the project is not decided by the statement. Accepted are exactly the two
// readings: the copy is ignored (the report is the expected sub-list) or it is read as a second pom with the same
// content (the report is the expected sub-list twice, one after the other).
func CheckUnused(p *buildgen.Project, observed []Dep) ([]DepMismatch, DepStats) {
	if p.Second == nil && p.OutputCopy != "" {
		mm, st := checkUnusedOf(p, p.Build, observed, "with-output-copy/")
		if len(mm) == 0 {
			return nil, st
		}
		for i := 1; i < len(observed); i++ {
			m1, s1 := checkUnusedOf(p, p.Build, observed[:i], "")
			if len(m1) > 0 {
				continue
			}
			if m2, _ := checkUnusedOf(p, p.Build, observed[i:], ""); len(m2) == 0 {
				s1.CopyReadTwice = true
				return nil, s1
			}
		}
		return mm, st
	}
	if p.Second == nil {
		return checkUnusedOf(p, p.Build, observed, "")
	}
	owner := map[string]int{}
	builds := p.Builds()
	for i, b := range builds {
		for _, e := range b.Entries {
			if e.Artifact != "" {
				owner[e.Artifact] = i
			}
		}
		for _, e := range b.Elsewhere {
			owner[e.Artifact] = i
		}
	}
	parts := make([][]Dep, len(builds))
	var total DepStats
	for pos, d := range observed {
		i, ok := owner[d.Artifact]
		if !ok {
			return []DepMismatch{{Sig: "dual/unused/entry-declared-by-neither-file",
				Msg: fmt.Sprintf("unused: position %d holds %s, which neither the pom.xml nor the build.gradle declares", pos, d)}}, total
		}
		parts[i] = append(parts[i], d)
	}
	var all []DepMismatch
	for i, b := range builds {
		mm, st := checkUnusedOf(p, b, parts[i], "dual/")
		total.Expected += st.Expected
		total.Matched += st.Matched
		total.OptionalMatched += st.OptionalMatched
		total.SetAside += st.SetAside
		total.Skipped += st.Skipped
		all = append(all, mm...)
	}
	return all, total
}

func checkUnusedOf(p *buildgen.Project, b *buildgen.Build, observed []Dep, sigPrefix string) ([]DepMismatch, DepStats) {
	var st DepStats
	rest, n := setAside(b, observed)
	st.SetAside = n
	var items []item
	for _, e := range b.Entries {
		it := item{dep: Dep{e.Group, e.Artifact, e.Scope}, scopes: scopesOf(b, e), style: e.Style, text: e.Text}
		var by []string
		if e.Group != "" {
			by = ImportedBy(p, e.Group)
		}
		switch e.Kind {
		case buildgen.KindString:
			if len(by) == 0 {
				it.mode = modeRequired
			} else {
				it.mode = modeForbidden
				// which kind of file carries the import is part of the ground truth: coca's Java model has no
				// node for a file whose only type is an enum or an annotation type
				only := true
				for _, k := range by {
					if k != "enum" && k != "annotation" {
						only = false
					}
				}
				if only {
					it.note = "only-by-enum-or-annotation-type-files"
				}
			}
		case buildgen.KindMap:
			if len(by) == 0 {
				it.mode = modeOptional
			} else {
				it.mode = modeSkip
			}
		default:
			it.mode = modeSkip
		}
		items = append(items, it)
	}
	mm := align(b.System, "unused", items, rest, &st)
	for i := range mm {
		if !mm[i].Shared {
			mm[i].Sig = sigPrefix + mm[i].Sig
		}
	}
	return mm, st
}
