package oracle

import (
	"fmt"
	"sort"
	"strconv"
	"strings"
)

// Reference model of C10 (bad-smell report). No coca imports: the thresholds below are the ones written in the
// property statement, the facts (`SmellClassTruth`) are the generator's own record of what it rendered.
//
//	longMethod        <=> the method has a body and closingBraceLine - declarationStartLine > 30   (Size = that difference, Line = start)
//	longParameterList <=> #parameters > 5                                                          (Size = #parameters,   Line = start)
//	largeClass        <=> class and #methods that are not getters/setters >= 20                    (Size = that number)
//	dataClass         <=> class and #methods > 0 and every method is a getter/setter               (Size not asserted: the statement does not say which number it is)
//	lazyElement       <=> class and #methods == 0
//	repeatedSwitches  <=> #top-level if >= 8 (one finding, Size = #if) / #top-level switch >= 8 (one finding, Size = #switch), Line = start
//	complexCondition  <=> a top-level if whose parenthesised condition spans >= 4 lines            (Line = line of the condition's first token)
//
// Every finding names its file. refusedBequest / graphConnectedCall / Description are not part of the statement and are
// never compared (they are carried through the ignore / sort relations, where only "nothing else changes" is stated).

const (
	SmellLongMethod  = "longMethod"
	SmellLongParams  = "longParameterList"
	SmellLargeClass  = "largeClass"
	SmellDataClass   = "dataClass"
	SmellLazyElement = "lazyElement"
	SmellRepeatedSw  = "repeatedSwitches"
	SmellComplexCond = "complexCondition"
	SmellMethodLenT  = 30 // reported when difference >  30
	SmellParamsT     = 5  // reported when count      >  5
	SmellLargeClassT = 20 // reported when count      >= 20
	SmellRepeatedT   = 8  // reported when count      >= 8
	SmellCondLinesT  = 4  // reported when lines      >= 4
)

// SmellKinds are the seven documented kinds; the position is the bit used for ignore-subset masks.
var SmellKinds = []string{SmellLongMethod, SmellLongParams, SmellLargeClass, SmellDataClass, SmellLazyElement, SmellRepeatedSw, SmellComplexCond}

// SmellSizedKinds are the kinds whose lists must be non-increasing in Size after `sort by type`.
var SmellSizedKinds = []string{SmellLargeClass, SmellRepeatedSw, SmellLongParams, SmellLongMethod, SmellDataClass}

func SmellIsDocumented(kind string) bool {
	for _, k := range SmellKinds {
		if k == kind {
			return true
		}
	}
	return false
}

func SmellIsSized(kind string) bool {
	for _, k := range SmellSizedKinds {
		if k == kind {
			return true
		}
	}
	return false
}

// SmellMaskKinds returns the kinds named by an ignore-subset mask (bit i = SmellKinds[i]).
func SmellMaskKinds(mask int) []string {
	var out []string
	for i, k := range SmellKinds {
		if mask&(1<<uint(i)) != 0 {
			out = append(out, k)
		}
	}
	return out
}

// SmellCondTruth is one top-level `if` of a method: lines of the '(' and ')' of its condition.
type SmellCondTruth struct {
	IfLine    int // line of the `if` keyword (== StartLine unless the keyword stands alone on the previous line)
	StartLine int
	EndLine   int
}

// SmellMethodTruth is what the generator planted for one method.
type SmellMethodTruth struct {
	Name              string
	Form              string // class | static | abstract | iface-abstract | iface-default | iface-static
	GetterSetter      bool
	AccessorNamed     bool   // an ordinary method (parameters, statements) that carries a get…/set… name
	HeadSplit         bool   // keyword modifiers / type parameters stand on StartLine, return type and name on the next line
	HeadFirst         string // first token of that upper line (default, static, public …, or "type-parameters")
	TypedLambdaParams int    // explicitly typed lambda parameters in the body (not parameters of the method)
	Params            int
	Varargs           bool // the last parameter is a variable-arity parameter (it is counted in Params)
	Generic           bool // the method declares a type parameter of its own
	HasBody           bool
	StartLine         int // line holding modifiers, return type and name
	CloseLine         int // line of the closing brace of the body (0 without body)
	TopIfs            int
	TopSwitches       int
	Conds             []SmellCondTruth // one per top-level if, in source order
	DecoyLines        []int            // lines on which a condition starts that is NOT a top-level if condition (nested if, else-if, while …)
	ElseIfLines       []int            // of those, the lines on which the condition of an `else if` branch starts
	InCRLFFile        bool             // the file is written with \r\n line ends
}

// SmellClassTruth is one generated file (exactly one top-level type).
type SmellClassTruth struct {
	File    string // relative, slash-separated
	Kind    string // class | interface
	CRLF    bool   // written with \r\n line ends
	Methods []SmellMethodTruth
}

// SmellFinding is one reported / expected finding; File is relative to the analysed directory.
type SmellFinding struct {
	File string `json:"file"`
	Kind string `json:"kind"`
	Line string `json:"line,omitempty"` // as reported (decimal text); "" for class-level kinds
	Size int    `json:"size"`
	// expected side only
	Ctx          string `json:"ctx,omitempty"` // planted context (distance to the threshold, method form …), used in signatures
	SizeAsserted bool   `json:"size_asserted,omitempty"`
}

type SmellMismatch struct{ Sig, Msg string }

func smellOff(v, t int) string {
	d := v - t
	switch {
	case d > 2:
		return "T+more"
	case d < -2:
		return "T-more"
	case d >= 0:
		return "T+" + strconv.Itoa(d)
	}
	return "T" + strconv.Itoa(d)
}

func smellFormCtx(m *SmellMethodTruth) string {
	s := ""
	if strings.HasPrefix(m.Form, "iface-") {
		s = "/interface-" + strings.TrimPrefix(m.Form, "iface-") + "-method"
	}
	if m.Generic {
		s += "/generic-method"
	}
	if m.AccessorNamed {
		s += "/accessor-named-method"
	}
	if m.HeadSplit {
		s += "/modifiers-on-previous-line(first=" + m.HeadFirst + ")"
	}
	if m.InCRLFFile {
		s += "/crlf-file"
	}
	return s
}

func smellElseIfCtx(m *SmellMethodTruth) string {
	if len(m.ElseIfLines) > 0 {
		return "/has-else-if-branches"
	}
	return ""
}

func smellCountNonGS(c *SmellClassTruth) int {
	n := 0
	for i := range c.Methods {
		if !c.Methods[i].GetterSetter {
			n++
		}
	}
	return n
}

func (m *SmellMethodTruth) lenDiff() int { return m.CloseLine - m.StartLine }

func smellParamCtx(m *SmellMethodTruth) string {
	s := smellOff(m.Params, SmellParamsT)
	if m.Varargs {
		s += "/last-is-varargs"
	}
	if m.TypedLambdaParams > 0 {
		s += "/typed-lambda-parameters-in-body"
	}
	return s + smellFormCtx(m)
}

func smellCondCtx(m *SmellMethodTruth, c SmellCondTruth) string {
	s := "span=" + smellOff(c.EndLine-c.StartLine+1, SmellCondLinesT)
	if c.IfLine != c.StartLine {
		s += "/if-keyword-on-previous-line"
	}
	return s + smellFormCtx(m)
}

// SmellExpected is the truth table of the statement applied to the planted facts.
func SmellExpected(classes []SmellClassTruth) []SmellFinding {
	var out []SmellFinding
	for ci := range classes {
		c := &classes[ci]
		isClass := c.Kind == "class"
		if isClass && len(c.Methods) == 0 {
			out = append(out, SmellFinding{File: c.File, Kind: SmellLazyElement, Ctx: "methods=0"})
		}
		nonGS := smellCountNonGS(c)
		for mi := range c.Methods {
			m := &c.Methods[mi]
			line := strconv.Itoa(m.StartLine)
			if m.HasBody && m.lenDiff() > SmellMethodLenT {
				out = append(out, SmellFinding{File: c.File, Kind: SmellLongMethod, Line: line, Size: m.lenDiff(), SizeAsserted: true,
					Ctx: "len=" + smellOff(m.lenDiff(), SmellMethodLenT) + smellFormCtx(m)})
			}
			if m.Params > SmellParamsT {
				out = append(out, SmellFinding{File: c.File, Kind: SmellLongParams, Line: line, Size: m.Params, SizeAsserted: true,
					Ctx: "params=" + smellParamCtx(m)})
			}
			if m.TopIfs >= SmellRepeatedT {
				out = append(out, SmellFinding{File: c.File, Kind: SmellRepeatedSw, Line: line, Size: m.TopIfs, SizeAsserted: true,
					Ctx: "ifs=" + smellOff(m.TopIfs, SmellRepeatedT) + smellElseIfCtx(m) + smellFormCtx(m)})
			}
			if m.TopSwitches >= SmellRepeatedT {
				out = append(out, SmellFinding{File: c.File, Kind: SmellRepeatedSw, Line: line, Size: m.TopSwitches, SizeAsserted: true,
					Ctx: "switches=" + smellOff(m.TopSwitches, SmellRepeatedT) + smellFormCtx(m)})
			}
			for _, cd := range m.Conds {
				if cd.EndLine-cd.StartLine+1 >= SmellCondLinesT {
					out = append(out, SmellFinding{File: c.File, Kind: SmellComplexCond, Line: strconv.Itoa(cd.StartLine), Ctx: smellCondCtx(m, cd)})
				}
			}
		}
		if isClass && len(c.Methods) > 0 && nonGS == 0 {
			out = append(out, SmellFinding{File: c.File, Kind: SmellDataClass, Size: len(c.Methods), Ctx: "methods>0,non-getter-setter=0"})
		}
		if isClass && nonGS >= SmellLargeClassT {
			out = append(out, SmellFinding{File: c.File, Kind: SmellLargeClass, Size: nonGS, SizeAsserted: true,
				Ctx: "non-getter-setter=" + smellOff(nonGS, SmellLargeClassT)})
		}
	}
	return out
}

// SmellBoundaryPoints lists the planted facts that lie within two of a threshold (labels like "methodLen:T-1"); the
// adapter counts them so that the evidence shows which boundary points a run really exercised.
func SmellBoundaryPoints(classes []SmellClassTruth) []string {
	var out []string
	near := func(dim string, v, t int) {
		if v-t >= -2 && v-t <= 2 {
			out = append(out, dim+":"+smellOff(v, t))
		}
	}
	for ci := range classes {
		c := &classes[ci]
		n := smellCountNonGS(c)
		near(c.Kind+"/nonGetterSetterMethods", n, SmellLargeClassT)
		switch {
		case len(c.Methods) == 0:
			out = append(out, c.Kind+"/methods:none")
		case n == 0:
			out = append(out, c.Kind+"/methods:only-getters-setters")
		case n <= 2 && n < len(c.Methods):
			out = append(out, c.Kind+"/methods:getters-setters+"+strconv.Itoa(n)+"-other")
		}
		for mi := range c.Methods {
			m := &c.Methods[mi]
			if m.HasBody {
				near("methodLen", m.lenDiff(), SmellMethodLenT)
			}
			near("params", m.Params, SmellParamsT)
			near("topLevelIfs", m.TopIfs, SmellRepeatedT)
			near("topLevelSwitches", m.TopSwitches, SmellRepeatedT)
			for _, cd := range m.Conds {
				near("conditionLines", cd.EndLine-cd.StartLine+1, SmellCondLinesT)
			}
		}
	}
	return out
}

func (f SmellFinding) String() string {
	s := f.Kind + "@" + f.File
	if f.Line != "" {
		s += ":" + f.Line
	}
	return s + " size=" + strconv.Itoa(f.Size)
}

func smellMethodLevel(kind string) bool {
	return kind == SmellLongMethod || kind == SmellLongParams || kind == SmellRepeatedSw || kind == SmellComplexCond
}

// spuriousCtx describes, from the planted facts, what stands at the place a finding that should not exist points to.
func smellSpuriousCtx(classes []SmellClassTruth, f SmellFinding) string {
	var c *SmellClassTruth
	for i := range classes {
		if classes[i].File == f.File {
			c = &classes[i]
		}
	}
	if c == nil {
		return "no-such-file"
	}
	switch f.Kind {
	case SmellLazyElement:
		if c.Kind != "class" {
			return c.Kind
		}
		return "methods=" + strconv.Itoa(len(c.Methods))
	case SmellDataClass:
		if c.Kind != "class" {
			return c.Kind
		}
		if len(c.Methods) == 0 {
			return "methods=0"
		}
		return "non-getter-setter=" + strconv.Itoa(smellCountNonGS(c))
	case SmellLargeClass:
		if c.Kind != "class" {
			return c.Kind + "/non-getter-setter=" + smellOff(smellCountNonGS(c), SmellLargeClassT)
		}
		return "non-getter-setter=" + smellOff(smellCountNonGS(c), SmellLargeClassT)
	}
	ln, err := strconv.Atoi(f.Line)
	if err != nil {
		return "line-not-a-number"
	}
	if f.Kind == SmellComplexCond {
		for mi := range c.Methods {
			m := &c.Methods[mi]
			for _, cd := range m.Conds {
				if cd.StartLine == ln {
					return smellCondCtx(m, cd)
				}
			}
			for _, cd := range m.Conds {
				if cd.IfLine == ln {
					return "line-of-if-keyword-not-of-condition"
				}
			}
			for _, d := range m.ElseIfLines {
				if d == ln {
					return "condition-of-an-else-if-branch" + smellFormCtx(m)
				}
			}
			for _, d := range m.DecoyLines {
				if d == ln {
					return "condition-is-not-a-top-level-if"
				}
			}
		}
		if c.CRLF {
			return "no-top-level-if-condition-starts-there/crlf-file"
		}
		return "no-top-level-if-condition-starts-there"
	}
	for mi := range c.Methods {
		m := &c.Methods[mi]
		if m.StartLine != ln {
			continue
		}
		switch f.Kind {
		case SmellLongMethod:
			if !m.HasBody {
				return "method-without-body"
			}
			return "len=" + smellOff(m.lenDiff(), SmellMethodLenT) + smellFormCtx(m)
		case SmellLongParams:
			return "params=" + smellParamCtx(m)
		case SmellRepeatedSw:
			ctx := "ifs=" + smellOff(m.TopIfs, SmellRepeatedT) + ",switches=" + smellOff(m.TopSwitches, SmellRepeatedT)
			if n := len(m.ElseIfLines); n > 0 {
				ctx += "/else-if-branches=" + smellOff(m.TopIfs+n, SmellRepeatedT) + "-with-top-level-ifs"
			}
			return ctx + smellFormCtx(m)
		}
	}
	for mi := range c.Methods {
		m := &c.Methods[mi]
		if m.HeadSplit && m.StartLine+1 == ln {
			return "line-of-return-type-not-of-declaration-start" + smellFormCtx(m)
		}
	}
	if c.CRLF {
		return "no-method-starts-there/crlf-file"
	}
	return "no-method-starts-there"
}

// SmellCompare joins expected and observed findings of the seven documented kinds as multisets.
// `named` are the kinds given to the ignore option: expected findings of these kinds are dropped, an observed finding of
// such a kind is a mismatch. Observed findings of undocumented kinds are skipped (returned as count).
func SmellCompare(classes []SmellClassTruth, expectedAll, observed []SmellFinding, named []string) (mm []SmellMismatch, matched, skipped int) {
	ign := map[string]bool{}
	for _, k := range named {
		ign[k] = true
	}
	key := func(f SmellFinding) string {
		if smellMethodLevel(f.Kind) {
			return f.File + "\x00" + f.Kind + "\x00" + f.Line
		}
		return f.File + "\x00" + f.Kind + "\x00"
	}
	exp := map[string][]SmellFinding{}
	var keys []string
	for _, e := range expectedAll {
		if ign[e.Kind] {
			continue
		}
		k := key(e)
		if _, ok := exp[k]; !ok {
			keys = append(keys, k)
		}
		exp[k] = append(exp[k], e)
	}
	obs := map[string][]SmellFinding{}
	var okeys []string
	for _, o := range observed {
		if !SmellIsDocumented(o.Kind) {
			skipped++
			continue
		}
		if ign[o.Kind] {
			mm = append(mm, SmellMismatch{"ignore-kept-named-kind/" + o.Kind, fmt.Sprintf("kind %s was named in the ignore list %v but %s is still reported", o.Kind, named, o)})
			continue
		}
		k := key(o)
		if _, ok := obs[k]; !ok {
			okeys = append(okeys, k)
		}
		obs[k] = append(obs[k], o)
	}
	var missing, spurious []SmellFinding
	for _, k := range keys {
		es, os := exp[k], obs[k]
		usedO := make([]bool, len(os))
		var restE []SmellFinding
		for _, e := range es {
			hit := -1
			for i, o := range os {
				if !usedO[i] && (!e.SizeAsserted || o.Size == e.Size) {
					hit = i
					break
				}
			}
			if hit >= 0 {
				usedO[hit] = true
				matched++
			} else {
				restE = append(restE, e)
			}
		}
		var restO []SmellFinding
		for i, o := range os {
			if !usedO[i] {
				restO = append(restO, o)
			}
		}
		for len(restE) > 0 && len(restO) > 0 {
			e, o := restE[0], restO[0]
			restE, restO = restE[1:], restO[1:]
			mm = append(mm, SmellMismatch{"wrong-size/" + e.Kind + "/" + e.Ctx, fmt.Sprintf("%s: expected size %d, reported size %d", e, e.Size, o.Size)})
		}
		missing = append(missing, restE...)
		spurious = append(spurious, restO...)
	}
	for _, k := range okeys {
		if _, ok := exp[k]; !ok {
			spurious = append(spurious, obs[k]...)
		}
	}
	// same file, kind and size but another line: one "wrong-line" instead of a missing + spurious pair
	usedS := make([]bool, len(spurious))
	for _, e := range missing {
		hit := -1
		for i, o := range spurious {
			if !usedS[i] && o.File == e.File && o.Kind == e.Kind && (!e.SizeAsserted || o.Size == e.Size) {
				hit = i
				break
			}
		}
		if hit >= 0 {
			usedS[hit] = true
			mm = append(mm, SmellMismatch{"wrong-line/" + e.Kind + "/" + e.Ctx, fmt.Sprintf("%s: reported with line %q (%s)", e, spurious[hit].Line, smellSpuriousCtx(classes, spurious[hit]))})
			continue
		}
		mm = append(mm, SmellMismatch{"missing/" + e.Kind + "/" + e.Ctx, fmt.Sprintf("expected %s (%s) is not reported", e, e.Ctx)})
	}
	for i, o := range spurious {
		if usedS[i] {
			continue
		}
		ctx := smellSpuriousCtx(classes, o)
		mm = append(mm, SmellMismatch{"spurious/" + o.Kind + "/" + ctx, fmt.Sprintf("reported %s but the planted facts say: %s", o, ctx)})
	}
	return mm, matched, skipped
}

func smellFullKey(f SmellFinding) string {
	return f.File + "\x00" + f.Kind + "\x00" + f.Line + "\x00" + strconv.Itoa(f.Size)
}

// SmellCheckIgnore: the report with kinds `named` ignored equals the full report minus exactly the findings of those
// kinds (as multisets over file, kind, line, size; all kinds, also the undocumented ones, take part: naming X must not
// remove Y whatever Y is).
func SmellCheckIgnore(full, filtered []SmellFinding, named []string) []SmellMismatch {
	ign := map[string]bool{}
	for _, k := range named {
		ign[k] = true
	}
	want := map[string]int{}
	repr := map[string]SmellFinding{}
	for _, f := range full {
		if !ign[f.Kind] {
			want[smellFullKey(f)]++
			repr[smellFullKey(f)] = f
		}
	}
	var mm []SmellMismatch
	for _, f := range filtered {
		k := smellFullKey(f)
		if ign[f.Kind] {
			mm = append(mm, SmellMismatch{"ignore-kept-named-kind/" + f.Kind, fmt.Sprintf("ignore list %v: %s is still reported", named, f)})
			continue
		}
		if want[k] == 0 {
			mm = append(mm, SmellMismatch{"ignore-added-finding/" + f.Kind, fmt.Sprintf("ignore list %v: %s is reported but is not in the unfiltered report", named, f)})
			continue
		}
		want[k]--
	}
	var ks []string
	for k, n := range want {
		if n > 0 {
			ks = append(ks, k)
		}
	}
	sort.Strings(ks)
	for _, k := range ks {
		f := repr[k]
		mm = append(mm, SmellMismatch{"ignore-removed-unnamed-kind/" + f.Kind, fmt.Sprintf("ignore list %q: %s disappeared although kind %s was not named", named, f, f.Kind)})
	}
	return mm
}

// SmellCheckGroups checks the shape of a `sort by type` result on its own: every entry stands under its own kind, no
// key without entries, and every sized kind's list is non-increasing in Size.
func SmellCheckGroups(groups map[string][]SmellFinding) []SmellMismatch {
	var mm []SmellMismatch
	var keys []string
	for k := range groups {
		keys = append(keys, k)
	}
	sort.Strings(keys)
	for _, k := range keys {
		list := groups[k]
		if len(list) == 0 {
			mm = append(mm, SmellMismatch{"sort-key-without-findings", "key " + k + " has no findings"})
		}
		for _, f := range list {
			if f.Kind != k {
				mm = append(mm, SmellMismatch{"sort-finding-under-foreign-key", fmt.Sprintf("%s is listed under key %s", f, k)})
			}
		}
		if !SmellIsSized(k) {
			continue
		}
		for i := 1; i < len(list); i++ {
			if list[i].Size > list[i-1].Size {
				var sizes []string
				for _, f := range list {
					sizes = append(sizes, strconv.Itoa(f.Size))
				}
				mm = append(mm, SmellMismatch{"sort-order/" + k, fmt.Sprintf("sizes of %s after sort by type are not non-increasing: [%s]", k, strings.Join(sizes, " "))})
				break
			}
		}
	}
	return mm
}

// SmellCheckPermutation: the groups are, kind by kind, a permutation of the flat list's findings, and the keys are
// exactly the kinds present in the flat list.
func SmellCheckPermutation(flat []SmellFinding, groups map[string][]SmellFinding) []SmellMismatch {
	var mm []SmellMismatch
	want := map[string]int{}
	kinds := map[string]bool{}
	for _, f := range flat {
		want[smellFullKey(f)]++
		kinds[f.Kind] = true
	}
	var keys []string
	for k := range groups {
		keys = append(keys, k)
	}
	sort.Strings(keys)
	for _, k := range keys {
		if !kinds[k] {
			mm = append(mm, SmellMismatch{"sort-key-of-absent-kind", "key " + k + " although no finding of that kind was reported"})
		}
		for _, f := range groups[k] {
			fk := smellFullKey(f)
			if want[fk] == 0 {
				mm = append(mm, SmellMismatch{"sort-added-finding/" + f.Kind, fmt.Sprintf("%s appears after sort by type but not (or not that often) before", f)})
				continue
			}
			want[fk]--
		}
	}
	var ks []string
	for k := range kinds {
		ks = append(ks, k)
	}
	sort.Strings(ks)
	for _, k := range ks {
		if _, ok := groups[k]; !ok {
			mm = append(mm, SmellMismatch{"sort-lost-kind/" + k, "kind " + k + " was reported but has no key after sort by type"})
		}
	}
	lost := 0
	for _, n := range want {
		lost += n
	}
	if lost > 0 {
		mm = append(mm, SmellMismatch{"sort-lost-finding", fmt.Sprintf("%d findings disappeared in sort by type", lost)})
	}
	return mm
}

// SmellFlatten turns groups back into a list (keys in sorted order).
func SmellFlatten(groups map[string][]SmellFinding) []SmellFinding {
	var keys []string
	for k := range groups {
		keys = append(keys, k)
	}
	sort.Strings(keys)
	var out []SmellFinding
	for _, k := range keys {
		out = append(out, groups[k]...)
	}
	return out
}
