package oracle

import (
	"fmt"
	"sort"
	"strings"
)

// Reference model of C17: the todo report is, as a multiset, exactly the planted TODO/FIXME comments of the files
// with a selected extension, each given by (file, line where the comment starts, assignee, message). Messages are
// compared after replacing '*' by a blank and collapsing runs of blanks / line ends (block-comment decoration is not
// something the statement settles). No coca imports; the ground truth comes from the generator's own record.

// TodoExpect is one planted TODO/FIXME comment of a selected file.
type TodoExpect struct {
	File     string
	Line     int
	Kind     string // line | block | hash
	Form     string
	Tight    bool // marker directly after the comment marker
	Multi    bool
	Optional bool // may be reported or not (unterminated `/* TODO` at end of file)
	// MarkerLineOffset: line breaks between the block opener and the marker word (the comment starts at the opener)
	MarkerLineOffset int
	Assignee         string
	Message          string
	Src              string
}

// TodoDecoy is something in a selected file that must not be reported.
type TodoDecoy struct {
	File string
	Line int
	What string
	Src  string
}

// TodoEntry is one observed report entry, file relative to the scanned directory.
type TodoEntry struct {
	File     string `json:"file"`
	Line     int    `json:"line"`
	Assignee string `json:"assignee"`
	Message  string `json:"message"`
}

type TodoMismatch struct {
	Sig string
	Msg string
}

type TodoTruth struct {
	Expect     []TodoExpect
	Decoys     []TodoDecoy
	Selected   map[string]bool // files with a selected extension
	Unselected map[string]bool // files with another extension
	// NamedTwice: selected files that two entries of the filter name (x.d.ts under .ts,.d.ts; an extension listed twice)
	NamedTwice map[string]bool
}

// NormTodoMessage: '*' -> blank, runs of white space collapsed, trimmed.
func NormTodoMessage(s string) string {
	s = strings.ReplaceAll(s, "*", " ")
	return strings.Join(strings.Fields(s), " ")
}

func todoSpaced(tight bool) string {
	if tight {
		return "tight"
	}
	return "spaced"
}

func todoMulti(m bool) string {
	if m {
		return "multi"
	}
	return "single"
}

// CheckTodos joins planted and observed events. It returns the mismatches and the number of entries matched exactly.
func CheckTodos(t *TodoTruth, observed []TodoEntry) ([]TodoMismatch, int) {
	var mm []TodoMismatch
	add := func(sig, format string, a ...interface{}) {
		mm = append(mm, TodoMismatch{Sig: sig, Msg: fmt.Sprintf(format, a...)})
	}
	key := func(file string, line int, assignee, msg string) string {
		return fmt.Sprintf("%s\x00%d\x00%s\x00%s", file, line, assignee, NormTodoMessage(msg))
	}
	used := make([]bool, len(t.Expect))
	byKey := map[string][]int{}
	for i, e := range t.Expect {
		k := key(e.File, e.Line, e.Assignee, e.Message)
		byKey[k] = append(byKey[k], i)
	}
	// required before optional
	for k := range byKey {
		idx := byKey[k]
		sort.SliceStable(idx, func(a, b int) bool { return !t.Expect[idx[a]].Optional && t.Expect[idx[b]].Optional })
	}
	matched := 0
	var rest []TodoEntry
	// 1. files that must not have been scanned; exact matches
	for _, ob := range observed {
		if t.Unselected[ob.File] {
			add("scanned-other-extension", "entry %s:%d %q comes from a file whose extension is not in the filter", ob.File, ob.Line, ob.Message)
			continue
		}
		if !t.Selected[ob.File] {
			add("spurious/unknown-file", "entry names %q, which is not a file of the scanned directory", ob.File)
			continue
		}
		k := key(ob.File, ob.Line, ob.Assignee, ob.Message)
		hit := false
		for _, i := range byKey[k] {
			if !used[i] {
				used[i] = true
				hit = true
				if !t.Expect[i].Optional {
					matched++
				}
				break
			}
		}
		if !hit {
			rest = append(rest, ob)
		}
	}
	// 2. same file and line, other fields
	var rest2 []TodoEntry
	for _, ob := range rest {
		hit := false
		for i, e := range t.Expect {
			if used[i] || e.File != ob.File || e.Line != ob.Line {
				continue
			}
			used[i] = true
			hit = true
			if e.Optional {
				break
			}
			if e.Assignee != ob.Assignee {
				add("wrong-assignee/"+e.Kind+"/"+e.Form, "%s:%d comment %q: assignee %q reported, %q written (message reported %q)", e.File, e.Line, e.Src, ob.Assignee, e.Assignee, ob.Message)
			}
			if NormTodoMessage(e.Message) != NormTodoMessage(ob.Message) {
				sig := "wrong-message/" + e.Kind + "/" + e.Form + "/" + todoMulti(e.Multi)
				if e.Kind != "block" && strings.Contains(e.Message, "*/") {
					// a line or hash comment whose text contains the block terminator
					sig = "wrong-message/" + e.Kind + "/terminator-in-text"
				}
				add(sig, "%s:%d comment %q: message %q reported, remaining text is %q", e.File, e.Line, e.Src, NormTodoMessage(ob.Message), NormTodoMessage(e.Message))
			}
			break
		}
		if !hit {
			rest2 = append(rest2, ob)
		}
	}
	// 3. same file, assignee and (non-empty) message, other line
	var rest3 []TodoEntry
	for _, ob := range rest2 {
		hit := false
		nm := NormTodoMessage(ob.Message)
		if nm != "" {
			for i, e := range t.Expect {
				if used[i] || e.Optional || e.File != ob.File || e.Assignee != ob.Assignee || NormTodoMessage(e.Message) != nm {
					continue
				}
				used[i] = true
				hit = true
				sig := "wrong-line/" + e.Kind + "/" + todoMulti(e.Multi)
				if e.MarkerLineOffset > 0 {
					sig = "wrong-line/" + e.Kind + "/opener-alone"
				}
				add(sig, "%s: comment %q starts at line %d, reported at line %d", e.File, e.Src, e.Line, ob.Line)
				break
			}
		}
		if !hit {
			rest3 = append(rest3, ob)
		}
	}
	// 4. entries nothing was planted for
	for _, ob := range rest3 {
		dup := false
		for i, e := range t.Expect {
			if used[i] && !e.Optional && e.File == ob.File && e.Line == ob.Line && e.Assignee == ob.Assignee && NormTodoMessage(e.Message) == NormTodoMessage(ob.Message) {
				dup = true
				if t.NamedTwice[e.File] {
					add("duplicate/file-named-by-two-filter-entries", "%s:%d comment %q is reported more than once (two entries of the extension filter name this file)", e.File, e.Line, e.Src)
				} else {
					add("duplicate/"+e.Kind, "%s:%d comment %q is reported more than once", e.File, e.Line, e.Src)
				}
				break
			}
		}
		if dup {
			continue
		}
		var at []TodoDecoy
		for _, d := range t.Decoys {
			if d.File == ob.File && d.Line == ob.Line {
				at = append(at, d)
			}
		}
		// prefer the decoy that explains the entry best: a comment mentioning the marker, then a literal with it
		// (several things may start at one line: the one whose text contains the reported message comes first)
		nm := NormTodoMessage(ob.Message)
		holds := func(d TodoDecoy) int {
			n := 2
			if nm != "" && strings.Contains(NormTodoMessage(d.Src), nm) {
				n--
			}
			if ob.Assignee != "" && strings.Contains(d.Src, "("+ob.Assignee+")") {
				n--
			}
			return n
		}
		sort.SliceStable(at, func(a, b int) bool {
			if ha, hb := holds(at[a]), holds(at[b]); ha != hb {
				return ha < hb
			}
			return todoDecoyRank(at[a].What) < todoDecoyRank(at[b].What)
		})
		if len(at) > 0 {
			add("spurious/"+at[0].What, "%s:%d entry (assignee %q, message %q) although nothing here begins with TODO/FIXME; at this line: %q", ob.File, ob.Line, ob.Assignee, ob.Message, at[0].Src)
		} else {
			add("spurious/nothing-at-line", "%s:%d entry (assignee %q, message %q) but no comment or literal starts at this line", ob.File, ob.Line, ob.Assignee, ob.Message)
		}
	}
	// 5. planted comments that were not reported
	for i, e := range t.Expect {
		if used[i] || e.Optional {
			continue
		}
		add("missed/"+e.Kind+"/"+todoSpaced(e.Tight), "%s:%d comment %q (marker %s, assignee %q, message %q) is not in the report", e.File, e.Line, e.Src, e.Marker(), e.Assignee, NormTodoMessage(e.Message))
	}
	return mm, matched
}

// Marker returns the marker word as written (for messages only).
func (e TodoExpect) Marker() string {
	s := strings.TrimLeft(e.Src, "/*# \t\r\n")
	for i, r := range s {
		if !(r >= 'a' && r <= 'z' || r >= 'A' && r <= 'Z') {
			return s[:i]
		}
	}
	return s
}

func todoDecoyRank(what string) int {
	switch {
	case strings.HasPrefix(what, "later/"):
		return 0
	case strings.HasPrefix(what, "literal/") && strings.HasSuffix(what, "+marker"):
		return 1
	case strings.HasPrefix(what, "plain/"):
		return 2
	case what == "code-ident":
		return 3
	}
	return 4
}
