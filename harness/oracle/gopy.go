package oracle

// C20 oracle: "each planted class/struct/interface/function/import/decorator/field/method/call statement appears
// exactly once under its own name and under its own owner".
//
// The reader types below mirror where coca puts things (a per-file container with DataStructures, Members and
// Imports; a flat []DataStruct after CommonAnalysis / in godeps.json, pydeps.json); they are filled by a JSON
// round trip in the adapter, so this file does not import coca. All expectations come from the planted ground
// truth of gen/gopygen.
//
// Deliberately NOT demanded (the statement does not say it):
//   - nested defs (Python) may or may not be listed, anywhere;
//   - entries with names that were not planted are not counted against the model;
//   - calls that are not written as a statement (right-hand sides, return values, arguments), unqualified calls
//     and deferred calls;
//   - results, types, tags, positions, packages, aliases, order;
//   - embedded fields / embedded interfaces / unnamed receivers' variables;
//   - in the flattened model (CommonAnalysis, *deps.json) functions whose name does not start with an upper-case
//     letter (the flattening keeps "exported" functions only, by construction), parameters and imports (the
//     flattened model has no place for them).

import (
	"fmt"
	"sort"
	"strings"
	"unicode"

	"verifharness/gen/gopygen"
)

type GPProperty struct {
	ParamName  string
	TypeValue  string
	TypeType   string
	Parameters []GPProperty // parameters of a function-typed property (interface methods)
}

type GPCall struct {
	Package      string
	Type         string
	NodeName     string
	FunctionName string
}

type GPAnnotation struct{ Name string }

type GPFunction struct {
	Name          string
	Parameters    []GPProperty
	FunctionCalls []GPCall
	Annotations   []GPAnnotation
}

type GPDataStruct struct {
	NodeName        string
	Package         string
	Functions       []GPFunction
	InOutProperties []GPProperty
	Annotations     []GPAnnotation
	FunctionCalls   []GPCall
}

type GPImport struct {
	Source    string
	AsName    string
	UsageName []string
}

type GPMember struct {
	Name          string
	Type          string
	DataStructID  string
	FunctionNodes []GPFunction
}

type GPContainer struct {
	FullName       string
	PackageName    string
	Imports        []GPImport
	Members        []GPMember
	DataStructures []GPDataStruct
}

type GPMismatch struct{ Sig, Msg string }

// GPStats counts planted events and how many of them were found exactly once at their own place.
type GPStats struct {
	Planted map[string]int
	Matched map[string]int
	Info    map[string]int
}

func newGPStats() *GPStats {
	return &GPStats{Planted: map[string]int{}, Matched: map[string]int{}, Info: map[string]int{}}
}

type gpChecker struct {
	where  string // "" for the per-file model, "flat/" for CommonAnalysis, "cli/" for the mains
	suffix string // predicate over the planted input that every signature of this check carries
	ms     []GPMismatch
	st     *GPStats
}

func (c *gpChecker) bad(sig, format string, args ...interface{}) {
	if len(c.ms) < 40 {
		c.ms = append(c.ms, GPMismatch{Sig: c.where + sig + c.suffix, Msg: fmt.Sprintf(format, args...)})
	}
}

// PyLexerQueue is the number of lexer events (logical lines + INDENT + DEDENT) a module may have before the token
// queue of the shipped Python lexer helper has to grow; mismatches on bigger modules carry a suffix saying so.
const PyLexerQueue = 31

func pySizeSuffix(mods ...*gopygen.PyModule) string {
	for _, m := range mods {
		if m.LexEvents > PyLexerQueue {
			return "@case-with-module-over-31-lexer-events"
		}
	}
	for _, m := range mods {
		if m.TrailIndent != "" {
			return "@case-with-module-ending-in-bare-indentation-without-newline"
		}
	}
	for _, m := range mods {
		if m.LongLine {
			return "@case-with-line-of-64KiB-or-more"
		}
	}
	for _, m := range mods {
		if m.CRLF {
			return "@case-with-CRLF-module"
		}
	}
	return ""
}

func goFileSuffix(files ...*gopygen.GoFile) string {
	for _, f := range files {
		if f.GeneratedLine > 0 {
			return "@case-with-code-generated-line-below-the-package-clause"
		}
	}
	return ""
}

// once records a planted event of a kind and reports missing / duplicated.
func (c *gpChecker) once(kind string, n int, sigBase, sigSuffix, what string) bool {
	c.st.Planted[kind]++
	switch {
	case n == 1:
		c.st.Matched[kind]++
		return true
	case n == 0:
		c.bad(sigBase+"-missing"+sigSuffix, "%s is not listed", what)
	default:
		c.bad(sigBase+"-duplicated"+sigSuffix, "%s is listed %d times", what, n)
	}
	return false
}

// times is once for a name that is planted `want` times in the case (the same name declared in several files):
// the flattened model has to list it as many times as it is declared.
func (c *gpChecker) times(kind string, n, want int, sigBase, sigSuffix, what string) bool {
	if want <= 1 {
		return c.once(kind, n, sigBase, sigSuffix, what)
	}
	c.st.Planted[kind]++
	sigSuffix += "/name-declared-in-several-files"
	switch {
	case n == want:
		c.st.Matched[kind]++
		c.st.Info["same_name_declarations_matched"]++
		return true
	case n < want:
		c.bad(sigBase+"-missing"+sigSuffix, "%s is declared in %d files of the scan but listed %d time(s)", what, want, n)
	default:
		c.bad(sigBase+"-duplicated"+sigSuffix, "%s is declared in %d files of the scan but listed %d times", what, want, n)
	}
	return false
}

// gpAssign matches k planted declarations of one name with the k entries listed under that name so that the
// number of members found at their own declaration is maximal (k <= 3: all permutations are tried; ties keep the
// listed order). It returns, per planted declaration, the position of its entry.
func gpAssign(k int, score func(planted, entry int) int) []int {
	best := make([]int, k)
	for i := range best {
		best[i] = i
	}
	if k > 4 {
		return best
	}
	bestScore := -1
	perm := make([]int, k)
	used := make([]bool, k)
	var rec func(p, sum int)
	rec = func(p, sum int) {
		if p == k {
			if sum > bestScore {
				bestScore = sum
				copy(best, perm)
			}
			return
		}
		for e := 0; e < k; e++ {
			if !used[e] {
				used[e] = true
				perm[p] = e
				rec(p+1, sum+score(p, e))
				used[e] = false
			}
		}
	}
	rec(0, 0)
	return best
}

// gpMultiset is the multiplicity of every planted name over all files of a case and, for names planted more than
// once, which listed entry belongs to which planted declaration.
type gpMultiset struct {
	want   map[string]int
	assign map[interface{}]int
}

type gpPlanted struct {
	ptr     interface{}
	members []string
}

func newGPMultiset(byName map[string][]gpPlanted, entries []GPDataStruct) gpMultiset {
	ms := gpMultiset{want: map[string]int{}, assign: map[interface{}]int{}}
	for name, list := range byName {
		ms.want[name] = len(list)
		if len(list) < 2 {
			continue
		}
		var idxs []int
		for i := range entries {
			if entries[i].NodeName == name {
				idxs = append(idxs, i)
			}
		}
		if len(idxs) != len(list) {
			continue // reported as missing / duplicated
		}
		list := list
		pos := gpAssign(len(list), func(p, e int) int {
			ent := &entries[idxs[e]]
			n := 0
			for _, m := range list[p].members {
				for _, x := range ent.InOutProperties {
					if x.ParamName == m {
						n++
					}
				}
				for _, x := range ent.Functions {
					if x.Name == m {
						n++
					}
				}
				for _, x := range ent.FunctionCalls {
					if x.FunctionName == m {
						n++
					}
				}
				for _, x := range ent.Annotations {
					if x.Name == m {
						n++
					}
				}
			}
			return n
		})
		for p := range list {
			ms.assign[list[p].ptr] = idxs[pos[p]]
		}
	}
	return ms
}

func (ms gpMultiset) wantOf(name string) int {
	if n, ok := ms.want[name]; ok {
		return n
	}
	return 1
}

// entryOf returns the index of the entry that belongs to a planted declaration, given the indices of the entries
// listed under its name (their number already equals the planted multiplicity).
func (ms gpMultiset) entryOf(ptr interface{}, idxs []int) int {
	if len(idxs) == 1 {
		return idxs[0]
	}
	if i, ok := ms.assign[ptr]; ok {
		return i
	}
	return -1
}

func gpExported(name string) bool {
	for _, r := range name {
		return unicode.IsUpper(r)
	}
	return false
}

// ---------------------------------------------------------------------------------------------------------------
// Go

type gpGoView struct {
	types []GPDataStruct // entries that may be structs / interfaces
	funcs []GPFunction   // top-level function nodes (flat model: same indices as types)
	ms    gpMultiset     // zero value: every name is planted once
}

func gpGoViewOfContainer(c *GPContainer) gpGoView {
	v := gpGoView{types: c.DataStructures}
	for _, m := range c.Members {
		v.funcs = append(v.funcs, m.FunctionNodes...)
	}
	return v
}

func gpGoViewOfFlat(ds []GPDataStruct) gpGoView {
	v := gpGoView{types: ds}
	for _, d := range ds {
		v.funcs = append(v.funcs, GPFunction{Name: d.NodeName, FunctionCalls: d.FunctionCalls})
	}
	return v
}

func goTypeSuffix(f *gopygen.GoFile) string {
	if len(f.Structs())+len(f.Ifaces()) >= 2 {
		return "@file-with->=2-type-decls"
	}
	return "@file-with-1-type-decl"
}

func (c *gpChecker) goNamesIn(props []GPProperty, name string) int {
	n := 0
	for _, p := range props {
		if p.ParamName == name {
			n++
		}
	}
	return n
}

// goParamList checks a written parameter list against the listed one: every named parameter exactly once under its
// own name, every blank parameter (`_`) listed as a parameter named `_`, and the written arity.
func (c *gpChecker) goParamList(fields []gopygen.GoField, got []GPProperty, what string) {
	arity, blanks := 0, 0
	for _, p := range fields {
		for j, name := range p.Names {
			arity++
			if name == "_" {
				blanks++
				continue
			}
			sfx := ""
			if j > 0 {
				sfx = "/2nd+-name-of-multi-name-parameter"
			}
			c.once("go_param", c.goNamesIn(got, name), "go/param", sfx, fmt.Sprintf("parameter %s of %s", name, what))
		}
	}
	if blanks > 0 {
		c.st.Planted["go_blank_param"] += blanks
		if n := c.goNamesIn(got, "_"); n == blanks {
			c.st.Matched["go_blank_param"] += blanks
		} else {
			c.bad("go/param-missing/blank-identifier-parameter", "%s declares %d parameter(s) named _, %d listed", what, blanks, n)
		}
	}
	c.st.Planted["go_param_list"]++
	if len(got) == arity {
		c.st.Matched["go_param_list"]++
	} else {
		sfx := ""
		if blanks > 0 {
			sfx = "/list-with-blank-identifier-parameter"
		}
		c.bad("go/param-arity"+sfx, "%s is written with %d parameter(s), %d listed", what, arity, len(got))
	}
}

func (c *gpChecker) goParams(fn *gopygen.GoFunc, node *GPFunction, what string) {
	c.goParamList(fn.Params, node.Parameters, what)
}

func (c *gpChecker) goCalls(f *gopygen.GoFile, fn *gopygen.GoFunc, node *GPFunction, v gpGoView, what string) {
	for _, s := range fn.AllStmts() { // including the call statements written inside callbacks
		switch s.Kind {
		case gopygen.StCallPkg, gopygen.StCallRecv:
			kind := "pkg"
			if s.Kind == gopygen.StCallRecv {
				kind = "recv"
			}
			ksfx := "/" + kind
			if s.InCallback {
				ksfx += "/inside-function-literal-argument"
				c.st.Info["go_call_statements_inside_callbacks"]++
			}
			stext := s.Text
			if i := strings.Index(stext, "\n"); i > 0 {
				stext = stext[:i] + " … })"
			}
			n := 0
			var hit GPCall
			for _, call := range node.FunctionCalls {
				if call.FunctionName == s.Func {
					n++
					hit = call
				}
			}
			if c.once("go_call_"+kind, n, "go/call", ksfx, fmt.Sprintf("call statement `%s` of %s", stext, what)) {
				ok := hit.NodeName == s.Qual
				if !ok && kind == "recv" && fn.Recv != nil && hit.NodeName == fn.Recv.Type {
					ok = true // resolved to the receiver's type: still its own name
				}
				if !ok && kind == "pkg" {
					for _, im := range f.Imports {
						if im.Qual == s.Qual && (hit.NodeName == im.Path || hit.NodeName == strings.ReplaceAll(im.Path, "/", ".")) {
							ok = true // resolved to the import path
						}
					}
				}
				if !ok {
					c.bad("go/call-qualifier/"+kind, "call statement `%s` of %s is listed with qualifier %q", stext, what, hit.NodeName)
				}
			}
			// own owner: the callee name must not show up in any other function of the file
			other := 0
			count := func(fs []GPFunction, owner string) {
				for i := range fs {
					if &fs[i] == node {
						continue
					}
					for _, call := range fs[i].FunctionCalls {
						if call.FunctionName == s.Func {
							other++
							_ = owner
						}
					}
				}
			}
			count(v.funcs, "")
			for i := range v.types {
				count(v.types[i].Functions, v.types[i].NodeName)
			}
			if other > 0 {
				c.bad("go/call-in-other-function/"+kind, "call statement `%s` of %s is also listed in %d other function(s)", stext, what, other)
			}
		case gopygen.StDefer:
			for _, call := range node.FunctionCalls {
				if call.FunctionName == s.Func {
					c.st.Info["go_deferred_calls_listed"]++
				}
			}
			c.st.Info["go_deferred_calls_planted"]++
		}
	}
}

func (c *gpChecker) goFile(f *gopygen.GoFile, v gpGoView, flat bool) {
	sfx := goTypeSuffix(f)
	entries := func(name string) []int {
		var out []int
		for i := range v.types {
			if v.types[i].NodeName == name {
				out = append(out, i)
			}
		}
		return out
	}
	// foreign-owner scans: every entry but the declaration's own one (own < 0: every entry under another name)
	foreign := func(i, own int, owner string) bool {
		if own >= 0 {
			return i != own
		}
		return v.types[i].NodeName != owner
	}
	propElsewhere := func(name, owner string, own int) (n int, where string) {
		for i := range v.types {
			if !foreign(i, own, owner) {
				continue
			}
			if k := c.goNamesIn(v.types[i].InOutProperties, name); k > 0 {
				n += k
				where = v.types[i].NodeName
			}
		}
		return
	}
	funcElsewhere := func(name, owner string, own int) (n int, where string) {
		for i := range v.types {
			if !foreign(i, own, owner) {
				continue
			}
			for _, fn := range v.types[i].Functions {
				if fn.Name == name {
					n++
					where = v.types[i].NodeName
				}
			}
		}
		return
	}
	topLevel := func(name string) []int {
		var out []int
		for i := range v.funcs {
			if v.funcs[i].Name == name {
				out = append(out, i)
			}
		}
		return out
	}

	for _, st := range f.Structs() {
		es := entries(st.Name)
		what := "struct " + st.Name
		own := -1
		if c.times("go_struct", len(es), v.ms.wantOf(st.Name), "go/struct", sfx, what) {
			own = v.ms.entryOf(st, es)
		}
		blankFields := 0
		for _, fl := range st.Fields {
			for _, name := range fl.Names {
				if name == "_" {
					blankFields++
				}
			}
		}
		if own >= 0 && blankFields > 0 {
			c.st.Planted["go_blank_field"] += blankFields
			if n := c.goNamesIn(v.types[own].InOutProperties, "_"); n == blankFields {
				c.st.Matched["go_blank_field"] += blankFields
			} else {
				c.bad("go/field-missing/blank-identifier-field", "%s declares %d field(s) named _, %d listed", what, blankFields, n)
			}
		}
		for _, fl := range st.Fields {
			for j, name := range fl.Names {
				if name == "_" {
					continue
				}
				if own >= 0 {
					fs := ""
					if j > 0 {
						fs = "/2nd+-name-of-multi-name-field"
					}
					c.once("go_field", c.goNamesIn(v.types[own].InOutProperties, name), "go/field", fs, fmt.Sprintf("field %s of %s", name, what))
				}
				if n, where := propElsewhere(name, st.Name, own); n > 0 {
					c.bad("go/field-under-other-type"+sfx, "field %s of %s is listed under %s", name, what, where)
				}
			}
		}
		for _, me := range st.Methods {
			rk := "/value-receiver"
			if me.Recv.Pointer {
				rk = "/pointer-receiver"
			}
			if me.AboveType {
				rk += "/declared-above-its-receiver-type"
			}
			mwhat := fmt.Sprintf("method %s of %s", me.Name, what)
			if own >= 0 {
				n := 0
				var node *GPFunction
				for i := range v.types[own].Functions {
					if v.types[own].Functions[i].Name == me.Name {
						n++
						node = &v.types[own].Functions[i]
					}
				}
				if c.once("go_method", n, "go/method", rk, mwhat) {
					c.goParams(me, node, mwhat)
					c.goCalls(f, me, node, v, mwhat)
				}
			}
			if n, where := funcElsewhere(me.Name, st.Name, own); n > 0 {
				c.bad("go/method-under-other-type"+sfx, "%s is listed under %s", mwhat, where)
			}
			if len(topLevel(me.Name)) > 0 {
				c.bad("go/method-listed-as-function"+rk, "%s is listed as a top-level function", mwhat)
			}
		}
	}
	for _, it := range f.Ifaces() {
		es := entries(it.Name)
		what := "interface " + it.Name
		own := -1
		if c.times("go_iface", len(es), v.ms.wantOf(it.Name), "go/interface", sfx, what) {
			own = v.ms.entryOf(it, es)
		}
		for _, m := range it.Methods {
			if own >= 0 {
				mwhat := fmt.Sprintf("method %s of %s", m.Name, what)
				if c.once("go_iface_method", c.goNamesIn(v.types[own].InOutProperties, m.Name), "go/interface-method", "", mwhat) {
					for _, p := range v.types[own].InOutProperties {
						if p.ParamName == m.Name {
							c.goParamList(m.Fields, p.Parameters, mwhat)
						}
					}
				}
			}
			if n, where := propElsewhere(m.Name, it.Name, own); n > 0 {
				c.bad("go/interface-method-under-other-type"+sfx, "method %s of %s is listed under %s", m.Name, what, where)
			}
			if n, where := funcElsewhere(m.Name, it.Name, own); n > 0 {
				c.bad("go/interface-method-under-other-type"+sfx, "method %s of %s is listed as a method of %s", m.Name, what, where)
			}
		}
	}
	for _, fn := range f.Funcs() {
		what := "function " + fn.Name
		idxs := topLevel(fn.Name)
		want := v.ms.wantOf(fn.Name)
		if flat && !gpExported(fn.Name) {
			// the flattened model keeps exported functions only; a lower-case function may be absent, never doubled
			c.st.Info["flat_unexported_functions_planted"]++
			if len(idxs) > want {
				c.bad("go/function-duplicated", "%s is listed %d times", what, len(idxs))
			}
			if len(idxs) != want {
				continue
			}
			c.st.Info["flat_unexported_functions_listed"]++
		} else {
			fsfx := ""
			if fn.NoBody {
				fsfx = "/declaration-without-body"
			}
			if !c.times("go_func", len(idxs), want, "go/function", fsfx, what) {
				continue
			}
		}
		own := v.ms.entryOf(fn, idxs)
		if own < 0 {
			continue
		}
		node := &v.funcs[own]
		if !flat {
			c.goParams(fn, node, what)
		}
		c.goCalls(f, fn, node, v, what)
		if k, where := funcElsewhere(fn.Name, "", -1); k > 0 {
			c.bad("go/function-listed-as-method", "%s is listed as a method of %s", what, where)
		}
	}
}

func (c *gpChecker) goImports(f *gopygen.GoFile, imports []GPImport) {
	for _, im := range f.Imports {
		n := 0
		alias := false
		for _, o := range imports {
			if o.Source == im.Path || o.Source == strings.ReplaceAll(im.Path, "/", ".") {
				n++
				alias = o.AsName == im.Alias
			}
		}
		isfx := ""
		if im.Raw {
			isfx = "/path-written-as-raw-string"
		}
		if c.once("go_import", n, "go/import", isfx, fmt.Sprintf("import %q", im.Path)) && alias {
			c.st.Info["go_import_alias_as_written"]++
		}
	}
}

// CheckGoContainer checks the per-file model of one Go file.
func CheckGoContainer(f *gopygen.GoFile, got *GPContainer) ([]GPMismatch, *GPStats) {
	c := &gpChecker{st: newGPStats(), suffix: goFileSuffix(f)}
	c.goFile(f, gpGoViewOfContainer(got), false)
	c.goImports(f, got.Imports)
	// identifier members: a type name at most once
	for _, name := range goTypeNames(f) {
		n := 0
		for _, m := range got.Members {
			if m.DataStructID == name {
				n++
			}
		}
		if n > 1 {
			c.bad("go/type-member-duplicated"+goTypeSuffix(f), "type %s has %d identifier members", name, n)
		}
	}
	return c.ms, c.st
}

func goTypeNames(f *gopygen.GoFile) []string {
	var out []string
	for _, s := range f.Structs() {
		out = append(out, s.Name)
	}
	for _, i := range f.Ifaces() {
		out = append(out, i.Name)
	}
	sort.Strings(out)
	return out
}

// CheckGoFlat checks the flattened model (CommonAnalysis result / godeps.json) of a directory of Go files.
func CheckGoFlat(where string, files []*gopygen.GoFile, ds []GPDataStruct) ([]GPMismatch, *GPStats) {
	c := &gpChecker{where: where, st: newGPStats(), suffix: goFileSuffix(files...)}
	v := gpGoViewOfFlat(ds)
	// the same name may be declared in several files of the scan (different directories): the flattened model
	// has to carry every declaration, each with its own members
	byName := map[string][]gpPlanted{}
	for _, f := range files {
		for _, st := range f.Structs() {
			p := gpPlanted{ptr: st}
			for _, fl := range st.Fields {
				for _, n := range fl.Names {
					if n != "_" {
						p.members = append(p.members, n)
					}
				}
			}
			for _, me := range st.Methods {
				p.members = append(p.members, me.Name)
			}
			byName[st.Name] = append(byName[st.Name], p)
		}
		for _, it := range f.Ifaces() {
			p := gpPlanted{ptr: it}
			for _, m := range it.Methods {
				p.members = append(p.members, m.Name)
			}
			byName[it.Name] = append(byName[it.Name], p)
		}
		for _, fn := range f.Funcs() {
			p := gpPlanted{ptr: fn}
			for _, s := range fn.AllStmts() {
				if s.Kind == gopygen.StCallPkg || s.Kind == gopygen.StCallRecv {
					p.members = append(p.members, s.Func)
				}
			}
			byName[fn.Name] = append(byName[fn.Name], p)
		}
	}
	v.ms = newGPMultiset(byName, ds)
	for _, n := range v.ms.want {
		if n > 1 {
			c.st.Info["same_name_declarations_planted"] += n
		}
	}
	for _, f := range files {
		c.goFile(f, v, true)
	}
	return c.ms, c.st
}

// ---------------------------------------------------------------------------------------------------------------
// Python

type gpPyView struct {
	classes []GPDataStruct
	funcs   []GPFunction
	ms      gpMultiset // zero value: every name is planted once
}

func annCount(as []GPAnnotation, name string) int {
	n := 0
	for _, a := range as {
		if a.Name == name {
			n++
		}
	}
	return n
}

// pyDecos checks the decorators of one owner (own list: exactly once; all other lists: absent).
func (c *gpChecker) pyDecos(kind string, ds []gopygen.PyDeco, own []GPAnnotation, ownerWhat string, v gpPyView, ownNode interface{}) {
	for _, d := range ds {
		c.once("py_decorator_"+kind, annCount(own, d.Name), "py/"+kind+"-decorator", "", fmt.Sprintf("decorator @%s of %s", d.Name, ownerWhat))
		// own owner
		total := 0
		for i := range v.classes {
			total += annCount(v.classes[i].Annotations, d.Name)
			for j := range v.classes[i].Functions {
				total += annCount(v.classes[i].Functions[j].Annotations, d.Name)
			}
		}
		for i := range v.funcs {
			total += annCount(v.funcs[i].Annotations, d.Name)
		}
		if extra := total - annCount(own, d.Name); extra > 0 {
			c.bad("py/decorator-under-other-owner/"+kind, "decorator @%s of %s is also listed on %d other declaration(s)", d.Name, ownerWhat, extra)
		}
	}
}

func (c *gpChecker) pyModule(m *gopygen.PyModule, v gpPyView, flat bool) {
	// own >= 0: every entry but the class's own one; own < 0: every entry under another name
	classFuncs := func(name, exceptClass string, own int) (n int, where string) {
		for i := range v.classes {
			if own >= 0 && i == own || own < 0 && v.classes[i].NodeName == exceptClass {
				continue
			}
			for _, fn := range v.classes[i].Functions {
				if fn.Name == name {
					n++
					where = v.classes[i].NodeName
				}
			}
		}
		return
	}
	topLevel := func(name string) (n int, node *GPFunction) {
		for i := range v.funcs {
			if v.funcs[i].Name == name {
				n++
				node = &v.funcs[i]
			}
		}
		return
	}
	for _, cl := range m.Classes() {
		what := "class " + cl.Name
		var es []int
		for i := range v.classes {
			if v.classes[i].NodeName == cl.Name {
				es = append(es, i)
			}
		}
		own := -1
		if c.times("py_class", len(es), v.ms.wantOf(cl.Name), "py/class", "", what) {
			own = v.ms.entryOf(cl, es)
		}
		if own >= 0 {
			c.pyDecos("class", cl.Decos, v.classes[own].Annotations, what, v, nil)
		}
		for _, me := range cl.Methods() {
			mwhat := fmt.Sprintf("method %s of %s", me.Name, what)
			if own >= 0 {
				n := 0
				var node *GPFunction
				for i := range v.classes[own].Functions {
					if v.classes[own].Functions[i].Name == me.Name {
						n++
						node = &v.classes[own].Functions[i]
					}
				}
				if c.once("py_method", n, "py/method", "", mwhat) {
					c.pyDecos("method", me.Decos, node.Annotations, mwhat, v, node)
				}
			}
			if n, where := classFuncs(me.Name, cl.Name, own); n > 0 {
				c.bad("py/method-under-other-class", "%s is listed under class %s", mwhat, where)
			}
			if n, _ := topLevel(me.Name); n > 0 {
				c.bad("py/method-listed-as-function", "%s is listed as a module-level function", mwhat)
			}
		}
	}
	for _, fn := range m.Funcs() {
		what := "function " + fn.Name
		n, node := topLevel(fn.Name)
		want := v.ms.wantOf(fn.Name)
		if flat && !gpExported(fn.Name) {
			c.st.Info["flat_lowercase_functions_planted"]++
			if n > want {
				c.bad("py/function-duplicated", "%s is listed %d times", what, n)
			}
			if n == want {
				c.st.Info["flat_lowercase_functions_listed"]++
			}
		} else if c.times("py_func", n, want, "py/function", "", what) && !flat {
			c.pyDecos("function", fn.Decos, node.Annotations, what, v, node)
		}
		if k, where := classFuncs(fn.Name, "", -1); k > 0 {
			c.bad("py/function-listed-as-method", "%s is listed as a method of class %s", what, where)
		}
	}
}

func (c *gpChecker) pyImports(m *gopygen.PyModule, imports []GPImport) {
	bareSources := map[string]int{}
	for _, im := range m.Imports() {
		if im.From && strings.Trim(im.Source, ".") == "" {
			bareSources[im.Source]++
		}
	}
	checkedBare := map[string]bool{}
	for _, im := range m.Imports() {
		if !im.From {
			for k, mod := range im.Mods {
				n := 0
				for _, o := range imports {
					if o.Source == mod.Name {
						n++
					}
				}
				sfx := ""
				if k > 0 {
					sfx = "/2nd+-module-of-one-import-statement"
				}
				c.once("py_import", n, "py/import", sfx, fmt.Sprintf("module %s of `%s`", mod.Name, im.String()))
			}
			continue
		}
		// from-import: the source
		n := 0
		for _, o := range imports {
			if o.Source == im.Source {
				n++
			}
		}
		if want, bare := bareSources[im.Source]; bare {
			// ".", "..": several statements may legitimately share the source; demand as many entries as statements
			if !checkedBare[im.Source] {
				checkedBare[im.Source] = true
				c.st.Planted["py_from_import"] += want
				if n == want {
					c.st.Matched["py_from_import"] += want
				} else if n < want {
					c.bad("py/from-import-missing", "%d statement(s) `from %s import ...` written, %d listed", want, im.Source, n)
				} else {
					c.bad("py/from-import-duplicated", "%d statement(s) `from %s import ...` written, %d listed", want, im.Source, n)
				}
			}
		} else {
			c.once("py_from_import", n, "py/from-import", "", fmt.Sprintf("`%s`", im.String()))
		}
		// the imported names: exactly once, under their own source
		for _, nm := range im.Names {
			ownN, otherN := 0, 0
			for _, o := range imports {
				for _, u := range o.UsageName {
					hit := u == nm.Name
					if nm.Alias != "" && (u == nm.Alias || u == nm.Name+" as "+nm.Alias) {
						hit = true
					}
					if !hit {
						continue
					}
					if o.Source == im.Source {
						ownN++
					} else {
						otherN++
					}
				}
			}
			sfx := ""
			if nm.Alias != "" {
				sfx = "/name-imported-with-as"
			}
			c.once("py_from_import_name", ownN, "py/from-import-name", sfx, fmt.Sprintf("name %s of `%s`", nm.Name, im.String()))
			if otherN > 0 {
				c.bad("py/from-import-name-under-other-source", "name %s of `%s` is listed under another source", nm.Name, im.String())
			}
		}
	}
}

// CheckPyContainer checks the per-file model of one Python module.
func CheckPyContainer(m *gopygen.PyModule, got *GPContainer) ([]GPMismatch, *GPStats) {
	c := &gpChecker{st: newGPStats(), suffix: pySizeSuffix(m)}
	v := gpPyView{classes: got.DataStructures}
	for _, mem := range got.Members {
		v.funcs = append(v.funcs, mem.FunctionNodes...)
	}
	c.pyModule(m, v, false)
	c.pyImports(m, got.Imports)
	// nested defs: only counted
	nested := map[string]bool{}
	for _, cl := range m.Classes() {
		for _, me := range cl.Methods() {
			for _, n := range me.NestedNames() {
				nested[n] = true
			}
		}
	}
	for _, fn := range m.Funcs() {
		for _, n := range fn.NestedNames() {
			nested[n] = true
		}
	}
	c.st.Info["py_nested_defs_planted"] += len(nested)
	for i := range v.funcs {
		if nested[v.funcs[i].Name] {
			c.st.Info["py_nested_defs_listed_as_function"]++
		}
	}
	for i := range v.classes {
		for _, fn := range v.classes[i].Functions {
			if nested[fn.Name] {
				c.st.Info["py_nested_defs_listed_as_method"]++
			}
		}
	}
	return c.ms, c.st
}

// CheckPyFlat checks the flattened model (CommonAnalysis result / pydeps.json) of a directory of modules.
func CheckPyFlat(where string, mods []*gopygen.PyModule, ds []GPDataStruct) ([]GPMismatch, *GPStats) {
	c := &gpChecker{where: where, st: newGPStats(), suffix: pySizeSuffix(mods...)}
	v := gpPyView{classes: ds}
	for _, d := range ds {
		v.funcs = append(v.funcs, GPFunction{Name: d.NodeName})
	}
	// the same class / function name may be declared in several modules of the scan
	byName := map[string][]gpPlanted{}
	for _, m := range mods {
		for _, cl := range m.Classes() {
			p := gpPlanted{ptr: cl}
			for _, d := range cl.Decos {
				p.members = append(p.members, d.Name)
			}
			for _, me := range cl.Methods() {
				p.members = append(p.members, me.Name)
			}
			byName[cl.Name] = append(byName[cl.Name], p)
		}
		for _, fn := range m.Funcs() {
			byName[fn.Name] = append(byName[fn.Name], gpPlanted{ptr: fn})
		}
	}
	v.ms = newGPMultiset(byName, ds)
	for _, n := range v.ms.want {
		if n > 1 {
			c.st.Info["same_name_declarations_planted"] += n
		}
	}
	for _, m := range mods {
		c.pyModule(m, v, true)
	}
	return c.ms, c.st
}
