package oracle

// Reference model for C13 ("architecture graph edges are exactly the type dependencies in the model").
// Everything here is derived from the statement and from the planted ground truth of gen/archgen; nothing
// is taken from coca. The DOT reader uses the third-party parser github.com/awalterschulze/gographviz as
// the judge of well-formedness and walks its syntax tree.

import (
	"fmt"
	"sort"
	"strings"

	"github.com/awalterschulze/gographviz"
	"github.com/awalterschulze/gographviz/ast"

	"verifharness/gen/archgen"
	"verifharness/obs"
)

// ArchGraph is a directed graph over names.
type ArchGraph struct {
	Nodes map[string]bool
	Edges map[obs.Edge]bool
	// Why: for the type-level graph, the kinds of planted relations that justify an edge
	// (implements, extends, field, call), in that order.
	Why map[obs.Edge][]string
	// Outside: planted relations from a node to a name that is not a node (non-project types, Main,
	// unresolved names), and non-edges of interest (self calls, calls made by `main`). Used only to NAME a
	// mismatch, never to decide one.
	Outside  map[obs.Edge]bool
	SelfCall map[string]bool
	MainCall map[obs.Edge]bool
}

func newArchGraph() *ArchGraph {
	return &ArchGraph{Nodes: map[string]bool{}, Edges: map[obs.Edge]bool{}, Why: map[obs.Edge][]string{},
		Outside: map[obs.Edge]bool{}, SelfCall: map[string]bool{}, MainCall: map[obs.Edge]bool{}}
}

func (g *ArchGraph) addWhy(e obs.Edge, kind string) {
	g.Edges[e] = true
	for _, k := range g.Why[e] {
		if k == kind {
			return
		}
	}
	g.Why[e] = append(g.Why[e], kind)
}

// ArchExpected is the graph of the statement: one node per project type except the entry class Main; an
// edge A -> B between two nodes exactly when A implements or extends B, has a field whose type resolves to
// B, or a method of A other than main calls a method of a project type B different from A.
func ArchExpected(m *archgen.Model) *ArchGraph {
	g := newArchGraph()
	for _, t := range m.Types {
		if !t.IsMain() {
			g.Nodes[t.Full()] = true
		}
	}
	for _, t := range m.Types {
		if t.IsMain() {
			continue
		}
		a := t.Full()
		rel := func(r archgen.Ref, kind string) {
			b := r.Full()
			if g.Nodes[b] {
				g.addWhy(obs.Edge{From: a, To: b}, kind)
			} else {
				g.Outside[obs.Edge{From: a, To: b}] = true
			}
		}
		for _, r := range t.Implements {
			rel(r, "implements")
		}
		if t.Extends != nil {
			rel(*t.Extends, "extends")
		}
		for _, r := range t.Fields {
			rel(r, "field")
		}
		for _, me := range t.Methods {
			for _, r := range me.Calls {
				b := r.Full()
				switch {
				case me.Name == "main":
					if g.Nodes[b] && b != a {
						g.MainCall[obs.Edge{From: a, To: b}] = true
					}
				case b == a:
					g.SelfCall[a] = true
				case g.Nodes[b]:
					g.addWhy(obs.Edge{From: a, To: b}, "call")
				default:
					g.Outside[obs.Edge{From: a, To: b}] = true
				}
			}
		}
	}
	return g
}

// ArchMerge kinds: the package of a type, and the top-level segment of the package of a type.
const (
	MergeHeader  = "header"  // type -> its package
	MergePackage = "package" // type -> first segment of its package
)

// ArchTypeMerge gives the merge function on the project types from the ground truth (not by cutting
// strings: the generator knows the package of every type).
func ArchTypeMerge(m *archgen.Model, kind string) map[string]string {
	f := map[string]string{}
	for _, t := range m.Types {
		switch kind {
		case MergeHeader:
			f[t.Full()] = t.Pkg
		default:
			f[t.Full()] = strings.SplitN(t.Pkg, ".", 2)[0]
		}
	}
	return f
}

// ArchTopOfPackages: merge function on package names with at least two segments -> first segment.
func ArchTopOfPackages(pkgs []string) map[string]string {
	f := map[string]string{}
	for _, p := range pkgs {
		f[p] = strings.SplitN(p, ".", 2)[0]
	}
	return f
}

// nameMerge is the same function on arbitrary dotted names; used only to name mismatches.
func nameMerge(kind, name string) string {
	switch kind {
	case MergeHeader:
		if i := strings.LastIndex(name, "."); i >= 0 {
			return name[:i]
		}
		return name
	default:
		if i := strings.Index(name, "."); i >= 0 {
			return name[:i]
		}
		return name
	}
}

// ArchQuotient is the quotient of g by f without self-loops.
func ArchQuotient(g *ArchGraph, f map[string]string, kind string) *ArchGraph {
	q := newArchGraph()
	for n := range g.Nodes {
		q.Nodes[f[n]] = true
	}
	for e := range g.Edges {
		a, b := f[e.From], f[e.To]
		if a != b {
			q.Edges[obs.Edge{From: a, To: b}] = true
		}
	}
	for e := range g.Outside {
		q.Outside[obs.Edge{From: f[e.From], To: nameMerge(kind, e.To)}] = true
	}
	return q
}

func sortedNodes(m map[string]bool) []string {
	var out []string
	for k := range m {
		out = append(out, k)
	}
	sort.Strings(out)
	return out
}

// keyCollision: another expected edge has the same From+To concatenation.
// The partner is another expected edge, or a planted relation that leaves the node set (it is merged into the
// same map), and it must have been observed where it is observable: a map keyed by the concatenation keeps
// exactly one of the two. allRel is nil when only drawn edges can be seen (DOT).
func (g *ArchGraph) keyCollision(e obs.Edge, seen map[obs.Edge]bool, allRel map[obs.Edge]bool) (obs.Edge, bool) {
	for _, o := range g.sortedEdges() {
		if o != e && o.From+o.To == e.From+e.To && seen[o] {
			return o, true
		}
	}
	var outs []obs.Edge
	for o := range g.Outside {
		outs = append(outs, o)
	}
	for _, o := range sortEdges(outs) {
		if o != e && o.From != o.To && o.From+o.To == e.From+e.To && (allRel == nil || allRel[o]) {
			return o, true
		}
	}
	return obs.Edge{}, false
}

func (g *ArchGraph) sortedEdges() []obs.Edge {
	var es []obs.Edge
	for e := range g.Edges {
		es = append(es, e)
	}
	sort.Slice(es, func(i, j int) bool {
		if es[i].From != es[j].From {
			return es[i].From < es[j].From
		}
		return es[i].To < es[j].To
	})
	return es
}

func sortEdges(es []obs.Edge) []obs.Edge {
	out := append([]obs.Edge(nil), es...)
	sort.Slice(out, func(i, j int) bool {
		if out[i].From != out[j].From {
			return out[i].From < out[j].From
		}
		return out[i].To < out[j].To
	})
	return out
}

// ---- types of the default package
//
// The statement counts a type of the default package like any other ("one node per project type"), and its
// package function sends all of them to one group (the default package). What it does not fix is the SPELLING
// of such a node (".B" as Package+"."+Name gives, or "B") and of that group ("" or any other name), and how
// either is drawn. The reference model spells them ".B" and ""; ArchAliases reads the spelling the observed
// graph uses for its own nodes, and only that spelling counts when a relation end is matched against a node.

// ArchAliases maps observed node names to reference names: stage "" - a dot-free name B when ".B" is an
// expected node that is not itself present; merged stages - the single observed node that is no expected
// group, when the expected default group "" is not present under that name.
func ArchAliases(stage string, want *ArchGraph, gotNodes []string) map[string]string {
	alias := map[string]string{}
	got := map[string]bool{}
	for _, n := range gotNodes {
		got[n] = true
	}
	if stage == "" {
		for _, n := range gotNodes {
			if n != "" && !strings.Contains(n, ".") && want.Nodes["."+n] && !want.Nodes[n] && !got["."+n] {
				alias[n] = "." + n
			}
		}
		return alias
	}
	if want.Nodes[""] && !got[""] {
		var extras []string
		for _, n := range gotNodes {
			if !want.Nodes[n] {
				extras = append(extras, n)
			}
		}
		if len(extras) == 1 {
			alias[extras[0]] = ""
		}
	}
	return alias
}

// ArchRename applies the aliases to node names and to relation ends that are literally one of the aliased
// node names; a relation end that uses the reference spelling while the node is spelled otherwise is mapped
// to a name outside the graph.
func ArchRename(alias map[string]string, nodes []string, rel []obs.Edge) ([]string, []obs.Edge) {
	if len(alias) == 0 {
		return nodes, rel
	}
	taken := map[string]bool{} // reference names whose node is spelled differently in this graph
	for _, c := range alias {
		taken[c] = true
	}
	re := func(s string) string {
		if c, ok := alias[s]; ok {
			return c
		}
		if taken[s] {
			// the graph spells this node differently: a relation end in the reference spelling does not
			// reach it (it is some name that is no node of the graph)
			return "\x00not-the-node:" + s
		}
		return s
	}
	var ns []string
	for _, n := range nodes {
		ns = append(ns, re(n))
	}
	var es []obs.Edge
	for _, e := range rel {
		es = append(es, obs.Edge{From: re(e.From), To: re(e.To)})
	}
	return ns, es
}

// ArchOpenInDot: names whose drawing the statement leaves open (nodes of the default package under either
// spelling; the default group under its reference or observed name). Leaves with these names, edges that
// touch them, and their absence are not judged by CheckArchDot.
func ArchOpenInDot(stage string, want *ArchGraph, alias map[string]string) map[string]bool {
	open := map[string]bool{}
	if stage == "" {
		for n := range want.Nodes {
			if strings.HasPrefix(n, ".") {
				open[n] = true
				open[n[1:]] = true
			}
		}
		return open
	}
	if want.Nodes[""] {
		open[""] = true
		for a := range alias {
			open[a] = true
		}
	}
	return open
}

// CheckArchGraph decides node-set equality and equality of the observed relation restricted to pairs of
// expected nodes with the expected edge set. stage is "" for the type-level graph, otherwise a prefix such
// as "mergeH" that names the quotient under test. Relations that leave the node set (to non-project types,
// to Main) are not judged here: the statement speaks about edges between two nodes.
func CheckArchGraph(stage string, want *ArchGraph, gotNodes []string, gotRel []obs.Edge) []Mismatch {
	var out []Mismatch
	pre := ""
	if stage != "" {
		pre = stage + "-"
	}
	got := map[string]bool{}
	for _, n := range gotNodes {
		got[n] = true
	}
	for _, n := range sortedNodes(got) {
		if !want.Nodes[n] {
			sig := pre + "node-unexpected"
			if stage == "" && (n == "Main" || strings.HasSuffix(n, ".Main")) {
				sig = "node-main-not-excluded"
			}
			out = append(out, Mismatch{sig, fmt.Sprintf("%sgraph has node %q, expected nodes are %v", pre, n, sortedNodes(want.Nodes))})
		}
	}
	for _, n := range sortedNodes(want.Nodes) {
		if !got[n] {
			out = append(out, Mismatch{pre + "node-missing", fmt.Sprintf("%sgraph lacks node %q (observed %v)", pre, n, sortedNodes(got))})
		}
	}
	seen := map[obs.Edge]bool{}
	allRel := map[obs.Edge]bool{}
	for _, e := range sortEdges(gotRel) {
		allRel[e] = true
		if !want.Nodes[e.From] || !want.Nodes[e.To] {
			continue
		}
		seen[e] = true
		if want.Edges[e] {
			continue
		}
		sig := pre + "edge-spurious"
		why := ""
		switch {
		case stage == "" && e.From == e.To && want.SelfCall[e.From]:
			sig, why = "edge-spurious-selfcall", " (the type only calls its own methods)"
		case stage == "" && want.MainCall[e]:
			sig, why = "edge-spurious-call-from-main-method", " (only a method named main calls it)"
		case stage != "" && e.From == e.To:
			sig = pre + "edge-spurious-selfloop"
		case stage != "" && want.Outside[e]:
			sig, why = pre+"edge-spurious-from-relation-to-non-node", " (a type of the source group only relates to a NON-project name that merges to the target's name)"
		}
		out = append(out, Mismatch{sig, fmt.Sprintf("%sgraph has edge %q -> %q between two nodes which the model does not justify%s", pre, e.From, e.To, why)})
	}
	for _, e := range want.sortedEdges() {
		if seen[e] {
			continue
		}
		sig := pre + "edge-missing"
		extra := ""
		if stage == "" {
			sig += "-" + want.Why[e][0]
			extra = fmt.Sprintf(" (planted as %v)", want.Why[e])
		} else if o, ok := want.keyCollision(e, seen, allRel); ok {
			sig += "-key-collision"
			extra = fmt.Sprintf(" (the observed relation %q -> %q has the same From+To concatenation %q)", o.From, o.To, o.From+o.To)
		}
		out = append(out, Mismatch{sig, fmt.Sprintf("%sgraph lacks edge %q -> %q%s", pre, e.From, e.To, extra)})
	}
	return dedupe(out)
}

// ---- DOT

// ArchLeaf is one node statement of the DOT with the labels of the sub-graphs around it.
type ArchLeaf struct {
	ID    string
	Path  []string // labels of the enclosing sub-graphs, outermost first
	Label string
}

// Full is the name the leaf stands for: sub-graph labels and own label joined by dots.
func (l ArchLeaf) Full() string {
	return strings.Join(append(append([]string{}, l.Path...), l.Label), ".")
}

type ArchDot struct {
	Directed bool
	Leaves   []ArchLeaf
	Edges    []obs.Edge // by node id
	// EdgeOps counts edge operators: "->" and "--"
	Arrow, Line int
}

func unquoteDot(s string) string {
	if len(s) >= 2 && s[0] == '"' && s[len(s)-1] == '"' {
		s = s[1 : len(s)-1]
		s = strings.ReplaceAll(s, `\"`, `"`)
	}
	return s
}

// ParseArchDot parses the text with gographviz and walks the syntax tree.
func ParseArchDot(dot string) (*ArchDot, error) {
	g, err := gographviz.Parse([]byte(dot))
	if err != nil {
		return nil, err
	}
	d := &ArchDot{Directed: g.Type == ast.DIGRAPH}
	var walk func(stmts ast.StmtList, path []string)
	labelOf := func(stmts ast.StmtList) (string, bool) {
		for _, s := range stmts {
			switch a := s.(type) {
			case *ast.Attr:
				if a.Field.String() == "label" {
					return unquoteDot(a.Value.String()), true
				}
			case ast.GraphAttrs:
				if v, ok := ast.AttrList(a).GetMap()["label"]; ok {
					return unquoteDot(v), true
				}
			}
		}
		return "", false
	}
	nodeStmt := func(ns *ast.NodeStmt, path []string) {
		attrs := ns.Attrs.GetMap()
		d.Leaves = append(d.Leaves, ArchLeaf{ID: unquoteDot(ns.NodeID.GetID().String()), Path: append([]string(nil), path...), Label: unquoteDot(attrs["label"])})
	}
	locID := func(l ast.Location, path []string) string {
		if sg, ok := l.(*ast.SubGraph); ok {
			walk(sg.StmtList, path)
			return "<subgraph " + sg.ID.String() + ">"
		}
		return unquoteDot(l.GetID().String())
	}
	edgeStmt := func(es *ast.EdgeStmt, path []string) {
		src := locID(es.Source, path)
		for _, rh := range es.EdgeRHS {
			dst := locID(rh.Destination, path)
			if bool(rh.Op) {
				d.Arrow++
			} else {
				d.Line++
			}
			d.Edges = append(d.Edges, obs.Edge{From: src, To: dst})
			src = dst
		}
	}
	walk = func(stmts ast.StmtList, path []string) {
		for _, s := range stmts {
			switch x := s.(type) {
			case *ast.NodeStmt:
				nodeStmt(x, path)
			case ast.NodeStmt:
				nodeStmt(&x, path)
			case *ast.EdgeStmt:
				edgeStmt(x, path)
			case ast.EdgeStmt:
				edgeStmt(&x, path)
			case *ast.SubGraph:
				lbl, _ := labelOf(x.StmtList)
				walk(x.StmtList, append(append([]string(nil), path...), lbl))
			}
		}
	}
	walk(g.StmtList, nil)
	return d, nil
}

func isSegPrefix(a, b string) bool { return a != b && strings.HasPrefix(b, a+".") }

// CheckArchDot decides the DOT clauses against the graph `want` of the stage under test and the set of
// included node names (the include filter applied to want.Nodes):
//   - every leaf stands for an included node, placed under sub-graphs labelled with its path segments
//     (the leaf's name IS the join of those labels, so a misplaced leaf is an unknown name);
//   - every included node is shown exactly once. Exception, left open by the statement: a node whose name
//     is a segment-prefix of another included node (a type named like a package; after merging, a package
//     that has sub-packages) is not required to be shown, but if shown it is subject to all other clauses;
//   - every edge joins two declared leaves, and the edge set equals want.Edges restricted to the shown nodes;
//   - names in `open` (nodes of the default package, see ArchOpenInDot) are exempt from all of the above.
func CheckArchDot(stage string, want *ArchGraph, included map[string]bool, open map[string]bool, d *ArchDot) []Mismatch {
	var out []Mismatch
	pre := "dot-"
	if stage != "" {
		pre = "dot-" + stage + "-"
	}
	count := map[string]int{}
	idFull := map[string]string{}
	idCount := map[string]int{}
	for _, l := range d.Leaves {
		full := l.Full()
		count[full]++
		idCount[l.ID]++
		idFull[l.ID] = full
		switch {
		case open[full]:
			// a node of the default package: how it is drawn is left open
		case !want.Nodes[full]:
			out = append(out, Mismatch{pre + "node-unknown", fmt.Sprintf("DOT shows leaf %s = %q (sub-graph labels %v, label %q), which is no node of the graph", l.ID, full, l.Path, l.Label)})
		case !included[full]:
			out = append(out, Mismatch{pre + "node-filtered-out-shown", fmt.Sprintf("DOT shows %q although the include filter rejects it", full)})
		}
	}
	for _, id := range sortedKeysInt(idCount) {
		if idCount[id] > 1 {
			out = append(out, Mismatch{pre + "node-duplicate", fmt.Sprintf("DOT declares node id %s %d times", id, idCount[id])})
		}
	}
	for _, full := range sortedKeysInt(count) {
		if count[full] > 1 && !open[full] {
			out = append(out, Mismatch{pre + "node-duplicate", fmt.Sprintf("DOT shows %q %d times", full, count[full])})
		}
	}
	inc := sortedNodes(included)
	for _, n := range inc {
		if count[n] > 0 || open[n] {
			continue
		}
		optional := false
		for _, o := range inc {
			if isSegPrefix(n, o) {
				optional = true
				break
			}
		}
		if !optional {
			out = append(out, Mismatch{pre + "node-missing", fmt.Sprintf("DOT does not show included node %q (shown: %v)", n, sortedKeysInt(count))})
		}
	}
	shown := map[string]bool{}
	for full := range count {
		if want.Nodes[full] && !open[full] {
			shown[full] = true
		}
	}
	seen := map[obs.Edge]bool{}
	for _, e := range d.Edges {
		f, okf := idFull[e.From]
		t, okt := idFull[e.To]
		if !okf || !okt {
			out = append(out, Mismatch{pre + "edge-undisplayed-endpoint", fmt.Sprintf("DOT edge %s -> %s: an endpoint is not a displayed node", e.From, e.To)})
			continue
		}
		if open[f] || open[t] {
			continue
		}
		ee := obs.Edge{From: f, To: t}
		seen[ee] = true
		if !want.Edges[ee] {
			sig := pre + "edge-spurious"
			why := ""
			switch {
			case f == t && stage != "":
				sig = pre + "edge-spurious-selfloop"
			case f == t && want.SelfCall[f]:
				sig, why = pre+"edge-spurious-selfcall", " (the type only calls its own methods)"
			case stage == "" && want.MainCall[ee]:
				sig, why = pre+"edge-spurious-call-from-main-method", " (only a method named main calls it)"
			case stage != "" && want.Outside[ee]:
				sig, why = pre+"edge-spurious-from-relation-to-non-node", " (a type of the source group only relates to a NON-project name that merges to the target's name)"
			}
			out = append(out, Mismatch{sig, fmt.Sprintf("DOT edge %q -> %q is not in the relation%s", f, t, why)})
		}
	}
	for _, e := range want.sortedEdges() {
		if shown[e.From] && shown[e.To] && !seen[e] {
			sig := pre + "edge-missing"
			extra := ""
			if stage != "" {
				if o, ok := want.keyCollision(e, seen, nil); ok {
					sig += "-key-collision"
					extra = fmt.Sprintf(" (the relation %q -> %q has the same From+To concatenation)", o.From, o.To)
				}
			}
			out = append(out, Mismatch{sig, fmt.Sprintf("DOT shows both %q and %q but not the edge between them%s", e.From, e.To, extra)})
		}
	}
	return dedupe(out)
}

func sortedKeysInt(m map[string]int) []string {
	var out []string
	for k := range m {
		out = append(out, k)
	}
	sort.Strings(out)
	return out
}
