package oracle

// Reference model for property C15 ("git summaries are consistent with the parsed history"), written from the
// statement, not from coca's code. No coca imports: adapters convert to and from the neutral types below.
//
// The fold replays a commit list keeping, per path that currently exists, {authors, revs, first-commit date}:
//   - a rename (`pfx{a => b}sfx` or `old => new`, the two notations of git's numstat) moves the record to the new name,
//   - any change adds the commit's author and rev to the record of its (new) path, creating the record if needed,
//   - a change with mode "delete" drops the record; a later creation of the same path starts a new record.

import (
	"fmt"
	"regexp"
	"sort"
	"strings"
)

type GitChange struct {
	Added, Deleted int
	File, Mode     string
}

type GitCommit struct {
	Rev, Author, Date, Message string
	Changes                    []GitChange
}

type GitMismatch struct{ Sig, Msg string }

// GitDecodeRename splits a numstat path. ok is false for a plain path.
func GitDecodeRename(file string) (old, new string, ok bool) {
	arrow := strings.Index(file, " => ")
	if arrow < 0 {
		return file, file, false
	}
	o := strings.Index(file, "{")
	c := strings.LastIndex(file, "}")
	if o >= 0 && o < arrow && c > arrow {
		pfx, a, b, sfx := file[:o], file[o+1:arrow], file[arrow+4:c], file[c+1:]
		glue := func(mid string) string {
			s := sfx
			if mid == "" { // `dir/{ => sub}/f` / `dir/{sub => }/f`: the empty side leaves "dir/" + "/f"
				s = strings.TrimPrefix(s, "/")
			}
			return pfx + mid + s
		}
		return glue(a), glue(b), true
	}
	return file[:arrow], file[arrow+4:], true
}

func gitRenameShape(file string) string {
	arrow := strings.Index(file, " => ")
	if arrow < 0 {
		return "plain"
	}
	o := strings.Index(file, "{")
	c := strings.LastIndex(file, "}")
	if o < 0 || c < 0 {
		return "full-path"
	}
	switch {
	case file[o+1:arrow] == "":
		return "brace-empty-old"
	case file[arrow+4:c] == "":
		return "brace-empty-new"
	}
	return "brace"
}

type gitFileRec struct {
	authors, revs map[string]bool
	first         string
	tags          []string // how the record got here: rename notation shapes, "recreated" (only narrows signatures)
}

func (f *gitFileRec) tag(t string) {
	for _, x := range f.tags {
		if x == t {
			return
		}
	}
	f.tags = append(f.tags, t)
}

// tagString names the lineage by its most specific event (a fixed priority keeps signatures few and stable).
func (f *gitFileRec) tagString() string {
	for _, t := range gitShapePriority {
		for _, x := range f.tags {
			if x == t {
				return "lineage-has-" + t
			}
		}
	}
	return "never-renamed"
}

var gitShapePriority = []string{"created-twice", "brace-empty-new", "brace-empty-old", "full-path", "brace", "recreated"}

func gitShapeRank(s string) int {
	for i, t := range gitShapePriority {
		if t == s {
			return i
		}
	}
	return len(gitShapePriority)
}

var gitCCRe = regexp.MustCompile(`^([a-z]+)(\([^()]*\))?: .+$`)

// GitCCType is the conventional-commit type of a subject ("" if the subject is not of the form `type(scope)?: text`).
func GitCCType(subject string) string {
	if m := gitCCRe.FindStringSubmatch(subject); m != nil {
		return m[1]
	}
	return ""
}

// GitExpect is everything the statement fixes for one history.
type GitExpect struct {
	Live        map[string]*gitFileRec
	Top         map[string][2]int // author -> commits, added-deleted
	Commits     int
	Authors     int
	RenameFree  bool
	PathsLo     int // distinct paths at which a file came into being (a rename carries the identity over)
	PathsHi     int // distinct strings in the change lists
	ChangeMap   map[string]map[string]int
	changeShape map[string]string // type+"\x00"+path -> notation through which it was touched (signatures only)
	everSeen    map[string]bool   // every path that existed at some time (signatures only)
	Malformed   string            // non-empty: the list is not a replayable history (see GitFold)
}

// GitFold computes the expectation. A list is "malformed" (and then decides nothing about team summary / code age) if
// inside one commit a path occurs twice, a rename source does not exist or its target does, or a modified path does
// not exist (a second create of an existing path and a second delete of a deleted one are what merged branches print): such lists are outside what git prints for a history that starts at its root.
func GitFold(commits []GitCommit) *GitExpect {
	e := &GitExpect{Live: map[string]*gitFileRec{}, Top: map[string][2]int{}, ChangeMap: map[string]map[string]int{}, changeShape: map[string]string{}, everSeen: map[string]bool{}, RenameFree: true}
	deletedOnce := map[string]bool{}
	strs := map[string]bool{}
	started := map[string]bool{} // paths at which a record was ever started
	bad := func(format string, a ...interface{}) {
		if e.Malformed == "" {
			e.Malformed = fmt.Sprintf(format, a...)
		}
	}
	for _, c := range commits {
		e.Commits++
		top := e.Top[c.Author]
		top[0]++
		typ := GitCCType(c.Message)
		inCommit := map[string]bool{}
		for _, ch := range c.Changes {
			top[1] += ch.Added - ch.Deleted
			strs[ch.File] = true
			old, path, isRen := GitDecodeRename(ch.File)
			if inCommit[path] || (isRen && inCommit[old]) {
				bad("commit %s touches %q twice", c.Rev, path)
			}
			inCommit[path] = true
			e.everSeen[path] = true
			if isRen {
				inCommit[old] = true
				e.RenameFree = false
				rec, ok := e.Live[old]
				if !ok {
					bad("commit %s renames %q, which does not exist", c.Rev, old)
				}
				if _, clash := e.Live[path]; clash {
					bad("commit %s renames onto existing %q", c.Rev, path)
				}
				if ok {
					delete(e.Live, old)
					rec.tag(gitRenameShape(ch.File))
					e.Live[path] = rec
				}
			}
			rec := e.Live[path]
			switch {
			case rec == nil:
				if ch.Mode != "create" && !isRen && !(ch.Mode == "delete" && deletedOnce[path]) {
					bad("commit %s changes %q (mode %q), which does not exist", c.Rev, path, ch.Mode)
				}
				rec = &gitFileRec{authors: map[string]bool{}, revs: map[string]bool{}, first: c.Date}
				if deletedOnce[path] {
					rec.tag("recreated")
				}
				started[path] = true
				e.Live[path] = rec
			case ch.Mode == "create":
				// a second "create" of a path that still exists (the file was added on two branches that were merged;
				// the linear log shows both): the file still exists, this commit and its author touched it
				rec.tag("created-twice")
			}
			rec.authors[c.Author] = true
			rec.revs[c.Rev] = true
			if ch.Mode == "delete" {
				delete(e.Live, path)
				deletedOnce[path] = true
			}
			if typ != "" {
				if e.ChangeMap[typ] == nil {
					e.ChangeMap[typ] = map[string]int{}
				}
				e.ChangeMap[typ][path]++
				if k := typ + "\x00" + path; e.changeShape[k] == "" || gitShapeRank(gitRenameShape(ch.File)) < gitShapeRank(e.changeShape[k]) {
					e.changeShape[k] = gitRenameShape(ch.File)
				}
			}
		}
		if typ != "" && e.ChangeMap[typ] == nil {
			e.ChangeMap[typ] = map[string]int{}
		}
		e.Top[c.Author] = top
	}
	e.Authors = len(e.Top)
	e.PathsLo, e.PathsHi = len(started), len(strs)
	return e
}

// ---------------------------------------------------------------------------------------------------------------
// checkers (one violation per table and case: the signature is taken from the first expected row that is wrong)

type GitTeamRow struct {
	Name          string
	Authors, Revs int
}

func gitSortedPaths(m map[string]*gitFileRec) []string {
	var ks []string
	for k := range m {
		ks = append(ks, k)
	}
	sort.Strings(ks)
	return ks
}

// CheckTeam: rows == {(path, |authors|, |revs|)} of the files that still exist, non-increasing in revs.
func (e *GitExpect) CheckTeam(rows []GitTeamRow) []GitMismatch {
	return e.checkRows("team", len(rows), func(i int) (string, string) {
		return rows[i].Name, fmt.Sprintf("authors=%d revs=%d", rows[i].Authors, rows[i].Revs)
	},
		func(r *gitFileRec) string { return fmt.Sprintf("authors=%d revs=%d", len(r.authors), len(r.revs)) },
		func() string {
			for i := 1; i < len(rows); i++ {
				if rows[i].Revs > rows[i-1].Revs {
					return fmt.Sprintf("row %d (%q, %d revisions) comes after row %d (%q, %d revisions)", i, rows[i].Name, rows[i].Revs, i-1, rows[i-1].Name, rows[i-1].Revs)
				}
			}
			return ""
		}, "order-not-non-increasing-in-revisions")
}

type GitAgeRow struct{ Name, Date string }

// CheckAge: rows == {(path, first-commit date)} of the files that still exist, oldest first (ties free).
func (e *GitExpect) CheckAge(rows []GitAgeRow) []GitMismatch {
	return e.checkRows("age", len(rows), func(i int) (string, string) { return rows[i].Name, rows[i].Date },
		func(r *gitFileRec) string { return r.first },
		func() string {
			prev := -1
			for i := range rows {
				if rows[i].Date == "?" { // a name the CLI table shows that is no existing file: reported as extra row
					continue
				}
				if prev >= 0 && rows[i].Date < rows[prev].Date {
					return fmt.Sprintf("row %d (%q, %s) comes after row %d (%q, %s)", i, rows[i].Name, rows[i].Date, prev, rows[prev].Name, rows[prev].Date)
				}
				prev = i
			}
			return ""
		}, "order-not-oldest-first")
}

func (e *GitExpect) checkRows(table string, n int, row func(int) (string, string), want func(*gitFileRec) string, order func() string, orderSig string) []GitMismatch {
	var out []GitMismatch
	got := map[string]string{}
	dup := ""
	for i := 0; i < n; i++ {
		name, val := row(i)
		if _, ok := got[name]; ok {
			dup = name
		}
		got[name] = val
	}
	var diffs []string
	sig := ""
	for _, p := range gitSortedPaths(e.Live) {
		rec := e.Live[p]
		g, ok := got[p]
		switch {
		case !ok:
			diffs = append(diffs, fmt.Sprintf("existing file %q (%s; %s) is not reported", p, want(rec), rec.tagString()))
			if sig == "" {
				sig = table + "/missing/" + rec.tagString()
			}
		case g != want(rec):
			diffs = append(diffs, fmt.Sprintf("%q: reported %s, history gives %s (%s)", p, g, want(rec), rec.tagString()))
			if sig == "" {
				sig = table + "/value/" + rec.tagString()
			}
		}
	}
	var extra []string
	for name := range got {
		if _, ok := e.Live[name]; !ok {
			extra = append(extra, name)
		}
	}
	sort.Strings(extra)
	for _, name := range extra {
		why := "is no path of the history at all"
		cls := "not-a-path-of-the-history"
		if e.everSeen[name] {
			why, cls = "does not exist any more (deleted or renamed away)", "path-no-longer-exists"
		}
		diffs = append(diffs, fmt.Sprintf("%q (%s) is reported but %s", name, got[name], why))
		if sig == "" {
			sig = table + "/extra-row/" + cls
		}
	}
	if dup != "" {
		diffs = append(diffs, fmt.Sprintf("%q is reported twice", dup))
		if sig == "" {
			sig = table + "/duplicate-row"
		}
	}
	if sig != "" {
		out = append(out, GitMismatch{sig, strings.Join(diffs, "; ")})
	}
	if msg := order(); msg != "" {
		out = append(out, GitMismatch{table + "/" + orderSig, msg})
	}
	return out
}

type GitTopRow struct {
	Name           string
	Commits, Lines int
}

// CheckTop: per author (commits, sum added - sum deleted); the commit counts sum to the number of commits.
func (e *GitExpect) CheckTop(rows []GitTopRow) []GitMismatch {
	var out []GitMismatch
	sum := 0
	seen := map[string]bool{}
	for _, r := range rows {
		sum += r.Commits
		w, ok := e.Top[r.Name]
		switch {
		case !ok:
			out = append(out, GitMismatch{"top/unknown-author", fmt.Sprintf("author %q is reported (%d commits) but wrote no commit", r.Name, r.Commits)})
		case seen[r.Name]:
			out = append(out, GitMismatch{"top/duplicate-author", fmt.Sprintf("author %q is reported twice", r.Name)})
		default:
			if r.Commits != w[0] {
				out = append(out, GitMismatch{"top/commit-count", fmt.Sprintf("author %q: %d commits reported, the history has %d", r.Name, r.Commits, w[0])})
			}
			if r.Lines != w[1] {
				out = append(out, GitMismatch{"top/net-lines", fmt.Sprintf("author %q: net lines %d reported, sum(added)-sum(deleted) = %d", r.Name, r.Lines, w[1])})
			}
		}
		seen[r.Name] = true
	}
	for a := range e.Top {
		if !seen[a] {
			out = append(out, GitMismatch{"top/author-missing", fmt.Sprintf("author %q (%d commits) is not reported", a, e.Top[a][0])})
		}
	}
	if sum != e.Commits {
		out = append(out, GitMismatch{"top/commit-counts-do-not-sum", fmt.Sprintf("commit counts sum to %d, the history has %d commits", sum, e.Commits)})
	}
	if len(out) > 3 {
		out = out[:3]
	}
	return out
}

// CheckBasic: commits and authors exact; paths exact on rename-free histories, otherwise between the number of files
// (identity carried over a rename) and the number of distinct path strings in the change lists.
func (e *GitExpect) CheckBasic(commits, entities, authors int) []GitMismatch {
	var out []GitMismatch
	if commits != e.Commits {
		out = append(out, GitMismatch{"basic/commits", fmt.Sprintf("Commits = %d, the history has %d", commits, e.Commits)})
	}
	if authors != e.Authors {
		out = append(out, GitMismatch{"basic/authors", fmt.Sprintf("Authors = %d, the history has %d distinct authors", authors, e.Authors)})
	}
	if e.RenameFree && entities != e.PathsHi {
		out = append(out, GitMismatch{"basic/paths-rename-free", fmt.Sprintf("Entities = %d, the (rename-free) history touches %d distinct paths", entities, e.PathsHi)})
	}
	if !e.RenameFree && (entities < e.PathsLo || entities > e.PathsHi) {
		out = append(out, GitMismatch{"basic/paths-out-of-bounds", fmt.Sprintf("Entities = %d, outside [%d files, %d distinct path strings]", entities, e.PathsLo, e.PathsHi)})
	}
	return out
}

// CheckChangeMap: per conventional-commit type, per file (the path the commit leaves it at), the number of commits
// of that type touching it; a type whose commits exist has an entry.
func (e *GitExpect) CheckChangeMap(got map[string]map[string]int) []GitMismatch {
	var diffs []string
	sig := ""
	note := func(s, format string, a ...interface{}) {
		diffs = append(diffs, fmt.Sprintf(format, a...))
		if sig == "" {
			sig = s
		}
	}
	var types []string
	for t := range e.ChangeMap {
		types = append(types, t)
	}
	sort.Strings(types)
	for _, t := range types {
		g, ok := got[t]
		if !ok {
			note("changemap/type-missing", "type %q has commits but no entry", t)
			continue
		}
		var paths []string
		for p := range e.ChangeMap[t] {
			paths = append(paths, p)
		}
		sort.Strings(paths)
		for _, p := range paths {
			shape := e.changeShape[t+"\x00"+p]
			if n, ok := g[p]; !ok {
				note("changemap/file-missing/"+shape, "type %q: file %q (touched by %d such commits, last via %s notation) has no count", t, p, e.ChangeMap[t][p], shape)
			} else if n != e.ChangeMap[t][p] {
				note("changemap/count/"+shape, "type %q, file %q: %d reported, %d commits of that type touch it", t, p, n, e.ChangeMap[t][p])
			}
		}
		var extra []string
		for p := range g {
			if _, ok := e.ChangeMap[t][p]; !ok {
				extra = append(extra, p)
			}
		}
		sort.Strings(extra)
		for _, p := range extra {
			if strings.Contains(p, " => ") { // the key is a rename string, not a file: this names the class best
				sig = "changemap/key-is-rename-notation/" + gitRenameShape(p)
			}
			note("changemap/extra-key", "type %q: key %q (%d) is no file touched by a commit of that type", t, p, g[p])
		}
	}
	var gt []string
	for t := range got {
		if _, ok := e.ChangeMap[t]; !ok {
			gt = append(gt, t)
		}
	}
	sort.Strings(gt)
	for _, t := range gt {
		note("changemap/type-extra", "type %q is reported but no subject has that conventional-commit type", t)
	}
	if sig == "" {
		return nil
	}
	return []GitMismatch{{sig, strings.Join(diffs, "; ")}}
}

// FirstDate is the expected first-commit date of an existing file ("?" for a path that does not exist).
func (e *GitExpect) FirstDate(path string) string {
	if r, ok := e.Live[path]; ok {
		return r.first
	}
	return "?"
}

// CheckChangeMapTop judges a printed changelog summary that shows at most limit files per type (which ones is free):
// same types; every printed file carries its count; min(limit, #files) files are printed.
func (e *GitExpect) CheckChangeMapTop(got map[string]map[string]int, limit int) []GitMismatch {
	var diffs []string
	sig := ""
	note := func(s, format string, a ...interface{}) {
		diffs = append(diffs, fmt.Sprintf(format, a...))
		if sig == "" {
			sig = s
		}
	}
	var types []string
	for t := range e.ChangeMap {
		types = append(types, t)
	}
	sort.Strings(types)
	for _, t := range types {
		g, ok := got[t]
		if !ok {
			note("changemap/type-missing", "type %q has commits but is not printed", t)
			continue
		}
		want := len(e.ChangeMap[t])
		if want > limit {
			want = limit
		}
		if len(g) != want {
			note("changemap/printed-file-count", "type %q: %d files printed, expected %d (of %d)", t, len(g), want, len(e.ChangeMap[t]))
		}
		var ps []string
		for p := range g {
			ps = append(ps, p)
		}
		sort.Strings(ps)
		for _, p := range ps {
			if n, ok := e.ChangeMap[t][p]; !ok {
				if strings.Contains(p, " => ") {
					sig = "changemap/key-is-rename-notation/" + gitRenameShape(p)
				}
				note("changemap/extra-key", "type %q: printed key %q (%d) is no file touched by a commit of that type", t, p, g[p])
			} else if n != g[p] {
				note("changemap/count/"+e.changeShape[t+"\x00"+p], "type %q, file %q: %d printed, %d commits of that type touch it", t, p, g[p], n)
			}
		}
	}
	for t := range got {
		if _, ok := e.ChangeMap[t]; !ok {
			note("changemap/type-extra", "type %q is printed but no subject has that conventional-commit type", t)
		}
	}
	if sig == "" {
		return nil
	}
	return []GitMismatch{{sig, strings.Join(diffs, "; ")}}
}

// ---------------------------------------------------------------------------------------------------------------
// Tables cut to their first n rows (`coca git --full --size n`). A cut listing must still be a prefix of a correctly
// ordered full listing: n rows (or all, if fewer), every row a correct row, order as stated, and no omitted file may
// precede a shown one (ties may be cut anywhere). The basic summary is not a listing and is never cut (CheckBasicRows).

func gitMin(a, b int) int {
	if a < b {
		return a
	}
	return b
}

func (e *GitExpect) CheckTeamCut(rows []GitTeamRow, n int) []GitMismatch {
	var out []GitMismatch
	if want := gitMin(n, len(e.Live)); len(rows) != want {
		out = append(out, GitMismatch{"team-cut/row-count", fmt.Sprintf("%d rows shown with size %d, %d files exist", len(rows), n, len(e.Live))})
	}
	shown := map[string]bool{}
	minShown := 1 << 30
	for i, r := range rows {
		rec, ok := e.Live[r.Name]
		switch {
		case !ok:
			out = append(out, GitMismatch{"team-cut/extra-row", fmt.Sprintf("%q is shown but is no existing file", r.Name)})
			continue
		case shown[r.Name]:
			out = append(out, GitMismatch{"team-cut/duplicate-row", fmt.Sprintf("%q is shown twice", r.Name)})
		case r.Authors != len(rec.authors) || r.Revs != len(rec.revs):
			out = append(out, GitMismatch{"team-cut/value/" + rec.tagString(), fmt.Sprintf("%q: shown authors=%d revs=%d, history gives authors=%d revs=%d", r.Name, r.Authors, r.Revs, len(rec.authors), len(rec.revs))})
		}
		shown[r.Name] = true
		if i > 0 && r.Revs > rows[i-1].Revs {
			out = append(out, GitMismatch{"team-cut/order-not-non-increasing-in-revisions", fmt.Sprintf("row %d (%q, %d revisions) comes after %q (%d revisions)", i, r.Name, r.Revs, rows[i-1].Name, rows[i-1].Revs)})
		}
		if len(rec.revs) < minShown {
			minShown = len(rec.revs)
		}
	}
	for _, p := range gitSortedPaths(e.Live) {
		if !shown[p] && len(rows) > 0 && len(e.Live[p].revs) > minShown {
			out = append(out, GitMismatch{"team-cut/omitted-file-has-more-revisions", fmt.Sprintf("%q (%d revisions) is cut off while a file with %d revisions is shown", p, len(e.Live[p].revs), minShown)})
			break
		}
	}
	if len(out) > 3 {
		out = out[:3]
	}
	return out
}

// CheckAgeCut: names only (the CLI prints wall-clock dependent months); dates are the expected first-commit dates.
func (e *GitExpect) CheckAgeCut(names []string, n int) []GitMismatch {
	var out []GitMismatch
	if want := gitMin(n, len(e.Live)); len(names) != want {
		out = append(out, GitMismatch{"age-cut/row-count", fmt.Sprintf("%d rows shown with size %d, %d files exist", len(names), n, len(e.Live))})
	}
	shown := map[string]bool{}
	maxShown, prev := "", ""
	for i, name := range names {
		rec, ok := e.Live[name]
		if !ok {
			out = append(out, GitMismatch{"age-cut/extra-row", fmt.Sprintf("%q is shown but is no existing file", name)})
			continue
		}
		if shown[name] {
			out = append(out, GitMismatch{"age-cut/duplicate-row", fmt.Sprintf("%q is shown twice", name)})
		}
		shown[name] = true
		if prev != "" && rec.first < prev {
			out = append(out, GitMismatch{"age-cut/order-not-oldest-first", fmt.Sprintf("row %d (%q, first commit %s) comes after a file first committed %s", i, name, rec.first, prev)})
		}
		prev = rec.first
		if rec.first > maxShown {
			maxShown = rec.first
		}
	}
	for _, p := range gitSortedPaths(e.Live) {
		if !shown[p] && len(names) > 0 && e.Live[p].first < maxShown {
			out = append(out, GitMismatch{"age-cut/omitted-file-is-older", fmt.Sprintf("%q (first commit %s) is cut off while a file first committed %s is shown", p, e.Live[p].first, maxShown)})
			break
		}
	}
	if len(out) > 3 {
		out = out[:3]
	}
	return out
}

// CheckTopCut: min(n, #authors) distinct authors, each with its own numbers (which authors survive the cut is free:
// the statement fixes no order for this list).
func (e *GitExpect) CheckTopCut(rows []GitTopRow, n int) []GitMismatch {
	var out []GitMismatch
	if want := gitMin(n, len(e.Top)); len(rows) != want {
		out = append(out, GitMismatch{"top-cut/row-count", fmt.Sprintf("%d rows shown with size %d, the history has %d authors", len(rows), n, len(e.Top))})
	}
	seen := map[string]bool{}
	for _, r := range rows {
		w, ok := e.Top[r.Name]
		switch {
		case !ok:
			out = append(out, GitMismatch{"top-cut/unknown-author", fmt.Sprintf("author %q is shown but wrote no commit", r.Name)})
		case seen[r.Name]:
			out = append(out, GitMismatch{"top-cut/duplicate-author", fmt.Sprintf("author %q is shown twice", r.Name)})
		case r.Commits != w[0]:
			out = append(out, GitMismatch{"top-cut/commit-count", fmt.Sprintf("author %q: %d commits shown, the history has %d", r.Name, r.Commits, w[0])})
		case r.Lines != w[1]:
			out = append(out, GitMismatch{"top-cut/net-lines", fmt.Sprintf("author %q: net lines %d shown, sum(added)-sum(deleted) = %d", r.Name, r.Lines, w[1])})
		}
		seen[r.Name] = true
	}
	if len(out) > 3 {
		out = out[:3]
	}
	return out
}

// CheckBasicRows: the basic summary table must give all three figures of the statement whatever listing options are
// in force; rows maps the printed statistic names to their numbers.
func (e *GitExpect) CheckBasicRows(rows map[string]int) []GitMismatch {
	for _, k := range []string{"Commits", "Entities", "Authors"} {
		if _, ok := rows[k]; !ok {
			return []GitMismatch{{"basic/row-missing/" + k, fmt.Sprintf("the basic summary table has no %q row (rows shown: %d)", k, len(rows))}}
		}
	}
	return e.CheckBasic(rows["Commits"], rows["Entities"], rows["Authors"])
}
