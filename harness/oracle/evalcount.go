package oracle

// Reference model of C18: reference counts of a call model, the evaluation numbers of a generated Java
// project, and the number of concept words of a list of method names. No coca imports: every expectation is
// computed from what the generators planted. All exported identifiers carry the prefix Eval.

import (
	"fmt"
	"sort"
	"strings"

	"verifharness/gen/evalgen"
	"verifharness/gen/modelgen"
)

// EvalNormKey removes the leading dot a full name gets when the package is empty (".Greeter.greet"): the
// statement does not fix how a default-package method is spelled, only that caller side and declaring side
// agree, so keys are compared without it.
func EvalNormKey(k string) string { return strings.TrimPrefix(k, ".") }

func evalNormCounts(m map[string]int) map[string]int {
	out := map[string]int{}
	for k, v := range m {
		out[EvalNormKey(k)] += v
	}
	return out
}

// EvalCallCounts: declared method full name -> number of recorded call entries whose full name equals it.
// Methods without such an entry have no key.
func EvalCallCounts(m *modelgen.Model) map[string]int {
	declared := m.Declared()
	out := map[string]int{}
	for _, me := range m.Methods() {
		for _, c := range me.Calls {
			if c.Class == "" {
				continue // no receiver type recorded: the entry resolves to nothing
			}
			if _, ok := declared[c.Full()]; ok {
				out[c.Full()]++
			}
		}
	}
	return out
}

// EvalCheckCallMap compares an observed reference-count map with the model.
func EvalCheckCallMap(m *modelgen.Model, got map[string]int) []Mismatch {
	var out []Mismatch
	want := evalNormCounts(EvalCallCounts(m))
	got = evalNormCounts(got)
	declared := map[string]bool{}
	for k := range m.Declared() {
		declared[EvalNormKey(k)] = true
	}
	nDecl := map[string]int{} // overloads share one full name
	for _, me := range m.Methods() {
		nDecl[EvalNormKey(me.Full())]++
	}
	callers := map[string]map[string]bool{}
	places := map[string]map[string]bool{} // distinct (caller, line) places per callee
	ctorSites := map[string]int{}          // call sites written inside constructor functions
	for _, me := range m.Methods() {
		for _, c := range me.Calls {
			if c.Class != "" {
				k := EvalNormKey(c.Full())
				if callers[k] == nil {
					callers[k] = map[string]bool{}
					places[k] = map[string]bool{}
				}
				callers[k][me.Full()] = true
				places[k][fmt.Sprintf("%s:%d", me.Full(), c.Line)] = true
				if me.IsCtor {
					ctorSites[k]++
				}
			}
		}
	}
	for _, k := range evalSortedKeys(want) {
		g, ok := got[k]
		switch {
		case !ok:
			sig := "count-called-method-missing"
			if evalDefaultPkg(k) {
				sig = "count-called-method-missing-default-package"
			} else if ctorSites[k] == want[k] {
				sig = "count-called-method-missing-called-only-inside-constructors"
			}
			out = append(out, Mismatch{sig, fmt.Sprintf("%q has %d call site(s) in the model (%d of them inside constructors) but no entry in the count map", k, want[k], ctorSites[k])})
		case g < want[k]:
			sig := "count-too-low"
			if g == len(callers[k]) {
				sig = "count-too-low-equals-number-of-callers"
			} else if g == len(places[k]) {
				sig = "count-too-low-same-line-sites-merged"
			}
			if ctorSites[k] > 0 && g == want[k]-ctorSites[k] {
				sig = "count-too-low-constructor-call-sites-missing"
			}
			out = append(out, Mismatch{sig, fmt.Sprintf("%q: count %d, the model records %d call sites from %d caller(s)", k, g, want[k], len(callers[k]))})
		case g > want[k]:
			sig := "count-too-high"
			if nDecl[k] > 1 {
				sig = "count-too-high-name-declared-more-than-once"
			}
			out = append(out, Mismatch{sig, fmt.Sprintf("%q (declared %d time(s)): count %d, the model records %d call sites", k, nDecl[k], g, want[k])})
		}
	}
	for _, k := range evalSortedIntKeys(got) {
		if _, ok := want[k]; ok {
			continue
		}
		if declared[k] {
			out = append(out, Mismatch{"count-never-called-method-present", fmt.Sprintf("%q is declared but never called, yet the count map has %q: %d", k, k, got[k])})
		} else {
			out = append(out, Mismatch{"count-undeclared-name-present", fmt.Sprintf("count map has %q: %d, which is no declared method of the model", k, got[k])})
		}
	}
	return out
}

// EvalCallRecord is one recorded call entry of a code model in neutral form (used where the model is not a
// synthetic one but the output of the full pass over a generated project).
type EvalCallRecord struct {
	Caller, Callee string // full names
	Line, Col      int
	InCtor         bool // the calling function is a constructor
}

// EvalCountsFromRecords: declared full name -> number of recorded call entries naming it.
func EvalCountsFromRecords(declared []string, calls []EvalCallRecord) map[string]int {
	isDecl := map[string]bool{}
	for _, d := range declared {
		isDecl[d] = true
	}
	out := map[string]int{}
	for _, c := range calls {
		if isDecl[c.Callee] {
			out[c.Callee]++
		}
	}
	return out
}

// EvalCheckRecordedCounts compares a count map with the recorded call entries of the model it was built from.
// A count that equals the number of distinct (caller, callee, line) triples although several entries share a
// line gets its own signature.
func EvalCheckRecordedCounts(declared []string, calls []EvalCallRecord, got map[string]int) []Mismatch {
	var out []Mismatch
	want := evalNormCounts(EvalCountsFromRecords(declared, calls))
	got = evalNormCounts(got)
	isDecl := map[string]bool{}
	nDecl := map[string]int{}
	for _, d := range declared {
		isDecl[EvalNormKey(d)] = true
		nDecl[EvalNormKey(d)]++
	}
	perLine := map[string]map[string]bool{}
	ctorSites := map[string]int{}
	for _, c := range calls {
		k := EvalNormKey(c.Callee)
		if perLine[k] == nil {
			perLine[k] = map[string]bool{}
		}
		perLine[k][fmt.Sprintf("%s:%d", c.Caller, c.Line)] = true
		if c.InCtor && isDecl[k] {
			ctorSites[k]++
		}
	}
	for _, k := range evalSortedIntKeys(want) {
		g, ok := got[k]
		switch {
		case !ok:
			sig := "count-called-method-missing"
			if evalDefaultPkg(k) {
				sig = "count-called-method-missing-default-package"
			} else if ctorSites[k] == want[k] {
				sig = "count-called-method-missing-called-only-inside-constructors"
			}
			out = append(out, Mismatch{sig, fmt.Sprintf("%q has %d recorded call site(s) (%d of them inside constructors) but no entry in the count map", k, want[k], ctorSites[k])})
		case g < want[k]:
			sig := "count-too-low"
			if g == len(perLine[k]) {
				sig = "count-too-low-same-line-sites-merged"
			}
			if ctorSites[k] > 0 && g == want[k]-ctorSites[k] {
				sig = "count-too-low-constructor-call-sites-missing"
			}
			out = append(out, Mismatch{sig, fmt.Sprintf("%q: count %d, the model records %d call sites on %d distinct (caller, line) places", k, g, want[k], len(perLine[k]))})
		case g > want[k]:
			sig := "count-too-high"
			if nDecl[k] > 1 {
				sig = "count-too-high-name-declared-more-than-once"
			}
			out = append(out, Mismatch{sig, fmt.Sprintf("%q (declared %d time(s)): count %d, the model records %d call sites", k, nDecl[k], g, want[k])})
		}
	}
	for _, k := range evalSortedIntKeys(got) {
		if _, ok := want[k]; ok {
			continue
		}
		if isDecl[k] {
			out = append(out, Mismatch{"count-never-called-method-present", fmt.Sprintf("%q is declared but never called, yet the count map has %q: %d", k, k, got[k])})
		} else {
			out = append(out, Mismatch{"count-undeclared-name-present", fmt.Sprintf("count map has %q: %d, which is no declared method of the model", k, got[k])})
		}
	}
	return out
}

// EvalPair is one printed row of `coca count`.
type EvalPair struct {
	Key   string
	Value int
}

// EvalCheckCountListing: the listing shows exactly the expected pairs, each once.
func EvalCheckCountListing(m *modelgen.Model, rows []EvalPair) []Mismatch {
	var out []Mismatch
	got := map[string]int{}
	for _, r := range rows {
		if _, dup := got[r.Key]; dup {
			out = append(out, Mismatch{"count-listing-duplicate-row", fmt.Sprintf("%q is listed twice", r.Key)})
		}
		got[r.Key] = r.Value
	}
	return append(out, EvalCheckCallMap(m, got)...)
}

// EvalSameOrder: two listings of the same model show the same pairs in the same order.
func EvalSameOrder(a, b []EvalPair) []Mismatch {
	if len(a) != len(b) {
		return []Mismatch{{"count-listing-differs-between-runs", fmt.Sprintf("first run lists %d rows, second run %d", len(a), len(b))}}
	}
	for i := range a {
		if a[i] != b[i] {
			if strings.EqualFold(a[i].Key, b[i].Key) {
				return []Mismatch{{"count-order-not-reproducible-names-differing-only-in-case", fmt.Sprintf("row %d is %q:%d in one listing and %q:%d in another listing of the same model", i+1, a[i].Key, a[i].Value, b[i].Key, b[i].Value)}}
			}
			return []Mismatch{{"count-order-not-reproducible", fmt.Sprintf("row %d is %q:%d in the first run and %q:%d in the second", i+1, a[i].Key, a[i].Value, b[i].Key, b[i].Value)}}
		}
	}
	return nil
}

// EvalSummary is the part of the evaluation summary C18 speaks about.
type EvalSummary struct {
	ClassCount, MethodCount, StaticMethodCount, UtilsCount int
	Nullable                                               []string
	// CtorCount (expectation only): constructors of the project. Whether a constructor is a "method" is not
	// settled, so MethodCount may lie anywhere in [MethodCount, MethodCount+CtorCount].
	CtorCount int `json:",omitempty"`
}

func EvalMethodPath(c *evalgen.Class, m *evalgen.Method) string {
	return c.Pkg + "." + c.Name + "." + m.Name
}

// EvalExpected derives the numbers from the generated project.
func EvalExpected(p *evalgen.Project) EvalSummary {
	var s EvalSummary
	for _, c := range p.Classes {
		s.ClassCount++
		if c.Kind == evalgen.KindUtil {
			s.UtilsCount++
		}
		if c.Ctor != nil {
			s.CtorCount++
		}
		for _, m := range c.Methods {
			s.MethodCount++
			if m.Static {
				s.StaticMethodCount++
			}
			if m.Nullable() {
				s.Nullable = append(s.Nullable, EvalMethodPath(c, m))
			}
		}
	}
	sort.Strings(s.Nullable)
	return s
}

// EvalCheckNumbers compares only the numbers (what the printed table of `coca evaluate` shows);
// nullableCount is the printed length of the nullable list.
func EvalCheckNumbers(p *evalgen.Project, got EvalSummary, nullableCount int) []Mismatch {
	out := evalCheckCounts(p, got)
	want := EvalExpected(p)
	if nullableCount < len(want.Nullable) {
		out = append(out, Mismatch{"nullable-count-too-low", fmt.Sprintf("%d nullable methods reported, the sources have %d: %v", nullableCount, len(want.Nullable), want.Nullable)})
	} else if nullableCount > len(want.Nullable) {
		out = append(out, Mismatch{"nullable-count-too-high", fmt.Sprintf("%d nullable methods reported, the sources have %d: %v", nullableCount, len(want.Nullable), want.Nullable)})
	}
	return out
}

func evalCheckCounts(p *evalgen.Project, got EvalSummary) []Mismatch {
	var out []Mismatch
	want := EvalExpected(p)
	num := func(name string, g, w int, detail string) {
		if g < w {
			out = append(out, Mismatch{name + "-too-low", fmt.Sprintf("%s is %d, the sources have %d%s", name, g, w, detail)})
		} else if g > w {
			out = append(out, Mismatch{name + "-too-high", fmt.Sprintf("%s is %d, the sources have %d%s", name, g, w, detail)})
		}
	}
	num("class-count", got.ClassCount, want.ClassCount, "")
	if got.MethodCount < want.MethodCount {
		num("method-count", got.MethodCount, want.MethodCount, "")
	} else if got.MethodCount > want.MethodCount+want.CtorCount {
		num("method-count", got.MethodCount, want.MethodCount+want.CtorCount, fmt.Sprintf(" (%d methods + %d constructors)", want.MethodCount, want.CtorCount))
	}
	var statics, utils []string
	for _, c := range p.Classes {
		if c.Kind == evalgen.KindUtil {
			utils = append(utils, c.Name)
		}
		for _, m := range c.Methods {
			if m.Static {
				statics = append(statics, fmt.Sprintf("`%s %s %s(..)`", m.ModKey(), m.Ret, m.Name))
			}
		}
	}
	num("static-method-count", got.StaticMethodCount, want.StaticMethodCount, " (static methods: "+strings.Join(statics, ", ")+")")
	num("utils-count", got.UtilsCount, want.UtilsCount, " (utility classes: "+strings.Join(utils, ", ")+")")
	return out
}

// EvalCheckSummary compares numbers and the nullable list. Signatures are predicates over the planted facts.
func EvalCheckSummary(p *evalgen.Project, got EvalSummary) []Mismatch {
	out := evalCheckCounts(p, got)
	want := EvalExpected(p)
	byPath := map[string]*evalgen.Method{}
	for _, c := range p.Classes {
		for _, m := range c.Methods {
			if _, dup := byPath[EvalNormKey(EvalMethodPath(c, m))]; !dup {
				byPath[EvalNormKey(EvalMethodPath(c, m))] = m // an overload (declared later, never nullable) does not replace the original
			}
		}
	}
	ctorPath := map[string]*evalgen.Method{}
	for _, c := range p.Classes {
		if c.Ctor != nil {
			if _, isMethod := byPath[EvalNormKey(EvalMethodPath(c, c.Ctor))]; !isMethod {
				ctorPath[EvalNormKey(EvalMethodPath(c, c.Ctor))] = c.Ctor
			}
		}
	}
	seen := map[string]int{}
	for _, it := range got.Nullable {
		seen[EvalNormKey(it)]++
	}
	for _, it := range evalSortedIntKeys(seen) {
		m, ok := byPath[it]
		switch {
		case !ok:
			if ct, isCtor := ctorPath[it]; isCtor {
				sig := "nullable-extra-constructor"
				if ct.ParamAnno != "" {
					sig = "nullable-extra-constructor-with-annotated-parameter"
				}
				out = append(out, Mismatch{sig, fmt.Sprintf("nullable list names the constructor %q, which returns nothing and is not annotated: %s", it, EvalDescribeMethod(ct))})
				continue
			}
			out = append(out, Mismatch{"nullable-unknown-method", fmt.Sprintf("nullable list names %q, which is no method of the project", it)})
			continue
		case seen[it] > 1:
			// "each listed once", however many grounds make the method nullable
			sig := "nullable-listed-twice"
			switch {
			case m.NullAnno2 != "":
				sig = "nullable-listed-twice-both-annotations"
			case m.NullAnno != "" && m.NullReturn != "":
				sig = "nullable-listed-twice-annotation-and-return-null"
			case m.NullReturn == evalgen.NullBoth:
				sig = "nullable-listed-twice-two-null-returns"
			}
			out = append(out, Mismatch{sig, fmt.Sprintf("%q is listed %d times (nullable on %d ground(s)): %s", it, seen[it], m.Reasons(), EvalDescribeMethod(m))})
		}
		if !m.Nullable() {
			sig := "nullable-extra"
			why := "never returns the null literal and carries no @Nullable/@CheckForNull"
			hasNonnull := false
			for _, h := range m.Head {
				hasNonnull = hasNonnull || h == "@Nonnull"
			}
			switch {
			case m.ParamAnno != "" && !m.NullCompare:
				sig = "nullable-extra-only-a-parameter-is-annotated"
				why = "only its parameter carries @" + m.ParamAnno + "; it never returns the null literal and is not annotated itself"
			case m.NullCompare:
				sig = "nullable-extra-null-comparison"
				why = "returns a boolean comparison with null, never the null literal"
			case hasNonnull:
				sig = "nullable-extra-nonnull-annotation"
			case m.NullDecoy:
				sig = "nullable-extra-null-outside-return"
			}
			out = append(out, Mismatch{sig, fmt.Sprintf("%q is listed as nullable but %s: %s", it, why, EvalDescribeMethod(m))})
		}
	}
	for _, it := range want.Nullable {
		it = EvalNormKey(it)
		if seen[it] > 0 {
			continue
		}
		m := byPath[it]
		var sig string
		switch {
		case m.NullReturn != "" && m.NullAnno != "":
			sig = "nullable-missed-returns-null-and-annotated"
		case m.NullReturn != "":
			sig = "nullable-missed-return-null-" + m.NullReturn
		default:
			sig = "nullable-missed-annotation-" + m.AnnoPos
		}
		out = append(out, Mismatch{sig, fmt.Sprintf("%q is not in the nullable list: %s", it, EvalDescribeMethod(m))})
	}
	return out
}

// EvalDescribeMethod renders the planted facts of a method on one line.
func EvalDescribeMethod(m *evalgen.Method) string {
	s := "`" + strings.Join(m.Head, " ") + " " + m.Ret + " " + m.Name + "(..)`"
	if m.NullReturn != "" {
		s += " has `return null;` as the " + m.NullReturn + " of its return statements"
		if m.NullNested {
			s += " (inside a nested block)"
		}
	}
	if m.ParamAnno != "" {
		s += " (first parameter annotated @" + m.ParamAnno + ")"
	}
	if m.NullAnno != "" {
		s += " carries @" + m.NullAnno + " (" + m.AnnoPos + ")"
		if m.NullAnno2 != "" {
			s += " and @" + m.NullAnno2
		}
	}
	if len(m.Body) > 0 {
		s += " body: " + strings.Join(m.Body, " ")
	}
	return s
}

// EvalConceptWords: number of words of the method names that are neither stop words nor digit groups.
func EvalConceptWords(cc *evalgen.ConceptCase) (words, stops, digits int) {
	for _, c := range cc.Classes {
		for _, m := range c.Methods {
			for _, w := range m.Words {
				switch {
				case w.Digit:
					digits++
				case w.Stop:
					stops++
				default:
					words++
				}
			}
		}
	}
	return
}

// EvalCheckConcept compares the sum of the reported word counts with the planted number of words.
func EvalCheckConcept(cc *evalgen.ConceptCase, reported []EvalPair) []Mismatch {
	want, stops, digits := EvalConceptWords(cc)
	sum := 0
	for _, r := range reported {
		sum += r.Value
	}
	if sum == want {
		return nil
	}
	sig := "concept-sum-too-low"
	for _, c := range cc.Classes {
		for _, m := range c.Methods {
			if len(m.Words) > 0 && m.Words[0].Lookalike {
				// some name begins with an ordinary word that itself begins with get/set (setup, getaway)
				sig = "concept-sum-too-low-name-begins-with-get-or-set-word"
			}
		}
	}
	digitRow := ""
	for _, r := range reported {
		if r.Key != "" && strings.Trim(r.Key, "0123456789") == "" {
			digitRow = r.Key
		}
	}
	if sum > want && digitRow != "" {
		return []Mismatch{{"concept-sum-too-high-digit-group-reported-as-word", fmt.Sprintf("word counts sum to %d, %d words expected; the report lists the digit group %q (%d digits) as a word; method names %v; report: %v",
			sum, want, digitRow, len(digitRow), cc.Names(), reported)}}
	}
	if sum > want {
		sig = "concept-sum-too-high"
		if sum == want+stops {
			sig = "concept-sum-includes-stop-words"
		} else if sum == want+digits {
			sig = "concept-sum-includes-digit-groups"
		}
	}
	return []Mismatch{{sig, fmt.Sprintf("word counts sum to %d; the method names %v contain %d words that are neither stop words (%d) nor digit groups (%d); report: %v",
		sum, cc.Names(), want, stops, digits, reported)}}
}

// evalDefaultPkg: a normalised method full name Class.method without any package part.
func evalDefaultPkg(k string) bool { return strings.Count(k, ".") == 1 }

func evalSortedKeys(m map[string]int) []string { return evalSortedIntKeys(m) }

func evalSortedIntKeys(m map[string]int) []string {
	ks := make([]string, 0, len(m))
	for k := range m {
		ks = append(ks, k)
	}
	sort.Strings(ks)
	return ks
}
