package oracle

import (
	"fmt"
	"sort"
	"strings"

	"verifharness/gen/importgen"
)

// Reference model of C06 (unused-import removal), over the bytes of every file before the removal, after it, and
// after a second removal. Ground truth is the generator's planted record (line, kind, roles of every import); nothing
// is derived from the tool under test. No coca imports.
//
// Demanded, exactly as the statement says:
//   frame         after  = before minus whole lines ("\n"-separated), each of which is a planted import line;
//                 the set of files is unchanged
//   soundness     a deleted import's simple name is referenced nowhere else in its file: wildcard imports and imports
//                 planted with at least one code role must survive
//   completeness  every import planted as unused (not a wildcard, no role, no mention) is deleted, in EVERY file
//   idempotence   the second run changes no byte of any file
// Not demanded: anything about imports whose simple name occurs only in a comment or string literal (counted);
// the cleaning of real test sources by name (*Test.java / *Tests.java), which the tool's walk skips by design
// (frame, soundness and idempotence still hold for them).

// ImpObserved is what was read back for one file (paths relative to the directory, slash separated).
type ImpObserved struct {
	After     string
	AfterOK   bool // file still readable after the first run
	After2    string
	After2OK  bool
	SecondRan bool // the second run was executed at all
}

type ImpMismatch struct {
	Sig string
	Msg string
}

type ImpStats struct {
	Files, FilesWithUnused, FilesChanged    int
	Imports, Wildcards, MustKeep, Kept      int
	Unused, UnusedDeleted                   int
	BystanderFiles, BystanderUnusedKept     int
	NonASCIIMustKeep, NonASCIIKept          int
	NonASCIIUnused, NonASCIIUnusedDeleted   int
	Ambiguous, AmbiguousDeleted             int
	LinesDeleted, NonImportLinesDeleted     int
	SecondRunsCompared, SecondRunsUnchanged int
	RolesKept                               map[string]int // role class -> imports kept that carry it
	KindsDeleted                            map[string]int
}

func impPos(i, n int) string {
	switch {
	case n == 1:
		return "only-file"
	case i == n-1:
		return "last-of-n"
	}
	return "not-last-of-n"
}

func impDescribeLine(l string) string {
	t := strings.TrimSpace(l)
	switch {
	case t == "":
		return "blank"
	case strings.HasPrefix(t, "package "):
		return "package"
	case strings.HasPrefix(t, "//") || strings.HasPrefix(t, "/*") || strings.HasPrefix(t, "*"):
		return "comment"
	case strings.HasPrefix(t, "@"):
		return "annotation"
	case strings.Contains(t, "class ") || strings.Contains(t, "interface ") || strings.Contains(t, "enum "):
		return "type-header"
	}
	return "code"
}

func impClip(s string) string {
	s = strings.TrimRight(s, "\r")
	if len(s) > 90 {
		s = s[:90] + "…"
	}
	return s
}

// ImpDeletedLines aligns after against before and returns the 0-based indices of the lines of before that are
// missing, or ok=false if after is not before minus whole lines.
func ImpDeletedLines(before, after string) (deleted []int, ok bool, firstBad int) {
	bl, al := strings.Split(before, "\n"), strings.Split(after, "\n")
	j := 0
	for i := range bl {
		if j < len(al) && bl[i] == al[j] {
			j++
			continue
		}
		deleted = append(deleted, i)
	}
	if j != len(al) {
		return deleted, false, j
	}
	return deleted, true, -1
}

func impRoleSig(im *importgen.Import) string {
	if im.IsWildcard() {
		return im.Kind
	}
	if im.NonASCII() {
		return impRoleSigASCII(im) + "/non-ascii-name"
	}
	return impRoleSigASCII(im)
}

func impRoleSigASCII(im *importgen.Import) string {
	cs := im.RoleClasses()
	if im.Kind == importgen.KindStaticConst && len(cs) > 1 {
		// the positions of a bare constant are the interesting part; several of them in one file are one class
		return im.Kind + ":const-read(several)"
	}
	if len(cs) > 1 {
		cs = append(cs[:1:1], "more")
	}
	return im.Kind + ":" + strings.Join(cs, "+")
}

// ImpCheck compares one executed case with the planted project.
func ImpCheck(p *importgen.Project, obs map[string]ImpObserved, extraFiles, missingFiles []string) ([]ImpMismatch, ImpStats) {
	var ms []ImpMismatch
	st := ImpStats{RolesKept: map[string]int{}, KindsDeleted: map[string]int{}}
	add := func(sig, format string, a ...interface{}) {
		ms = append(ms, ImpMismatch{sig, fmt.Sprintf(format, a...)})
	}
	sort.Strings(extraFiles)
	sort.Strings(missingFiles)
	if len(extraFiles) > 0 || len(missingFiles) > 0 {
		add("frame/file-set-changed", "files appeared %v / disappeared %v in the directory", extraFiles, missingFiles)
	}
	n := len(p.Files)
	for fi := range p.Files {
		f := &p.Files[fi]
		pos := impPos(fi, n)
		o, seen := obs[f.Rel]
		st.Files++
		st.Imports += len(f.Imports)
		nUnused := f.CountUnused()
		if f.Bystander {
			st.BystanderFiles++
		} else if nUnused > 0 {
			st.FilesWithUnused++
		}
		for i := range f.Imports {
			im := &f.Imports[i]
			switch {
			case im.IsWildcard():
				st.Wildcards++
				st.MustKeep++
			case im.MustKeep():
				st.MustKeep++
				if im.NonASCII() {
					st.NonASCIIMustKeep++
				}
			case im.Unused() && f.Bystander:
			case im.Unused():
				st.Unused++
				if im.NonASCII() {
					st.NonASCIIUnused++
				}
			case im.Ambiguous():
				st.Ambiguous++
			}
		}
		if !seen || !o.AfterOK {
			continue // reported through missingFiles
		}
		if o.After != f.Text {
			st.FilesChanged++
		}
		deleted, ok, bad := ImpDeletedLines(f.Text, o.After)
		if !ok {
			al := strings.Split(o.After, "\n")
			got := "<end of file>"
			if bad < len(al) {
				got = al[bad]
			}
			add("frame/not-a-deletion-of-whole-lines@"+pos, "%s (%s, file %d of %d): the result is not the original minus whole lines; first line of the result that cannot be matched: #%d %q",
				f.Rel, f.TypeKind, fi+1, n, bad+1, impClip(got))
			continue
		}
		byLine := map[int]*importgen.Import{}
		for i := range f.Imports {
			byLine[f.Imports[i].Line] = &f.Imports[i]
		}
		bl := strings.Split(f.Text, "\n")
		gone := map[int]bool{}
		for _, d := range deleted {
			st.LinesDeleted++
			im := byLine[d+1]
			if im == nil {
				st.NonImportLinesDeleted++
				add("frame/non-import-line-deleted("+impDescribeLine(bl[d])+")@"+pos, "%s (%s, file %d of %d): line %d %q is not an import line and was deleted",
					f.Rel, f.TypeKind, fi+1, n, d+1, impClip(bl[d]))
				continue
			}
			gone[im.Line] = true
		}
		for i := range f.Imports {
			im := &f.Imports[i]
			del := gone[im.Line]
			switch {
			case im.MustKeep() && del:
				st.KindsDeleted[im.Kind]++
				what := "its simple name is used as " + strings.Join(im.Roles, ", ")
				if im.IsWildcard() {
					what = "it is a wildcard import"
				}
				add("deleted-used/"+impRoleSig(im)+"@"+pos, "%s (%s, file %d of %d): line %d %q was deleted although %s",
					f.Rel, f.TypeKind, fi+1, n, im.Line, impClip(im.Src), what)
			case im.MustKeep():
				st.Kept++
				if im.NonASCII() {
					st.NonASCIIKept++
				}
				if im.IsWildcard() {
					st.RolesKept["wildcard"]++
				}
				for _, c := range im.RoleClasses() {
					st.RolesKept[c]++
				}
			case im.Unused() && del:
				st.UnusedDeleted++
				if im.NonASCII() {
					st.NonASCIIUnusedDeleted++
				}
				st.KindsDeleted[im.Kind]++
			case im.Unused() && f.Bystander:
				st.BystanderUnusedKept++ // a test source by name: the tool skips it by design, cleaning is not demanded
			case im.Unused():
				kindOfFile := f.TypeKind
				if low := strings.ToLower(f.TypeName); strings.HasSuffix(low, "test") || strings.HasSuffix(low, "tests") {
					kindOfFile += "/name-ends-in-lower-case-test"
				}
				if im.NonASCII() {
					kindOfFile += "/non-ascii-name"
				}
				add("unused-kept/"+im.Kind+"@"+pos+"/"+kindOfFile, "%s (%s, file %d of %d, %d unused imports planted): line %d %q is referenced nowhere in the file and was not deleted",
					f.Rel, f.TypeKind, fi+1, n, nUnused, im.Line, impClip(im.Src))
			case im.Ambiguous() && del:
				st.AmbiguousDeleted++
			}
		}
		if o.SecondRan {
			if !o.After2OK {
				continue
			}
			st.SecondRunsCompared++
			if o.After2 == o.After {
				st.SecondRunsUnchanged++
			} else {
				a1, a2 := strings.Split(o.After, "\n"), strings.Split(o.After2, "\n")
				k := 0
				for k < len(a1) && k < len(a2) && a1[k] == a2[k] {
					k++
				}
				was := "<end of file>"
				if k < len(a1) {
					was = a1[k]
				}
				add("second-run-changed@"+pos, "%s (%s, file %d of %d): the second removal changed the file again (%d -> %d bytes); first difference at line %d, which was %q",
					f.Rel, f.TypeKind, fi+1, n, len(o.After), len(o.After2), k+1, impClip(was))
			}
		}
	}
	return ms, st
}
