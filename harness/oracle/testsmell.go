package oracle

import (
	"fmt"
	"sort"
	"strconv"
	"strings"

	"verifharness/gen/testsmellgen"
)

// Reference model of C11 (test-smell findings are exactly those evidenced in the test sources).
//
// Expected findings, per method annotated @Test and/or @Ignore of a test file (a file named *Test.java /
// *Tests.java or lying under src/test/java/):
//
//	IgnoreTest              if it carries @Ignore
//	EmptyTest               iff its body makes no call
//	RedundantPrintTest      one per System.out.print / println / printf call, at that call's line
//	SleepyTest              one per Thread.sleep call, at that call's line
//	RedundantAssertionTest  one per two-argument call whose two arguments are textually identical
//	UnknownTest             iff the body makes >= 1 call and none is an assertion, neither directly nor in a
//	                        non-test method of the same class that the body calls
//	DuplicateAssertTest     iff one assertion method is called >= 5 times in the body
//
// and nothing else: nothing for methods without @Test/@Ignore, nothing for files that are not test files; every
// finding names its file. The comparison is a multiset comparison per file of (Type, Line) for the two kinds whose
// line the statement promises (print, sleep: the call's line) and of Type alone for the other kinds (the statement
// does not say which line they carry). The Line of those other kinds is read only to say WHICH planted method a
// surplus or missing finding belongs to, i.e. to name the mismatch; it never decides whether there is one.
//
// No coca imports: what "an assertion" is comes from the generator's record (documented prefix list).

// TbsFinding is one observed finding.
type TbsFinding struct {
	Type     string
	FileName string
	Line     int
}

type TbsMismatch struct{ Sig, Msg string }

// TbsStats counts what the monitor saw.
type TbsStats struct {
	Planted  map[string]int // expected findings per type
	Observed map[string]int // observed findings per type
	Matched  int            // findings matched one-to-one
	Open     int            // findings tolerated at the line of a method reference (Thread::sleep, System.out::println)
}

const (
	TbsIgnore    = "IgnoreTest"
	TbsEmpty     = "EmptyTest"
	TbsPrint     = "RedundantPrintTest"
	TbsSleepy    = "SleepyTest"
	TbsRedundant = "RedundantAssertionTest"
	TbsUnknown   = "UnknownTest"
	TbsDuplicate = "DuplicateAssertTest"
)

var tbsTypes = []string{TbsIgnore, TbsEmpty, TbsPrint, TbsSleepy, TbsRedundant, TbsUnknown, TbsDuplicate}

// TbsExpect is one expected finding with the planted evidence it comes from.
type TbsExpect struct {
	Type   string
	File   string // relative path
	Line   int    // call line for print / sleep, 0 otherwise (not promised)
	Method *testsmellgen.Method
	Call   *testsmellgen.Call
}

func tbsHelperOf(f *testsmellgen.File, name string) *testsmellgen.Method {
	m := f.Method(name)
	if m == nil || m.IsTestMethod() {
		return nil
	}
	return m
}

// TbsAssertionVia says how a test body reaches an assertion: "direct", "helper", or "" (none).
func TbsAssertionVia(f *testsmellgen.File, m *testsmellgen.Method) string {
	via := ""
	for _, c := range m.Calls {
		switch c.Kind {
		case testsmellgen.KindAssert:
			return "direct"
		case testsmellgen.KindHelper:
			if h := tbsHelperOf(f, c.Target); h != nil {
				for _, hc := range h.Calls {
					if hc.Kind == testsmellgen.KindAssert {
						via = "helper"
					}
				}
			}
		}
	}
	return via
}

// TbsMaxSameAssertion returns the highest number of calls of one assertion method in the body, and its prefix.
func TbsMaxSameAssertion(m *testsmellgen.Method) (int, string) {
	counts := map[string]int{}
	best, prefix := 0, ""
	for _, c := range m.Calls {
		if c.Kind != testsmellgen.KindAssert {
			continue
		}
		counts[c.Key]++
		if counts[c.Key] > best {
			best, prefix = counts[c.Key], c.Prefix
		}
	}
	return best, prefix
}

// TbsSharedClassNames returns the simple names carried by more than one test class of the tree.
func TbsSharedClassNames(t *testsmellgen.Tree) map[string]bool {
	n := map[string]int{}
	for _, f := range t.Files {
		if f.IsTest() {
			n[f.Class]++
		}
	}
	out := map[string]bool{}
	for c, k := range n {
		if k > 1 {
			out[c] = true
		}
	}
	return out
}

// TbsOpenLines returns, per finding type, the lines of a test file at which a finding is neither demanded nor
// forbidden: a method reference `Thread::sleep` (SleepyTest) or `System.out::print/println/printf` (RedundantPrintTest)
// written in a test method, or in a non-test method that a test method of the class calls. Whether such a reference is
// "a Thread.sleep / System.out.print call" is not settled by the statement; everything else of the tree stays demanded.
func TbsOpenLines(f *testsmellgen.File) map[string]map[int]bool {
	open := map[string]map[int]bool{TbsSleepy: {}, TbsPrint: {}}
	called := map[string]bool{}
	for _, m := range f.Methods {
		if m.IsTestMethod() {
			for _, c := range m.Calls {
				if c.Kind == testsmellgen.KindHelper {
					called[c.Target] = true
				}
			}
		}
	}
	for _, m := range f.Methods {
		if !m.IsTestMethod() && !called[m.Name] {
			continue
		}
		for _, r := range m.Refs {
			switch {
			case r.Recv == "Thread" && r.Name == "sleep":
				open[TbsSleepy][r.Line] = true
			case r.Recv == "System.out" && (r.Name == "print" || r.Name == "println" || r.Name == "printf"):
				open[TbsPrint][r.Line] = true
			}
		}
	}
	return open
}

// TbsExpected derives the expected findings of a tree from the planted evidence.
func TbsExpected(t *testsmellgen.Tree) []TbsExpect {
	var out []TbsExpect
	for _, f := range t.Files {
		if !f.IsTest() {
			continue
		}
		for _, m := range f.Methods {
			if !m.IsTestMethod() {
				continue
			}
			add := func(typ string, line int, c *testsmellgen.Call) {
				out = append(out, TbsExpect{Type: typ, File: f.RelPath, Line: line, Method: m, Call: c})
			}
			if m.HasAnno("Ignore") {
				add(TbsIgnore, 0, nil)
			}
			if len(m.Calls) == 0 {
				add(TbsEmpty, 0, nil)
			}
			for i := range m.Calls {
				c := &m.Calls[i]
				switch c.Kind {
				case testsmellgen.KindPrint:
					add(TbsPrint, c.Line, c)
				case testsmellgen.KindSleep:
					add(TbsSleepy, c.Line, c)
				}
				if c.NArgs == 2 && c.Identical {
					add(TbsRedundant, 0, c)
				}
			}
			if len(m.Calls) >= 1 && TbsAssertionVia(f, m) == "" {
				add(TbsUnknown, 0, nil)
			}
			if n, _ := TbsMaxSameAssertion(m); n >= 5 {
				add(TbsDuplicate, 0, nil)
			}
		}
	}
	return out
}

func tbsKinds(m *testsmellgen.Method) string {
	set := map[string]bool{}
	for _, c := range m.Calls {
		k := c.Kind
		if c.Kind == testsmellgen.KindHelper {
			k = "helper(" + c.Form + ")"
		}
		if c.Kind == testsmellgen.KindPlain && c.Form != "" && strings.Contains(c.Form, ".") {
			k = "plain:" + c.Form
		}
		set[k] = true
	}
	var ks []string
	for k := range set {
		ks = append(ks, k)
	}
	sort.Strings(ks)
	return strings.Join(ks, ",")
}

func tbsPrefixes(m *testsmellgen.Method) string {
	set := map[string]bool{}
	for _, c := range m.Calls {
		if c.Kind == testsmellgen.KindAssert {
			set[c.Prefix] = true
		}
	}
	var ks []string
	for k := range set {
		ks = append(ks, k)
	}
	sort.Strings(ks)
	return strings.Join(ks, ",")
}

func tbsHelperForms(f *testsmellgen.File, m *testsmellgen.Method) string {
	set := map[string]bool{}
	for _, c := range m.Calls {
		if c.Kind != testsmellgen.KindHelper {
			continue
		}
		if h := tbsHelperOf(f, c.Target); h != nil {
			for _, hc := range h.Calls {
				if hc.Kind == testsmellgen.KindAssert {
					set[c.Form] = true
				}
			}
		}
	}
	var ks []string
	for k := range set {
		ks = append(ks, k)
	}
	sort.Strings(ks)
	return strings.Join(ks, ",")
}

// tbsLookalikeNote names the annotation of a non-test method whose name merely ends in Test / Ignore.
func tbsLookalikeNote(m *testsmellgen.Method) string {
	for _, a := range m.Annos {
		if a.Name != "Test" && a.Name != "Ignore" && (strings.HasSuffix(a.Name, "Test") || strings.HasSuffix(a.Name, "Ignore")) {
			return "(method-annotated-@" + a.Name + ")"
		}
	}
	return ""
}

func tbsCap(n int) string {
	if n >= 7 {
		return "7+"
	}
	return strconv.Itoa(n)
}

// tbsExtraSig names a surplus finding of a count-compared type on method m (nil: the line matches no planted method).
func tbsExtraSig(typ string, f *testsmellgen.File, m *testsmellgen.Method, alreadyExpected bool) string {
	lt := strings.ToLower(typ)
	if m == nil {
		return lt + "-extra/line-is-no-planted-method-declaration"
	}
	if !m.IsTestMethod() {
		return "finding-for-method-without-test-or-ignore/" + typ + tbsLookalikeNote(m)
	}
	if alreadyExpected {
		return lt + "-extra/reported-more-often-than-evidenced"
	}
	switch typ {
	case TbsEmpty:
		if len(m.Calls) == 1 {
			return "emptytest/test-method-with-exactly-one-call"
		}
		return "emptytest-extra/method-with-" + tbsCap(len(m.Calls)) + "-calls"
	case TbsUnknown:
		switch TbsAssertionVia(f, m) {
		case "direct":
			return "unknowntest-extra/direct-assertion-by-prefix:" + tbsPrefixes(m)
		case "helper":
			return "unknowntest-extra/assertion-only-in-same-class-helper-called:" + tbsHelperForms(f, m)
		}
		return "unknowntest-extra/method-without-call"
	case TbsDuplicate:
		n, _ := TbsMaxSameAssertion(m)
		plainMax := 0
		counts := map[string]int{}
		for _, c := range m.Calls {
			if c.Kind != testsmellgen.KindAssert && c.Kind != testsmellgen.KindNew {
				counts[c.Key]++
				if counts[c.Key] > plainMax {
					plainMax = counts[c.Key]
				}
			}
		}
		if n < 5 && plainMax >= 5 {
			return "duplicateasserttest-extra/non-assertion-method-called-5+-times"
		}
		return "duplicateasserttest-extra/most-frequent-assertion-method-called-" + tbsCap(n) + "-times"
	case TbsRedundant:
		two, three := false, false
		for _, c := range m.Calls {
			if c.NArgs == 2 && !c.Identical {
				two = true
			}
			if c.NArgs >= 3 {
				three = true
			}
		}
		for _, c := range m.Calls {
			if c.NArgs == 2 && !c.Identical && strings.HasSuffix(c.Form, "long-arguments") {
				return "redundantassertiontest-extra/method-has-two-argument-call-with-long-arguments-differing-near-their-end"
			}
		}
		switch {
		case two:
			return "redundantassertiontest-extra/method-has-two-argument-call-with-different-arguments"
		case three:
			return "redundantassertiontest-extra/method-has-call-with-3+-arguments"
		}
		return "redundantassertiontest-extra/method-without-two-argument-call"
	}
	return lt + "-extra/other"
}

// tbsMissingSig names an expected finding of a count-compared type that was not observed for method m.
func tbsMissingSig(typ string, f *testsmellgen.File, m *testsmellgen.Method, e *TbsExpect) string {
	lt := strings.ToLower(typ)
	switch typ {
	case TbsEmpty:
		return "emptytest-missing/no-call-method-annotated:" + m.AnnoClass()
	case TbsUnknown:
		for _, c := range m.Calls {
			if c.Kind == testsmellgen.KindForeign {
				return "unknowntest-missing/only-other-class-method-asserts"
			}
		}
		return "unknowntest-missing/calls:" + tbsKinds(m)
	case TbsDuplicate:
		n, p := TbsMaxSameAssertion(m)
		return "duplicateasserttest-missing/assertion-method-called-" + tbsCap(n) + "-times(prefix-" + p + ")"
	case TbsRedundant:
		if e != nil && e.Call != nil {
			return "redundantassertiontest-missing/identical-arguments-on-" + e.Call.Kind + "-call"
		}
	}
	return lt + "-missing/other"
}

// TbsCheck joins planted and observed events. relOf maps an observed FileName to the planted relative path
// ("" if the name is not a planted file).
func TbsCheck(t *testsmellgen.Tree, observed []TbsFinding, relOf func(fileName string) string) ([]TbsMismatch, TbsStats) {
	st := TbsStats{Planted: map[string]int{}, Observed: map[string]int{}}
	var mm []TbsMismatch
	add := func(sig, format string, a ...interface{}) {
		mm = append(mm, TbsMismatch{Sig: sig, Msg: fmt.Sprintf(format, a...)})
	}
	known := map[string]bool{}
	for _, typ := range tbsTypes {
		known[typ] = true
	}
	files := map[string]*testsmellgen.File{}
	for _, f := range t.Files {
		files[f.RelPath] = f
	}
	expected := TbsExpected(t)
	for _, e := range expected {
		st.Planted[e.Type]++
	}
	// test classes whose simple name is used by a test class of another package as well
	sharedName := TbsSharedClassNames(t)
	asserts := func(h *testsmellgen.Method) bool {
		for _, c := range h.Calls {
			if c.Kind == testsmellgen.KindAssert {
				return true
			}
		}
		return false
	}
	nameNote := func(f *testsmellgen.File, m *testsmellgen.Method, sig string) string {
		if !sharedName[f.Class] || !(strings.HasPrefix(sig, "unknowntest-") || strings.HasPrefix(sig, "duplicateasserttest-")) {
			return sig
		}
		// does the method call a helper whose (class name, method name) also exists in another package with the
		// opposite answer to "does it assert"?
		if m != nil && strings.HasPrefix(sig, "unknowntest-") {
			for _, c := range m.Calls {
				if c.Kind != testsmellgen.KindHelper {
					continue
				}
				own := tbsHelperOf(f, c.Target)
				for _, g := range t.Files {
					if g == f || !g.IsTest() || g.Class != f.Class || own == nil {
						continue
					}
					if other := tbsHelperOf(g, c.Target); other != nil && asserts(other) != asserts(own) {
						if asserts(own) {
							return "unknowntest-extra/asserting-helper-shares-class-and-method-name-with-non-asserting-helper-in-another-package"
						}
						return "unknowntest-missing/non-asserting-helper-shares-class-and-method-name-with-asserting-helper-in-another-package"
					}
				}
			}
		}
		return sig + "+class-name-also-used-in-another-package"
	}
	// observed findings per file
	obsByFile := map[string][]TbsFinding{}
	for _, o := range observed {
		st.Observed[o.Type]++
		if !known[o.Type] {
			add("finding-of-undocumented-type", "finding %+v has a type the statement does not list", o)
			continue
		}
		if o.FileName == "" {
			add("finding-without-file-name/"+o.Type, "finding %+v names no file", o)
			continue
		}
		rel := relOf(o.FileName)
		f := files[rel]
		switch {
		case rel == "" || f == nil:
			add("finding-names-unknown-file/"+o.Type, "finding %+v names a file that is not in the tree", o)
			continue
		case !f.IsTest():
			add("finding-in-non-test-file/"+o.Type, "finding %+v lies in production file %s", o, rel)
			continue
		}
		obsByFile[rel] = append(obsByFile[rel], o)
	}
	for _, f := range t.Files {
		if !f.IsTest() {
			continue
		}
		var exp []TbsExpect
		for _, e := range expected {
			if e.File == f.RelPath {
				exp = append(exp, e)
			}
		}
		obs := obsByFile[f.RelPath]
		callsAt := func(line int) (m *testsmellgen.Method, desc []string) {
			for _, cand := range f.Methods {
				if line >= cand.DeclLine && line <= cand.EndLine {
					m = cand
				}
				for _, c := range cand.Calls {
					if c.Line == line {
						d := c.Kind
						if c.Kind == testsmellgen.KindPlain {
							d = c.Form
						}
						desc = append(desc, d)
					}
				}
			}
			sort.Strings(desc)
			return
		}
		openLines := TbsOpenLines(f)
		// (1) print / sleep: multiset of (type, line)
		for _, typ := range []string{TbsPrint, TbsSleepy} {
			want := map[int][]TbsExpect{}
			for _, e := range exp {
				if e.Type == typ {
					want[e.Line] = append(want[e.Line], e)
				}
			}
			got := map[int]int{}
			var gotLines []int
			for _, o := range obs {
				if o.Type == typ {
					if got[o.Line] == 0 {
						gotLines = append(gotLines, o.Line)
					}
					got[o.Line]++
				}
			}
			sort.Ints(gotLines)
			var wantLines []int
			for l := range want {
				wantLines = append(wantLines, l)
			}
			sort.Ints(wantLines)
			lt := strings.ToLower(typ)
			for _, l := range wantLines {
				n := len(want[l])
				if got[l] < n {
					e := want[l][0]
					add(lt+"-missing/"+e.Call.Form+"-in-method-annotated:"+e.Method.AnnoClass(),
						"%s line %d: %d %s expected for `%s` (method %s), %d reported", f.RelPath, l, n, typ, e.Call.Text, e.Method.Name, got[l])
					st.Matched += got[l]
				} else {
					st.Matched += n
				}
			}
			for _, l := range gotLines {
				if got[l] <= len(want[l]) {
					continue
				}
				if openLines[typ][l] {
					st.Open += got[l] - len(want[l])
					continue
				}
				m, desc := callsAt(l)
				switch {
				case len(want[l]) > 0:
					add(lt+"-extra/planted-call-reported-more-than-once", "%s line %d: %d %s reported, %d planted", f.RelPath, l, got[l], typ, len(want[l]))
				case m != nil && !m.IsTestMethod():
					add("finding-for-method-without-test-or-ignore/"+typ+tbsLookalikeNote(m), "%s line %d: %s reported inside %s, which carries neither @Test nor @Ignore", f.RelPath, l, typ, m.Name)
				default:
					add(lt+"-extra/at-line-of:"+strings.Join(desc, ","), "%s line %d: %s reported where the planted calls are %v", f.RelPath, l, typ, desc)
				}
			}
		}
		// (2) the other kinds: counts per type decide; lines only attribute
		for _, typ := range []string{TbsIgnore, TbsEmpty, TbsRedundant, TbsUnknown, TbsDuplicate} {
			var want []TbsExpect
			for _, e := range exp {
				if e.Type == typ {
					want = append(want, e)
				}
			}
			var got []TbsFinding
			for _, o := range obs {
				if o.Type == typ {
					got = append(got, o)
				}
			}
			if len(want) == len(got) {
				st.Matched += len(got)
				continue
			}
			if len(got) < len(want) {
				st.Matched += len(got)
			} else {
				st.Matched += len(want)
			}
			lt := strings.ToLower(typ)
			if typ == TbsIgnore {
				// findings of this type carry no usable line: attribute by annotation class
				classes := map[string]int{}
				for _, e := range want {
					classes[e.Method.AnnoClass()]++
				}
				var cs []string
				for c := range classes {
					cs = append(cs, c)
				}
				sort.Strings(cs)
				if len(got) < len(want) {
					deficit := len(want) - len(got)
					var fit []string
					for _, c := range cs {
						if classes[c] == deficit {
							fit = append(fit, c)
						}
					}
					if len(fit) == 1 {
						add("ignoretest-missing/method-annotated:"+fit[0], "%s: %d IgnoreTest expected, %d reported; %d method(s) annotated %s", f.RelPath, len(want), len(got), deficit, fit[0])
					} else {
						add("ignoretest-missing/among-methods-annotated:"+strings.Join(cs, "+"), "%s: %d IgnoreTest expected, %d reported", f.RelPath, len(want), len(got))
					}
				} else {
					note := ""
					for _, m := range f.Methods {
						if !m.IsTestMethod() {
							for _, a := range m.Annos {
								if strings.HasSuffix(a.Name, "Ignore") && note == "" {
									note = "(file-has-method-annotated-@" + a.Name + ")"
								}
							}
						}
					}
					add("ignoretest-extra/more-than-methods-with-ignore"+note, "%s: %d IgnoreTest expected, %d reported", f.RelPath, len(want), len(got))
				}
				continue
			}
			// per-method difference, methods identified by the reported line
			wantBy := map[*testsmellgen.Method][]TbsExpect{}
			for i := range want {
				wantBy[want[i].Method] = append(wantBy[want[i].Method], want[i])
			}
			gotBy := map[*testsmellgen.Method]int{}
			unplaced := 0
			for _, o := range got {
				var hit *testsmellgen.Method
				for _, m := range f.Methods {
					if m.DeclLine == o.Line {
						hit = m
					}
				}
				if hit == nil {
					unplaced++
					add(tbsExtraSig(typ, f, nil, false), "%s: %d %s expected, %d reported; finding at line %d matches no method declaration", f.RelPath, len(want), typ, len(got), o.Line)
					continue
				}
				gotBy[hit]++
			}
			reported := 0
			for _, m := range f.Methods {
				w, g := len(wantBy[m]), gotBy[m]
				for k := w; k < g; k++ {
					reported++
					add(nameNote(f, m, tbsExtraSig(typ, f, m, w > 0)), "%s: %d %s expected in the file, %d reported; surplus one on method %s (line %d, annotated %s, %d calls: %s)",
						f.RelPath, len(want), typ, len(got), m.Name, m.DeclLine, m.AnnoClass(), len(m.Calls), tbsKinds(m))
				}
				for k := g; k < w; k++ {
					reported++
					e := wantBy[m][k]
					add(nameNote(f, m, tbsMissingSig(typ, f, m, &e)), "%s: %d %s expected in the file, %d reported; none for method %s (line %d, annotated %s, %d calls: %s)",
						f.RelPath, len(want), typ, len(got), m.Name, m.DeclLine, m.AnnoClass(), len(m.Calls), tbsKinds(m))
				}
			}
			if reported == 0 && unplaced == 0 {
				add(lt+"-count/unattributed", "%s: %d %s expected, %d reported", f.RelPath, len(want), typ, len(got))
			}
		}
	}
	return tbsDedupe(mm), st
}

func tbsDedupe(ms []TbsMismatch) []TbsMismatch {
	seen := map[string]int{}
	var out []TbsMismatch
	for _, m := range ms {
		seen[m.Sig]++
		if seen[m.Sig] <= 2 {
			out = append(out, m)
		}
	}
	return out
}

// TbsParseTable reads the table `coca tbs` prints (header TYPE | FILENAME | LINE).
func TbsParseTable(stdout string) (rows []TbsFinding, total int, hasTotal bool) {
	for _, line := range strings.Split(stdout, "\n") {
		line = strings.TrimSpace(line)
		if strings.HasPrefix(line, "Test Bad Smell nums:") {
			n, err := strconv.Atoi(strings.TrimSpace(strings.TrimPrefix(line, "Test Bad Smell nums:")))
			if err == nil {
				total, hasTotal = n, true
			}
			continue
		}
		if !strings.HasPrefix(line, "|") || strings.HasPrefix(line, "|--") {
			continue
		}
		cells := strings.Split(strings.Trim(line, "|"), "|")
		if len(cells) != 3 {
			continue
		}
		typ, file, ln := strings.TrimSpace(cells[0]), strings.TrimSpace(cells[1]), strings.TrimSpace(cells[2])
		if typ == "TYPE" {
			continue
		}
		n, err := strconv.Atoi(ln)
		if err != nil {
			continue
		}
		rows = append(rows, TbsFinding{Type: typ, FileName: file, Line: n})
	}
	return
}

// TbsSameMultiset compares two finding lists as multisets.
func TbsSameMultiset(a, b []TbsFinding) bool {
	if len(a) != len(b) {
		return false
	}
	count := map[TbsFinding]int{}
	for _, x := range a {
		count[x]++
	}
	for _, x := range b {
		count[x]--
	}
	for _, v := range count {
		if v != 0 {
			return false
		}
	}
	return true
}
