// Package oracle holds the reference models. No coca imports.
package oracle

import (
	"fmt"
	"sort"
	"strings"

	"verifharness/gen/modelgen"
	"verifharness/obs"
)

// CallRel is the call relation of the statement of C03: declared caller -> resolved callee names
// (calls without a receiver type skipped), class part replaced through the DI map.
type CallRel struct {
	Calls    map[string][]string
	Declared map[string]bool
}

func className(full string) string {
	i := strings.LastIndex(full, ".")
	if i < 0 {
		return ""
	}
	return full[:i]
}
func methodName(full string) string {
	i := strings.LastIndex(full, ".")
	return full[i+1:]
}

func NewCallRel(m *modelgen.Model, di map[string]string) *CallRel {
	cr := &CallRel{Calls: map[string][]string{}, Declared: map[string]bool{}}
	for _, me := range m.Methods() {
		cr.Declared[me.Full()] = true
		var cs []string
		for _, c := range me.Resolved() {
			if impl, ok := di[className(c)]; ok {
				c = impl + "." + methodName(c)
			}
			cs = append(cs, c)
		}
		cr.Calls[me.Full()] = cs
	}
	return cr
}

// Reachable returns the methods reachable from root (reflexive).
func (cr *CallRel) Reachable(root string) map[string]bool {
	seen := map[string]bool{root: true}
	stack := []string{root}
	for len(stack) > 0 {
		f := stack[len(stack)-1]
		stack = stack[:len(stack)-1]
		for _, c := range cr.Calls[f] {
			if !seen[c] {
				seen[c] = true
				stack = append(stack, c)
			}
		}
	}
	return seen
}

// ReachableEdges is the call relation restricted to callers reachable from root.
func (cr *CallRel) ReachableEdges(root string) map[obs.Edge]bool {
	out := map[obs.Edge]bool{}
	for f := range cr.Reachable(root) {
		for _, c := range cr.Calls[f] {
			out[obs.Edge{From: f, To: c}] = true
		}
	}
	return out
}

// Expansions counts the expanding node occurrences of the unfolded call tree of root (a node expands
// when it has at least one resolved call), stopping at cap+1.
func (cr *CallRel) Expansions(root string, cap int) int {
	n := 0
	var rec func(f string)
	rec = func(f string) {
		if n > cap {
			return
		}
		n++
		for _, c := range cr.Calls[f] {
			if len(cr.Calls[c]) > 0 {
				rec(c)
				if n > cap {
					return
				}
			}
		}
	}
	if len(cr.Calls[root]) == 0 {
		return 0
	}
	rec(root)
	return n
}

type Mismatch struct{ Sig, Msg string }

// DocumentedBudget is the expansion bound the call graph documents (maxLoopCount); the traversal admits
// one more, so "fits" is decided at <= DocumentedBudget, which is inside the budget under either reading.
const DocumentedBudget = 6

// CheckCallEdges decides the edge clauses of C03 for one root. extraPermitted (may be nil) are edges that
// are additionally allowed (the reverse-call edges when lookup is on).
func (cr *CallRel) CheckCallEdges(root string, edges []obs.Edge, extraPermitted map[obs.Edge]bool) []Mismatch {
	var out []Mismatch
	permitted := cr.ReachableEdges(root)
	got := map[obs.Edge]bool{}
	perSource := map[string]int{}
	for _, e := range edges {
		got[e] = true
		if !permitted[e] {
			if extraPermitted != nil && extraPermitted[e] {
				continue
			}
			_, declared := cr.Calls[e.From]
			sig := "edge-not-a-call"
			if !declared {
				sig = "edge-from-undeclared-or-unreachable"
			} else if !cr.Reachable(root)[e.From] {
				sig = "edge-from-unreachable"
			}
			out = append(out, Mismatch{sig, fmt.Sprintf("edge %q -> %q is not a recorded call reachable from root %q", e.From, e.To, root)})
			continue
		}
		perSource[e.From]++
	}
	for _, c := range cr.Calls[root] {
		if !got[obs.Edge{From: root, To: c}] {
			out = append(out, Mismatch{"root-callee-missing", fmt.Sprintf("direct callee %q of root %q has no edge", c, root)})
		}
	}
	need := cr.Expansions(root, DocumentedBudget)
	if need <= DocumentedBudget {
		for e := range permitted {
			if !got[e] {
				out = append(out, Mismatch{"fits-but-incomplete", fmt.Sprintf("call tree of %q needs %d expansions (fits), but reachable call %q -> %q is missing", root, need, e.From, e.To)})
			}
		}
	}
	// expansion budget as observable from outside: an expansion of A prints one line per resolved call of A
	occ := 0
	for a, lines := range perSource {
		d := len(cr.Calls[a])
		if d > 0 {
			occ += (lines + d - 1) / d
		}
	}
	if occ > 64 {
		out = append(out, Mismatch{"budget-exceeded", fmt.Sprintf("output shows at least %d expansions for root %q (documented budget %d)", occ, root, DocumentedBudget)})
	}
	return dedupe(out)
}

func dedupe(ms []Mismatch) []Mismatch {
	seen := map[string]bool{}
	var out []Mismatch
	for _, m := range ms {
		if !seen[m.Sig] {
			seen[m.Sig] = true
			out = append(out, m)
		}
	}
	return out
}

// ---- reverse relation (C04)

// RCallMap is the statement's reverse map: declared callee -> callers, one per call site, in model order.
func RCallMap(m *modelgen.Model) map[string][]string {
	declared := m.Declared()
	out := map[string][]string{}
	for _, me := range m.Methods() {
		for _, c := range me.Resolved() {
			if _, ok := declared[c]; ok {
				out[c] = append(out[c], me.Full())
			}
		}
	}
	return out
}

func sortedCopy(xs []string) []string {
	c := append([]string(nil), xs...)
	sort.Strings(c)
	return c
}

// CheckRCallMap: exact multiset equality per key, no undeclared key.
func CheckRCallMap(m *modelgen.Model, observed map[string][]string) []Mismatch {
	want := RCallMap(m)
	declared := m.Declared()
	var out []Mismatch
	for k, callers := range observed {
		if _, ok := declared[k]; !ok {
			out = append(out, Mismatch{"rmap-undeclared-key", fmt.Sprintf("reverse map lists %q which is not declared in the project", k)})
			continue
		}
		for _, c := range callers {
			if _, ok := declared[c]; !ok {
				out = append(out, Mismatch{"rmap-undeclared-caller", fmt.Sprintf("reverse map lists caller %q of %q which is not declared", c, k)})
			}
		}
		if strings.Join(sortedCopy(callers), "\x00") != strings.Join(sortedCopy(want[k]), "\x00") {
			out = append(out, Mismatch{"rmap-callers-differ", fmt.Sprintf("callers of %q: observed %v, model has %v", k, sortedCopy(callers), sortedCopy(want[k]))})
		}
	}
	for k := range want {
		if _, ok := observed[k]; !ok {
			out = append(out, Mismatch{"rmap-key-missing", fmt.Sprintf("reverse map lacks %q (callers %v)", k, want[k])})
		}
	}
	return dedupe(out)
}

// RPermitted returns the edges caller->callee that lie on a caller chain ending at target.
func RPermitted(rmap map[string][]string, target string) map[obs.Edge]bool {
	anc := map[string]bool{target: true}
	stack := []string{target}
	for len(stack) > 0 {
		f := stack[len(stack)-1]
		stack = stack[:len(stack)-1]
		for _, c := range rmap[f] {
			if !anc[c] {
				anc[c] = true
				stack = append(stack, c)
			}
		}
	}
	out := map[obs.Edge]bool{}
	for f := range anc {
		for _, c := range rmap[f] {
			out[obs.Edge{From: c, To: f}] = true
		}
	}
	return out
}

// CheckRCallEdges decides the graph clauses of C04.
func CheckRCallEdges(m *modelgen.Model, target string, edges []obs.Edge) []Mismatch {
	rmap := RCallMap(m)
	permitted := RPermitted(rmap, target)
	var out []Mismatch
	got := map[obs.Edge]bool{}
	for _, e := range edges {
		got[e] = true
		if !permitted[e] {
			out = append(out, Mismatch{"redge-not-on-caller-chain", fmt.Sprintf("edge %q -> %q is not a project call on a caller chain ending at %q", e.From, e.To, target)})
		}
	}
	for _, c := range rmap[target] {
		if c == target {
			continue
		}
		if !got[obs.Edge{From: c, To: target}] {
			out = append(out, Mismatch{"direct-caller-missing", fmt.Sprintf("direct caller %q of target %q has no edge", c, target)})
		}
	}
	return dedupe(out)
}
