package oracle

// C12 oracle: the extracted API list against the planted Spring ground truth.
//
// What the statement fixes and this oracle therefore demands, per planted handler (a mapping-annotated method
// of a class annotated @RestController/@Controller): exactly one entry keyed by (package, class, method) with
//   - HttpMethod = the verb named by Get/Post/Put/DeleteMapping or by @RequestMapping(method = RequestMethod.X)
//   - Uri        = the class's OWN base path (empty without class-level mapping) followed by the method's path:
//                  the plain concatenation of the two strings as written ("/a/" + "/x" = "/a//x", "/a/" + "x" = "/a/x")
//   - RequestBodyClass = the type of the parameter annotated @RequestBody, "" if there is none
// and no entry at all for anything else (non-handler methods, members of classes without controller annotation).
//
// What the statement leaves open and this oracle therefore does NOT demand:
//   - the verb of a @RequestMapping without method=           (Mapping.VerbDetermined() == false)
//   - the Uri when the method-level mapping carries no path literal (bare / method= only / constant reference),
//     or when the class-level mapping is bare or a constant reference (base path not written in the file)
//   - MethodParams, ResponseStatus, the order of the list
// Those fields are still covered by the independence relation (SpringCheckIndependence): whatever the tool
// reports for controller X must be the same in every project that contains X.
//
// No coca imports: observed entries arrive as SpringEntry values.

import (
	"fmt"
	"sort"
	"strings"

	"verifharness/gen/springgen"
)

// SpringEntry is one observed API entry (api_domain.RestAPI / one element of apis.json / one row of api.csv).
type SpringEntry struct {
	HttpMethod       string
	Uri              string
	RequestBodyClass string
	PackageName      string
	ClassName        string
	MethodName       string
}

func (e SpringEntry) Key() string { return e.PackageName + "." + e.ClassName + "." + e.MethodName }

func (e SpringEntry) String() string {
	return fmt.Sprintf("(%q %q body=%q %s.%s.%s)", e.HttpMethod, e.Uri, e.RequestBodyClass, e.PackageName, e.ClassName, e.MethodName)
}

type SpringMismatch struct{ Sig, Msg string }

type SpringStats struct {
	HandlersPlanted  int
	HandlersMatched  int // exactly one entry and every demanded field equal
	UriAsserted      int
	VerbAsserted     int
	BodyPlanted      int
	SilentMembers    int // members that must contribute nothing (non-handlers in controllers, methods of non-controllers)
	EntriesObserved  int
	NonControllerCls int
}

// SpringExpectedUri returns base+path and whether the statement determines it.
func SpringExpectedUri(c *springgen.Class, m *springgen.Member) (string, bool) {
	if !c.BaseDetermined() || !m.Mapping.PathDetermined() {
		return "", false
	}
	return c.OwnBase() + m.Mapping.Path, true
}

func orderWord(c *springgen.Class) string {
	if c.ClassMap == springgen.ClassMapNone {
		return "no-class-mapping"
	}
	if c.MarkerFirst {
		return "controller-annotation-first"
	}
	return "class-mapping-first"
}

// SpringCheck compares one observed list with the planted classes. view names the observation channel
// ("api" in-process, "apis.json", "api.csv"); withBody=false for channels that do not carry the request-body
// type (api.csv).
func SpringCheck(classes []*springgen.Class, observed []SpringEntry, view string, withBody bool) ([]SpringMismatch, SpringStats) {
	var ms []SpringMismatch
	var st SpringStats
	st.EntriesObserved = len(observed)
	add := func(sig, format string, args ...interface{}) {
		ms = append(ms, SpringMismatch{Sig: sig, Msg: "[" + view + "] " + fmt.Sprintf(format, args...)})
	}
	byKey := map[string][]SpringEntry{}
	var keyOrder []string
	for _, e := range observed {
		if _, ok := byKey[e.Key()]; !ok {
			keyOrder = append(keyOrder, e.Key())
		}
		byKey[e.Key()] = append(byKey[e.Key()], e)
	}
	type silent struct {
		c     *springgen.Class
		m     *springgen.Member
		other *springgen.OtherType // method of a nested / second top-level class of c's file
		name  string
	}
	silentByKey := map[string]silent{}
	claimed := map[string]bool{}

	// bases of the other classes, to recognise a foreign base path in a wrong Uri
	type baseOf struct {
		name, base string
	}
	var bases []baseOf
	for _, c := range classes {
		if c.ClassMap != springgen.ClassMapNone {
			bases = append(bases, baseOf{c.Package + "." + c.Name, c.Base})
		}
	}

	for _, c := range classes {
		if !c.Controller {
			st.NonControllerCls++
		}
		for _, ot := range c.OtherTypes() {
			for _, mn := range ot.Methods {
				st.SilentMembers++
				silentByKey[c.Package+"."+ot.Name+"."+mn] = silent{c: c, other: ot, name: mn}
			}
		}
		for _, m := range c.Members {
			key := c.Package + "." + c.Name + "." + m.Name
			switch m.Kind {
			case springgen.KindField, springgen.KindCtor, springgen.KindNested:
				continue
			case springgen.KindMethod, springgen.KindCarrier:
				st.SilentMembers++
				silentByKey[key] = silent{c: c, m: m}
				continue
			}
			// planted handler
			st.HandlersPlanted++
			claimed[key] = true
			mp := m.Mapping
			got := byKey[key]
			desc := fmt.Sprintf("%s %s in %s [%s, %s]", mp.Text, m.Name, c.Name, strings.Join(c.ClassAnnos, " "), orderWord(c))
			if len(got) == 0 {
				// reported under the name of another class declared in the same file?
				found := false
				for _, ot := range c.OtherTypes() {
					k2 := c.Package + "." + ot.Name + "." + m.Name
					if es := byKey[k2]; len(es) > 0 && !claimed[k2] {
						if _, isOwn := silentByKey[k2]; isOwn {
							continue
						}
						claimed[k2] = true
						found = true
						add("handler-class/name-of-another-class-of-the-file/"+ot.Where, "handler %s is listed as %v: %s is a class declared in the same file (%s), the handler belongs to %s", desc, es, ot.Name, ot.Where, c.Name)
						break
					}
				}
				if found {
					continue
				}
				sig := fmt.Sprintf("missing-handler/%s/%s/class-mapping=%s", mp.Anno, mp.Form, c.ClassMap)
				if m.AfterNested {
					sig = "missing-handler/declared-after-a-nested-class"
				}
				add(sig, "no entry for planted handler %s", desc)
				continue
			}
			if len(got) > 1 {
				add(fmt.Sprintf("duplicate-handler/%s/%s", mp.Anno, mp.Form), "%d entries for planted handler %s: %v", len(got), desc, got)
				continue
			}
			e := got[0]
			ok := true
			if mp.VerbDetermined() {
				st.VerbAsserted++
				if e.HttpMethod != mp.Verb {
					ok = false
					style := "by-annotation-name"
					if mp.VerbStyle != "" {
						style = "method=" + strings.TrimSuffix(mp.VerbStyle, mp.Verb) + "X"
					}
					add(fmt.Sprintf("verb/%s/%s/%s", mp.Anno, style, mp.Verb), "handler %s: HttpMethod %q, the annotation names %q", desc, e.HttpMethod, mp.Verb)
				}
			}
			if want, det := SpringExpectedUri(c, m); det {
				st.UriAsserted++
				if e.Uri != want {
					ok = false
					own := c.OwnBase()
					var others []string
					for _, b := range bases {
						if b.name != c.Package+"."+c.Name && b.base != own && b.base != "" {
							others = append(others, b.base)
						}
					}
					sig := "uri/" + springUriClass(e.Uri, own, mp.Path, others)
					switch {
					case strings.HasPrefix(sig, "uri/method-path-lost"):
						sig += fmt.Sprintf("/%s/%s", mp.Anno, mp.Form)
					case strings.HasPrefix(sig, "uri/other"):
						sig += fmt.Sprintf("/%s/%s/class-mapping=%s/%s", mp.Anno, mp.Form, c.ClassMap, orderWord(c))
					default:
						sig += fmt.Sprintf("/own-class-mapping=%s/%s", c.ClassMap, orderWord(c))
					}
					add(sig, "handler %s: Uri %q, own base path %q + method path %q = %q", desc, e.Uri, own, mp.Path, want)
				}
			}
			if withBody {
				wantBody := m.BodyType()
				if wantBody != "" {
					st.BodyPlanted++
				}
				if e.RequestBodyClass != wantBody {
					ok = false
					add("body/planted="+m.BodyShape(), "handler %s(%s): RequestBodyClass %q, the @RequestBody parameter has type %q", desc, paramText(m), e.RequestBodyClass, wantBody)
				}
			}
			if ok {
				st.HandlersMatched++
			}
		}
	}

	// entries nobody planted
	for _, key := range keyOrder {
		if claimed[key] {
			continue
		}
		es := byKey[key]
		if s, ok := silentByKey[key]; ok {
			c, m := s.c, s.m
			if s.other != nil {
				add("extra/method-of-"+s.other.Where+"-class", "%d entr(y/ies) %v for %s.%s: %s is a class without mapping annotations declared in the file of %s", len(es), es, s.other.Name, s.name, s.other.Name, c.Name)
				continue
			}
			pos := "later-method"
			if m.FirstMethodOfClass {
				pos = "first-method-of-class"
			}
			if c.Controller {
				add(fmt.Sprintf("extra/non-handler-method/%s/class-mapping=%s/%s", pos, c.ClassMap, orderWord(c)),
					"%d entr(y/ies) %v for %s.%s, which carries no mapping annotation (annotations: %v; class annotations: %v)", len(es), es, c.Name, m.Name, m.AnnosBefore, c.ClassAnnos)
			} else {
				kind := "method-without-mapping"
				if m.Kind == springgen.KindCarrier {
					kind = "mapping-annotated-method"
				}
				add(fmt.Sprintf("extra/class-without-controller-annotation/%s/%s/%s", c.Role, kind, pos),
					"%d entr(y/ies) %v for %s.%s of a %s annotated %v: classes without @RestController/@Controller contribute nothing", len(es), es, c.Name, m.Name, c.TypeKind, c.ClassAnnos)
			}
			continue
		}
		add("extra/unplanted-key", "%d entr(y/ies) %v match no planted method (package, class or method name wrong)", len(es), es)
	}
	return ms, st
}

// springUriClass names the way an observed Uri differs from own+path (others: base paths of the other classes).
func springUriClass(observed, own, path string, others []string) string {
	in := func(x string) bool {
		for _, o := range others {
			if o == x {
				return true
			}
		}
		return false
	}
	if path != "" && observed == own {
		if own == path {
			return "own-base-or-method-path-lost"
		}
		return "method-path-lost"
	}
	if strings.HasSuffix(observed, path) {
		prefix := observed[:len(observed)-len(path)]
		switch {
		case prefix == "":
			return "own-base-lost"
		case in(prefix):
			return "base-of-another-class"
		case strings.HasSuffix(own, "/") && len(own) > 1 && prefix == strings.TrimSuffix(own, "/"):
			return "trailing-slash-of-own-base-lost"
		case own != "" && strings.HasSuffix(prefix, own):
			return "prefix-in-front-of-own-base"
		}
		return "foreign-prefix"
	}
	switch {
	case observed == "":
		return "own-base-and-method-path-lost"
	case in(observed):
		return "method-path-lost+base-of-another-class"
	}
	return "other"
}

func paramText(m *springgen.Member) string {
	var parts []string
	for _, p := range m.Params {
		parts = append(parts, strings.TrimSpace(strings.Join(p.Modifiers, " ")+" "+p.Type+" "+p.Name))
	}
	return strings.Join(parts, ", ")
}

// SpringEntriesOf returns the sorted multiset of entries attributed to class c.
func SpringEntriesOf(c *springgen.Class, observed []SpringEntry) []string {
	var out []string
	for _, e := range observed {
		if e.PackageName == c.Package && e.ClassName == c.Name {
			out = append(out, e.String())
		}
	}
	sort.Strings(out)
	return out
}

// SpringCheckIndependence: "a controller's entries do not depend on which other controllers the project
// contains". ref is the list observed for the project that contains only c; other is the list observed for a
// project that contains c among others (otherName describes it: which classes, which file order).
func SpringCheckIndependence(c *springgen.Class, ref, other []SpringEntry, otherName string) []SpringMismatch {
	a := SpringEntriesOf(c, ref)
	b := SpringEntriesOf(c, other)
	if strings.Join(a, "\n") == strings.Join(b, "\n") {
		return nil
	}
	// name the first differing field class for the signature
	field := "entries"
	if len(a) == len(b) {
		field = "fields"
	} else if len(a) < len(b) {
		field = "more-entries-together"
	} else {
		field = "fewer-entries-together"
	}
	return []SpringMismatch{{
		Sig: fmt.Sprintf("independence/%s/class-mapping=%s/%s", field, c.ClassMap, orderWord(c)),
		Msg: fmt.Sprintf("entries of %s.%s alone: %v; in %s: %v", c.Package, c.Name, a, otherName, b),
	}}
}
