package oracle

import (
	"fmt"
	"sort"
	"strings"

	"verifharness/gen/javagen"
)

// Observed code model (adapters convert coca's structs into these; no coca imports here).
type ObsAnno struct {
	Name string
	KVs  [][2]string
}

type ObsCall struct {
	Package, NodeName, FunctionName, Type string
	Line, Col, StopLine, StopCol         int
}

type ObsFunc struct {
	Name, ReturnType string
	Params           [][2]string // (type, name)
	IsCtor           bool
	Calls            []ObsCall
	Line, Col        int
	StopLine         int
	StopCol          int
	Annotations      []ObsAnno
	Modifiers        []string
	IsReturnNull     bool
}

type ObsType struct {
	Package, Name, Kind, FilePath, Extend string
	Annotations                           []ObsAnno
	Functions                             []ObsFunc
}

func noBlank(s string) string {
	return strings.Join(strings.Fields(s), "")
}

func annoKey(name string, kvs [][2]string) string {
	var parts []string
	for _, kv := range kvs {
		parts = append(parts, noBlank(kv[0])+"="+noBlank(kv[1]))
	}
	return name + "(" + strings.Join(parts, ",") + ")"
}

func plantedAnnoKey(a javagen.Annotation) string {
	switch a.Form {
	case "single":
		return annoKey(a.Name, [][2]string{{a.Value, a.Value}})
	case "pairs":
		return annoKey(a.Name, a.Pairs)
	}
	return annoKey(a.Name, nil)
}

func funcKey(name, ret string, params [][2]string, withParams bool) string {
	k := name + ":" + noBlank(ret)
	if withParams {
		var ps []string
		for _, p := range params {
			ps = append(ps, noBlank(p[0])+" "+p[1])
		}
		k += "(" + strings.Join(ps, ",") + ")"
	}
	return k
}

func plantedFuncKey(m *javagen.Method, withParams bool) string {
	return plantedFuncKeys(m, withParams)[0]
}

// plantedFuncKeys returns the acceptable keys of a planted function. A parameter written C-style (`int a[]`) may be
// recorded with the type text left of the name or with the brackets appended: the statement's "(type, name)" does not
// settle which, so both are accepted (the name must be the bare identifier either way).
func plantedFuncKeys(m *javagen.Method, withParams bool) []string {
	ret := m.Ret
	if m.IsCtor {
		ret = ""
	}
	var a, b [][2]string
	cstyle := false
	for _, p := range m.Params {
		a = append(a, [2]string{p.Type, p.Name})
		b = append(b, [2]string{p.Type + p.Dims, p.Name})
		if p.Dims != "" {
			cstyle = true
		}
	}
	keys := []string{funcKey(m.Name, ret, a, withParams)}
	if cstyle && withParams {
		keys = append(keys, funcKey(m.Name, ret, b, withParams))
	}
	return keys
}

func multiset(xs []string) map[string]int {
	m := map[string]int{}
	for _, x := range xs {
		m[x]++
	}
	return m
}

func diffMultiset(want, got map[string]int) (missing, extra []string) {
	for k, n := range want {
		if got[k] < n {
			missing = append(missing, fmt.Sprintf("%s x%d", k, n-got[k]))
		}
	}
	for k, n := range got {
		if want[k] < n {
			extra = append(extra, fmt.Sprintf("%s x%d", k, n-want[k]))
		}
	}
	sort.Strings(missing)
	sort.Strings(extra)
	return
}

// CheckDeclarations decides C01 for one pass. full=true: the full pass (parameters and file paths are part of the
// record); full=false: the identifier pass (its record has neither, DESIGN §4 C01 reading note).
// pathOf maps a project-relative path to the path handed to coca.
func CheckDeclarations(p *javagen.Project, observed []ObsType, full bool, pathOf func(rel string) string) (ms []Mismatch, planted, matched int) {
	pass := "ident"
	if full {
		pass = "full"
	}
	add := func(sig, format string, args ...interface{}) {
		ms = append(ms, Mismatch{pass + "/" + sig, fmt.Sprintf(format, args...)})
	}
	byKey := map[string][]ObsType{}
	for _, t := range observed {
		k := t.Package + "." + t.Name
		byKey[k] = append(byKey[k], t)
	}
	plantedKeys := map[string]*javagen.File{}
	roleOf := map[string]string{}
	for _, f := range p.Files {
		if f.Type == nil {
			continue
		}
		roleOf[f.Pkg+"."+f.Type.Name] = f.Role
		if f.Role == javagen.RoleMain {
			plantedKeys[f.Pkg+"."+f.Type.Name] = f
		}
	}
	// non-java decoys declare classes too (in text): their names are <Word>Doc<N>
	for k, ts := range byKey {
		if _, ok := plantedKeys[k]; !ok {
			role := roleOf[k]
			if role == "" {
				role = "undeclared-or-non-java"
			}
			add("type-extra/"+role, "model lists type %s (kind %s) which no main .java file declares (role of its source: %s)", k, ts[0].Kind, role)
		}
	}
	for k, f := range plantedKeys {
		planted++
		ts := byKey[k]
		if len(ts) == 0 {
			add("type-missing/"+f.Type.Kind, "declared %s %s (%s) has no entry in the model", f.Type.Kind, k, f.RelPath)
			continue
		}
		if len(ts) > 1 {
			add("type-duplicate", "declared type %s has %d entries", k, len(ts))
			continue
		}
		t := ts[0]
		matched++
		if t.Kind != f.Type.Kind {
			add("type-kind", "%s is a %s, model says %q", k, f.Type.Kind, t.Kind)
		}
		if full && t.FilePath != pathOf(f.RelPath) {
			add("filepath", "%s: FilePath %q, the file handed to coca is %q", k, t.FilePath, pathOf(f.RelPath))
		}
		// superclass
		if f.Type.Kind == "Class" {
			okExt := t.Extend == noBlank(f.Type.Extends) || (f.Type.ExtendsFQ != "" && t.Extend == f.Type.ExtendsFQ)
			if !okExt {
				add("extend", "%s: declared superclass %q (resolves to %q), model says %q", k, f.Type.Extends, f.Type.ExtendsFQ, t.Extend)
			}
		}
		// annotations
		var wantA, gotA []string
		for _, a := range f.Type.Annotations {
			wantA = append(wantA, plantedAnnoKey(a))
		}
		for _, a := range t.Annotations {
			gotA = append(gotA, annoKey(a.Name, a.KVs))
		}
		if miss, extra := diffMultiset(multiset(wantA), multiset(gotA)); len(miss)+len(extra) > 0 {
			add("class-annotations", "%s: class annotations missing %v, unexpected %v", k, miss, extra)
		}
		// functions
		var wantF, gotF []string
		sameLine := false
		iface := f.Type.Kind == "Interface"
		for _, m := range f.Type.Methods() {
			if m.SameLineAsPrev {
				sameLine = true
			}
		}
		for _, fn := range t.Functions {
			if fn.Name == "" {
				continue // unnamed artefacts are outside the statement ("named function entry")
			}
			gotF = append(gotF, funcKey(fn.Name, fn.ReturnType, fn.Params, full))
		}
		gotSet := multiset(gotF)
		var miss, extra []string
		for _, m := range f.Type.Methods() {
			found := false
			for _, key := range plantedFuncKeys(m, full) {
				if gotSet[key] > 0 {
					gotSet[key]--
					found = true
					break
				}
			}
			if !found {
				miss = append(miss, plantedFuncKey(m, full))
			}
		}
		for key, n := range gotSet {
			if n > 0 {
				extra = append(extra, fmt.Sprintf("%s x%d", key, n))
			}
		}
		sort.Strings(miss)
		sort.Strings(extra)
		_ = wantF
		if len(miss)+len(extra) > 0 {
			sig := "functions"
			switch {
			case len(miss) > 0 && len(extra) == 0 && sameLine:
				sig = "function-missing/members-share-a-line"
			case len(miss) > 0 && len(extra) == 0:
				sig = "function-missing"
			case len(miss) == 0:
				sig = "function-extra"
			case iface:
				sig = "function-differs/interface-method"
			default:
				sig = "function-differs"
			}
			add(sig, "%s (%s): functions missing %v, unexpected %v", k, f.RelPath, miss, extra)
		}
	}
	return dedupe(ms), planted, matched
}

// CheckCallSites decides C02 on the full-pass model: per function the recorded calls equal the planted sites in
// source order (kind, callee / created type), invocations carry the exact position of the callee identifier, and
// the receiver-resolution clause holds for the sites it applies to.
func CheckCallSites(p *javagen.Project, observed []ObsType) (ms []Mismatch, planted, matched, resolvedChecked int) {
	add := func(sig, format string, args ...interface{}) {
		ms = append(ms, Mismatch{sig, fmt.Sprintf(format, args...)})
	}
	byKey := map[string]ObsType{}
	for _, t := range observed {
		byKey[t.Package+"."+t.Name] = t
	}
	for _, f := range p.Files {
		if f.Role != javagen.RoleMain || f.Type == nil {
			continue
		}
		t, ok := byKey[f.Pkg+"."+f.Type.Name]
		if !ok {
			continue // C01's business
		}
		obsByKey := map[string][]ObsFunc{}
		for _, fn := range t.Functions {
			k := funcKey(fn.Name, fn.ReturnType, fn.Params, true)
			obsByKey[k] = append(obsByKey[k], fn)
		}
		for _, m := range f.Type.Methods() {
			if m.NoBody {
				continue
			}
			var fns []ObsFunc
			for _, key := range plantedFuncKeys(m, true) {
				fns = append(fns, obsByKey[key]...)
			}
			if len(fns) != 1 {
				continue // missing or ambiguous function entry: C01's business
			}
			fn := fns[0]
			planted += len(m.Sites)
			where := fmt.Sprintf("%s.%s.%s (%s)", f.Pkg, f.Type.Name, m.Name, f.RelPath)
			if len(fn.Calls) != len(m.Sites) {
				var want, got []string
				for _, s := range m.Sites {
					want = append(want, s.Kind+":"+s.Name)
				}
				for _, c := range fn.Calls {
					if c.FunctionName == "" {
						got = append(got, "new:"+c.NodeName)
					} else {
						got = append(got, "call:"+c.FunctionName)
					}
				}
				sig := "site-count"
				if len(fn.Calls) < len(m.Sites) {
					sig = "site-missing"
				} else {
					sig = "site-extra"
				}
				add(sig, "%s: %d sites written %v, %d recorded %v", where, len(m.Sites), want, len(fn.Calls), got)
				continue
			}
			for i, s := range m.Sites {
				c := fn.Calls[i]
				if s.Kind == "new" {
					if c.FunctionName != "" || c.NodeName != s.Name {
						add("site-order-or-kind", "%s: site %d is `new %s` (line %d), recorded as %s.%s", where, i, s.Name, s.Line, c.NodeName, c.FunctionName)
						break
					}
					matched++
					continue
				}
				if c.FunctionName != s.Name {
					add("site-order-or-kind", "%s: site %d is a call of %s (line %d col %d), recorded as %q on %q", where, i, s.Name, s.Line, s.Col, c.FunctionName, c.NodeName)
					break
				}
				matched++
				if c.Line != s.Line || c.Col != s.Col || c.StopCol != s.Col+len([]rune(s.Name)) {
					add("site-position", "%s: call of %s is written at line %d cols [%d,%d), recorded line %d cols [%d,%d)", where, s.Name, s.Line, s.Col, s.Col+len(s.Name), c.Line, c.Col, c.StopCol)
				}
				if s.Resolved {
					resolvedChecked++
					if c.NodeName != s.RecvType || c.Package != s.RecvPkg {
						add("receiver-type/"+s.Recv, "%s: call %s at line %d has %s receiver %q of declared type %s.%s, recorded against %q.%q", where, s.Name, s.Line, s.Recv, s.RecvVar, s.RecvPkg, s.RecvType, c.Package, c.NodeName)
					}
				}
			}
		}
	}
	return dedupe(ms), planted, matched, resolvedChecked
}
