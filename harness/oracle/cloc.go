package oracle

// Reference model and offline checker for C16 (per-directory line counts / top-file report). No coca imports:
// expectations are computed from the planted tree (gen/treegen) only.
//
// What the statement fixes, and therefore what is demanded:
//
//	by-directory  header  = `package,summary` + language names, no name twice; "the languages found in the whole
//	                        tree": every language with a file anywhere in the tree (under the include-ext filter),
//	                        the IDE / report directories .idea and coca_reporter included (the repository's own
//	                        golden cloc_ignore.txt names a language found only in .idea), MUST be named; a language
//	                        found only below a top-level .git/.svn/.hg MAY be named (whether version-control
//	                        metadata is part of the tree is left open); nothing else may be named.
//	                        Column order: not promised, not asserted.
//	              rows    = exactly one per immediate sub-directory that is not .git/.svn/.hg/.idea/coca_reporter
//	                        (empty ones included); order not promised, not asserted.
//	              cell    = planted code lines of that language below that sub-directory (0 when none)
//	              summary = sum of the cells of the row
//	top-file      per language: files in non-increasing order of code lines; per-file code == planted; every file
//	              of the tree MUST be listed, files below a top-level .git/.svn/.hg MAY be (same reason as above);
//	              the printed table of a language has min(N, len) rows, in non-increasing order, carrying the
//	              min(N, len) largest figures of that list.
//
// Not asserted: complexity, bytes, comment/blank figures, the `Location` text of the printed table beyond being a
// suffix of the path of a file with that language and figure, whether tables are printed at all when the report
// has more than five languages (cmd/cloc.go suppresses them on purpose), base_cloc.json/debug_cloc.json.

import (
	"fmt"
	"sort"
	"strconv"
	"strings"

	"verifharness/gen/treegen"
)

type ClocMismatch struct{ Sig, Msg string }

// ClocFilter is the include-ext configuration (nil/empty: everything).
type ClocFilter []string

func (f ClocFilter) Allows(ext string) bool {
	if len(f) == 0 {
		return true
	}
	for _, x := range f {
		if x == ext {
			return true
		}
	}
	return false
}

// ByDirExpect is the reference by-directory report.
type ByDirExpect struct {
	Rows         []string                  // immediate, non-ignored sub-directories
	Cell         map[string]map[string]int // dir -> language -> planted code lines
	MustLangs    map[string]bool           // languages with a file outside ignored directories
	MayLangs     map[string]bool           // languages anywhere in the tree
	IgnoredNames map[string]bool
	Kind         map[string]string
}

func ExpectByDir(t *treegen.Tree, flt ClocFilter) *ByDirExpect {
	e := &ByDirExpect{Cell: map[string]map[string]int{}, MustLangs: map[string]bool{}, MayLangs: map[string]bool{}, IgnoredNames: map[string]bool{}, Kind: map[string]string{}}
	for _, s := range t.Subs {
		e.Kind[s.Name] = s.Kind
		if treegen.IsIgnoredName(s.Name) {
			e.IgnoredNames[s.Name] = true
			continue
		}
		e.Rows = append(e.Rows, s.Name)
		e.Cell[s.Name] = map[string]int{}
	}
	for i := range t.Files {
		f := &t.Files[i]
		if !flt.Allows(f.Ext) {
			continue
		}
		e.MayLangs[f.Lang] = true
		top := f.TopDir()
		if !treegen.IsVCSName(top) {
			e.MustLangs[f.Lang] = true
		}
		if e.IgnoredNames[top] {
			continue
		}
		if top != "" {
			e.Cell[top][f.Lang] += f.Code
		}
	}
	return e
}

func clocSortedKeys(m map[string]bool) []string {
	var ks []string
	for k := range m {
		ks = append(ks, k)
	}
	sort.Strings(ks)
	return ks
}

// CheckByDirTable checks one rendering (cloc.csv or the stdout lines) of the by-directory report.
// table[0] is the header.
func CheckByDirTable(t *treegen.Tree, flt ClocFilter, table [][]string, what string) []ClocMismatch {
	var ms []ClocMismatch
	add := func(sig, f string, a ...interface{}) {
		ms = append(ms, ClocMismatch{sig, what + ": " + fmt.Sprintf(f, a...)})
	}
	e := ExpectByDir(t, flt)
	if len(table) == 0 {
		add("bydir-no-header", "the report is empty (no header line)")
		return ms
	}
	h := table[0]
	if len(h) < 2 || h[0] != "package" || h[1] != "summary" {
		add("bydir-header-prefix", "header %q does not start with package,summary", strings.Join(h, ","))
		return ms
	}
	col := map[string]int{}
	for i, l := range h[2:] {
		if _, dup := col[l]; dup {
			add("bydir-header-dup-lang", "header %q names %s twice", strings.Join(h, ","), l)
			continue
		}
		col[l] = i + 2
		if !e.MayLangs[l] {
			add("bydir-header-extra-lang", "header names %q, the tree (filter %v) has only %v", l, []string(flt), clocSortedKeys(e.MayLangs))
		}
	}
	for _, l := range clocSortedKeys(e.MustLangs) {
		if _, ok := col[l]; !ok {
			add("bydir-header-missing-lang", "language %s has files in the tree (outside .git/.svn/.hg) but header is %q", l, strings.Join(h, ","))
		}
	}
	// comment figures per (dir, lang) for narrower signatures
	comments := map[string]map[string]int{}
	otherDirs := map[string]map[int]string{} // lang -> code figure -> some directory having it
	for i := range t.Files {
		f := &t.Files[i]
		if !flt.Allows(f.Ext) || f.TopDir() == "" {
			continue
		}
		if comments[f.TopDir()] == nil {
			comments[f.TopDir()] = map[string]int{}
		}
		comments[f.TopDir()][f.Lang] += f.Comment
	}
	for d, cells := range e.Cell {
		for l, v := range cells {
			if otherDirs[l] == nil {
				otherDirs[l] = map[int]string{}
			}
			otherDirs[l][v] = d
		}
	}
	seen := map[string]bool{}
	for _, row := range table[1:] {
		if len(row) == 0 {
			continue
		}
		name := row[0]
		if seen[name] {
			add("bydir-row-duplicate", "directory %q has two rows", name)
			continue
		}
		seen[name] = true
		if e.IgnoredNames[name] || treegen.IsIgnoredName(name) {
			add("bydir-row-ignored-dir", "row for the ignored directory %q: %v", name, row)
			continue
		}
		cells, ok := e.Cell[name]
		if !ok {
			add("bydir-row-unknown", "row %v is not an immediate sub-directory (sub-directories: %v)", row, e.Rows)
			continue
		}
		if len(row) != len(h) {
			add("bydir-row-width", "row %v has %d fields, header has %d", row, len(row), len(h))
			continue
		}
		sum := 0
		bad := false
		for l, ci := range col {
			v, err := strconv.Atoi(row[ci])
			if err != nil {
				add("bydir-cell-not-a-number", "row %v: %q", row, row[ci])
				bad = true
				continue
			}
			sum += v
			want := cells[l]
			if v != want {
				sig := "bydir-cell"
				switch {
				case want == 0 && v != 0:
					sig = "bydir-cell-nonzero-where-dir-has-none"
				case v == want+comments[name][l] && comments[name][l] > 0:
					sig = "bydir-cell-includes-comment-lines"
				case v < want:
					sig = "bydir-cell-too-small"
				}
				hint := ""
				if d, ok := otherDirs[l][v]; ok && d != name && v != 0 {
					hint = fmt.Sprintf(" (that is the %s figure of directory %q)", l, d)
				}
				add(sig, "directory %q (%s), %s: reported %d, planted %d code lines%s", name, e.Kind[name], l, v, want, hint)
			}
		}
		if s, err := strconv.Atoi(row[1]); err != nil {
			add("bydir-cell-not-a-number", "row %v: summary %q", row, row[1])
		} else if !bad && s != sum {
			add("bydir-summary", "directory %q: summary %d, its per-language figures %v add up to %d", name, s, row[2:], sum)
		}
	}
	for _, d := range e.Rows {
		if !seen[d] {
			sig := "bydir-row-missing"
			if e.Kind[d] == "empty" {
				sig = "bydir-row-missing-empty-dir"
			}
			add(sig, "sub-directory %q (%s) has no row; rows: %v", d, e.Kind[d], clocRowNames(table))
		}
	}
	return ms
}

func clocRowNames(table [][]string) []string {
	var out []string
	for _, r := range table[1:] {
		if len(r) > 0 {
			out = append(out, r[0])
		}
	}
	return out
}

// ParseByDirStdout extracts the comma-joined table coca prints between its progress lines.
func ParseByDirStdout(stdout string) [][]string {
	var table [][]string
	in := false
	for _, line := range strings.Split(stdout, "\n") {
		line = strings.TrimRight(line, "\r")
		if !in {
			if strings.HasPrefix(line, "package,summary") || line == "package" || strings.HasPrefix(line, "package,") {
				in = true
				table = append(table, strings.Split(line, ","))
			}
			continue
		}
		if strings.HasPrefix(line, "App elapsed") || line == "" {
			break
		}
		table = append(table, strings.Split(line, ","))
	}
	return table
}

// ---- top-file ----

// ClocTopFile is one entry of sort_cloc.json, reduced to what the statement talks about. Rel is the path relative to
// the tree root (slash separated; "" when the reported location is outside the tree).
type ClocTopFile struct {
	Rel      string
	Location string
	Language string
	Code     int
}

type ClocTopLang struct {
	Name  string
	Files []ClocTopFile
}

// ClocTopTable is one printed table.
type ClocTopTable struct {
	Language string
	Rows     []ClocTopRow
}
type ClocTopRow struct {
	Length   string
	Location string
}

// ParseClocTopStdout reads the "Language: X" + tablewriter blocks.
func ParseClocTopStdout(stdout string) []ClocTopTable {
	var out []ClocTopTable
	var cur *ClocTopTable
	nbar := 0
	for _, line := range strings.Split(stdout, "\n") {
		line = strings.TrimRight(line, "\r")
		if strings.HasPrefix(line, "Language: ") {
			out = append(out, ClocTopTable{Language: strings.TrimPrefix(line, "Language: ")})
			cur = &out[len(out)-1]
			nbar = 0
			continue
		}
		if cur == nil || !strings.HasPrefix(line, "|") {
			if !strings.HasPrefix(line, "|") {
				cur = nil
			}
			continue
		}
		nbar++
		if nbar <= 2 { // header + separator
			continue
		}
		cells := strings.Split(strings.Trim(line, "|"), "|")
		if len(cells) < 3 {
			continue
		}
		cur.Rows = append(cur.Rows, ClocTopRow{Length: strings.TrimSpace(cells[0]), Location: strings.TrimSpace(strings.Join(cells[2:], "|"))})
	}
	return out
}

// CheckClocTopFile checks sort_cloc.json (langs) and the printed tables against the planted tree.
// n is the requested top size.
func CheckClocTopFile(t *treegen.Tree, flt ClocFilter, n int, langs []ClocTopLang, tables []ClocTopTable) []ClocMismatch {
	var ms []ClocMismatch
	add := func(sig, f string, a ...interface{}) { ms = append(ms, ClocMismatch{sig, fmt.Sprintf(f, a...)}) }
	planted := map[string]*treegen.File{}
	must := map[string]map[string]bool{} // language -> rel paths that must be listed
	may := map[string]bool{}
	for i := range t.Files {
		f := &t.Files[i]
		if !flt.Allows(f.Ext) {
			continue
		}
		planted[f.Rel] = f
		may[f.Lang] = true
		if treegen.IsVCSName(f.TopDir()) {
			continue
		}
		if must[f.Lang] == nil {
			must[f.Lang] = map[string]bool{}
		}
		must[f.Lang][f.Rel] = true
	}
	seenLang := map[string]bool{}
	byLang := map[string]*ClocTopLang{}
	for i := range langs {
		l := &langs[i]
		if seenLang[l.Name] {
			add("top-lang-duplicate", "sort_cloc.json has two entries for %s", l.Name)
			continue
		}
		seenLang[l.Name] = true
		byLang[l.Name] = l
		if !may[l.Name] {
			add("top-lang-extra", "sort_cloc.json lists language %q, the tree (filter %v) has %v", l.Name, []string(flt), clocSortedKeys(may))
			continue
		}
		seen := map[string]bool{}
		for j, f := range l.Files {
			p, ok := planted[f.Rel]
			switch {
			case f.Rel == "" || !ok:
				add("top-file-unknown", "%s: listed file %q is not a planted file of the tree (filter %v)", l.Name, f.Location, []string(flt))
				continue
			case seen[f.Rel]:
				add("top-file-duplicate", "%s: %q listed twice", l.Name, f.Rel)
				continue
			}
			seen[f.Rel] = true
			if p.Lang != l.Name {
				add("top-file-wrong-language", "%q (%s) is listed under %s", f.Rel, p.Lang, l.Name)
			}
			if f.Code != p.Code {
				sig := "top-file-code"
				if f.Code == p.Code+p.Comment && p.Comment > 0 {
					sig = "top-file-code-includes-comment-lines"
				}
				add(sig, "%s: %q reported with %d code lines, planted %d (comment %d, blank %d)", l.Name, f.Rel, f.Code, p.Code, p.Comment, p.Blank)
			}
			if j > 0 && l.Files[j-1].Code < f.Code {
				add("top-order", "%s: entry %d (%q, %d) follows entry %d (%q, %d): not in non-increasing order of code lines",
					l.Name, j, f.Rel, f.Code, j-1, l.Files[j-1].Rel, l.Files[j-1].Code)
			}
		}
		var missing []string
		for rel := range must[l.Name] {
			if !seen[rel] {
				missing = append(missing, rel)
			}
		}
		sort.Strings(missing)
		if len(missing) > 0 {
			add("top-file-missing", "%s: %d planted file(s) not listed, e.g. %q", l.Name, len(missing), missing[0])
		}
	}
	for l := range must {
		if !seenLang[l] {
			add("top-lang-missing", "language %s has %d file(s) in the tree (outside .git/.svn/.hg) but no entry in sort_cloc.json", l, len(must[l]))
		}
	}
	// printed tables
	tabSeen := map[string]bool{}
	for _, tb := range tables {
		if tabSeen[tb.Language] {
			add("top-table-duplicate", "two printed tables for %s", tb.Language)
			continue
		}
		tabSeen[tb.Language] = true
		l, ok := byLang[tb.Language]
		if !ok {
			add("top-table-unknown-language", "printed table for %q, which sort_cloc.json does not list", tb.Language)
			continue
		}
		want := len(l.Files)
		if n < want {
			want = n
		}
		if len(tb.Rows) != want {
			sig := "top-table-not-truncated"
			if len(tb.Rows) < want {
				sig = "top-table-too-short"
			}
			add(sig, "%s: %d rows printed, the language has %d files and the requested size is %d", tb.Language, len(tb.Rows), len(l.Files), n)
		}
		// the printed rows are the `want` largest figures of the language's list (the multiset of the N largest
		// values is unique even with ties)
		all := make([]int, 0, len(l.Files))
		for _, f := range l.Files {
			all = append(all, f.Code)
		}
		sort.Sort(sort.Reverse(sort.IntSlice(all)))
		got := make([]int, 0, len(tb.Rows))
		for _, r := range tb.Rows {
			if v, err := strconv.Atoi(r.Length); err == nil {
				got = append(got, v)
			}
		}
		sort.Sort(sort.Reverse(sort.IntSlice(got)))
		if len(got) == want && len(tb.Rows) == want {
			for j := range got {
				if got[j] != all[j] {
					add("top-table-not-the-largest", "%s: the %d printed rows have code lines %v, the %d largest of the %d listed files have %v",
						tb.Language, want, clipInts(got, 12), want, len(l.Files), clipInts(all[:want], 12))
					break
				}
			}
		}
		prev := 0
		for j, r := range tb.Rows {
			v, err := strconv.Atoi(r.Length)
			if err != nil {
				add("top-table-not-a-number", "%s row %d: %q", tb.Language, j, r.Length)
				continue
			}
			if j > 0 && v > prev {
				add("top-table-order", "%s: printed row %d has %d code lines after %d", tb.Language, j, v, prev)
			}
			prev = v
			if j < len(l.Files) && l.Files[j].Code != v {
				add("top-table-differs-from-list", "%s: printed row %d has %d code lines, entry %d of sort_cloc.json has %d", tb.Language, j, v, j, l.Files[j].Code)
			}
			// the location is some suffix of the path of a planted file of that language with that figure
			okLoc := false
			for _, p := range planted {
				if p.Lang == tb.Language && p.Code == v && strings.HasSuffix("/"+p.Rel, r.Location) {
					okLoc = true
					break
				}
			}
			if !okLoc && err == nil {
				// the figure may itself be wrong (reported above through the list); only complain about the text
				// when no planted file of the language ends in it at all
				any := false
				for _, p := range planted {
					if p.Lang == tb.Language && strings.HasSuffix("/"+p.Rel, r.Location) {
						any = true
						break
					}
				}
				if !any {
					add("top-table-location", "%s: printed location %q is not a suffix of the path of any planted %s file", tb.Language, r.Location, tb.Language)
				}
			}
		}
	}
	if len(langs) <= 5 {
		for _, l := range langs {
			if !tabSeen[l.Name] && may[l.Name] {
				add("top-table-missing", "%d languages reported, but no table printed for %s", len(langs), l.Name)
			}
		}
	}
	return ms
}

func clipInts(xs []int, n int) []int {
	if len(xs) > n {
		return xs[:n]
	}
	return xs
}
