package oracle

import (
	"fmt"
	"sort"
	"strings"
)

// ReplaceTokens returns text with the tokens of length oldLen at the given byte offsets replaced by repl.
func ReplaceTokens(text string, offs []int, oldLen int, repl string) string {
	offs = append([]int(nil), offs...)
	sort.Ints(offs)
	// de-duplicate (a token can only be replaced once)
	var u []int
	for i, o := range offs {
		if i == 0 || o != offs[i-1] {
			u = append(u, o)
		}
	}
	for i := len(u) - 1; i >= 0; i-- {
		text = text[:u[i]] + repl + text[u[i]+oldLen:]
	}
	return text
}

// FirstDiffLine returns the first line in which two texts differ.
func FirstDiffLine(want, got string) (line int, w, g string) {
	wl, gl := strings.Split(want, "\n"), strings.Split(got, "\n")
	for i := 0; i < len(wl) || i < len(gl); i++ {
		var a, b string
		if i < len(wl) {
			a = wl[i]
		} else {
			a = "<no such line>"
		}
		if i < len(gl) {
			b = gl[i]
		} else {
			b = "<no such line>"
		}
		if a != b {
			return i + 1, clip(a), clip(b)
		}
	}
	return 0, "", ""
}

func clip(s string) string {
	if len(s) > 220 {
		return s[:220] + "…"
	}
	return s
}

// FirstDiff compares two sorted line lists.
func FirstDiff(want, have []string) string {
	if len(want) != len(have) {
		return fmt.Sprintf("%d entries expected, %d found", len(want), len(have))
	}
	for i := range want {
		if want[i] != have[i] {
			// show the region around the first differing character
			a, b := want[i], have[i]
			k := 0
			for k < len(a) && k < len(b) && a[k] == b[k] {
				k++
			}
			from := k - 80
			if from < 0 {
				from = 0
			}
			return fmt.Sprintf("entry %q: expected …%q, found …%q", clip(a[:minInt(len(a), 90)]), clip(a[from:]), clip(b[from:]))
		}
	}
	return ""
}

func minInt(a, b int) int {
	if a < b {
		return a
	}
	return b
}
