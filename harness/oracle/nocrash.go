package oracle

import (
	"encoding/json"
	"io/ioutil"
	"strings"
)

// Crash oracle of C09 for the command-line slice (no coca imports): what a run of the real binary must look
// like when "the pass terminated without a runtime panic".

// NoCrashHasTrace reports whether stderr carries a Go panic / fatal-error trace.
func NoCrashHasTrace(stderr string) bool {
	return strings.Contains(stderr, "panic:") || strings.Contains(stderr, "goroutine ") || strings.Contains(stderr, "fatal error:")
}

// NoCrashTraceSite extracts the first frame of the trace that belongs to the module under test
// (modulePrefix e.g. "github.com/modernizing/coca/"), without its argument list; "stack-overflow" for a
// stack exhaustion; "?" if there is none.
func NoCrashTraceSite(stderr, modulePrefix string) string {
	if strings.Contains(stderr, "stack overflow") || strings.Contains(stderr, "goroutine stack exceeds") {
		return "stack-overflow"
	}
	for _, l := range strings.Split(stderr, "\n") {
		l = strings.TrimSpace(l)
		if strings.HasPrefix(l, modulePrefix) {
			if j := strings.LastIndex(l, "("); j > 0 {
				l = l[:j]
			}
			return strings.TrimPrefix(l, modulePrefix)
		}
	}
	return "?"
}

// NoCrashCLIVerdict classifies one command: "" = held, otherwise the signature of the mismatch.
func NoCrashCLIVerdict(command string, exitCode int, stderr, modulePrefix string) string {
	switch {
	case NoCrashHasTrace(stderr):
		return "cli-panic@" + NoCrashTraceSite(stderr, modulePrefix) + "/" + command
	case exitCode != 0:
		return "cli-exit-nonzero/" + command
	}
	return ""
}

// NoCrashReportFile judges one report file a command wrote after exit 0: "a result that can be serialised" means the
// file is there, is not empty and is one valid JSON text. Returns "" if so, otherwise what is wrong.
func NoCrashReportFile(path string) string {
	b, err := ioutil.ReadFile(path)
	switch {
	case err != nil:
		return "missing"
	case len(strings.TrimSpace(string(b))) == 0:
		return "empty"
	case !json.Valid(b):
		return "not-json"
	}
	return ""
}
