// Package buildgen is G-BUILD: it generates a build manifest (Maven pom.xml or Gradle build.gradle) together
// with a Java source tree and records, as ground truth, every entry it wrote into the dependencies block, in
// declaration order, with the notation it used. Nothing here imports coca.
//
// What is generated, and what the ground truth says about it:
//
//	pom.xml      the <dependencies> element that is a direct child of <project> is "the dependencies block";
//	             its <dependency> children (0-15; children groupId/artifactId/version/scope/type/optional/
//	             classifier/exclusions in any order, comments between them, padded values) are Entries.
//	             <dependencyManagement>, plugin <dependencies>, profile <dependencies> and <parent> are written
//	             before/after as "other sections"; their coordinates are recorded in Elsewhere (the statement does
//	             not say whether they count, so the oracle only demands that they do not disturb the Entries).
//	             Further other sections, in any position: reporting / build with a javadoc <links><link>,
//	             properties or ciManagement configuration with elements named like HTML void elements (link, param,
//	             base, meta, input, ...), licenses, scm (URL with &amp;), description with entities — all well-formed.
//	             groupId/artifactId/scope never contain ${...} (the statement is silent about interpolation);
//	             properties are used in <version> only, which is not asserted.
//	build.gradle one top-level `dependencies { }` closure; Entries are its statements in order:
//	             string notation (single quoted, double quoted, double quoted with ${..} in the version part,
//	             each as command `conf 'g:a:v'` or parenthesised `conf('g:a:v')`, optionally with a trailing
//	             configuration closure) and other notations (project(':x'), fileTree(dir: .., include: [..]),
//	             map notation), command and parenthesised. `buildscript { dependencies { classpath .. } }` is an
//	             "other section" (Elsewhere). Blocks around: plugins, apply, repositories, configurations, ext,
//	             android, test, task, jar, tasks.withType.
//	             Layout: 4 spaces / tab / 2 spaces; 1 in 8 scripts is written without any indentation, 1 in 8 of the
//	             rest closes its configuration closures in column one.
//	dual build   a project may carry a pom.xml and a build.gradle side by side (Project.Second); the artifact ids of
//	             the two files are disjoint, so every reported entry can be attributed to the file declaring it.
//	location     the project directory is <scratch>/proj or, in a third of the cases, lies below directories named
//	             build, target, out, tmp, dist (…/ci/build/shop); 1 in 10 single-pom projects also contains the copy
//	             of its pom that a Maven build leaves under target/classes/META-INF/maven/.
//	Java         0-6 files (class / interface, a few enum / annotation-type files), under src/main/java and
//	             src/test/java, importing a chosen subset of the declared groups (single-type, on-demand, static),
//	             plus near-miss imports (a proper prefix of a group) and unrelated imports.
//	             Head layout: one declaration per line, or imports sharing a line, the first import on the package
//	             line, or package and all imports on one line; import-looking lines inside block / line comments.
package buildgen

import (
	"fmt"
	"sort"
	"strings"

	"verifharness/run"
)

// Entry kinds.
const (
	KindString   = "string"   // 'group:artifact[:version[:classifier]]' / a <dependency> element
	KindMap      = "map"      // group: 'g', name: 'a', version: 'v'
	KindProject  = "project"  // project(':x')
	KindFileTree = "fileTree" // fileTree(dir: 'libs', include: ['*.jar'])
)

// Entry is one statement of the dependencies block (or one <dependency>), in declaration order.
type Entry struct {
	Kind     string   `json:"kind"`
	Style    string   `json:"style"` // notation class, part of mismatch signatures (no random names)
	Group    string   `json:"group,omitempty"`
	Artifact string   `json:"artifact,omitempty"`
	Version  string   `json:"version,omitempty"`
	Scope    string   `json:"scope"` // gradle configuration / pom <scope> ("" = element absent)
	Children []string `json:"children,omitempty"`
	Text     string   `json:"text"`
}

// Build is a generated manifest with its ground truth.
type Build struct {
	System           string   `json:"system"` // "maven" | "gradle"
	FileName         string   `json:"file"`
	Text             string   `json:"text"`
	Entries          []Entry  `json:"entries"`
	Elsewhere        []Entry  `json:"elsewhere,omitempty"`          // coordinates written in other sections (not asserted to be absent)
	Layout           []string `json:"layout"`                       // names of the sections/blocks in file order
	HasBlock         bool     `json:"has_block"`                    // a dependencies block is present at all
	VoidNamed        []string `json:"void_named,omitempty"`         // sections that contain an element named like an HTML void element (link, param, base, ...)
	Flat             bool     `json:"flat,omitempty"`               // gradle: written without indentation
	ClosureBraceCol1 int      `json:"closure_brace_col1,omitempty"` // gradle: configuration closures whose closing brace stands in column one
}

// JavaFile is one generated source file.
type JavaFile struct {
	Path    string   `json:"path"` // relative, slash separated
	Kind    string   `json:"kind"` // class | interface | enum | annotation
	Imports []string `json:"imports"`
	// Layout of the file head: plain (one declaration per line) | imports-share-lines | import-on-package-line | head-on-one-line
	Layout string `json:"layout"`
	// NotFirstOnLine lists the imports (subset of Imports) that follow another declaration on their line
	NotFirstOnLine []string `json:"not_first_on_line,omitempty"`
	// CommentedImports are import-looking lines written inside a comment: they import nothing
	CommentedImports []string `json:"commented_imports,omitempty"`
	Text             string   `json:"text"`
}

// Project = manifest + sources.
type Project struct {
	Build *Build `json:"build"`
	// Second is the other build file of a dual-build project (a pom.xml and a build.gradle side by side); nil otherwise
	Second *Build     `json:"second,omitempty"`
	Java   []JavaFile `json:"java"`
	Mode   string     `json:"mode"` // how the used subset was chosen
	// Location is the project directory relative to the case's scratch directory (slash separated). The analysed
	// directory is the last element; the elements above it are ordinary directory names a checkout may lie below
	// (build, target, out, tmp, dist, ...): they are not part of the project.
	Location string `json:"location"`
	// OutputCopy, when set, is the path (relative to the project) of a byte-identical copy of the pom.xml that a Maven
	// build leaves in its output directory (target/classes/META-INF/maven/<groupId>/<artifactId>/pom.xml). The
	// statement does not say whether such a copy declares dependencies: see oracle.CheckUnused.
	OutputCopy string `json:"output_copy,omitempty"`
}

var locations = []string{"build/shop", "ci/build/shop", "target/api", "work/target/api", "out/app", "tmp/work/app", "dist/pkg", "builds/target-app", "checkout/my.build/app"}

var realGroups = []string{
	"org.springframework.boot", "org.springframework", "org.springframework.cloud", "org.apache.commons",
	"org.apache.logging.log4j", "com.google.guava", "com.google.code.gson", "com.fasterxml.jackson.core",
	"com.fasterxml.jackson.datatype", "org.projectlombok", "org.mybatis.spring.boot", "org.flywaydb",
	"org.flywaydb.flyway-test-extensions", "io.rest-assured", "com.tngtech.archunit", "mysql", "junit",
	"org.junit.jupiter", "org.junit.platform", "org.mockito", "org.slf4j", "ch.qos.logback", "commons-io",
	"commons-lang", "javax.inject", "javax.servlet", "io.netty", "com.squareup.okhttp3", "com.squareup.retrofit2",
	"org.hibernate", "org.hibernate.validator", "redis.clients", "org.postgresql", "com.h2database", "io.micrometer",
	"org.jetbrains.kotlin", "androidx.appcompat", "com.android.support",
}

var tlds = []string{"org", "com", "io", "net", "dev"}
var words = []string{"acme", "ab", "abc", "core", "data", "util", "kit", "zen", "nova", "lib", "x1", "orbit", "pine", "ax", "axe", "hub", "sql", "json", "web", "rx"}
var artWords = []string{"core", "api", "starter", "web", "client", "runtime", "test", "engine", "spring", "boot", "jdbc", "json", "util", "commons", "impl", "all"}
var versions = []string{"1.0", "2.1.1", "0.12.0", "5.2.0.RELEASE", "1.18.12", "30.1-jre", "6.0.0", "2.2.2.RELEASE", "1.5.2", "3.0.0-M4", "1.0-SNAPSHOT"}
var typeNames = []string{"Engine", "Client", "Mapper", "Util", "Config", "Factory", "Handler", "Service", "Value", "Builder", "Json", "Driver"}

func synthGroup(r *run.Rand) string {
	g := r.Pick(tlds) + "." + r.Pick(words)
	if r.Chance(1, 2) {
		g += "." + r.Pick(words)
	}
	if r.Chance(1, 12) {
		g += "-" + r.Pick(words) // hyphenated groups exist (io.rest-assured); they can never be imported
	}
	return g
}

// pickGroups returns n group ids (repeats allowed: several artifacts of one group are the normal case) with
// deliberate prefix relations (org.ab / org.ab.cd / org.abc).
func pickGroups(r *run.Rand, n int) []string {
	var gs []string
	for i := 0; i < n; i++ {
		switch {
		case i > 0 && r.Chance(1, 5):
			gs = append(gs, gs[r.Intn(len(gs))]) // same group again
		case i > 0 && r.Chance(1, 6):
			gs = append(gs, gs[r.Intn(len(gs))]+"."+r.Pick(words)) // an extension of a declared group
		case i > 0 && r.Chance(1, 10):
			base := gs[r.Intn(len(gs))]
			if j := strings.LastIndex(base, "."); j > 0 && r.Bool() {
				gs = append(gs, base[:j]) // a proper prefix of a declared group
			} else {
				gs = append(gs, base+r.Pick([]string{"x", "2", "s"})) // org.ab -> org.abx
			}
		case r.Chance(3, 5):
			gs = append(gs, r.Pick(realGroups))
		default:
			gs = append(gs, synthGroup(r))
		}
	}
	return gs
}

func artifactFor(r *run.Rand, i int) string {
	a := r.Pick(artWords)
	if r.Bool() {
		a += "-" + r.Pick(artWords)
	}
	// the index makes every artifact id of a case unique, so that observed entries can be attributed
	return fmt.Sprintf("%s-%d", a, i)
}

// ---------------------------------------------------------------------------------------------- Maven

var pomScopes = []string{"compile", "provided", "runtime", "test", "system"}

func indent(n int) string { return strings.Repeat("  ", n) }

func pomValue(r *run.Rand, tag, val string, depth int, pad bool) string {
	if pad && r.Chance(1, 12) {
		// Maven trims element content; padding is legal
		return fmt.Sprintf("%s<%s>\n%s%s\n%s</%s>\n", indent(depth), tag, indent(depth+1), val, indent(depth), tag)
	}
	if pad && r.Chance(1, 20) {
		return fmt.Sprintf("%s<%s> %s </%s>\n", indent(depth), tag, val, tag)
	}
	return fmt.Sprintf("%s<%s>%s</%s>\n", indent(depth), tag, val, tag)
}

var pomComments = []string{"<!-- managed by the parent -->", "<!-- TODO upgrade -->", "<!-- <scope>test</scope> -->",
	"<!-- <dependency><groupId>old.group</groupId><artifactId>old-art</artifactId></dependency> -->", "<!-- runtime only -->"}

func pomDependency(r *run.Rand, e *Entry, depth int, inBlock bool) string {
	children := []string{"groupId", "artifactId"}
	if e.Version != "" {
		children = append(children, "version")
	}
	if e.Scope != "" {
		children = append(children, "scope")
	}
	extras := []string{}
	if r.Chance(1, 5) {
		extras = append(extras, "type")
	}
	if r.Chance(1, 6) {
		extras = append(extras, "optional")
	}
	if r.Chance(1, 10) {
		extras = append(extras, "classifier")
	}
	if r.Chance(1, 4) {
		extras = append(extras, "exclusions")
	}
	children = append(children, extras...)
	if r.Chance(1, 2) {
		p := r.Perm(len(children))
		sh := make([]string, len(children))
		for i, j := range p {
			sh[i] = children[j]
		}
		children = sh
	}
	e.Children = children
	oneLine := inBlock && len(extras) == 0 && r.Chance(1, 10)
	var b strings.Builder
	if oneLine {
		b.WriteString(indent(depth) + "<dependency>")
		for _, c := range children {
			b.WriteString("<" + c + ">" + pomChildValue(r, e, c) + "</" + c + ">")
		}
		b.WriteString("</dependency>\n")
		return b.String()
	}
	b.WriteString(indent(depth) + "<dependency>\n")
	for _, c := range children {
		if r.Chance(1, 12) {
			b.WriteString(indent(depth+1) + r.Pick(pomComments) + "\n")
		}
		switch c {
		case "exclusions":
			b.WriteString(indent(depth+1) + "<exclusions>\n")
			for k := r.Range(1, 2); k > 0; k-- {
				b.WriteString(indent(depth+2) + "<exclusion>\n")
				b.WriteString(indent(depth+3) + "<groupId>" + r.Pick([]string{"org.junit.vintage", "commons-logging", "org.excluded"}) + "</groupId>\n")
				b.WriteString(indent(depth+3) + "<artifactId>" + r.Pick([]string{"junit-vintage-engine", "commons-logging", "excluded-art"}) + "</artifactId>\n")
				b.WriteString(indent(depth+2) + "</exclusion>\n")
			}
			b.WriteString(indent(depth+1) + "</exclusions>\n")
		default:
			b.WriteString(pomValue(r, c, pomChildValue(r, e, c), depth+1, true))
		}
	}
	b.WriteString(indent(depth) + "</dependency>\n")
	return b.String()
}

func pomChildValue(r *run.Rand, e *Entry, c string) string {
	switch c {
	case "groupId":
		return e.Group
	case "artifactId":
		return e.Artifact
	case "version":
		return e.Version
	case "scope":
		return e.Scope
	case "type":
		return r.Pick([]string{"jar", "pom", "test-jar", "war"})
	case "optional":
		return r.Pick([]string{"true", "false"})
	case "classifier":
		return r.Pick([]string{"sources", "tests", "jdk8"})
	}
	return ""
}

func elsewhereEntry(r *run.Rand, section string, i int) Entry {
	return Entry{Kind: KindString, Style: section, Group: "org." + section + "." + r.Pick(words), Artifact: fmt.Sprintf("%s-%s-%d", section, r.Pick(artWords), i),
		Version: r.Pick(versions)}
}

// GenMaven generates a pom.xml; artOff is added to the index that makes artifact ids unique (second build file of a project).
func GenMaven(r *run.Rand, artOff int) *Build {
	b := &Build{System: "maven", FileName: "pom.xml"}
	n := 0
	switch {
	case r.Chance(1, 12):
		n = 0
	case r.Chance(1, 10):
		n = 1
	default:
		n = r.Range(2, 15)
	}
	groups := pickGroups(r.Fork(), n)
	er := r.Fork()
	for i := 0; i < n; i++ {
		e := Entry{Kind: KindString, Group: groups[i], Artifact: artifactFor(er, i+artOff)}
		if er.Chance(3, 5) {
			e.Version = er.Pick(versions)
			if er.Chance(1, 5) {
				e.Version = "${" + er.Pick([]string{"spring.version", "lib.version", "project.version"}) + "}"
			}
		}
		if er.Chance(1, 2) {
			e.Scope = er.Pick(pomScopes)
		}
		b.Entries = append(b.Entries, e)
	}
	// an exact repetition of an earlier declaration (legal; Maven warns) keeps "exactly once per declaration" honest
	if n >= 2 && n < 15 && r.Chance(1, 12) {
		d := b.Entries[r.Intn(n)]
		b.Entries = append(b.Entries, Entry{Kind: KindString, Group: d.Group, Artifact: d.Artifact, Version: d.Version, Scope: d.Scope})
	}

	tr := r.Fork()
	var depBlock strings.Builder
	blockForm := "block"
	if len(b.Entries) == 0 {
		blockForm = tr.Pick([]string{"absent", "selfclosed", "empty", "comment-only"})
	}
	switch blockForm {
	case "absent":
	case "selfclosed":
		depBlock.WriteString(indent(1) + "<dependencies/>\n")
	case "empty":
		depBlock.WriteString(indent(1) + "<dependencies>\n" + indent(1) + "</dependencies>\n")
	case "comment-only":
		depBlock.WriteString(indent(1) + "<dependencies>\n" + indent(2) + "<!-- none yet -->\n" + indent(1) + "</dependencies>\n")
	default:
		depBlock.WriteString(indent(1) + "<dependencies>\n")
		for i := range b.Entries {
			e := &b.Entries[i]
			if tr.Chance(1, 8) {
				depBlock.WriteString(indent(2) + tr.Pick(pomComments) + "\n")
			}
			if tr.Chance(1, 6) {
				depBlock.WriteString("\n")
			}
			e.Text = pomDependency(tr, e, 2, true)
			e.Style = pomStyle(e)
			depBlock.WriteString(e.Text)
		}
		if tr.Chance(1, 8) {
			depBlock.WriteString(indent(2) + tr.Pick(pomComments) + "\n")
		}
		depBlock.WriteString(indent(1) + "</dependencies>\n")
	}
	b.HasBlock = blockForm != "absent"

	// other sections
	type section struct{ name, text string }
	var secs []section
	sr := r.Fork()
	if sr.Chance(1, 2) {
		var s strings.Builder
		s.WriteString(indent(1) + "<properties>\n")
		s.WriteString(indent(2) + "<java.version>1.8</java.version>\n")
		s.WriteString(indent(2) + "<spring.version>5.2.0.RELEASE</spring.version>\n")
		s.WriteString(indent(2) + "<lib.version>1.2.3</lib.version>\n")
		s.WriteString(indent(1) + "</properties>\n")
		secs = append(secs, section{"properties", s.String()})
	}
	if sr.Chance(1, 2) {
		var s strings.Builder
		s.WriteString(indent(1) + "<dependencyManagement>\n" + indent(2) + "<dependencies>\n")
		for k := sr.Range(1, 3); k > 0; k-- {
			e := elsewhereEntry(sr, "managed", len(b.Elsewhere))
			e.Scope = sr.Pick([]string{"", "import", "test"})
			e.Text = pomDependency(sr, &e, 3, false)
			b.Elsewhere = append(b.Elsewhere, e)
			s.WriteString(e.Text)
		}
		s.WriteString(indent(2) + "</dependencies>\n" + indent(1) + "</dependencyManagement>\n")
		secs = append(secs, section{"dependencyManagement", s.String()})
	}
	if sr.Chance(1, 2) {
		var s strings.Builder
		s.WriteString(indent(1) + "<build>\n" + indent(2) + "<plugins>\n")
		for k := sr.Range(1, 2); k > 0; k-- {
			s.WriteString(indent(3) + "<plugin>\n")
			s.WriteString(indent(4) + "<groupId>org.apache.maven.plugins</groupId>\n")
			s.WriteString(indent(4) + "<artifactId>" + sr.Pick([]string{"maven-compiler-plugin", "maven-surefire-plugin", "maven-jar-plugin"}) + "</artifactId>\n")
			if sr.Chance(1, 2) {
				s.WriteString(indent(4) + "<version>3.8.1</version>\n")
			}
			if sr.Chance(1, 2) {
				s.WriteString(indent(4) + "<configuration>\n" + indent(5) + "<source>1.8</source>\n" + indent(4) + "</configuration>\n")
			}
			if sr.Chance(2, 3) {
				s.WriteString(indent(4) + "<dependencies>\n")
				for j := sr.Range(1, 2); j > 0; j-- {
					e := elsewhereEntry(sr, "plugin", len(b.Elsewhere))
					e.Text = pomDependency(sr, &e, 5, false)
					b.Elsewhere = append(b.Elsewhere, e)
					s.WriteString(e.Text)
				}
				s.WriteString(indent(4) + "</dependencies>\n")
			}
			s.WriteString(indent(3) + "</plugin>\n")
		}
		s.WriteString(indent(2) + "</plugins>\n" + indent(1) + "</build>\n")
		secs = append(secs, section{"build", s.String()})
	}
	if sr.Chance(1, 4) {
		var s strings.Builder
		s.WriteString(indent(1) + "<profiles>\n" + indent(2) + "<profile>\n" + indent(3) + "<id>ci</id>\n" + indent(3) + "<dependencies>\n")
		e := elsewhereEntry(sr, "profile", len(b.Elsewhere))
		e.Text = pomDependency(sr, &e, 4, false)
		b.Elsewhere = append(b.Elsewhere, e)
		s.WriteString(e.Text)
		s.WriteString(indent(3) + "</dependencies>\n" + indent(2) + "</profile>\n" + indent(1) + "</profiles>\n")
		secs = append(secs, section{"profiles", s.String()})
	}
	if sr.Chance(1, 4) {
		secs = append(secs, section{"repositories", indent(1) + "<repositories>\n" + indent(2) + "<repository>\n" + indent(3) + "<id>central2</id>\n" + indent(3) +
			"<url>https://repo.example.org/maven2</url>\n" + indent(2) + "</repository>\n" + indent(1) + "</repositories>\n"})
	}
	if sr.Chance(1, 6) {
		secs = append(secs, section{"modules", indent(1) + "<modules>\n" + indent(2) + "<module>core</module>\n" + indent(1) + "</modules>\n"})
	}
	// Well-formed XML whose element names coincide with HTML void elements (link, param, base, meta, input, col, img,
	// hr, br, area, frame): plugin configurations and properties use such names freely. A decoder must not treat them
	// specially, wherever the section stands relative to <dependencies>.
	xr := r.Fork()
	voidNames := []string{"link", "param", "base", "meta", "input", "col", "img", "hr", "br", "area", "frame"}
	if xr.Chance(1, 3) {
		sec := xr.Pick([]string{"reporting", "build-javadoc"})
		var s strings.Builder
		openTag, closeTag := indent(1)+"<reporting>\n", indent(1)+"</reporting>\n"
		name := "reporting"
		if sec == "build-javadoc" {
			// the javadoc plugin configured under <build> instead of <reporting>; a pom has one <build>, so this
			// variant is used only when no <build> section was generated above
			hasBuild := false
			for _, sc := range secs {
				if sc.name == "build" {
					hasBuild = true
				}
			}
			if !hasBuild {
				openTag, closeTag, name = indent(1)+"<build>\n", indent(1)+"</build>\n", "build"
			}
		}
		s.WriteString(openTag + indent(2) + "<plugins>\n" + indent(3) + "<plugin>\n" + indent(4) + "<groupId>org.apache.maven.plugins</groupId>\n" +
			indent(4) + "<artifactId>maven-javadoc-plugin</artifactId>\n" + indent(4) + "<configuration>\n" + indent(5) + "<links>\n")
		for k := xr.Range(1, 2); k > 0; k-- {
			s.WriteString(indent(6) + "<link>https://docs.example.org/api/" + xr.Pick(words) + "/</link>\n")
		}
		s.WriteString(indent(5) + "</links>\n" + indent(4) + "</configuration>\n" + indent(3) + "</plugin>\n" + indent(2) + "</plugins>\n" + closeTag)
		secs = append(secs, section{name + "+link", s.String()})
		b.VoidNamed = append(b.VoidNamed, name+"+link")
	}
	if xr.Chance(1, 4) {
		// custom plugin configuration / properties with freely named elements
		n1, n2 := xr.Pick(voidNames), xr.Pick(voidNames)
		var s strings.Builder
		if xr.Bool() {
			hasProps := false
			for _, sc := range secs {
				if sc.name == "properties" {
					hasProps = true
				}
			}
			if !hasProps {
				s.WriteString(indent(1) + "<properties>\n" + indent(2) + "<" + n1 + ">" + xr.Pick([]string{"target/site", "1.8", "true", "https://example.org"}) + "</" + n1 + ">\n")
				if n2 != n1 {
					s.WriteString(indent(2) + "<" + n2 + ">" + xr.Pick(words) + "</" + n2 + ">\n")
				}
				s.WriteString(indent(1) + "</properties>\n")
				secs = append(secs, section{"properties+" + n1, s.String()})
				b.VoidNamed = append(b.VoidNamed, "properties+"+n1)
			}
		} else {
			s.WriteString(indent(1) + "<distributionManagement>\n" + indent(2) + "<site>\n" + indent(3) + "<id>site</id>\n" + indent(3) + "<url>scp://example.org/www</url>\n" + indent(2) + "</site>\n" +
				indent(1) + "</distributionManagement>\n")
			s.WriteString(indent(1) + "<ciManagement>\n" + indent(2) + "<system>jenkins</system>\n" + indent(2) + "<notifiers>\n" + indent(3) + "<notifier>\n" + indent(4) + "<configuration>\n" +
				indent(5) + "<" + n1 + ">" + xr.Pick(words) + "</" + n1 + ">\n" + indent(4) + "</configuration>\n" + indent(3) + "</notifier>\n" + indent(2) + "</notifiers>\n" + indent(1) + "</ciManagement>\n")
			secs = append(secs, section{"ciManagement+" + n1, s.String()})
			b.VoidNamed = append(b.VoidNamed, "ciManagement+"+n1)
		}
	}
	if xr.Chance(1, 4) {
		secs = append(secs, section{"licenses", indent(1) + "<licenses>\n" + indent(2) + "<license>\n" + indent(3) + "<name>Apache-2.0</name>\n" + indent(3) +
			"<url>https://www.apache.org/licenses/LICENSE-2.0.txt</url>\n" + indent(2) + "</license>\n" + indent(1) + "</licenses>\n"})
	}
	if xr.Chance(1, 4) {
		secs = append(secs, section{"scm", indent(1) + "<scm>\n" + indent(2) + "<url>https://example.org/scm/demo?a=1&amp;b=2</url>\n" + indent(2) + "<connection>scm:git:https://example.org/demo.git</connection>\n" + indent(1) + "</scm>\n"})
	}
	if blockForm != "absent" {
		secs = append(secs, section{"dependencies", depBlock.String()})
	}
	// order: any permutation (Maven does not prescribe an order)
	p := sr.Perm(len(secs))

	var t strings.Builder
	if r.Chance(4, 5) {
		t.WriteString("<?xml version=\"1.0\" encoding=\"UTF-8\"?>\n")
	}
	if r.Chance(1, 6) {
		t.WriteString("<!-- generated build file -->\n")
	}
	if r.Chance(2, 3) {
		t.WriteString("<project xmlns=\"http://maven.apache.org/POM/4.0.0\" xmlns:xsi=\"http://www.w3.org/2001/XMLSchema-instance\"\n" +
			"         xsi:schemaLocation=\"http://maven.apache.org/POM/4.0.0 https://maven.apache.org/xsd/maven-4.0.0.xsd\">\n")
	} else {
		t.WriteString("<project>\n")
	}
	t.WriteString(indent(1) + "<modelVersion>4.0.0</modelVersion>\n")
	if r.Chance(1, 2) {
		t.WriteString(indent(1) + "<parent>\n" + indent(2) + "<groupId>org.parent.pom</groupId>\n" + indent(2) + "<artifactId>parent-pom</artifactId>\n" +
			indent(2) + "<version>2.2.2.RELEASE</version>\n" + indent(2) + "<relativePath/> <!-- lookup parent from repository -->\n" + indent(1) + "</parent>\n")
		b.Layout = append(b.Layout, "parent")
	}
	t.WriteString(indent(1) + "<groupId>com.app</groupId>\n" + indent(1) + "<artifactId>demo</artifactId>\n" + indent(1) + "<version>0.0.1-SNAPSHOT</version>\n")
	if r.Chance(1, 2) {
		t.WriteString(indent(1) + "<packaging>" + r.Pick([]string{"jar", "war", "pom"}) + "</packaging>\n")
	}
	if r.Chance(1, 2) {
		t.WriteString(indent(1) + "<name>demo</name>\n" + indent(1) + "<description>" + r.Pick([]string{"Demo project", "Demo &amp; co", "a &lt;small&gt; demo"}) + "</description>\n")
	}
	for _, i := range p {
		if r.Chance(1, 3) {
			t.WriteString("\n")
		}
		t.WriteString(secs[i].text)
		b.Layout = append(b.Layout, secs[i].name)
	}
	t.WriteString("</project>\n")
	b.Text = t.String()
	return b
}

func pomStyle(e *Entry) string {
	s := "pom"
	has := map[string]bool{}
	for _, c := range e.Children {
		has[c] = true
	}
	if has["scope"] {
		s += "+scope"
	}
	if has["exclusions"] {
		s += "+exclusions"
	}
	if has["type"] || has["optional"] || has["classifier"] {
		s += "+more"
	}
	return s
}

// --------------------------------------------------------------------------------------------- Gradle

var gradleConfs = []string{"implementation", "api", "compile", "compileOnly", "runtimeOnly", "testImplementation", "testCompile",
	"testRuntimeOnly", "annotationProcessor", "developmentOnly", "debugImplementation", "androidTestImplementation", "kapt", "runtime"}

// string-notation styles
var stringStyles = []string{"sq", "sq", "sq", "dq", "dq", "dq-gstring", "paren-sq", "paren-sq", "paren-dq", "paren-dq-gstring", "paren-sq-closure", "paren-dq-closure"}

func gradleCoord(e *Entry, gstring bool, r *run.Rand) string {
	c := e.Group + ":" + e.Artifact
	if gstring {
		return c + ":${" + r.Pick([]string{"springVersion", "libVersion", "versions.core"}) + "}"
	}
	if e.Version != "" {
		c += ":" + e.Version
		if r.Chance(1, 15) {
			c += ":" + r.Pick([]string{"sources", "jdk8"})
		}
		if r.Chance(1, 20) {
			c += "@jar"
		}
	}
	return c
}

var closures = []string{
	"{\n%s    exclude group: 'org.junit.vintage', module: 'junit-vintage-engine'\n%s}",
	"{\n%s    exclude module: 'junit'\n%s}",
	"{\n%s    transitive = false\n%s}",
	"{\n%s    exclude group: 'commons-logging'\n%s    exclude module: 'log4j'\n%s}",
}

func gradleEntryText(r *run.Rand, e *Entry, ind string) string {
	conf := e.Scope
	switch e.Kind {
	case KindString:
		gs := strings.Contains(e.Style, "gstring")
		coord := gradleCoord(e, gs, r)
		q := "'"
		if strings.Contains(e.Style, "dq") {
			q = "\""
		}
		lit := q + coord + q
		switch {
		case strings.HasSuffix(e.Style, "-closure"):
			cl := r.Pick(closures)
			n := strings.Count(cl, "%s")
			args := make([]interface{}, n)
			for i := range args {
				args[i] = ind
			}
			return conf + "(" + lit + ") " + fmt.Sprintf(cl, args...)
		case strings.HasPrefix(e.Style, "paren-"):
			if r.Chance(1, 8) {
				return conf + " (" + lit + ")"
			}
			return conf + "(" + lit + ")"
		default:
			return conf + " " + lit
		}
	case KindProject:
		path := ":" + r.Pick([]string{"core", "common", "lib:api", "shared"})
		call := "project('" + path + "')"
		switch r.Intn(4) {
		case 0:
			call = "project(\"" + path + "\")"
		case 1:
			call = "project(path: '" + path + "', configuration: 'default')"
		}
		if e.Style == "paren-project" {
			return conf + "(" + call + ")"
		}
		return conf + " " + call
	case KindFileTree:
		call := r.Pick([]string{"fileTree(dir: 'libs', include: ['*.jar'])", "fileTree(dir: 'libs', include: '*.jar')", "fileTree(include: ['*.jar', '*.aar'], dir: 'libs')", "fileTree('libs')"})
		if e.Style == "paren-fileTree" {
			return conf + "(" + call + ")"
		}
		return conf + " " + call
	case KindMap:
		q := "'"
		if r.Chance(1, 4) {
			q = "\""
		}
		m := "group: " + q + e.Group + q + ", name: " + q + e.Artifact + q
		if e.Version != "" {
			m += ", version: " + q + e.Version + q
		}
		if e.Style == "paren-map" {
			return conf + "(" + m + ")"
		}
		return conf + " " + m
	}
	return ""
}

type gblock struct{ name, text string }

func gradleBlocks(r *run.Rand, b *Build) (pre, post []gblock) {
	add := func(dst *[]gblock, name, text string) { *dst = append(*dst, gblock{name, text}) }
	if r.Chance(1, 3) {
		var s strings.Builder
		s.WriteString("buildscript {\n    repositories {\n        mavenCentral()\n")
		if r.Bool() {
			s.WriteString("        google()\n")
		}
		s.WriteString("    }\n")
		if r.Chance(2, 3) {
			s.WriteString("    dependencies {\n")
			for k := r.Range(1, 2); k > 0; k-- {
				e := elsewhereEntry(r, "classpath", len(b.Elsewhere))
				e.Scope = "classpath"
				q := r.Pick([]string{"'", "\""})
				e.Text = "classpath " + q + e.Group + ":" + e.Artifact + ":" + e.Version + q
				b.Elsewhere = append(b.Elsewhere, e)
				s.WriteString("        " + e.Text + "\n")
			}
			s.WriteString("    }\n")
		}
		s.WriteString("}\n")
		add(&pre, "buildscript", s.String())
	}
	if r.Chance(1, 2) {
		s := "plugins {\n    id 'java'\n"
		if r.Bool() {
			s += "    id 'org.springframework.boot' version '2.2.2.RELEASE'\n"
		}
		if r.Chance(1, 3) {
			s += "    id \"io.spring.dependency-management\" version \"1.0.8.RELEASE\"\n"
		}
		add(&pre, "plugins", s+"}\n")
	}
	if r.Chance(1, 2) {
		s := "apply plugin: '" + r.Pick([]string{"java", "io.spring.dependency-management", "com.android.application", "war"}) + "'\n"
		if r.Chance(1, 3) {
			s += "apply plugin: \"idea\"\n"
		}
		add(&pre, "apply", s)
	}
	if r.Chance(1, 2) {
		s := "group = 'com.app'\nversion = '1.0.0'\n"
		switch r.Intn(3) {
		case 0:
			s += "sourceCompatibility = JavaVersion.VERSION_11\ntargetCompatibility = JavaVersion.VERSION_11\n"
		case 1:
			s += "sourceCompatibility = '1.8'\n"
		}
		add(&pre, "props", s)
	}
	if r.Chance(1, 3) {
		add(&pre, "ext", "ext {\n    springVersion = '5.2.0.RELEASE'\n    libVersion = \"1.2.3\"\n}\n")
	}
	if r.Chance(1, 5) {
		add(&pre, "def", "def libVersion = '1.2.3'\n")
	}
	// the following may stand before or after the dependencies block
	var either []gblock
	if r.Chance(2, 3) {
		s := "repositories {\n    mavenCentral()\n"
		if r.Bool() {
			s += "    jcenter()\n"
		}
		if r.Chance(1, 3) {
			s += "    maven { url 'https://repo.example.org/releases' }\n"
		}
		add(&either, "repositories", s+"}\n")
	}
	if r.Chance(1, 4) {
		add(&either, "configurations", "configurations {\n    developmentOnly\n    runtimeClasspath {\n        extendsFrom developmentOnly\n    }\n    compileOnly {\n        extendsFrom annotationProcessor\n    }\n}\n")
	}
	if r.Chance(1, 4) {
		s := "android {\n    compileSdkVersion 30\n    defaultConfig {\n        applicationId \"com.app\"\n        minSdkVersion 21\n        targetSdkVersion 30\n        versionCode 1\n        versionName \"1.0\"\n    }\n"
		if r.Bool() {
			s += "    buildTypes {\n        release {\n            minifyEnabled false\n            proguardFiles getDefaultProguardFile('proguard-android-optimize.txt'), 'proguard-rules.pro'\n        }\n    }\n"
		}
		add(&either, "android", s+"}\n")
	}
	if r.Chance(1, 3) {
		add(&either, "test", "test {\n    useJUnitPlatform()\n}\n")
	}
	if r.Chance(1, 4) {
		add(&either, "task", "task copyLibs(type: Copy) {\n    from 'build/libs'\n    into 'dist'\n}\n")
	}
	if r.Chance(1, 5) {
		add(&either, "task-dolast", "task hello {\n    doLast {\n        println 'hello'\n    }\n}\n")
	}
	if r.Chance(1, 5) {
		add(&either, "withType", "tasks.withType(JavaCompile) {\n    options.encoding = 'UTF-8'\n}\n")
	}
	if r.Chance(1, 6) {
		add(&either, "jar", "jar {\n    manifest {\n        attributes 'Main-Class': 'com.app.Main'\n    }\n}\n")
	}
	p := r.Perm(len(either))
	for _, i := range p {
		if r.Chance(1, 2) {
			pre = append(pre, either[i])
		} else {
			post = append(post, either[i])
		}
	}
	return
}

// GenGradle generates a build.gradle.
func GenGradle(r *run.Rand, artOff int) *Build {
	b := &Build{System: "gradle", FileName: "build.gradle"}
	form := "block"
	n := 0
	switch {
	case r.Chance(1, 25):
		form = "absent"
	case r.Chance(1, 25):
		form = r.Pick([]string{"empty", "empty-oneline", "comment-only"})
	case r.Chance(1, 10):
		n = 1
	default:
		n = r.Range(2, 15)
	}
	groups := pickGroups(r.Fork(), n)
	er := r.Fork()
	// per-file style policy: uniform single-quoted, uniform double-quoted, or mixed
	policy := er.Pick([]string{"mixed", "mixed", "mixed", "sq-only", "dq-only", "paren-only"})
	otherRate := er.Pick([]string{"none", "few", "few", "many"})
	for i := 0; i < n; i++ {
		e := Entry{Scope: er.Pick(gradleConfs), Group: groups[i], Artifact: artifactFor(er, i+artOff)}
		if er.Chance(3, 4) {
			e.Version = er.Pick(versions)
		}
		other := false
		switch otherRate {
		case "few":
			other = er.Chance(1, 7)
		case "many":
			other = er.Chance(1, 3)
		}
		if other {
			switch er.Intn(6) {
			case 0:
				e.Kind, e.Style = KindProject, "project"
			case 1:
				e.Kind, e.Style = KindProject, "paren-project"
			case 2:
				e.Kind, e.Style = KindFileTree, "fileTree"
			case 3:
				e.Kind, e.Style = KindFileTree, "paren-fileTree"
			case 4:
				e.Kind, e.Style = KindMap, "map"
			default:
				e.Kind, e.Style = KindMap, "paren-map"
			}
			if e.Kind != KindMap {
				e.Group, e.Artifact, e.Version = "", "", ""
			}
		} else {
			e.Kind = KindString
			switch policy {
			case "sq-only":
				e.Style = "sq"
			case "dq-only":
				e.Style = er.Pick([]string{"dq", "dq", "dq-gstring"})
			case "paren-only":
				e.Style = er.Pick([]string{"paren-sq", "paren-dq", "paren-sq-closure"})
			default:
				e.Style = er.Pick(stringStyles)
			}
			if strings.Contains(e.Style, "gstring") {
				e.Version = "${..}"
			}
		}
		b.Entries = append(b.Entries, e)
	}
	// the same coordinates under a second configuration (compileOnly + annotationProcessor 'org.projectlombok:lombok')
	if n >= 2 && n < 15 && er.Chance(1, 8) {
		for _, d := range b.Entries {
			if d.Kind == KindString {
				b.Entries = append(b.Entries, Entry{Kind: KindString, Style: "sq", Group: d.Group, Artifact: d.Artifact, Version: d.Version, Scope: er.Pick(gradleConfs)})
				if strings.Contains(d.Style, "gstring") {
					b.Entries[len(b.Entries)-1].Version = ""
				}
				break
			}
		}
	}

	tr := r.Fork()
	ind := "    "
	if tr.Chance(1, 5) {
		ind = "\t"
	}
	if tr.Chance(1, 8) {
		ind = "  "
	}
	var db strings.Builder
	switch form {
	case "absent":
	case "empty":
		db.WriteString("dependencies {\n}\n")
	case "empty-oneline":
		db.WriteString("dependencies {}\n")
	case "comment-only":
		db.WriteString("dependencies {\n" + ind + "// nothing yet\n}\n")
	default:
		oneLine := len(b.Entries) <= 2 && tr.Chance(1, 6)
		if oneLine {
			for i := range b.Entries {
				if strings.HasSuffix(b.Entries[i].Style, "-closure") {
					oneLine = false
				}
			}
		}
		if oneLine {
			var parts []string
			for i := range b.Entries {
				b.Entries[i].Text = gradleEntryText(tr, &b.Entries[i], ind)
				parts = append(parts, b.Entries[i].Text)
			}
			db.WriteString("dependencies { " + strings.Join(parts, "; ") + " }\n")
			b.Layout = append(b.Layout, "oneline")
		} else {
			db.WriteString("dependencies {\n")
			for i := range b.Entries {
				e := &b.Entries[i]
				if tr.Chance(1, 8) {
					db.WriteString(ind + tr.Pick([]string{"// persistence", "// implementation 'old.group:old-art:1.0'", "/* test support */", "// TODO: upgrade"}) + "\n")
				}
				if tr.Chance(1, 6) {
					db.WriteString("\n")
				}
				e.Text = gradleEntryText(tr, e, ind)
				db.WriteString(ind + e.Text)
				if tr.Chance(1, 12) {
					db.WriteString(" // " + tr.Pick([]string{"needed at runtime", "see #42", "api 'x:y:1'"}))
				}
				db.WriteString("\n")
			}
			db.WriteString("}\n")
		}
	}
	b.HasBlock = form != "absent"
	pre, post := gradleBlocks(r.Fork(), b)
	var t strings.Builder
	if r.Chance(1, 6) {
		t.WriteString("// build file of the demo project\n")
	}
	for _, g := range pre {
		t.WriteString(g.text)
		if r.Chance(2, 3) {
			t.WriteString("\n")
		}
		b.Layout = append(b.Layout, g.name)
	}
	if form != "absent" {
		t.WriteString(db.String())
		b.Layout = append(b.Layout, "dependencies:"+form)
	}
	for _, g := range post {
		if r.Chance(2, 3) {
			t.WriteString("\n")
		}
		t.WriteString(g.text)
		b.Layout = append(b.Layout, g.name)
	}
	b.Text = t.String()

	// Layout variants that change no token: a script written without any indentation (every line, including the
	// closing brace of a configuration closure, starts in column one), and an indented script whose configuration
	// closures are closed in column one. Drawn last, from an own stream, so that the other dimensions are unaffected.
	fr := r.Fork()
	switch {
	case fr.Chance(1, 8):
		b.Text = stripIndent(b.Text)
		for i := range b.Entries {
			b.Entries[i].Text = stripIndent(b.Entries[i].Text)
		}
		b.Layout = append(b.Layout, "flat")
		b.Flat = true
	case fr.Chance(1, 8):
		for i := range b.Entries {
			e := &b.Entries[i]
			if strings.HasSuffix(e.Style, "-closure") && strings.HasSuffix(e.Text, "\n"+ind+"}") && strings.Count(b.Text, e.Text) == 1 {
				nt := strings.TrimSuffix(e.Text, ind+"}") + "}"
				b.Text = strings.Replace(b.Text, e.Text, nt, 1)
				e.Text = nt
				b.ClosureBraceCol1++
			}
		}
		if b.ClosureBraceCol1 > 0 {
			b.Layout = append(b.Layout, "closure-brace-col1")
		}
	}
	if b.Flat {
		for _, e := range b.Entries {
			if strings.HasSuffix(e.Style, "-closure") {
				b.ClosureBraceCol1++
			}
		}
	}
	return b
}

// stripIndent removes the leading blanks of every line (the scripts contain no multi-line strings).
func stripIndent(s string) string {
	lines := strings.Split(s, "\n")
	for i, l := range lines {
		lines[i] = strings.TrimLeft(l, " \t")
	}
	return strings.Join(lines, "\n")
}

// ----------------------------------------------------------------------------------------------- Java

func javaPackageOK(g string) bool {
	if g == "" {
		return false
	}
	for _, seg := range strings.Split(g, ".") {
		if seg == "" || !(seg[0] >= 'a' && seg[0] <= 'z') {
			return false
		}
		for i := 0; i < len(seg); i++ {
			c := seg[i]
			if !(c >= 'a' && c <= 'z' || c >= '0' && c <= '9' || c == '_') {
				return false
			}
		}
	}
	return true
}

type imp struct {
	static bool
	name   string // qualified name as written (without a trailing .*)
	star   bool
}

func (i imp) line() string {
	s := "import "
	if i.static {
		s += "static "
	}
	s += i.name
	if i.star {
		s += ".*"
	}
	return s + ";"
}

func importFor(r *run.Rand, g string) imp {
	t := r.Pick(typeNames)
	switch r.Intn(8) {
	case 0:
		return imp{name: g, star: true}
	case 1:
		return imp{name: g + "." + r.Pick(words), star: true}
	case 2:
		return imp{static: true, name: g + "." + t + "." + r.Pick([]string{"of", "max", "DEFAULT", "assertThat"})}
	case 3:
		return imp{static: true, name: g + "." + t, star: true}
	case 4:
		return imp{name: g + "." + r.Pick(words) + "." + r.Pick(words) + "." + t}
	case 5:
		// the group occurs inside a longer package name (mysql -> com.mysql.jdbc.Driver)
		return imp{name: r.Pick(tlds) + "." + g + "." + r.Pick(words) + "." + t}
	default:
		return imp{name: g + "." + t}
	}
}

var unrelatedImports = []string{"java.util.List", "java.util.Map", "java.io.IOException", "java.util.concurrent.atomic.AtomicLong", "javax.annotation.Nullable", "com.app.internal.Helper", "com.app.model.Order"}

// GenJava generates the source tree for the given manifest.
func GenJava(r *run.Rand, builds ...*Build) ([]JavaFile, string) {
	// distinct groups in declaration order (string and map entries)
	var groups []string
	seen := map[string]bool{}
	for _, b := range builds {
		for _, e := range b.Entries {
			if e.Group != "" && !seen[e.Group] {
				seen[e.Group] = true
				groups = append(groups, e.Group)
			}
		}
	}
	mode := "subset"
	switch {
	case r.Chance(1, 14):
		mode = "no-java-files"
	case r.Chance(1, 14):
		mode = "none-used"
	case r.Chance(1, 14):
		mode = "all-used"
	}
	if mode == "no-java-files" {
		return nil, mode
	}
	var pool []imp
	for _, g := range groups {
		ok := javaPackageOK(g)
		use := mode == "all-used" || (mode == "subset" && r.Bool())
		if ok && use {
			for k := r.Range(1, 2); k > 0; k-- {
				pool = append(pool, importFor(r, g))
			}
		} else if ok && r.Chance(1, 3) {
			// near miss: a proper prefix of the group, or the group with its last character removed
			if j := strings.LastIndex(g, "."); j > 0 && r.Bool() {
				pool = append(pool, imp{name: g[:j] + "." + r.Pick(typeNames)})
			} else if len(g) > 3 && g[len(g)-2] != '.' {
				pool = append(pool, imp{name: g[:len(g)-1] + "." + r.Pick(typeNames)})
			}
		}
	}
	nFiles := r.Range(1, 6)
	files := make([]JavaFile, nFiles)
	perFile := make([][]imp, nFiles)
	for _, im := range pool {
		k := r.Intn(nFiles)
		perFile[k] = append(perFile[k], im)
	}
	pkgs := []string{"com.app", "com.app.service", "com.app.web", "com.app.repo"}
	type javaParts struct {
		hdr, pkg, body string
		lines, names   []string
	}
	parts := make([]javaParts, nFiles)
	for i := 0; i < nFiles; i++ {
		kind := "class"
		switch x := r.Intn(40); {
		case x < 6:
			kind = "interface"
		case x == 6:
			kind = "enum"
		case x == 7:
			kind = "annotation"
		}
		pkg := r.Pick(pkgs)
		name := r.Pick([]string{"Order", "User", "Billing", "Stock", "Audit", "Mail"}) + r.Pick([]string{"Service", "Controller", "Repository", "Handler", "Config"}) + fmt.Sprint(i)
		root := "src/main/java/"
		if r.Chance(1, 5) {
			root = "src/test/java/"
			if kind == "class" {
				name += r.Pick([]string{"Test", "Tests", "IT"})
			}
		}
		ims := perFile[i]
		for k := r.Range(0, 2); k > 0; k-- {
			ims = append(ims, imp{name: r.Pick(unrelatedImports)})
		}
		// order of import lines is free
		p := r.Perm(len(ims))
		var lines []string
		var names []string
		dup := map[string]bool{}
		for _, j := range p {
			l := ims[j].line()
			if dup[l] {
				continue
			}
			dup[l] = true
			lines = append(lines, l)
			names = append(names, ims[j].name)
		}
		var hdr string
		if r.Chance(1, 6) {
			hdr = "/*\n * Copyright the demo authors.\n */\n"
		}
		var t strings.Builder
		switch kind {
		case "class":
			t.WriteString("public class " + name + " {\n")
			if r.Bool() {
				t.WriteString("    private int count;\n\n")
			}
			t.WriteString("    public void run() {\n")
			if r.Bool() {
				t.WriteString("        int x = 1;\n")
			}
			t.WriteString("    }\n")
			if r.Chance(1, 3) {
				t.WriteString("\n    public String name() {\n        return \"" + strings.ToLower(name) + "\";\n    }\n")
			}
			t.WriteString("}\n")
		case "interface":
			t.WriteString("public interface " + name + " {\n    void run();\n")
			if r.Bool() {
				t.WriteString("\n    String name(int id);\n")
			}
			t.WriteString("}\n")
		case "enum":
			t.WriteString("public enum " + name + " {\n    FIRST, SECOND;\n}\n")
		case "annotation":
			t.WriteString("public @interface " + name + " {\n    String value();\n}\n")
		}
		files[i] = JavaFile{Path: root + strings.ReplaceAll(pkg, ".", "/") + "/" + name + ".java", Kind: kind, Imports: names}
		parts[i] = javaParts{hdr: hdr, pkg: pkg, lines: lines, names: names, body: t.String()}
	}
	// Layout of the head of each file. Drawn after everything else, from an own stream, so that names, imports and
	// bodies are what they were without this dimension. All variants are the same token sequence for a Java
	// parser: declarations may share a line, and text inside a comment is no declaration.
	lr := r.Fork()
	var importable []string
	for _, g := range groups {
		if javaPackageOK(g) {
			importable = append(importable, g)
		}
	}
	for i := range files {
		pt := parts[i]
		layout := "plain"
		switch x := lr.Intn(10); {
		case x == 0 && len(pt.lines) >= 2:
			layout = "imports-share-lines"
		case x == 1 && len(pt.lines) >= 1:
			layout = "import-on-package-line"
		case x == 2 && len(pt.lines) >= 1:
			layout = "head-on-one-line"
		}
		var t strings.Builder
		t.WriteString(pt.hdr)
		switch layout {
		case "imports-share-lines":
			t.WriteString("package " + pt.pkg + ";\n\n")
			for k := 0; k < len(pt.lines); k += 2 {
				if k+1 < len(pt.lines) {
					files[i].NotFirstOnLine = append(files[i].NotFirstOnLine, pt.names[k+1])
					t.WriteString(pt.lines[k] + " " + pt.lines[k+1] + "\n")
				} else {
					t.WriteString(pt.lines[k] + "\n")
				}
			}
		case "import-on-package-line":
			files[i].NotFirstOnLine = append(files[i].NotFirstOnLine, pt.names[0])
			t.WriteString("package " + pt.pkg + "; " + pt.lines[0] + "\n")
			for _, l := range pt.lines[1:] {
				t.WriteString(l + "\n")
			}
		case "head-on-one-line":
			files[i].NotFirstOnLine = append(files[i].NotFirstOnLine, pt.names...)
			t.WriteString("package " + pt.pkg + "; " + strings.Join(pt.lines, " ") + "\n")
		default:
			t.WriteString("package " + pt.pkg + ";\n\n")
			for _, l := range pt.lines {
				t.WriteString(l + "\n")
			}
		}
		if len(pt.lines) > 0 {
			t.WriteString("\n")
		}
		// import-looking text inside comments: no import
		if len(importable) > 0 && lr.Chance(1, 6) {
			g := lr.Pick(importable)
			ci := g + "." + lr.Pick([]string{"Legacy", "Old", "Removed"})
			switch lr.Intn(3) {
			case 0:
				t.WriteString("/*\nimport " + ci + ";\n*/\n")
			case 1:
				t.WriteString("/* replaced:\n   import " + ci + ";\n   import static " + ci + ".of;\n */\n")
			default:
				t.WriteString("// import " + ci + ";\n")
			}
			files[i].CommentedImports = append(files[i].CommentedImports, ci)
		}
		t.WriteString(pt.body)
		files[i].Layout = layout
		files[i].Text = t.String()
	}
	sort.Slice(files, func(i, j int) bool { return files[i].Path < files[j].Path })
	return files, mode
}

// Builds returns the build files of the project.
func (p *Project) Builds() []*Build {
	if p.Second != nil {
		return []*Build{p.Build, p.Second}
	}
	return []*Build{p.Build}
}

// Generate builds a whole project. system is the (first) build system; dual adds the other system's build file to
// the same directory, with artifact ids disjoint from the first file's (so that every observed entry can be
// attributed to the file that declares it).
func Generate(r *run.Rand, system string, dual bool) *Project {
	gen := func(sys string, off int) *Build {
		if sys == "maven" {
			return GenMaven(r.Fork(), off)
		}
		return GenGradle(r.Fork(), off)
	}
	b := gen(system, 0)
	jr := r.Fork()
	p := &Project{Build: b}
	if dual {
		other := "gradle"
		if system == "gradle" {
			other = "maven"
		}
		p.Second = gen(other, 100)
	}
	p.Java, p.Mode = GenJava(jr, p.Builds()...)
	// where the project lies, and whether a build left a copy of the pom behind; own stream, drawn last
	lr := r.Fork()
	p.Location = "proj"
	if lr.Chance(1, 3) {
		p.Location = lr.Pick(locations)
	}
	if system == "maven" && !dual && len(b.Entries) > 0 && lr.Chance(1, 10) {
		p.OutputCopy = "target/classes/META-INF/maven/com.app/demo/pom.xml"
	}
	return p
}

// ShapeKey is the structural description of a case (no random names).
func (p *Project) ShapeKey() string {
	var s []string
	for _, b := range p.Builds() {
		s = append(s, b.System, strings.Join(b.Layout, ","))
		for _, e := range b.Entries {
			s = append(s, e.Style+"/"+strings.Join(e.Children, "."))
		}
		s = append(s, "|")
	}
	s = append(s, p.Mode, p.Location, p.OutputCopy)
	for _, f := range p.Java {
		s = append(s, fmt.Sprintf("%s%d%s%d", f.Kind[:1], len(f.Imports), f.Layout, len(f.CommentedImports)))
	}
	return strings.Join(s, " ")
}
