// Package commentgen is G-COMMENTS: directory trees of source texts assembled from code tokens, string / char /
// back-tick literals that contain comment markers and the word TODO, and comments of the three kinds (line `//`,
// block `/* */`, hash `#`) whose text is derived from a small grammar. The generator records, for every comment and
// literal it writes, the 1-based line where it starts and what it is; that record (not any scanner) is the ground
// truth of C17. No coca imports.
//
// What is deliberately never generated (the C17 statement leaves it open, see DESIGN §4 C17 and the adapter):
//   - Javadoc-style `/** TODO`, ` * TODO` after the opener, and a TODO/FIXME word at the start of a continuation line of a
//     block comment that has other text before it (a marker that follows `/*` after nothing but blanks and line breaks
//     IS generated: line breaks are blanks, the comment starts at the opener);
//   - a marker followed by anything but end-of-text, a blank, ':' or '(name)' (`TODOS`, `TODO-x`, `TODO_1`), a blank
//     between the marker and ':' or '(', `::`, `()`, a message that starts with '(' or ':';
//   - doubled comment markers of the same kind (`////`, `##`, `//*`, `///`) in front of a marker (a character that opens
//     ANOTHER kind of comment, `//# FIXME`, `#/ TODO`, `/*# todo */`, `/*/ fixme */`, is generated: plain "mention later");
//   - single-quoted strings of more than one character, unterminated string literals, backslashes in back-tick literals,
//     `//` as an operator, form feeds, U+2028/2029, CR-only line ends;
//   - anything after an unterminated `/*` other than plain words up to the end of the file.
package commentgen

import (
	"fmt"
	"strings"

	"verifharness/run"
)

// Exts is the 5-extension list whose 2^5 subsets are used as filters.
var Exts = []string{".java", ".py", ".go", ".ts", ".js"}

// otherExts never match a filter drawn from Exts (suffix-wise as well).
var otherExts = []string{".txt", ".md", ".kt", ".json", ".jsx", ".pyc", ".javax", ".tsx", ".rb", ".java.bak", ".gox", ""}

// Planted is one TODO/FIXME comment written into a file.
type Planted struct {
	Line     int    `json:"line"`  // line where the comment starts
	Kind     string `json:"kind"`  // line | block | hash
	Form     string `json:"form"`  // production of the marker grammar, e.g. "marker", "colon-msg", "assignee-colon-msg"
	Tight    bool   `json:"tight"` // no blank between the comment marker and TODO/FIXME
	Marker   string `json:"marker"`
	Assignee string `json:"assignee"`
	Message  string `json:"message"` // raw remaining text (block: up to the terminator)
	Multi    bool   `json:"multi"`   // block comment whose message spans several lines
	// MarkerLineOffset: line breaks between `/*` and the marker word (0 = marker on the opener's line)
	MarkerLineOffset int    `json:"marker_line_offset,omitempty"`
	Optional         bool   `json:"optional"` // unterminated `/* TODO` at end of file: the statement only demands "no crash"
	Src              string `json:"src"`
}

// Decoy is something that must NOT be reported.
type Decoy struct {
	Line int    `json:"line"`
	What string `json:"what"` // plain/<kind>/<shape> | later/<kind>/<variant> | literal/<string|char|backtick> | code-ident
	Src  string `json:"src"`
}

// LookalikeExts are OTHER extensions that merely end in the letters of a member of Exts (.mjs/.cjs ~ .js, .ipy ~ .py,
// .mts/.cts ~ .ts, .cgo ~ .go, .sjava ~ .java): files carrying them are not selected by any filter drawn from Exts.
var LookalikeExts = []string{".mjs", ".cjs", ".ipy", ".mts", ".cts", ".cgo", ".sjava"}

// CompoundExts are two-part extensions whose last part is a member of Exts (api.d.ts, app.min.js): such a file has the
// extension .ts as well as .d.ts, so a filter that lists both (or one of them twice) names the file twice.
var CompoundExts = []string{".d.ts", ".spec.ts", ".min.js", ".spec.js", ".test.py", ".pb.go", ".gen.java"}

type File struct {
	Rel       string    `json:"rel"`
	Ext       string    `json:"ext"`
	Lookalike bool      `json:"lookalike,omitempty"`
	LongLine  int       `json:"long_line_bytes,omitempty"` // length of the >= 64 KiB first line, if the file has one
	Text      string    `json:"text"`
	Planted   []Planted `json:"planted"`
	Decoys    []Decoy   `json:"decoys"`
	CRLF      bool      `json:"crlf"`
	shape     []string
}

type Tree struct {
	Files []File `json:"files"`
}

// ShapeKey is the structural description of the tree (no random names, ids or words).
func (t *Tree) ShapeKey() string {
	var sb strings.Builder
	for _, f := range t.Files {
		sb.WriteString(f.Ext)
		sb.WriteString("[")
		sb.WriteString(strings.Join(f.shape, ","))
		sb.WriteString("]")
	}
	return sb.String()
}

var markers = []string{"TODO", "todo", "Todo", "ToDo", "tOdO", "FIXME", "fixme", "FixMe", "Fixme", "fIXmE"}

var names = []string{"bob", "alice", "phodal", "j.doe", "dev-1", "team_a", "x@y.io", "QA", "u2"}

// words usable anywhere in a comment text except as its first word
var anyWords = []string{"fix", "this", "later", "remove", "the", "cache", "when", "API", "v2", "is", "ready", "see", "issue", "42",
	"refactor", "handle", "nil", "http://x.io/a#frag", "a/b", "x*y", "\"quoted\"", "it's", "`tick`", "(maybe)", "key:value", "50%",
	"café", "über", "数据", "TODO", "fixme", "FIXME:", "todo(bob)", "//", "#", "/*", "#12", "a,b;", "<T>", "*", "-", "@see", "*/", "/*x*/"}

// first words of a plain (non-marker) text and of continuation lines: never a marker, never marker-like
var firstWords = []string{"fix", "this", "remove", "note", "see", "returns", "the", "x", "Copyright", "42", "http://x.io", "@param", "-", "to", "do", "fixed", "tod", "数据", "\"q\"", "!"}

// first words of a message (what follows the marker): a letter or digit first, so that neither '(' nor ':' nor '*'
// starts the message
var msgFirst = []string{"fix", "remove", "handle", "add", "update", "drop", "check", "use", "42", "x", "API", "café", "why?", "a/b", "it's"}

type gen struct {
	r    *run.Rand
	sb   strings.Builder
	line int
	f    *File
	uid  *int
	bias string // hash | c
}

func (g *gen) emit(s string) {
	g.sb.WriteString(s)
	g.line += strings.Count(s, "\n")
}

func (g *gen) id() string {
	*g.uid++
	return fmt.Sprintf("m%d", *g.uid)
}

func (g *gen) kind() string {
	n := g.r.Intn(100)
	if g.bias == "hash" {
		switch {
		case n < 60:
			return "hash"
		case n < 80:
			return "line"
		}
		return "block"
	}
	switch {
	case n < 45:
		return "line"
	case n < 80:
		return "block"
	}
	return "hash"
}

func (g *gen) words(n int) []string {
	var ws []string
	for i := 0; i < n; i++ {
		w := g.r.Pick(anyWords)
		ws = append(ws, w)
	}
	return ws
}

// message returns 1..5 words, the first from msgFirst, carrying a unique id so that entries can be told apart.
func (g *gen) message() []string {
	ws := []string{g.r.Pick(msgFirst)}
	ws = append(ws, g.words(g.r.Range(0, 4))...)
	at := g.r.Range(1, len(ws))
	ws = append(ws[:at], append([]string{g.id()}, ws[at:]...)...)
	return ws
}

func joinBlanks(r *run.Rand, ws []string) string {
	var sb strings.Builder
	for i, w := range ws {
		if i > 0 {
			switch r.Intn(8) {
			case 0:
				sb.WriteString("  ")
			case 1:
				sb.WriteString("\t")
			default:
				sb.WriteString(" ")
			}
		}
		sb.WriteString(w)
	}
	return sb.String()
}

// joinLines lays words out over several lines of a block comment: continuation lines are decorated with blanks and
// optionally a star, and always begin with a word from firstWords.
func (g *gen) joinLines(ws []string, nl string) string {
	r := g.r
	var sb strings.Builder
	star := r.Bool()
	breaks := 0
	for i, w := range ws {
		if i > 0 {
			if r.Chance(1, 3) || (breaks == 0 && i == len(ws)-1) {
				breaks++
				sb.WriteString(nl)
				sb.WriteString(strings.Repeat(" ", r.Range(0, 5)))
				if star {
					sb.WriteString("* ")
				}
				// a continuation line starts with a harmless word
				sb.WriteString(r.Pick(firstWords))
				sb.WriteString(" ")
			} else {
				sb.WriteString(" ")
			}
		}
		sb.WriteString(w)
	}
	if breaks == 0 {
		sb.WriteString(nl)
		if star {
			sb.WriteString(" *")
		}
	}
	return sb.String()
}

func wrap(kind, text string) string {
	switch kind {
	case "line":
		return "//" + text
	case "hash":
		return "#" + text
	}
	return "/*" + text + "*/"
}

func (g *gen) nl() string {
	if g.f.CRLF {
		return "\r\n"
	}
	return "\n"
}

// comment writes one comment of the given kind at the current position. If eol is true the comment runs to the end
// of the line (line and hash comments always do; the caller writes the line end).
func (g *gen) comment(kind string, allowMulti bool) {
	r := g.r
	start := g.line
	if r.Chance(45, 100) {
		g.todoComment(kind, allowMulti)
		return
	}
	var text, what string
	switch n := r.Intn(100); {
	case n < 10:
		text, what = "", "plain/"+kind+"/empty"
	case n < 18:
		text, what = r.Pick([]string{" ", "  ", "\t", " \t "}), "plain/"+kind+"/blank"
	case n < 30:
		c := r.Pick([]string{"x", "T", "t", "F", "f", "1", "-", "!", ":", "(", "é", "?", "\"", "'", "*", "/", "#"})
		text = r.Pick([]string{"", " "}) + c + r.Pick([]string{"", " "})
		what = "plain/" + kind + "/onechar"
	case n < 55:
		ws := append([]string{r.Pick(firstWords)}, g.words(r.Range(0, 5))...)
		if kind == "block" && allowMulti && r.Chance(1, 3) {
			text = r.Pick([]string{"", " ", "*", "* ", g.nl() + " * "}) + g.joinLines(ws, g.nl()) + r.Pick([]string{"", " ", g.nl() + " "})
			what = "plain/block/multi"
		} else {
			lead := r.Pick([]string{"", " ", "  ", "\t"})
			if kind == "block" && r.Chance(1, 6) {
				lead = "* " // Javadoc-style opener in front of harmless text
			}
			text = lead + joinBlanks(r, ws) + r.Pick([]string{"", " "})
			what = "plain/" + kind + "/text"
		}
	default:
		// the marker appears later in the text
		m := r.Pick(markers)
		tail := r.Pick([]string{"", ":", ": " + strings.Join(g.message(), " "), " " + strings.Join(g.message(), " "), "(" + r.Pick(names) + "): x"})
		lead := r.Pick([]string{"", " ", "  "})
		if kind == "block" && allowMulti && r.Chance(1, 6) {
			lead = g.nl() + r.Pick([]string{"", "  ", "    "})
		}
		switch v := r.Intn(12); {
		case v >= 10:
			// the text begins, directly after the comment marker, with a character that opens ANOTHER kind of comment
			// (a commented-out comment): `//# FIXME`, `#/ TODO`, `#* TODO`, `#// todo`, `/*# todo */`, `/*/ fixme */`.
			// Doubled markers of the same kind (`////`, `##`, `//*`, `/**`) stay excluded.
			var pre string
			switch kind {
			case "line":
				pre = "#"
			case "hash":
				pre = r.Pick([]string{"/", "*", "//", "/*"})
			default:
				pre = r.Pick([]string{"#", "/"})
			}
			text = pre + r.Pick([]string{"", "", " ", "\t"}) + m + tail
			what = "later/" + kind + "/opener-char"
		case v < 4:
			text = lead + joinBlanks(r, append([]string{r.Pick(firstWords)}, g.words(r.Range(0, 2))...)) + " " + m + tail
			what = "later/" + kind + "/word"
		case v < 7:
			// one character glued in front of the marker
			text = lead + r.Pick([]string{"x", "T", "t", "_", "1", "@", "-", "(", "\"", ".", "F"}) + m + tail
			what = "later/" + kind + "/glued1"
			if lead != "" {
				what = "later/" + kind + "/glued1-spaced"
			}
		case v < 8:
			text = lead + r.Pick([]string{"xy", "no", "my", "in"}) + m + tail
			what = "later/" + kind + "/glued2"
		default:
			text = lead + r.Pick([]string{"- ", "@ ", "! ", "-- ", "=> ", ". "}) + m + tail
			what = "later/" + kind + "/punct"
		}
		if kind == "block" && allowMulti && r.Chance(1, 4) {
			text += g.nl() + r.Pick([]string{" ", " * ", "   "}) + r.Pick(firstWords) + " " + r.Pick(markers) + ": mid-line" + g.nl() + " "
			what = strings.Replace(what, "later/block/", "later/block/multi-", 1)
		}
	}
	if kind == "block" {
		text = strings.ReplaceAll(text, "*/", "* /")
	}
	src := wrap(kind, text)
	g.f.Decoys = append(g.f.Decoys, Decoy{Line: start, What: what, Src: src})
	g.f.shape = append(g.f.shape, what)
	g.emit(src)
}

func (g *gen) todoComment(kind string, allowMulti bool) {
	r := g.r
	start := g.line
	p := Planted{Line: start, Kind: kind}
	lead := r.Pick([]string{"", "", " ", " ", "  ", "\t"})
	if kind == "block" && allowMulti && r.Chance(1, 4) {
		// the opener stands alone: one to three line breaks (and blanks) between `/*` and the marker word; the line
		// break is one of the blanks after the comment marker, the comment still starts at the opener's line
		lead = r.Pick([]string{"", " "})
		for k := r.PickInt(1, 1, r.Range(2, 3)); k > 0; k-- {
			lead += g.nl()
			p.MarkerLineOffset++
		}
		lead += strings.Repeat(" ", r.Range(0, 6))
	}
	p.Tight = lead == ""
	p.Marker = r.Pick(markers)
	var after string
	var msg []string
	switch r.Intn(11) {
	case 10:
		// crash-only shape: the text after the marker (and optional colon / blanks) opens a parenthesis that is never
		// closed inside this comment. What is reported for it is free (the statement only fixes '(name)'), a crash is not.
		g.unclosedParen(kind, p, lead)
		return
	case 0:
		p.Form = "marker"
	case 1:
		p.Form, after = "colon", ":"
	case 2:
		p.Form, after, msg = "blank-msg", r.Pick([]string{" ", " ", "  ", "\t"}), g.message()
	case 3:
		p.Form, after, msg = "colon-msg-tight", ":", g.message()
	case 4:
		p.Form, after, msg = "colon-msg", ":"+r.Pick([]string{" ", " ", "  ", "\t"}), g.message()
	case 5:
		p.Assignee = r.Pick(names)
		p.Form, after = "assignee", "("+p.Assignee+")"
	case 6:
		p.Assignee = r.Pick(names)
		p.Form, after = "assignee-colon", "("+p.Assignee+"):"
	case 7:
		p.Assignee = r.Pick(names)
		p.Form, after, msg = "assignee-msg", "("+p.Assignee+") ", g.message()
	case 8:
		p.Assignee = r.Pick(names)
		p.Form, after, msg = "assignee-colon-msg", "("+p.Assignee+"): ", g.message()
	default:
		p.Assignee = r.Pick(names)
		p.Form, after, msg = "assignee-colon-msg-tight", "("+p.Assignee+"):", g.message()
	}
	var body string
	if kind == "block" && allowMulti && len(msg) > 0 && r.Chance(2, 5) {
		p.Multi = true
		body = g.joinLines(msg, g.nl())
		if r.Bool() {
			body += g.nl() + strings.Repeat(" ", r.Range(0, 4))
		}
	} else {
		body = joinBlanks(r, msg)
	}
	trail := r.Pick([]string{"", "", " ", "  "})
	if kind == "block" {
		body = strings.ReplaceAll(body, "*/", "* /")
		if p.Multi {
			trail = r.Pick([]string{"", " "})
		}
	}
	p.Message = body
	text := lead + p.Marker + after + body + trail
	p.Src = wrap(kind, text)
	g.f.Planted = append(g.f.Planted, p)
	multi := ""
	if p.Multi {
		multi = "/multi"
	}
	tight := ""
	if p.Tight {
		tight = "/tight"
	}
	if p.MarkerLineOffset > 0 {
		multi += "/opener-alone"
	}
	g.f.shape = append(g.f.shape, "todo/"+kind+"/"+p.Form+multi+tight+"/"+strings.ToUpper(p.Marker))
	g.emit(p.Src)
}

// words without ')' for the text behind an unclosed '('
var noCloseWords = []string{"rework", "the", "whole", "half", "open", "bob", "see", "#12", "a(b", "(x", "42", "café", "//", "x:y", "m"}

func (g *gen) unclosedParen(kind string, p Planted, lead string) {
	r := g.r
	p.Form = "unclosed-paren"
	p.Optional = true
	var ws []string
	for k := r.Range(0, 4); k > 0; k-- {
		ws = append(ws, r.Pick(noCloseWords))
	}
	text := lead + p.Marker + r.Pick([]string{"", "", " ", ":", ": ", "\t"}) + "(" + joinBlanks(r, ws) + r.Pick([]string{"", "", " "})
	p.Src = wrap(kind, text)
	g.f.Planted = append(g.f.Planted, p)
	g.f.shape = append(g.f.shape, "crash-only/"+kind+"/unclosed-paren")
	g.emit(p.Src)
}

var idents = []string{"x", "foo", "bar", "TODO", "FIXME", "todo", "fixme", "main", "int", "return", "def", "func", "class", "i", "n", "self", "$v", "_t"}
var numbers = []string{"0", "1", "42", "3.14", "0x1F", "1e3", "07"}
var ops = []string{"=", "+", "-", "*", "/", "%", "==", "!=", "<", "<=", ">", "->", "::", "&&", "||", "!", "?", ":", ".", ",", ";", "(", ")", "{", "}", "[", "]", "@", "...", "+=", "/=", "*="}

var strPieces = []string{"a", "b c", "//", "/*", "*/", "#", "TODO", "// TODO: not a comment", "/* FIXME */", "# todo: none", "TODO(bob): s", `\"`, `\\`, `\'`, `\n`, `\t`,
	"'", "`", "http://h/p#f", "é", "数", " ", "%d", `A`, `\0`, `\u0023`}
var charLits = []string{`'#'`, `'/'`, `'*'`, `'"'`, `'\''`, `'\\'`, `'a'`, `'T'`, `'\n'`, "'`'", `' '`, `'#'`}
var tickPieces = []string{"a", "b c", "//", "/*", "*/", "#", "TODO", "// TODO: not a comment", "/* FIXME */", "# todo: none", "\"", "'", "\n", "\n  ", "é", "${x}", "FIXME(al): t"}

func (g *gen) literal() {
	r := g.r
	start := g.line
	var src, what string
	switch n := r.Intn(10); {
	case n < 6:
		var sb strings.Builder
		sb.WriteString(`"`)
		for k := r.Range(0, 5); k > 0; k-- {
			sb.WriteString(r.Pick(strPieces))
		}
		sb.WriteString(`"`)
		src, what = sb.String(), "literal/string"
	case n < 8:
		src, what = r.Pick(charLits), "literal/char"
	default:
		var sb strings.Builder
		sb.WriteString("`")
		for k := r.Range(0, 6); k > 0; k-- {
			p := r.Pick(tickPieces)
			if g.f.CRLF {
				p = strings.ReplaceAll(p, "\n", "\r\n")
			}
			sb.WriteString(p)
		}
		sb.WriteString("`")
		src, what = sb.String(), "literal/backtick"
		if strings.Contains(src, "\n") {
			what = "literal/backtick-multi"
		}
	}
	if strings.Contains(strings.ToUpper(src), "TODO") || strings.Contains(strings.ToUpper(src), "FIXME") {
		what += "+marker"
	}
	g.f.Decoys = append(g.f.Decoys, Decoy{Line: start, What: what, Src: src})
	g.f.shape = append(g.f.shape, what)
	g.emit(src)
}

// code writes 0..n code tokens / literals (and inline block comments) on the current line; it reports whether the
// last thing written ends with '/' or '*' (a comment must then be separated by a blank).
func (g *gen) code(max int) bool {
	r := g.r
	danger := false
	first := true
	for k := r.Range(1, max); k > 0; k-- {
		sep := " "
		if !first && !danger && r.Chance(1, 5) {
			sep = ""
		}
		if first {
			sep = ""
		}
		switch n := r.Intn(20); {
		case n < 7:
			id := r.Pick(idents)
			if sep == "" && !first {
				sep = " " // identifiers/numbers are not glued to each other
			}
			g.emit(sep + id)
			danger = false
			up := strings.ToUpper(id)
			if up == "TODO" || up == "FIXME" {
				g.f.Decoys = append(g.f.Decoys, Decoy{Line: g.line, What: "code-ident", Src: id})
			}
		case n < 9:
			if sep == "" && !first {
				sep = " "
			}
			g.emit(sep + r.Pick(numbers))
			danger = false
		case n < 14:
			op := r.Pick(ops)
			if strings.ContainsAny(op, "/*") {
				sep = " "
				if first {
					sep = ""
				}
			}
			g.emit(sep + op)
			danger = strings.HasSuffix(op, "/") || strings.HasSuffix(op, "*")
		case n < 18:
			g.emit(sep)
			g.literal()
			danger = false
		default:
			if danger && sep == "" {
				sep = " "
			}
			g.emit(sep)
			g.comment("block", r.Chance(1, 4))
			danger = false
		}
		first = false
	}
	return danger
}

func indent(r *run.Rand) string {
	return r.Pick([]string{"", "", "  ", "    ", "\t", "\t\t"})
}

// longLine writes line 1 of a file: at least 65536 bytes before the line end, free of the marker words.
func (g *gen) longLine() {
	r := g.r
	min := 65536 + r.PickInt(0, 1, r.Range(2, 9000))
	var sb strings.Builder
	var shape string
	switch r.Intn(3) {
	case 0:
		shape = "long-line/minified-code"
		unit := r.Pick([]string{"a=a+1;  ", "f(x,1);", "v[i]=0x1F; ", "n = n - 1 ; "})
		sb.WriteString(strings.Repeat(unit, min/len(unit)+1))
	case 1:
		shape = "long-line/string-literal"
		unit := r.Pick([]string{"QUJD", "ab//c#", "/*x*/ ", "é0"})
		sb.WriteString("s = \"" + strings.Repeat(unit, min/len(unit)+1) + "\";")
	default:
		shape = "long-line/plain-comment"
		unit := r.Pick([]string{"lorem ipsum ", "x", "- - "})
		sb.WriteString(r.Pick([]string{"// ", "# "}) + strings.Repeat(unit, min/len(unit)+1))
	}
	line := sb.String()
	g.f.LongLine = len(line)
	g.f.shape = append(g.f.shape, shape)
	g.f.Decoys = append(g.f.Decoys, Decoy{Line: 1, What: "plain/long-line", Src: line[:40] + "…"})
	g.emit(line)
	g.emit(g.nl())
}

// genFile writes one file.
func genFile(r *run.Rand, rel, ext string, uid *int) File {
	f := File{Rel: rel, Ext: ext}
	g := &gen{r: r, line: 1, f: &f, uid: uid, bias: "c"}
	if ext == ".py" || ext == ".rb" || ext == ".pyc" {
		g.bias = "hash"
	}
	f.CRLF = r.Chance(1, 10)
	if r.Chance(1, 40) {
		// an empty file
		f.shape = append(f.shape, "empty-file")
		return f
	}
	if r.Chance(1, 64) {
		// a first line of 64 KiB or more (minified bundle, embedded constant, long comment) that mentions no marker:
		// everything below it must still be reported, with its line numbers
		g.longLine()
	}
	nLines := r.Range(1, 24)
	if r.Chance(1, 6) {
		nLines = r.Range(1, 3)
	}
	unterminated := r.Chance(1, 12)
	for i := 0; i < nLines; i++ {
		last := i == nLines-1
		switch n := r.Intn(20); {
		case n < 2:
			// blank line
			g.emit(r.Pick([]string{"", "", "  "}))
		case n < 6:
			g.emit(indent(r))
			g.code(6)
		case n < 12:
			// comment alone on its line(s)
			g.emit(indent(r))
			k := g.kind()
			g.comment(k, true)
			if k == "block" && r.Chance(1, 6) {
				// something after a block comment on the same line
				g.emit(r.Pick([]string{" ", ""}))
				if r.Bool() {
					g.comment(r.Pick([]string{"line", "hash"}), false)
				} else {
					g.emit(" ")
					g.code(3)
				}
			}
		default:
			// code with a trailing comment
			g.emit(indent(r))
			danger := g.code(5)
			k := g.kind()
			sep := r.Pick([]string{" ", " ", "  ", "\t", ""})
			if danger && sep == "" {
				sep = " "
			}
			g.emit(sep)
			g.comment(k, true)
		}
		if !last || unterminated || r.Chance(4, 5) {
			g.emit(g.nl())
		}
	}
	if unterminated {
		// `/*` never closed: plain words up to the end of the file; with a marker the entry is optional
		g.emit(indent(r))
		start := g.line
		lead := r.Pick([]string{"", " ", "  "})
		var text string
		plainWords := []string{"fix", "this", "later", "remove", "cache", "42", "v2", "x", "API"}
		nw := r.Range(0, 4)
		var ws []string
		for k := 0; k < nw; k++ {
			ws = append(ws, r.Pick(plainWords))
		}
		tailNL := r.Pick([]string{"", "", g.nl(), g.nl() + " " + r.Pick(plainWords) + g.nl()})
		if r.Chance(1, 2) {
			m := r.Pick(markers)
			after := r.Pick([]string{"", ":", " ", ": ", "(bob) ", "(bob): "})
			text = lead + m + after + strings.Join(ws, " ")
			src := "/*" + text + tailNL
			f.Planted = append(f.Planted, Planted{Line: start, Kind: "block", Form: "unterminated", Tight: lead == "", Marker: m, Optional: true, Src: src})
			f.shape = append(f.shape, "unterminated/todo")
			g.emit(src)
		} else {
			text = lead + strings.Join(ws, " ")
			src := "/*" + text + tailNL
			shape := "plain/block/unterminated"
			if text == "" {
				shape = "plain/block/unterminated-bare"
			}
			f.Decoys = append(f.Decoys, Decoy{Line: start, What: shape, Src: src})
			f.shape = append(f.shape, shape)
			g.emit(src)
		}
	}
	f.Text = g.sb.String()
	return f
}

// dot-directories and dot-named files are ordinary places for source files: the statement speaks of "any source file with
// a selected extension" and excludes nothing by name
var dirs = []string{"", "", "a", "a/b", "lib", "pkg/util", "app", "app/core/x", ".github", ".config/tool", "a/.hidden"}
var bases = []string{"main", "Todo", "util", "svc", "index", "mod", "handler", "Repo", "x", "java", "py", ".eslintrc"}

// Generate builds one tree of nFiles files. The first files get extensions from Exts (so that a subset filter selects
// something), the rest a mix of Exts and other extensions.
func Generate(r *run.Rand, nFiles int) *Tree {
	t := &Tree{}
	uid := 0
	used := map[string]bool{}
	for i := 0; i < nFiles; i++ {
		var ext string
		switch {
		case i == 0 || r.Chance(3, 5):
			ext = r.Pick(Exts)
			if r.Chance(1, 5) {
				// a two-part extension ending in the chosen one
				var cs []string
				for _, c := range CompoundExts {
					if strings.HasSuffix(c, ext) {
						cs = append(cs, c)
					}
				}
				ext = r.Pick(cs)
			}
		case r.Chance(1, 3):
			ext = r.Pick(LookalikeExts)
		default:
			ext = r.Pick(otherExts)
		}
		dir := r.Pick(dirs)
		base := r.Pick(bases)
		rel := base + ext
		if dir != "" {
			rel = dir + "/" + rel
		}
		for n := 2; used[rel]; n++ {
			rel = fmt.Sprintf("%s%d%s", base, n, ext)
			if dir != "" {
				rel = dir + "/" + rel
			}
		}
		used[rel] = true
		f := genFile(r.Fork(), rel, ext, &uid)
		for _, l := range LookalikeExts {
			if ext == l {
				f.Lookalike = true
			}
		}
		t.Files = append(t.Files, f)
	}
	return t
}

// Selected tells whether a file carries one of the extensions of the filter (the statement's "selected extension"): its
// name is <base><ext> and ext is, or ends in, a filter entry (both start with a dot: x.d.ts has the extensions .d.ts
// and .ts, x.mts has neither). Extensions in otherExts / LookalikeExts never end in a member of Exts or CompoundExts.
func Selected(f *File, exts []string) bool {
	return FilterHits(f, exts) > 0
}

// FilterHits counts the filter entries (with repetitions) that name the file.
func FilterHits(f *File, exts []string) int {
	n := 0
	for _, e := range exts {
		if e != "" && strings.HasPrefix(e, ".") && strings.HasSuffix(f.Ext, e) {
			n++
		}
	}
	return n
}
