// Package treegen (G-TREE) synthesises directory trees of source files whose numbers of code, comment and
// blank lines are known by construction. It does not import coca or scc: the ground truth is what was planted.
//
// What is generated is deliberately restricted to text whose classification no line counter can dispute:
//
//   - six languages, told apart by their conventional extension (.java .go .py .js .c .sh);
//   - a line is exactly one of: code (starts with a non-blank, non-comment token and contains no comment
//     marker and at most one plain "letters only" string), a whole-line comment (optionally indented; `//` or
//     `#`; in the C family also block comments that open at the start of a line and close at the end of a line,
//     possibly spanning several lines, with no blank line inside), or blank (empty, spaces, tabs);
//   - NOT generated, because counters disagree about them: shebang lines (`#!/bin/sh` is a comment to scc),
//     Python docstrings, comments after code on the same line, comment markers inside strings, here-documents,
//     back-tick / triple-quoted / multi-line strings, escapes inside strings, files without an extension,
//     several extensions in one file name, .gitignore/.ignore files, symlinks, binary content;
//   - a file ends with a newline unless `NoFinalNewline` was drawn, in which case its last line is a plain code
//     line; line ends are LF or (whole file) CRLF; a few files are empty (0 bytes: 0/0/0).
//
// Directory names: plain, with dots (`v1.2`, `com.example`, `.config`, `x.json`, `app.js` ...), the ignored
// names of the statement (`.git`, `.idea`, `coca_reporter`, plus `.svn`, `.hg`), empty directories, nested
// sub-sub-directories (files at several depths, empty leaves), look-alikes of the ignored names (`jgit`, `xsvn`,
// `.github`, `git`, `my_coca_reporter` ... ordinary directories under the statement), and directories called
// `coca_reporter` / `.idea` / `old_coca_reporter` at depth >= 2 with sources in them (only IMMEDIATE sub-directories
// are report / IDE directories; below one, the files belong to the immediate sub-directory that contains them).
// `deeponly` sub-directories hold all their files two to four levels down (`backend/src/main/java/...`).
// No path component ends in `.git`, `.hg` or `.svn` other than the top-level VCS directories themselves
// (whether `pkg/.git/x.c` belongs to `pkg` is something the statement leaves open).
package treegen

import (
	"fmt"
	"os"
	"path/filepath"
	"sort"
	"strings"

	"verifharness/run"
)

// Lang describes one of the six languages.
type Lang struct {
	Name  string // conventional display name (what a line-count report calls the language)
	Ext   string // extension without dot
	Line  string // line-comment marker
	Block bool   // has /* ... */
}

var Langs = []Lang{
	{"Java", "java", "//", true},
	{"Go", "go", "//", true},
	{"Python", "py", "#", false},
	{"JavaScript", "js", "//", true},
	{"C", "c", "//", true},
	{"Shell", "sh", "#", false},
}

func LangByExt(ext string) (Lang, bool) {
	for _, l := range Langs {
		if l.Ext == ext {
			return l, true
		}
	}
	return Lang{}, false
}

// IgnoredNames are the VCS/IDE/report directories of the statement.
var IgnoredNames = []string{".git", ".svn", ".hg", ".idea", "coca_reporter"}

// IsVCSName: the version-control directories among the ignored names. Whether their content is part of "the whole
// tree" (header languages, top-file lists) is left open by the statement; for .idea and coca_reporter it is not
// (the repository's own golden cloc_ignore.txt names a language found only in .idea).
func IsVCSName(n string) bool { return n == ".git" || n == ".svn" || n == ".hg" }

// ignoredPool weights the IDE / report directories a little higher than the VCS ones.
var ignoredPool = []string{".git", ".svn", ".hg", ".idea", ".idea", "coca_reporter", "coca_reporter"}

func IsIgnoredName(n string) bool {
	for _, x := range IgnoredNames {
		if x == n {
			return true
		}
	}
	return false
}

// File is one planted source file.
type File struct {
	Rel            string `json:"rel"` // slash-separated, relative to the tree root
	Lang           string `json:"lang"`
	Ext            string `json:"ext"`
	Code           int    `json:"code"`
	Comment        int    `json:"comment"`
	Blank          int    `json:"blank"`
	CRLF           bool   `json:"crlf,omitempty"`
	NoFinalNewline bool   `json:"no_final_newline,omitempty"`
	Content        string `json:"content,omitempty"`
}

// TopDir is the immediate sub-directory the file lives in ("" for a root-level file).
func (f *File) TopDir() string {
	if i := strings.Index(f.Rel, "/"); i >= 0 {
		return f.Rel[:i]
	}
	return ""
}

// SubDir is one immediate sub-directory of the root.
type SubDir struct {
	Name    string `json:"name"`
	Kind    string `json:"kind"` // plain | dotted | lookalike | deeponly | ignored | empty | nested
	Ignored bool   `json:"ignored"`
}

// Tree is the planted ground truth.
type Tree struct {
	Subs  []SubDir `json:"subs"`
	Dirs  []string `json:"dirs"` // every directory to create (relative, slash separated), parents first
	Files []File   `json:"files"`
}

type Opts struct {
	MinSubs, MaxSubs int // immediate sub-directories
	MaxFilesPerDir   int
	MaxRootFiles     int
	MaxLines         int // per kind, per file
	MaxLangs         int // 1..6
	ForceAllKinds    bool
	AllLangs         bool // all six languages, each with at least one file outside the ignored directories
	Big              bool // race workloads: every sub-directory is populated, many files
	TotalFiles       int  // Big: approximate number of files
}

var plainNames = []string{"src", "pkg", "lib", "app", "core", "util", "docs", "cmd", "web", "api", "internal", "tools", "a", "b2", "Main", "x_y", "mod-1"}
var dottedNames = []string{"v1.2", "com.example", ".config", "x.json", "app.js", "a.b.c", "lib.d", "main.go", "pkg.v2", ".hidden.d", "1.0", "node.modules", "cloc.csv"}

// lookalikeNames resemble the ignored names but are ordinary directories under the statement (it excludes the VCS /
// IDE / report directories, i.e. exactly .git .svn .hg .idea coca_reporter): one arbitrary character + git/svn/hg/idea,
// the bare words, longer names with the ignored name as a prefix or a suffix. None ends in `.git`, `.hg`, `.svn`.
var lookalikeNames = []string{"jgit", "egit", "ngit", "_git", "xsvn", "ahg", "aidea", "xidea", "git", "svn", "hg", "idea", ".github", ".gitx", ".ideas", ".hgx",
	"my_coca_reporter", "coca_reporter2", "coca_reporters", "xcoca_reporter"}

// innerReporterNames: directories with an ignored-looking name at depth >= 2. They are not immediate sub-directories,
// so their files belong to the immediate sub-directory above them. (.git/.svn/.hg are not used here: version-control
// metadata below a module is left open.)
var innerReporterNames = []string{"coca_reporter", "coca_reporter", ".idea", "old_coca_reporter"}

// deepOnlyNames / deepPathNames: modules of the `backend/src/main/java/...` shape.
var deepOnlyNames = []string{"backend", "frontend", "service", "modules", "android", "maven.proj", "gradle-app"}
var deepPathNames = []string{"src", "main", "java", "lib", "pkg", "com", "acme", "internal", "v1", "app.d"}
var nestedNames = []string{"deep", "tree", "mono", "nested.pkg", "layers"}
var innerNames = []string{"in", "sub", "x", "impl", "v2", "gen", "model", "leaf", "p.q"}
var fileStems = []string{"main", "util", "Foo", "Bar", "index", "run", "core", "a", "b", "helper", "Node", "types", "x1", "setup", "lexer", "app"}

// Generate draws a tree.
func Generate(r *run.Rand, o Opts) *Tree {
	t := &Tree{}
	if o.MaxLangs < 1 {
		o.MaxLangs = len(Langs)
	}
	nl := r.Range(1, o.MaxLangs)
	if r.Chance(1, 3) && o.MaxLangs >= 2 {
		nl = r.Range(2, o.MaxLangs)
	}
	if o.AllLangs {
		nl = len(Langs)
	}
	var langs []Lang
	for _, i := range r.Perm(len(Langs))[:nl] {
		langs = append(langs, Langs[i])
	}
	sort.Slice(langs, func(i, j int) bool { return langs[i].Ext < langs[j].Ext })

	n := r.Range(o.MinSubs, o.MaxSubs)
	used := map[string]bool{}
	pickName := func(pool []string) string {
		for tries := 0; tries < 50; tries++ {
			c := r.Pick(pool)
			if !used[c] {
				used[c] = true
				return c
			}
		}
		for k := 0; ; k++ {
			c := fmt.Sprintf("d%d", k)
			if !used[c] {
				used[c] = true
				return c
			}
		}
	}
	kinds := make([]string, 0, n)
	if o.Big {
		base := []string{"plain", "dotted", "nested", "ignored", "lookalike", "empty", "deeponly", "nested", "plain"}
		for i := 0; i < n; i++ {
			kinds = append(kinds, base[i%len(base)])
		}
	} else {
		for i := 0; i < n; i++ {
			switch x := r.Intn(16); {
			case x < 4:
				kinds = append(kinds, "plain")
			case x < 7:
				kinds = append(kinds, "dotted")
			case x < 9:
				kinds = append(kinds, "ignored")
			case x < 10:
				kinds = append(kinds, "empty")
			case x < 12:
				kinds = append(kinds, "lookalike")
			case x < 14:
				kinds = append(kinds, "deeponly")
			default:
				kinds = append(kinds, "nested")
			}
		}
	}
	dirSet := map[string]bool{}
	addDir := func(d string) {
		parts := strings.Split(d, "/")
		for i := 1; i <= len(parts); i++ {
			p := strings.Join(parts[:i], "/")
			if !dirSet[p] {
				dirSet[p] = true
				t.Dirs = append(t.Dirs, p)
			}
		}
	}
	perDir := o.MaxFilesPerDir
	if perDir < 1 {
		perDir = 5
	}
	if o.Big && o.TotalFiles > 0 {
		pop := 0
		for _, k := range kinds {
			if k != "empty" {
				pop++
			}
		}
		if pop < 1 {
			pop = 1
		}
		perDir = o.TotalFiles / pop
	}
	fileSeq := 0
	plant := func(dir string, count int) {
		names := map[string]bool{}
		for i := 0; i < count; i++ {
			l := langs[r.Intn(len(langs))]
			stem := r.Pick(fileStems)
			if o.Big || names[stem+"."+l.Ext] {
				fileSeq++
				stem = fmt.Sprintf("%s%d", stem, fileSeq)
			}
			names[stem+"."+l.Ext] = true
			rel := stem + "." + l.Ext
			if dir != "" {
				rel = dir + "/" + rel
			}
			if dirSet[rel] { // a directory of that name exists (`main.go`, `app.js` are directory names too)
				fileSeq++
				rel = strings.TrimSuffix(rel, "."+l.Ext) + fmt.Sprintf("_%d.%s", fileSeq, l.Ext)
			}
			t.Files = append(t.Files, genFile(r, l, rel, o.MaxLines))
		}
	}
	plantOne := func(dir string, l Lang) {
		fileSeq++
		t.Files = append(t.Files, genFile(r, l, fmt.Sprintf("%s/%s%d.%s", dir, r.Pick(fileStems), fileSeq, l.Ext), o.MaxLines))
	}
	// innerReporter: a directory called coca_reporter / .idea / ...coca_reporter BELOW an immediate sub-directory
	innerReporter := func(parent string) {
		d := parent + "/" + r.Pick(innerReporterNames)
		if dirSet[d] {
			return
		}
		addDir(d)
		plant(d, r.Range(1, 3))
		if r.Chance(1, 3) {
			addDir(d + "/cloc")
			plant(d+"/cloc", 1)
		}
	}
	for _, k := range kinds {
		var sd SubDir
		switch k {
		case "plain", "dotted", "lookalike":
			pool := plainNames
			if k == "dotted" {
				pool = dottedNames
			} else if k == "lookalike" {
				pool = lookalikeNames
			}
			sd = SubDir{Name: pickName(pool), Kind: k}
			addDir(sd.Name)
			if o.Big {
				plant(sd.Name, r.Range(perDir*3/4+1, perDir*5/4+1))
			} else {
				plant(sd.Name, r.Range(1, perDir))
			}
			if r.Chance(1, 4) {
				innerReporter(sd.Name)
			}
		case "ignored":
			sd = SubDir{Name: pickName(ignoredPool), Kind: k, Ignored: true}
			addDir(sd.Name)
			// ignored directories are populated too, so that a missing filter shows up as a row / a figure
			if o.Big {
				plant(sd.Name, r.Range(2, 12))
			} else {
				plant(sd.Name, r.Range(0, 3))
			}
			if r.Chance(1, 3) {
				addDir(sd.Name + "/objects")
				plant(sd.Name+"/objects", r.Range(0, 2))
			}
			// a language that occurs ONLY inside the IDE / report directory (it is still a language of the whole tree)
			if !IsVCSName(sd.Name) && len(langs) < len(Langs) && r.Chance(3, 4) {
				var absent []Lang
				for _, l := range Langs {
					in := false
					for _, x := range langs {
						in = in || x.Ext == l.Ext
					}
					if !in {
						absent = append(absent, l)
					}
				}
				plantOne(sd.Name, absent[r.Intn(len(absent))])
			}
		case "deeponly":
			// a module whose sources all lie two or more levels below it (backend/src/main/java/...): nothing
			// directly in it, nothing one level down
			sd = SubDir{Name: pickName(deepOnlyNames), Kind: k}
			addDir(sd.Name)
			branches := r.Range(1, 2)
			for b := 0; b < branches; b++ {
				d := sd.Name
				for lvl, depth := 0, r.Range(2, 4); lvl < depth; lvl++ {
					d += "/" + r.Pick(deepPathNames)
				}
				addDir(d)
				if o.Big {
					plant(d, r.Range(perDir*3/8+1, perDir*5/8+1))
				} else {
					plant(d, r.Range(1, perDir))
				}
			}
		case "empty":
			sd = SubDir{Name: pickName(append(append([]string{}, plainNames...), dottedNames...)), Kind: k}
			addDir(sd.Name)
			if r.Chance(1, 3) {
				addDir(sd.Name + "/" + r.Pick(innerNames)) // empty, but not a leaf
			}
		case "nested":
			sd = SubDir{Name: pickName(nestedNames), Kind: k}
			addDir(sd.Name)
			// files at several depths, some inner directories empty
			var inner []string
			inner = append(inner, sd.Name)
			depthDirs := r.Range(2, 5)
			for i := 0; i < depthDirs; i++ {
				parent := inner[r.Intn(len(inner))]
				if strings.Count(parent, "/") >= 3 {
					parent = sd.Name
				}
				child := parent + "/" + r.Pick(innerNames)
				if !dirSet[child] {
					addDir(child)
					inner = append(inner, child)
				}
			}
			share := perDir
			if o.Big {
				share = perDir/len(inner) + 1
			}
			if r.Chance(1, 2) {
				innerReporter(inner[r.Intn(len(inner))])
			}
			for i, d := range inner {
				if !o.Big && i > 0 && r.Chance(1, 4) {
					continue // empty inner directory
				}
				if o.Big {
					plant(d, r.Range(share*3/4+1, share*5/4+1))
				} else {
					plant(d, r.Range(0, share))
				}
			}
		}
		t.Subs = append(t.Subs, sd)
	}
	if o.MaxRootFiles > 0 && (o.Big || r.Chance(2, 3)) {
		plant("", r.Range(1, o.MaxRootFiles))
	}
	if o.AllLangs {
		// every language gets at least one file outside the ignored directories (in a populated directory or the root)
		have := map[string]bool{}
		var homes []string
		for _, f := range t.Files {
			if !IsIgnoredName(f.TopDir()) {
				have[f.Ext] = true
			}
		}
		for _, s := range t.Subs {
			if !s.Ignored && s.Kind != "empty" {
				homes = append(homes, s.Name)
			}
		}
		for _, l := range langs {
			for k := 0; !have[l.Ext] || k < 1 && r.Chance(1, 2); k++ {
				fileSeq++
				rel := fmt.Sprintf("%s%d.%s", r.Pick(fileStems), fileSeq, l.Ext)
				if len(homes) > 0 && r.Chance(2, 3) {
					rel = homes[r.Intn(len(homes))] + "/" + rel
				}
				t.Files = append(t.Files, genFile(r, l, rel, o.MaxLines))
				have[l.Ext] = true
			}
		}
	}
	return t
}

// WideOpts describes a tree in which ONE language has a very long file list (>= 1024 files), the others few.
type WideOpts struct {
	Files int // number of files of the wide language (all outside ignored directories)
}

// GenerateWide draws a tree with 8 immediate sub-directories (plain, dotted, nested, one ignored, one empty) in which
// one language has o.Files small files (1-3 code lines, at most one comment and one blank line) spread over all
// populated directories and depths, about 40 of them "peaks" with 4-60 code lines placed at random, so that the N
// files with most code lines are scattered over every directory (and over any order in which a counter lists
// them). One to three other languages have 1-6 ordinary files each. At most four languages, so that the printed
// top-file tables are not suppressed.
func GenerateWide(r *run.Rand, o WideOpts) *Tree {
	t := &Tree{}
	perm := r.Perm(len(Langs))
	wide := Langs[perm[0]]
	others := []Lang{}
	for _, i := range perm[1 : 1+r.Range(1, 3)] {
		others = append(others, Langs[i])
	}
	dirSet := map[string]bool{}
	addDir := func(d string) {
		parts := strings.Split(d, "/")
		for i := 1; i <= len(parts); i++ {
			p := strings.Join(parts[:i], "/")
			if !dirSet[p] {
				dirSet[p] = true
				t.Dirs = append(t.Dirs, p)
			}
		}
	}
	pick := func(pool []string) string {
		for {
			c := r.Pick(pool)
			if !dirSet[c] {
				return c
			}
		}
	}
	var populated []string
	for _, k := range []string{"plain", "dotted", "nested", "ignored", "plain", "empty", "dotted", "nested"} {
		var sd SubDir
		switch k {
		case "plain":
			sd = SubDir{Name: pick(plainNames), Kind: k}
			addDir(sd.Name)
			populated = append(populated, sd.Name)
		case "dotted":
			sd = SubDir{Name: pick(dottedNames), Kind: k}
			addDir(sd.Name)
			populated = append(populated, sd.Name)
		case "nested":
			sd = SubDir{Name: pick(nestedNames), Kind: k}
			addDir(sd.Name)
			populated = append(populated, sd.Name)
			a := sd.Name + "/" + r.Pick(innerNames)
			addDir(a)
			populated = append(populated, a)
			b := a + "/" + r.Pick(innerNames)
			addDir(b)
			populated = append(populated, b)
		case "ignored":
			sd = SubDir{Name: pick(IgnoredNames), Kind: k, Ignored: true}
			addDir(sd.Name)
		case "empty":
			sd = SubDir{Name: pick(plainNames), Kind: k}
			addDir(sd.Name)
		}
		t.Subs = append(t.Subs, sd)
	}
	populated = append(populated, "") // root-level files too
	peaks := map[int]bool{}
	for len(peaks) < 40 {
		peaks[r.Intn(o.Files)] = true
	}
	for i := 0; i < o.Files; i++ {
		dir := populated[r.Intn(len(populated))]
		rel := fmt.Sprintf("%s%d.%s", r.Pick(fileStems), i, wide.Ext)
		if dir != "" {
			rel = dir + "/" + rel
		}
		code := 1 + r.Intn(3)
		if peaks[i] {
			code = r.Range(4, 60)
		}
		t.Files = append(t.Files, smallFile(r, wide, rel, code))
	}
	seq := 0
	for _, l := range others {
		for k := r.Range(1, 6); k > 0; k-- {
			seq++
			dir := populated[r.Intn(len(populated))]
			rel := fmt.Sprintf("%s_o%d.%s", r.Pick(fileStems), seq, l.Ext)
			if dir != "" {
				rel = dir + "/" + rel
			}
			t.Files = append(t.Files, genFile(r, l, rel, 12))
		}
	}
	// the ignored directory holds a few files of the other languages only, so the wide list has exactly o.Files entries
	for _, s := range t.Subs {
		if s.Ignored {
			for k := r.Range(1, 3); k > 0; k-- {
				seq++
				l := others[r.Intn(len(others))]
				t.Files = append(t.Files, genFile(r, l, fmt.Sprintf("%s/ign%d.%s", s.Name, seq, l.Ext), 8))
			}
		}
	}
	return t
}

// smallFile: exactly `code` code lines, optionally one whole-line comment and one blank line, final newline.
func smallFile(r *run.Rand, l Lang, rel string, code int) File {
	f := File{Rel: rel, Lang: l.Name, Ext: l.Ext, Code: code}
	var lines []string
	if r.Chance(1, 3) {
		lines = append(lines, l.Line+" "+commentText(r))
		f.Comment = 1
	}
	for i := 0; i < code; i++ {
		lines = append(lines, codeLine(r, l, true))
		if i == 0 && r.Chance(1, 4) {
			lines = append(lines, "")
			f.Blank = 1
		}
	}
	f.Content = strings.Join(lines, "\n") + "\n"
	return f
}

func ident(r *run.Rand) string {
	return r.Pick([]string{"count", "total", "idx", "value", "name", "node", "left", "right", "size", "acc", "tmp", "flag"}) + fmt.Sprint(r.Intn(90))
}

func word(r *run.Rand) string {
	return r.Pick([]string{"alpha", "beta", "gamma", "delta", "hello", "world", "done", "ready", "item", "entry"})
}

// codeLine returns one line that is code in language l under every reading: it starts with a non-blank token,
// contains none of / * # ' ` \ and at most one "letters and spaces" string.
func codeLine(r *run.Rand, l Lang, plainOnly bool) string {
	a, b, w, k := ident(r), ident(r), word(r), r.Intn(1000)
	ind := r.Pick([]string{"", "", "  ", "    ", "\t", "\t\t"})
	var forms []string
	switch l.Ext {
	case "java":
		forms = []string{
			fmt.Sprintf("int %s = %d;", a, k), fmt.Sprintf("%s = %s + %d;", a, b, k), "}", "{",
			fmt.Sprintf("if (%s > %d) {", a, k), fmt.Sprintf("return %s;", a), fmt.Sprintf("public class %s {", strings.Title(w)),
			fmt.Sprintf("private void %s(int %s) {", w, a), fmt.Sprintf("import java.util.%s;", strings.Title(w)), fmt.Sprintf("package com.%s;", w),
		}
		if !plainOnly {
			forms = append(forms, fmt.Sprintf("String %s = \"%s %s\";", a, w, word(r)), fmt.Sprintf("System.out.println(\"%s\");", w))
		}
	case "go":
		forms = []string{
			fmt.Sprintf("%s := %d", a, k), fmt.Sprintf("%s = %s + %d", a, b, k), "}", fmt.Sprintf("if %s > %d {", a, k),
			fmt.Sprintf("return %s", a), fmt.Sprintf("func %s(%s int) int {", w, a), fmt.Sprintf("package %s", w), fmt.Sprintf("var %s int", a),
			fmt.Sprintf("for %s := 0; %s < %d; %s++ {", a, a, k, a), "import (", ")",
		}
		if !plainOnly {
			forms = append(forms, fmt.Sprintf("%s := \"%s %s\"", a, w, word(r)), fmt.Sprintf("fmt.Println(\"%s\")", w), "\"fmt\"")
		}
	case "py":
		forms = []string{
			fmt.Sprintf("%s = %d", a, k), fmt.Sprintf("%s = %s + %d", a, b, k), fmt.Sprintf("if %s > %d:", a, k), fmt.Sprintf("return %s", a),
			fmt.Sprintf("def %s(%s):", w, a), fmt.Sprintf("import %s", w), "pass", fmt.Sprintf("for %s in range(%d):", a, k), fmt.Sprintf("class %s:", strings.Title(w)),
		}
		if !plainOnly {
			forms = append(forms, fmt.Sprintf("%s = \"%s %s\"", a, w, word(r)), fmt.Sprintf("print(\"%s\")", w))
		}
	case "js":
		forms = []string{
			fmt.Sprintf("var %s = %d;", a, k), fmt.Sprintf("%s = %s + %d;", a, b, k), "}", fmt.Sprintf("if (%s > %d) {", a, k),
			fmt.Sprintf("return %s;", a), fmt.Sprintf("function %s(%s) {", w, a), fmt.Sprintf("const %s = [%d, %d];", a, k, k+1), "});", fmt.Sprintf("let %s;", a),
		}
		if !plainOnly {
			forms = append(forms, fmt.Sprintf("var %s = \"%s %s\";", a, w, word(r)), fmt.Sprintf("console.log(\"%s\");", w))
		}
	case "c":
		forms = []string{
			fmt.Sprintf("int %s = %d;", a, k), fmt.Sprintf("%s = %s + %d;", a, b, k), "}", "{", fmt.Sprintf("if (%s > %d) {", a, k),
			fmt.Sprintf("return %s;", a), fmt.Sprintf("static int %s(int %s) {", w, a), "#include <stdio.h>", fmt.Sprintf("#define %s %d", strings.ToUpper(w), k),
			fmt.Sprintf("while (%s < %d) {", a, k),
		}
		if !plainOnly {
			forms = append(forms, fmt.Sprintf("const char *%s = \"%s %s\";", a, w, word(r)), fmt.Sprintf("puts(\"%s\");", w))
		}
	case "sh":
		forms = []string{
			fmt.Sprintf("%s=%d", a, k), fmt.Sprintf("echo %s %s", w, word(r)), fmt.Sprintf("export %s=%s", strings.ToUpper(a), w), "fi", "done",
			fmt.Sprintf("if [ -n %s ]; then", w), fmt.Sprintf("for %s in %s %s; do", a, w, word(r)), fmt.Sprintf("cd %s", w), "set -e", fmt.Sprintf("exit %d", k%3),
		}
	}
	return ind + forms[r.Intn(len(forms))]
}

func commentText(r *run.Rand) string {
	// words only; may name code-like things and the other family's comment marker is avoided
	n := r.Range(1, 5)
	var ws []string
	for i := 0; i < n; i++ {
		ws = append(ws, r.Pick([]string{"note", "todo later", "int x = 1;", "return", "see above", "the total", "if (a) {", "echo done", "x = 2", "import os"}))
	}
	return strings.Join(ws, " ")
}

// commentLines returns 1..k whole-line comment lines.
func commentLines(r *run.Rand, l Lang, budget int) []string {
	ind := r.Pick([]string{"", "", "  ", "\t", "    "})
	if l.Block && budget >= 1 && r.Chance(2, 5) {
		switch k := r.Range(1, min(budget, 4)); k {
		case 1:
			return []string{ind + "/* " + commentText(r) + " */"}
		case 2:
			if r.Bool() {
				return []string{ind + "/* " + commentText(r), ind + "   " + commentText(r) + " */"}
			}
			return []string{ind + "/*", ind + " * " + commentText(r) + " */"}
		default:
			out := []string{ind + r.Pick([]string{"/*", "/**"})}
			for i := 0; i < k-2; i++ {
				out = append(out, ind+" * "+commentText(r))
			}
			return append(out, ind+" */")
		}
	}
	if r.Chance(1, 8) {
		return []string{ind + l.Line} // bare marker
	}
	return []string{ind + l.Line + r.Pick([]string{" ", "", "  "}) + commentText(r)}
}

func min(a, b int) int {
	if a < b {
		return a
	}
	return b
}

func genFile(r *run.Rand, l Lang, rel string, maxLines int) File {
	if maxLines < 1 {
		maxLines = 20
	}
	f := File{Rel: rel, Lang: l.Name, Ext: l.Ext}
	if r.Chance(1, 40) {
		return f // empty file
	}
	nCode := r.Range(0, maxLines)
	if r.Chance(1, 10) {
		nCode = 0 // comments / blanks only
	}
	nComment := r.Range(0, maxLines/2)
	nBlank := r.Range(0, maxLines/3)
	if nCode+nComment+nBlank == 0 {
		nCode = 1
	}
	// a sequence of "chunks": code line, comment group, blank line, shuffled
	type chunk struct {
		kind  int
		lines []string
	}
	var chunks []chunk
	for i := 0; i < nCode; i++ {
		chunks = append(chunks, chunk{0, []string{codeLine(r, l, false)}})
	}
	for left := nComment; left > 0; {
		ls := commentLines(r, l, left)
		left -= len(ls)
		chunks = append(chunks, chunk{1, ls})
	}
	for i := 0; i < nBlank; i++ {
		chunks = append(chunks, chunk{2, []string{r.Pick([]string{"", "", "", "  ", "\t", " \t "})}})
	}
	perm := r.Perm(len(chunks))
	var lines []string
	for _, i := range perm {
		c := chunks[i]
		lines = append(lines, c.lines...)
		switch c.kind {
		case 0:
			f.Code++
		case 1:
			f.Comment += len(c.lines)
		case 2:
			f.Blank++
		}
	}
	f.CRLF = r.Chance(1, 10)
	f.NoFinalNewline = r.Chance(1, 6)
	nlc := "\n"
	if f.CRLF {
		nlc = "\r\n"
	}
	if f.NoFinalNewline {
		lines = append(lines, codeLine(r, l, true))
		f.Code++
		f.Content = strings.Join(lines, nlc)
	} else {
		f.Content = strings.Join(lines, nlc) + nlc
	}
	return f
}

// Materialize writes the tree under root (created).
func (t *Tree) Materialize(root string) error {
	if err := os.MkdirAll(root, 0o755); err != nil {
		return err
	}
	for _, d := range t.Dirs {
		if err := os.MkdirAll(filepath.Join(root, filepath.FromSlash(d)), 0o755); err != nil {
			return err
		}
	}
	for i := range t.Files {
		f := &t.Files[i]
		p := filepath.Join(root, filepath.FromSlash(f.Rel))
		if err := os.MkdirAll(filepath.Dir(p), 0o755); err != nil {
			return err
		}
		if err := os.WriteFile(p, []byte(f.Content), 0o644); err != nil {
			return err
		}
	}
	return nil
}

// WithEmptySub returns a copy of the ground truth with one more (empty) immediate sub-directory.
func (t *Tree) WithEmptySub(name string) *Tree {
	c := &Tree{Files: t.Files}
	c.Subs = append(append([]SubDir{}, t.Subs...), SubDir{Name: name, Kind: "empty"})
	c.Dirs = append(append([]string{}, t.Dirs...), name)
	return c
}

// Describe is the witness form of the tree: everything but the file bodies (those are a function of the case).
func (t *Tree) Describe(withContent bool) map[string]interface{} {
	files := make([]File, len(t.Files))
	copy(files, t.Files)
	if !withContent {
		for i := range files {
			files[i].Content = ""
		}
	}
	return map[string]interface{}{"subs": t.Subs, "dirs": t.Dirs, "files": files}
}

// DeepOnly lists (immediate sub-directory, extension) pairs such that every file with that extension below the
// sub-directory lies two or more directory levels below it (none directly in it, none one level down).
// Ignored sub-directories are skipped. The result is sorted.
func (t *Tree) DeepOnly() [][2]string {
	minDepth := map[[2]string]int{}
	for _, f := range t.Files {
		top := f.TopDir()
		if top == "" || IsIgnoredName(top) {
			continue
		}
		depth := strings.Count(f.Rel, "/") - 1 // 0: directly in the sub-directory
		k := [2]string{top, f.Ext}
		if d, ok := minDepth[k]; !ok || depth < d {
			minDepth[k] = depth
		}
	}
	var out [][2]string
	for k, d := range minDepth {
		if d >= 2 {
			out = append(out, k)
		}
	}
	sort.Slice(out, func(i, j int) bool {
		if out[i][0] != out[j][0] {
			return out[i][0] < out[j][0]
		}
		return out[i][1] < out[j][1]
	})
	return out
}

// ShapeKey is a structural summary without the random names and figures.
func (t *Tree) ShapeKey() string {
	var kinds []string
	perDir := map[string]int{}
	langs := map[string]bool{}
	for _, f := range t.Files {
		perDir[f.TopDir()]++
		langs[f.Ext] = true
	}
	for _, s := range t.Subs {
		kinds = append(kinds, fmt.Sprintf("%s:%d", s.Kind, perDir[s.Name]))
	}
	sort.Strings(kinds)
	var ls []string
	for l := range langs {
		ls = append(ls, l)
	}
	sort.Strings(ls)
	return strings.Join(kinds, ",") + "|root:" + fmt.Sprint(perDir[""]) + "|" + strings.Join(ls, ",")
}
