// Package modelgen synthesises call-relation models (the shape of coca's deps.json) with ground truth.
// It does not import coca: adapters convert Model into []core_domain.CodeDataStruct.
package modelgen

import (
	"fmt"
	"sort"
	"strings"

	"verifharness/run"
)

type CallRef struct {
	Pkg, Class, Name string // Class == "" means an unresolved receiver (NodeName == "")
	Line             int
}

// Full is the callee's full name; an object creation (Name == "") is named by its class alone.
func (c CallRef) Full() string {
	if c.Name == "" {
		return c.Pkg + "." + c.Class
	}
	return c.Pkg + "." + c.Class + "." + c.Name
}

type Method struct {
	Pkg, Class, Name string
	IsCtor           bool // a constructor: Name == Class, recorded with IsConstructor
	Calls            []CallRef
}

func (m *Method) Full() string { return m.Pkg + "." + m.Class + "." + m.Name }

type Class struct {
	Pkg, Name string
	Extend    string // full name of the extended project class ("" = none); only with Opts.Inheritance
	Kind      string // Class | Interface (interfaces with default methods have bodies, hence calls) | "" (not recorded)
	Methods   []*Method
}

type Model struct {
	Classes []*Class
	Shape   string // generator mode
	// CaseTwins: full names of declared methods that nobody calls and that differ only in letter case from a
	// called method of the same class (getUrl / getURL)
	CaseTwins []string
}

func (m *Model) Methods() []*Method {
	var out []*Method
	for _, c := range m.Classes {
		out = append(out, c.Methods...)
	}
	return out
}

func (m *Model) Declared() map[string]*Method {
	d := map[string]*Method{}
	for _, me := range m.Methods() {
		d[me.Full()] = me
	}
	return d
}

// Calls returns the resolved callee full names of a method in call order (unresolved receivers skipped),
// which is what coca's GetAllCallString documents.
func (me *Method) Resolved() []string {
	var out []string
	for _, c := range me.Calls {
		if c.Class != "" {
			out = append(out, c.Full())
		}
	}
	return out
}

var pkgs = []string{"com.acme", "com.acme.core", "org.demo.svc", "p", "com.acme.web.api"}
var clsWords = []string{"Order", "User", "Cart", "Repo", "Service", "Ctl", "Mapper", "Util", "Gate", "Pay", "Stock", "Mail"}
var mWords = []string{"save", "load", "find", "run", "apply", "check", "send", "build", "parse", "sum", "init", "close"}

type Opts struct {
	MaxClasses, MaxMethods, MaxOut int
	Quotes                         bool // allow names containing a double quote
	Overloads                      bool // a class may declare the same method name twice (the reverse relation is name based)
	DefaultPkg                     bool // some classes live in the default package (empty package name)
	Kinds                          bool // classes are Class / Interface / unrecorded (otherwise all "Class")
	CaseTwins                      bool // an uncalled method whose name differs only in case from a called one
	Ctors                          bool // some classes declare a constructor (a function named like the class) that makes calls
	PlatformLikePkgs               bool // package names that merely start like platform packages (sunrise.billing, javalin.web, ...)
	CallerPkgReceivers             bool // some calls are recorded with the CALLER's package and the callee's simple class name (as for receivers declared with type arguments); same simple class names are planted in two packages
	Inheritance                    bool // classes extend one another (chains of 2-4) and inherited methods are called through a subclass receiver
	OddRunes                       bool // names may contain identifier-ignorable format characters (U+200C, U+00AD) and non-ASCII letters
}

// Generate builds a model and returns it with a list of interesting roots/targets (present names first).
func Generate(r *run.Rand, o Opts) *Model {
	nCls := r.Range(1, o.MaxClasses)
	nM := r.Range(1, o.MaxMethods)
	if nM < nCls {
		nM = nCls
	}
	m := &Model{}
	used := map[string]bool{}
	for i := 0; i < nCls; i++ {
		var pk, cn string
		for {
			pk = r.Pick(pkgs)
			if o.PlatformLikePkgs && r.Chance(1, 5) {
				pk = r.Pick([]string{"sunrise.billing", "javalin.web", "jdkless.core", "com.sunlife.policy", "javax0.tools", "sun"})
			}
			if o.DefaultPkg && r.Chance(1, 6) {
				pk = ""
			}
			cn = r.Pick(clsWords) + r.Pick([]string{"", "Impl", "s", "2", "Base"})
			if !used[pk+"."+cn] {
				break
			}
			cn = cn + fmt.Sprint(i)
			if !used[pk+"."+cn] {
				break
			}
		}
		if o.Quotes && r.Chance(1, 12) && !used[pk+"."+cn+"\"Q"] {
			cn = cn + "\"Q" // a quote in a class name (the quantifier names quotes; matters for DI replacement)
		}
		if o.OddRunes && r.Chance(1, 12) {
			// a class recorded with its type arguments (receivers declared as Vec<int> are recorded that way)
			if alt := cn + r.Pick([]string{"<int>", "<T>", "<String>"}); !used[pk+"."+alt] {
				cn = alt
			}
		}
		used[pk+"."+cn] = true
		kind := "Class"
		if o.Kinds {
			kind = r.Pick([]string{"Class", "Class", "Interface", "Interface", ""})
		}
		m.Classes = append(m.Classes, &Class{Pkg: pk, Name: cn, Kind: kind})
	}
	usedM := map[string]bool{}
	var all []*Method
	for i := 0; i < nM; i++ {
		c := m.Classes[i%nCls]
		if i >= nCls {
			c = m.Classes[r.Intn(nCls)]
		}
		name := r.Pick(mWords) + strings.Title(r.Pick(mWords))
		if r.Chance(1, 4) {
			name = r.Pick(mWords)
		}
		if o.Quotes && r.Chance(1, 12) {
			name = name + "\"q"
		}
		if o.OddRunes && r.Chance(1, 10) {
			// legal in Java identifiers: zero-width non-joiner (Persian), soft hyphen, ordinary non-ASCII letters
			name = name + r.Pick([]string{"\u200c", "\u00ad", "\u200d", "é", "名"}) + r.Pick(mWords)
		}
		isCtor := false
		if o.Ctors && r.Chance(1, 8) && !usedM[c.Pkg+"."+c.Name+"."+c.Name] {
			name, isCtor = c.Name, true
		}
		if isCtor {
			// nothing: the name is the class name
		} else if o.Overloads && len(c.Methods) > 0 && r.Chance(1, 6) {
			name = c.Methods[r.Intn(len(c.Methods))].Name // an overload: same full name, its own call list
		} else {
			for usedM[c.Pkg+"."+c.Name+"."+name] {
				name += fmt.Sprint(i)
			}
		}
		usedM[c.Pkg+"."+c.Name+"."+name] = true
		me := &Method{Pkg: c.Pkg, Class: c.Name, Name: name, IsCtor: isCtor}
		c.Methods = append(c.Methods, me)
		all = append(all, me)
	}
	ref := func(t *Method) CallRef { return CallRef{Pkg: t.Pkg, Class: t.Class, Name: t.Name} }
	line := 1
	add := func(from *Method, c CallRef) {
		line++
		c.Line = line
		from.Calls = append(from.Calls, c)
	}
	n := len(all)
	mode := r.Intn(9)
	switch mode {
	case 0: // random digraph
		m.Shape = "random"
		for _, me := range all {
			for k := r.Range(0, o.MaxOut); k > 0; k-- {
				add(me, ref(all[r.Intn(n)]))
			}
		}
	case 1: // DAG (edges only to higher index): may share sub-trees
		m.Shape = "dag"
		for i, me := range all {
			for k := r.Range(0, o.MaxOut); k > 0 && i+1 < n; k-- {
				add(me, ref(all[r.Range(i+1, n-1)]))
			}
		}
	case 2: // tree
		m.Shape = "tree"
		for i := 1; i < n; i++ {
			add(all[r.Intn(i)], ref(all[i]))
		}
	case 3: // chain with optional back edge
		m.Shape = "chain"
		for i := 0; i+1 < n; i++ {
			add(all[i], ref(all[i+1]))
		}
		if r.Bool() && n > 1 {
			m.Shape = "chain+back"
			add(all[n-1], ref(all[r.Intn(n)]))
		}
	case 4: // cycle through method 0 plus side branches
		m.Shape = "cycle"
		k := r.Range(1, n)
		for i := 0; i < k; i++ {
			add(all[i], ref(all[(i+1)%k]))
		}
		for i := k; i < n; i++ {
			add(all[r.Intn(k)], ref(all[i]))
		}
	case 5: // star into one target with repeated calls, callers have callers
		m.Shape = "fan-in"
		for i := 1; i < n; i++ {
			for k := r.Range(1, 3); k > 0; k-- {
				add(all[i], ref(all[0]))
			}
			if i+1 < n && r.Bool() {
				add(all[i+1], ref(all[i]))
			}
		}
	case 6: // small tree that fits the budget, wide leaves
		m.Shape = "small-tree"
		lim := n
		if lim > 5 {
			lim = 5
		}
		for i := 1; i < lim; i++ {
			add(all[r.Intn(i)], ref(all[i]))
		}
		for i := lim; i < n; i++ {
			add(all[r.Intn(lim)], ref(all[i]))
		}
	case 7: // mutual recursion pairs + self loops
		m.Shape = "mutual"
		for i := 0; i+1 < n; i += 2 {
			add(all[i], ref(all[i+1]))
			add(all[i+1], ref(all[i]))
			if r.Chance(1, 3) {
				add(all[i], ref(all[i]))
			}
		}
		for i := 2; i < n; i++ {
			if r.Chance(1, 3) {
				add(all[r.Intn(i)], ref(all[i]))
			}
		}
	default: // dense
		m.Shape = "dense"
		for _, me := range all {
			for _, t := range all {
				if r.Chance(1, 3) {
					add(me, ref(t))
				}
			}
		}
	}
	// sprinkle: self loops, parallel edges, unresolved and external callees
	for _, me := range all {
		if r.Chance(1, 10) {
			add(me, ref(me))
		}
		if len(me.Calls) > 0 && r.Chance(1, 5) {
			add(me, me.Calls[r.Intn(len(me.Calls))])
		}
		if r.Chance(1, 5) {
			add(me, CallRef{Pkg: "", Class: "", Name: r.Pick(mWords)})
		}
		if r.Chance(1, 5) {
			add(me, CallRef{Pkg: "java.util", Class: "List", Name: "add"})
		}
		if r.Chance(1, 6) {
			// object creation: of a project class, or of an external class
			if r.Bool() {
				c := m.Classes[r.Intn(nCls)]
				add(me, CallRef{Pkg: c.Pkg, Class: c.Name, Name: ""})
			} else {
				add(me, CallRef{Pkg: "java.util", Class: "ArrayList", Name: ""})
			}
		}
		if r.Chance(1, 8) {
			// external method of a project class name that is not declared
			c := m.Classes[r.Intn(nCls)]
			add(me, CallRef{Pkg: c.Pkg, Class: c.Name, Name: "undeclared" + r.Pick(mWords)})
		}
		// shuffle the order of the calls a little so that sprinkles are not always last
		if len(me.Calls) > 1 && r.Bool() {
			i, j := r.Intn(len(me.Calls)), r.Intn(len(me.Calls))
			me.Calls[i], me.Calls[j] = me.Calls[j], me.Calls[i]
		}
	}
	if o.CallerPkgReceivers && nCls >= 3 {
		// two classes of one simple name in different packages, both declaring one method name; callers in other
		// packages call it through a receiver that is recorded with the caller's own package
		a := m.Classes[r.Intn(nCls)]
		for _, bcls := range m.Classes {
			if bcls != a && bcls.Pkg != a.Pkg && len(a.Methods) > 0 {
				if !used[bcls.Pkg+"."+a.Name] {
					twin := &Class{Pkg: bcls.Pkg, Name: a.Name, Kind: a.Kind}
					tm := &Method{Pkg: twin.Pkg, Class: twin.Name, Name: a.Methods[0].Name}
					twin.Methods = append(twin.Methods, tm)
					m.Classes = append(m.Classes, twin)
					used[bcls.Pkg+"."+a.Name] = true
					add(tm, ref(all[r.Intn(n)]))
				}
				break
			}
		}
		for _, me := range all {
			if me.Pkg != a.Pkg && len(a.Methods) > 0 && r.Chance(1, 3) {
				add(me, CallRef{Pkg: me.Pkg, Class: a.Name, Name: a.Methods[0].Name})
			}
		}
	}
	if o.Inheritance && nCls >= 2 {
		for i := 1; i < nCls; i++ {
			if r.Chance(2, 3) {
				m.Classes[i].Extend = m.Classes[i-1].Pkg + "." + m.Classes[i-1].Name
			}
		}
		byFull := map[string]*Class{}
		for _, c := range m.Classes {
			byFull[c.Pkg+"."+c.Name] = c
		}
		for _, c := range m.Classes {
			// ancestors of c, nearest first
			var anc []*Class
			for p := byFull[c.Extend]; p != nil && len(anc) < 6; p = byFull[p.Extend] {
				anc = append(anc, p)
			}
			if len(anc) == 0 {
				continue
			}
			own := map[string]bool{}
			for _, me := range c.Methods {
				own[me.Name] = true
			}
			for k := r.Range(1, 3); k > 0; k-- {
				a := anc[r.Intn(len(anc))]
				if len(a.Methods) == 0 {
					continue
				}
				t := a.Methods[r.Intn(len(a.Methods))]
				if own[t.Name] {
					continue
				}
				// a call of the inherited method through a receiver of the subclass type
				add(all[r.Intn(n)], CallRef{Pkg: c.Pkg, Class: c.Name, Name: t.Name})
			}
		}
	}
	if o.CaseTwins && r.Chance(1, 4) {
		called := map[string]bool{}
		for _, me := range all {
			for _, c := range me.Calls {
				if c.Class != "" && c.Name != "" {
					called[c.Full()] = true
				}
			}
		}
		for _, k := range r.Perm(len(all)) {
			t := all[k]
			twin := caseTwin(t.Name)
			if !called[t.Full()] || twin == t.Name || usedM[t.Pkg+"."+t.Class+"."+twin] {
				continue
			}
			usedM[t.Pkg+"."+t.Class+"."+twin] = true
			tw := &Method{Pkg: t.Pkg, Class: t.Class, Name: twin}
			for _, c := range m.Classes {
				if c.Pkg == t.Pkg && c.Name == t.Class {
					c.Methods = append(c.Methods, tw)
				}
			}
			for k := r.Intn(3); k > 0; k-- {
				add(tw, ref(all[r.Intn(n)]))
			}
			m.CaseTwins = append(m.CaseTwins, tw.Full())
			break
		}
	}
	return m
}

// caseTwin changes the case of the last run of letters: getUrl -> getURL, saveLOAD -> saveload.
func caseTwin(name string) string {
	i := len(name)
	for i > 0 && (name[i-1] >= 'a' && name[i-1] <= 'z' || name[i-1] >= 'A' && name[i-1] <= 'Z') {
		i--
	}
	// keep the first letter of the name as it is
	j := i
	if j == 0 {
		j = 1
	}
	for k := len(name) - 1; k > j; k-- {
		if name[k] >= 'A' && name[k] <= 'Z' {
			j = k
			break
		}
	}
	tail := name[j:]
	if up := strings.ToUpper(tail); up != tail {
		return name[:j] + up
	}
	return name[:j] + strings.ToLower(tail)
}

// PickRoot chooses a root/target: mostly a declared method (biased to the first, which the shaped modes
// treat as the hub), sometimes a leaf, sometimes an absent name.
func PickRoot(r *run.Rand, m *Model) string {
	all := m.Methods()
	if len(m.CaseTwins) > 0 && r.Bool() {
		return m.CaseTwins[0]
	}
	switch r.Intn(10) {
	case 0:
		return "com.nowhere.Missing.method"
	case 1, 2, 3:
		return all[r.Intn(len(all))].Full()
	default:
		return all[0].Full()
	}
}

// Describe renders the model compactly (for samples / witnesses).
func (m *Model) Describe() []string {
	var out []string
	for _, me := range m.Methods() {
		var cs []string
		for _, c := range me.Calls {
			if c.Class == "" {
				cs = append(cs, "?."+c.Name)
			} else if c.Name == "" {
				cs = append(cs, "new "+c.Full())
			} else {
				cs = append(cs, c.Full())
			}
		}
		out = append(out, me.Full()+" -> ["+strings.Join(cs, ", ")+"]")
	}
	return out
}

// ShapeKey is a structural hash input: degree sequence + shape mode.
func (m *Model) ShapeKey() string {
	var degs []string
	idx := map[string]int{}
	for i, me := range m.Methods() {
		idx[me.Full()] = i
	}
	for _, me := range m.Methods() {
		var ts []string
		for _, c := range me.Calls {
			if c.Class == "" {
				ts = append(ts, "?")
			} else if j, ok := idx[c.Full()]; ok {
				ts = append(ts, fmt.Sprint(j))
			} else {
				ts = append(ts, "x")
			}
		}
		degs = append(degs, strings.Join(ts, ","))
	}
	return m.Shape + "/" + strings.Join(degs, ";")
}

func SortedKeys(m map[string]bool) []string {
	var ks []string
	for k := range m {
		ks = append(ks, k)
	}
	sort.Strings(ks)
	return ks
}
