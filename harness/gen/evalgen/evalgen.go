// Package evalgen generates the workloads of C18 that are not plain call models:
//
//   - small conventional Java projects whose evaluation numbers are known by construction (classes, methods,
//     static methods with the modifiers in every order, utility classes, methods that return the null literal
//     on some path or carry @Nullable / @CheckForNull) — this file;
//   - method-name lists built from a word list with known stop-word status — concept.go.
//
// No coca imports: the ground truth is what the generator planted.
package evalgen

import (
	"fmt"
	"sort"
	"strings"

	"verifharness/run"
)

// Positions of the `return null;` statements among the return statements of a method, in source order.
const (
	NullNone   = ""
	NullOnly   = "only"   // the single return statement returns null
	NullFirst  = "first"  // first of several
	NullMiddle = "middle" // neither first nor last of three
	NullLast   = "last"   // last of several
	NullBoth   = "both"   // first and last of several
	// the only null literal of the method is a branch of a returned conditional expression
	NullTernaryElse   = "ternary-else"        // return ok ? v : null;
	NullTernaryThen   = "ternary-then"        // return ok ? null : v;
	NullTernaryNested = "ternary-nested-else" // return a ? v : b ? w : null;
)

// Position of the null annotation among the annotations of a method.
const (
	AnnoOnly         = "only"
	AnnoFirst        = "first"
	AnnoMiddle       = "middle"
	AnnoLast         = "last"
	AnnoAfterKeyword = "after-keyword" // written after a keyword modifier: `public @Nullable String f()`
	AnnoBoth         = "both"          // the method carries @Nullable and @CheckForNull
)

type Method struct {
	Name     string
	Mods     []string    // keyword modifiers in source order
	Head     []string    // everything before the return type, in source order (annotations and keywords)
	OwnLine  int         // the first OwnLine entries of Head are annotations written on their own lines
	Ret      string      // return type text
	Params   [][2]string // type, name
	Abstract bool
	Static   bool

	NullReturn  string // position class of `return null;` (NullNone = the method never returns the null literal)
	NullNested  bool   // a `return null;` sits inside a loop / try / switch / else block
	NullAnno    string // "", Nullable, CheckForNull
	NullAnno2   string // the other of the two, when the method carries both
	AnnoPos     string // where that annotation stands
	NullCompare bool   // `return p == null;` — mentions the literal, returns a boolean
	NullDecoy   bool   // the body uses the null literal outside return statements
	Body        []string
	OverloadOf  string // this method is a second declaration of that name (one more parameter)
	IsCtor      bool   // the constructor of the class (Class.Ctor; never part of Class.Methods)
	// ParamAnno: the first PARAMETER carries @Nullable / @CheckForNull. That says nothing about what the method
	// returns: a method that is not nullable otherwise must not be listed.
	ParamAnno string

	// planted unqualified calls of methods of the same class (first lines of the body)
	Calls         []PlantedCall
	SameLineCalls int // number of source lines on which this method calls one callee two or three times
}

// PlantedCall is one call site `callee(p, flag, n)`; BodyLine is the index into Body of the line it stands on.
type PlantedCall struct {
	Callee   string
	BodyLine int
}

// Reasons counts the independent grounds on which the method is nullable (null-returning paths count once
// per `return null;` statement, each null annotation once).
func (m *Method) Reasons() int {
	n := 0
	switch m.NullReturn {
	case NullNone:
	case NullBoth:
		n += 2
	default:
		n++
	}
	if m.NullAnno != "" {
		n++
	}
	if m.NullAnno2 != "" {
		n++
	}
	return n
}

// Nullable is the statement's definition: returns the null literal on some path, or is annotated.
func (m *Method) Nullable() bool { return m.NullReturn != NullNone || m.NullAnno != "" }

// ModKey names the modifier list in source order (evidence / shape).
func (m *Method) ModKey() string { return strings.Join(m.Mods, " ") }

const (
	KindUtil     = "util"
	KindService  = "service"
	KindOrdinary = "ordinary"
	KindAbstract = "abstract"
)

type Class struct {
	Pkg, Name string
	Kind      string
	ClassMods []string
	Imports   []string
	Fields    []string
	Methods   []*Method
	Ctor      *Method // optional constructor; it makes calls. Whether it counts as a "method" is left open
	RelPath   string
	Text      string
}

type Project struct {
	Layout  string // flat | maven
	Classes []*Class
}

func (p *Project) Files() map[string]string {
	out := map[string]string{}
	for _, c := range p.Classes {
		out[c.RelPath] = c.Text
	}
	return out
}

var pkgs = []string{"com.acme.billing", "com.acme.core", "org.demo.shop", "org.demo.shop.web", "app"}

// none of these contains "util" or "service" in any letter case
var nouns = []string{"Order", "Invoice", "Customer", "Payment", "Stock", "Mail", "Report", "Account", "Cart", "Product", "Ticket", "Route"}
var ordinarySuffix = []string{"", "Controller", "Repository", "Mapper", "Handler", "Factory", "Entry"}
var verbs = []string{"load", "store", "render", "compute", "check", "apply", "merge", "filter", "resolve", "publish", "collect", "verify", "lookup", "format", "trim", "open"}

type Opts struct {
	MaxClasses int
	MaxMethods int
	// NullCompare switches on boolean methods whose return expression compares with the null literal.
	NullCompare bool
	// DefaultPkg lets some files have no package declaration.
	DefaultPkg bool
	// Ctors lets a class declare one constructor (with planted calls of methods of the class).
	Ctors bool
	// ParamAnnos lets first parameters of methods and constructors carry @Nullable / @CheckForNull.
	ParamAnnos bool
	// Overloads lets a class declare a second method with the name of another one and one more parameter.
	// The overload is a plain int method: never nullable (two nullable overloads of one name are out of scope).
	Overloads bool
}

type gen struct {
	r        *run.Rand
	o        Opts
	usedName map[string]bool
	seq      int
}

// Generate builds a project. Every class is the only type of its file; there are no constructors, no
// interfaces, no enums, no inner types (whether those count as classes / methods is not settled by C18).
func Generate(r *run.Rand, o Opts) *Project {
	g := &gen{r: r, o: o, usedName: map[string]bool{}}
	p := &Project{Layout: r.Pick([]string{"flat", "maven"})}
	n := r.Range(1, o.MaxClasses)
	usedCls := map[string]bool{}
	for i := 0; i < n; i++ {
		c := &Class{Pkg: r.Pick(pkgs)}
		if o.DefaultPkg && r.Chance(1, 7) {
			c.Pkg = "" // no package line: the class lives in the default package
		}
		switch k := r.Intn(10); {
		case k < 3:
			c.Kind = KindUtil
		case k < 5:
			c.Kind = KindService
		case k < 7:
			c.Kind = KindAbstract
		default:
			c.Kind = KindOrdinary
		}
		for try := 0; ; try++ {
			noun := r.Pick(nouns)
			switch c.Kind {
			case KindUtil:
				// a name may say Service as well: static helpers around a service are still a utility class
				// ... and Util/Utils need not be the last word of the name (DateUtilImpl, JsonUtilsV2) nor the first (UtilDate)
				c.Name = r.Pick([]string{noun + "Util", noun + "Utils", noun + "Util", noun + "Utils", noun + "ServiceUtil", noun + "ServiceUtils", "ServiceUtils", "WebServiceUtil",
					noun + "UtilImpl", noun + "UtilsV2", noun + "UtilsImpl", noun + "UtilHelper", "Util" + noun})
			case KindService:
				c.Name = noun + r.Pick([]string{"Service", "ServiceImpl"})
			case KindAbstract:
				c.Name = r.Pick([]string{"Abstract", "Base"}) + noun + r.Pick(ordinarySuffix)
			default:
				c.Name = noun + r.Pick(ordinarySuffix)
			}
			if try > 6 {
				c.Name += fmt.Sprint(i)
			}
			// simple names are unique in a project (coca's evaluation keys a map by simple name)
			if !usedCls[c.Name] {
				break
			}
		}
		usedCls[c.Name] = true
		g.fillClass(c)
		dir := strings.ReplaceAll(c.Pkg, ".", "/")
		if p.Layout == "maven" {
			dir = "src/main/java/" + dir
		}
		c.RelPath = strings.TrimPrefix(strings.TrimSuffix(dir, "/")+"/"+c.Name+".java", "/")
		c.Text = render(c)
		p.Classes = append(p.Classes, c)
	}
	return p
}

func (g *gen) methodName() string {
	r := g.r
	for {
		name := r.Pick(verbs) + r.Pick(nouns)
		if r.Chance(1, 3) {
			name += r.Pick([]string{"Entry", "Batch", "Page", "Draft", "Copy"})
		}
		if g.usedName[name] {
			g.seq++
			name += fmt.Sprint(g.seq)
		}
		if !g.usedName[name] {
			g.usedName[name] = true
			return name
		}
	}
}

func (g *gen) fillClass(c *Class) {
	r := g.r
	c.ClassMods = []string{"public"}
	switch c.Kind {
	case KindUtil:
		if r.Bool() {
			c.ClassMods = append(c.ClassMods, "final")
		}
	case KindAbstract:
		c.ClassMods = append(c.ClassMods, "abstract")
	}
	// fields: static ones must never be mistaken for static methods, `= null` initialisers are not returns
	switch c.Kind {
	case KindUtil:
		if r.Bool() {
			c.Fields = append(c.Fields, "private static final String PREFIX = \"x\";")
		}
		if r.Chance(1, 3) {
			c.Fields = append(c.Fields, "static Object shared = null;")
		}
	default:
		if r.Bool() {
			c.Fields = append(c.Fields, "private String label = \"a\";")
		}
		if r.Chance(1, 3) {
			c.Fields = append(c.Fields, "private Object cached = null;")
		}
		if r.Chance(1, 3) {
			c.Fields = append(c.Fields, "public static final int LIMIT = 10;")
		}
	}
	n := r.Range(0, g.o.MaxMethods)
	if c.Kind != KindAbstract && n == 0 && r.Chance(3, 4) {
		n = 1
	}
	needInstance := c.Kind == KindOrdinary || c.Kind == KindService || c.Kind == KindAbstract
	for i := 0; i < n; i++ {
		m := &Method{Name: g.methodName()}
		static := false
		abstract := false
		switch c.Kind {
		case KindUtil:
			static = true // a utility class in the unambiguous sense: nothing but static methods
		case KindAbstract:
			abstract = r.Chance(1, 2)
			static = !abstract && r.Chance(1, 4)
		default:
			static = r.Chance(1, 3)
		}
		if needInstance && i == n-1 {
			// classes that are not utility classes keep at least one instance method
			hasInst := false
			for _, mm := range c.Methods {
				if !mm.Static {
					hasInst = true
				}
			}
			if !hasInst {
				static = false
			}
		}
		g.fillMethod(c, m, static, abstract)
		c.Methods = append(c.Methods, m)
	}
	if g.o.Overloads && len(c.Methods) > 0 && r.Chance(1, 3) {
		t := c.Methods[r.Intn(len(c.Methods))]
		if len(t.Params) != 4 {
			ov := &Method{Name: t.Name, OverloadOf: t.Name, Ret: "int", Static: t.Static || c.Kind == KindUtil,
				Params: [][2]string{{"Object", "p"}, {"boolean", "flag"}, {"int", "n"}, {"String", "extra"}}, Body: []string{"return n + 1;"}}
			ov.Mods = []string{"public"}
			if ov.Static {
				ov.Mods = append(ov.Mods, "static")
			}
			ov.Head = append(ov.Head, ov.Mods...)
			c.Methods = append(c.Methods, ov)
		}
	}
	if g.o.Ctors && r.Chance(1, 3) {
		ct := &Method{Name: c.Name, IsCtor: true, Params: [][2]string{{r.Pick([]string{"Object", "String"}), "p"}, {"boolean", "flag"}, {"int", "n"}},
			Body: []string{"int seen = n + 1;"}}
		switch c.Kind {
		case KindUtil:
			ct.Mods = []string{"private"}
		case KindAbstract:
			ct.Mods = []string{"protected"}
		default:
			if a := r.Pick([]string{"public", "public", ""}); a != "" {
				ct.Mods = []string{a}
			}
		}
		ct.Head = append(ct.Head, ct.Mods...)
		if g.o.ParamAnnos && r.Chance(1, 2) {
			ct.ParamAnno = r.Pick([]string{"Nullable", "CheckForNull"})
		}
		c.Ctor = ct
	}
	g.plantCalls(c)
	need := map[string]bool{}
	if c.Ctor != nil && c.Ctor.ParamAnno != "" {
		need["javax.annotation."+c.Ctor.ParamAnno] = true
	}
	for _, m := range c.Methods {
		if m.ParamAnno != "" {
			need["javax.annotation."+m.ParamAnno] = true
		}
		for _, h := range m.Head {
			switch {
			case h == "@Nullable":
				need["javax.annotation.Nullable"] = true
			case h == "@CheckForNull":
				need["javax.annotation.CheckForNull"] = true
			case h == "@Nonnull":
				need["javax.annotation.Nonnull"] = true
			case h == "@Transactional":
				need["org.springframework.transaction.annotation.Transactional"] = true
			case strings.HasPrefix(h, "@Cacheable"):
				need["org.springframework.cache.annotation.Cacheable"] = true
			}
		}
		if strings.HasPrefix(m.Ret, "List<") {
			need["java.util.List"] = true
		}
		for _, p := range m.Params {
			if strings.HasPrefix(p[0], "List<") {
				need["java.util.List"] = true
			}
		}
	}
	for k := range need {
		c.Imports = append(c.Imports, k)
	}
	sort.Strings(c.Imports)
}

var otherAnnos = []string{"@Deprecated", "@SuppressWarnings(\"unchecked\")", "@Transactional", "@Cacheable(\"entries\")", "@Nonnull"}

func (g *gen) fillMethod(c *Class, m *Method, static, abstract bool) {
	r := g.r
	m.Static, m.Abstract = static, abstract

	// ---- keyword modifiers: a subset of {access, static, final, synchronized} or {access, abstract}, in random order
	var mods []string
	if abstract {
		if a := r.Pick([]string{"public", "protected", ""}); a != "" {
			mods = append(mods, a)
		}
		mods = append(mods, "abstract")
	} else {
		if a := r.Pick([]string{"public", "public", "private", "protected", ""}); a != "" {
			mods = append(mods, a)
		}
		if static {
			mods = append(mods, "static")
		}
		if r.Chance(1, 3) {
			mods = append(mods, "final")
		}
		if r.Chance(1, 4) {
			mods = append(mods, "synchronized")
		}
	}
	perm := r.Perm(len(mods))
	for _, i := range perm {
		m.Mods = append(m.Mods, mods[i])
	}

	// ---- return type and what the body returns
	nullAble := []string{"String", "Object", "Integer", "List<String>"}
	kind := r.Intn(12)
	switch {
	case kind < 2:
		m.Ret = "void"
	case kind < 4:
		m.Ret = "int"
	case kind == 4 && g.o.NullCompare:
		m.Ret = "boolean"
		m.NullCompare = true
	case kind == 5:
		m.Ret = "boolean"
	default:
		m.Ret = r.Pick(nullAble)
	}
	isRef := false
	for _, t := range nullAble {
		if t == m.Ret {
			isRef = true
		}
	}
	// parameters: p (of the returned type when that is a reference type), flag, n are what bodies use
	if isRef {
		m.Params = append(m.Params, [2]string{m.Ret, "p"})
	} else {
		m.Params = append(m.Params, [2]string{"Object", "p"})
	}
	m.Params = append(m.Params, [2]string{"boolean", "flag"}, [2]string{"int", "n"})
	if c.Kind == KindService && r.Chance(1, 3) {
		// long parameter lists feed the service evaluator's related-parameter mining
		m.Params = append(m.Params, [2]string{"String", "address"}, [2]string{"String", "firstname"})
	}

	if !abstract {
		g.fillBody(m, isRef)
	}
	if g.o.ParamAnnos && r.Chance(1, 5) {
		m.ParamAnno = r.Pick([]string{"Nullable", "CheckForNull"})
	}

	// ---- null annotation and decoy annotations
	var annos []string
	if isRef && r.Chance(1, 3) {
		m.NullAnno = r.Pick([]string{"Nullable", "CheckForNull"})
	}
	nOther := 0
	switch r.Intn(6) {
	case 0, 1, 2:
	case 3, 4:
		nOther = 1
	default:
		nOther = 2
	}
	for _, i := range r.Perm(len(otherAnnos))[:nOther] {
		a := otherAnnos[i]
		if a == "@Transactional" && (static || c.Kind == KindUtil) {
			a = "@Deprecated"
		}
		if a == "@Nonnull" && (!isRef || m.Nullable()) {
			// @Nonnull is a decoy (an annotation whose name contains "null") and only stands where it is true
			a = "@Deprecated"
		}
		dup := false
		for _, x := range annos {
			dup = dup || x == a
		}
		if !dup {
			annos = append(annos, a)
		}
	}
	afterKeyword := false
	if m.NullAnno != "" {
		na := "@" + m.NullAnno
		switch {
		case len(annos) == 0:
			m.AnnoPos = AnnoOnly
			annos = []string{na}
		default:
			at := r.Intn(len(annos) + 1)
			switch {
			case at == 0:
				m.AnnoPos = AnnoFirst
			case at == len(annos):
				m.AnnoPos = AnnoLast
			default:
				m.AnnoPos = AnnoMiddle
			}
			annos = append(annos[:at], append([]string{na}, annos[at:]...)...)
		}
		if len(m.Mods) > 0 && r.Chance(1, 5) {
			afterKeyword = true
		}
		if !afterKeyword && r.Chance(1, 4) {
			// nullable for two reasons at once: both annotations on one method
			m.NullAnno2 = "CheckForNull"
			if m.NullAnno == "CheckForNull" {
				m.NullAnno2 = "Nullable"
			}
			m.AnnoPos = AnnoBoth
			at := r.Intn(len(annos) + 1)
			annos = append(annos[:at], append([]string{"@" + m.NullAnno2}, annos[at:]...)...)
		}
	}
	if afterKeyword {
		// `public @Nullable String f()`: the other annotations lead, the null annotation follows a keyword
		na := "@" + m.NullAnno
		var lead []string
		for _, a := range annos {
			if a != na {
				lead = append(lead, a)
			}
		}
		m.AnnoPos = AnnoAfterKeyword
		at := r.Range(1, len(m.Mods))
		m.Head = append(m.Head, lead...)
		m.Head = append(m.Head, m.Mods[:at]...)
		m.Head = append(m.Head, na)
		m.Head = append(m.Head, m.Mods[at:]...)
		if r.Bool() {
			m.OwnLine = len(lead)
		}
	} else {
		m.Head = append(m.Head, annos...)
		m.Head = append(m.Head, m.Mods...)
		if r.Bool() {
			m.OwnLine = len(annos)
		}
	}
}

// plantCalls puts unqualified calls of methods of the same class at the start of some bodies: one call on a
// line, the same callee two or three times on ONE line (`f(p, flag, n); f(p, flag, n);` or, for int callees,
// `int both = f(p, flag, n) + f(p, flag, n);`), and the same callee again on another line.
func (g *gen) plantCalls(c *Class) {
	r := g.r
	callers := append([]*Method(nil), c.Methods...)
	if c.Ctor != nil {
		callers = append(callers, c.Ctor)
	}
	for _, m := range callers {
		if m.Abstract || (!m.IsCtor && !r.Chance(1, 2)) {
			continue
		}
		var callees []*Method
		for _, t := range c.Methods {
			if t == m || (m.Static && !t.Static) {
				continue
			}
			if t.Params[0][0] != "Object" && t.Params[0][0] != m.Params[0][0] {
				continue
			}
			callees = append(callees, t)
		}
		if len(callees) == 0 {
			continue
		}
		var lines []string
		call := func(t *Method) string {
			args := "p, flag, n"
			switch len(t.Params) {
			case 4:
				args += ", \"x\"" // the overload with one more parameter
			case 5:
				args += ", \"a\", \"b\""
			}
			m.Calls = append(m.Calls, PlantedCall{Callee: t.Name, BodyLine: len(lines)})
			return t.Name + "(" + args + ")"
		}
		for k := r.Range(1, 3); k > 0; k-- {
			t := callees[r.Intn(len(callees))]
			switch r.Intn(4) {
			case 0:
				lines = append(lines, call(t)+";")
			case 1:
				if t.Ret == "int" {
					a, b := call(t), call(t)
					lines = append(lines, "int both"+fmt.Sprint(k)+" = "+a+" + "+b+";")
				} else {
					a, b := call(t), call(t)
					lines = append(lines, a+"; "+b+";")
				}
				m.SameLineCalls++
			case 2:
				a, b, d := call(t), call(t), call(t)
				lines = append(lines, a+"; "+b+"; "+d+";")
				m.SameLineCalls++
			default:
				// same callee twice on one line and once more on the next
				a, b := call(t), call(t)
				lines = append(lines, a+"; "+b+";")
				lines = append(lines, call(t)+";")
				m.SameLineCalls++
			}
		}
		m.Body = append(lines, m.Body...)
	}
}

func (g *gen) cond() string {
	return g.r.Pick([]string{"flag", "!flag", "n > 0", "n == 3", "p == null", "p != null"})
}

// value is a non-null expression of the method's return type; none contains the letters "null".
func (g *gen) value(ret string) string {
	r := g.r
	switch ret {
	case "String":
		return r.Pick([]string{"p", "\"text\"", "p + \"x\"", "String.valueOf(n)", "p.trim()"})
	case "Object":
		return r.Pick([]string{"p", "new Object()", "this.toString()", "\"o\""})
	case "Integer":
		return r.Pick([]string{"p", "Integer.valueOf(n)", "n + 1"})
	case "List<String>":
		return r.Pick([]string{"p", "java.util.Collections.emptyList()", "new java.util.ArrayList<String>()"})
	case "int":
		return r.Pick([]string{"n", "n + 1", "n * 2", "0"})
	case "boolean":
		return r.Pick([]string{"flag", "n > 1", "!flag", "true"})
	}
	return "p"
}

func (g *gen) fillBody(m *Method, isRef bool) {
	r := g.r
	var b []string
	add := func(s ...string) { b = append(b, s...) }
	if r.Chance(1, 4) {
		m.NullDecoy = true
		add(r.Pick([]string{"Object tmp = null;", "String spare = null;", "if (p == null) {", "java.util.Objects.requireNonNull(p);"}))
		if strings.HasSuffix(b[len(b)-1], "{") {
			add("    n = n + 1;", "}")
		}
	}
	if r.Chance(1, 3) {
		add("int local = n + 2;")
	}
	val := func() string {
		v := g.value(m.Ret)
		if m.Static && strings.Contains(v, "this") {
			return "p"
		}
		return v
	}
	switch {
	case m.Ret == "void":
		if r.Chance(1, 3) {
			add("if ("+g.cond()+") {", "    return;", "}")
		}
		add("n = n + 1;")
	case m.NullCompare:
		cmp := r.Pick([]string{"p == null", "p != null", "null == p", "flag && p == null"})
		switch r.Intn(3) {
		case 0:
			add("return " + cmp + ";")
		case 1:
			add("if (flag) {", "    return n > 0;", "}", "return "+cmp+";")
		default:
			add("if (n > 2) {", "    return "+cmp+";", "}", "return flag;")
		}
	case !isRef:
		if r.Bool() {
			add("if ("+g.cond()+") {", "    return "+val()+";", "}")
		}
		add("return " + val() + ";")
	default:
		shape := r.Intn(15)
		if shape >= 7 && shape < 12 {
			shape = 0 // most reference-returning methods never return null
		}
		if shape == 0 && r.Chance(1, 3) {
			shape = 7 // two non-null paths
		}
		switch shape {
		case 0:
			add("return " + val() + ";")
		case 7:
			add("if ("+g.cond()+") {", "    return "+val()+";", "}", "return "+val()+";")
		case 1:
			m.NullReturn = NullOnly
			add("return null;")
		case 2:
			m.NullReturn = NullFirst
			if r.Bool() {
				add("if ("+g.cond()+") {", "    return null;", "}")
			} else {
				add("if (" + g.cond() + ") return null;")
			}
			add("return " + val() + ";")
		case 3:
			m.NullReturn = NullLast
			add("if ("+g.cond()+") {", "    return "+val()+";", "}", "return null;")
		case 4:
			m.NullReturn = NullMiddle
			add("if (flag) {", "    return "+val()+";", "}", "if (n > 4) {", "    return null;", "}", "return "+val()+";")
		case 5:
			m.NullNested = true
			switch r.Intn(5) {
			case 0:
				m.NullReturn = NullFirst
				add("for (int i = 0; i < n; i++) {", "    if (i == 2) {", "        return null;", "    }", "}", "return "+val()+";")
			case 1:
				m.NullReturn = NullFirst
				add("try {", "    if (flag) {", "        return null;", "    }", "} finally {", "    n = 0;", "}", "return "+val()+";")
			case 2:
				m.NullReturn = NullFirst
				add("switch (n) {", "    case 1:", "        return null;", "    default:", "        return "+val()+";", "}")
			case 3:
				m.NullReturn = NullLast
				add("if ("+g.cond()+") {", "    return "+val()+";", "} else {", "    return null;", "}")
			default:
				m.NullReturn = NullFirst
				add("while (n > 0) {", "    n = n - 1;", "    if (n == 5) {", "        return null;", "    }", "}", "return "+val()+";")
			}
		case 12, 13:
			// a returned conditional expression whose else / then / innermost else branch is the null literal; it is
			// the only null the method returns. Conditions do not mention null.
			tc := func() string { return r.Pick([]string{"flag", "!flag", "n > 0", "n == 3"}) }
			if r.Chance(1, 3) {
				add("if (n > 7) {", "    return "+val()+";", "}")
			}
			var e string
			switch r.Intn(4) {
			case 0, 1:
				m.NullReturn = NullTernaryElse
				e = tc() + " ? " + val() + " : null"
			case 2:
				m.NullReturn = NullTernaryThen
				e = tc() + " ? null : " + val()
			default:
				m.NullReturn = NullTernaryNested
				e = "n > 1 ? " + val() + " : " + tc() + " ? " + val() + " : null"
			}
			if r.Chance(1, 5) {
				e = "(" + e + ")"
			}
			add("return " + e + ";")
		case 14:
			// control: a conditional return without any null
			add("return " + r.Pick([]string{"flag", "n > 0"}) + " ? " + val() + " : " + val() + ";")
		default:
			m.NullReturn = NullBoth
			add("if (flag) {", "    return null;", "}", "if (n > 4) {", "    return "+val()+";", "}", "return null;")
		}
	}
	m.Body = b
}

func render(c *Class) string {
	var sb strings.Builder
	if c.Pkg != "" {
		sb.WriteString("package " + c.Pkg + ";\n\n")
	}
	for _, im := range c.Imports {
		sb.WriteString("import " + im + ";\n")
	}
	if len(c.Imports) > 0 {
		sb.WriteString("\n")
	}
	sb.WriteString(strings.Join(c.ClassMods, " ") + " class " + c.Name + " {\n")
	for _, f := range c.Fields {
		sb.WriteString("    " + f + "\n")
	}
	members := c.Methods
	if c.Ctor != nil {
		members = append([]*Method{c.Ctor}, c.Methods...)
	}
	for _, m := range members {
		sb.WriteString("\n")
		for _, a := range m.Head[:m.OwnLine] {
			sb.WriteString("    " + a + "\n")
		}
		rest := m.Head[m.OwnLine:]
		sb.WriteString("    ")
		if len(rest) > 0 {
			sb.WriteString(strings.Join(rest, " ") + " ")
		}
		var ps []string
		for i, p := range m.Params {
			if i == 0 && m.ParamAnno != "" {
				ps = append(ps, "@"+m.ParamAnno+" "+p[0]+" "+p[1])
			} else {
				ps = append(ps, p[0]+" "+p[1])
			}
		}
		if m.IsCtor {
			sb.WriteString(m.Name + "(" + strings.Join(ps, ", ") + ")")
		} else {
			sb.WriteString(m.Ret + " " + m.Name + "(" + strings.Join(ps, ", ") + ")")
		}
		if m.Abstract {
			sb.WriteString(";\n")
			continue
		}
		sb.WriteString(" {\n")
		for _, l := range m.Body {
			sb.WriteString("        " + l + "\n")
		}
		sb.WriteString("    }\n")
	}
	sb.WriteString("}\n")
	return sb.String()
}

// SelfCheck re-derives the planted facts from the rendered text with plain string scans, so that a slip in
// the generator shows up as an inconclusive case and never as a verdict.
func SelfCheck(p *Project) error {
	for _, c := range p.Classes {
		if n := strings.Count(c.Text, " class "); n != 1 {
			return fmt.Errorf("%s: %d class keywords", c.RelPath, n)
		}
		low := strings.ToLower(c.Name)
		if (c.Kind == KindUtil) != strings.Contains(low, "util") {
			return fmt.Errorf("%s: kind %s disagrees with the name", c.Name, c.Kind)
		}
		for _, m := range c.Methods {
			same := 0
			for _, o := range c.Methods {
				if o.Name == m.Name && o.Ret == m.Ret {
					same++
				}
			}
			if strings.Count(c.Text, " "+m.Ret+" "+m.Name+"(") != same {
				return fmt.Errorf("%s.%s is not declared exactly once", c.Name, m.Name)
			}
			hasStatic := false
			for _, k := range m.Mods {
				hasStatic = hasStatic || k == "static"
			}
			if hasStatic != m.Static {
				return fmt.Errorf("%s.%s: static flag disagrees with the modifiers", c.Name, m.Name)
			}
			if c.Kind == KindUtil && !m.Static {
				return fmt.Errorf("%s.%s: instance method in a utility class", c.Name, m.Name)
			}
			nullReturns := 0
			for _, l := range m.Body {
				t := strings.TrimSpace(l)
				if strings.HasSuffix(t, "return null;") {
					nullReturns++
				} else if strings.HasPrefix(t, "return") && strings.Contains(t, "?") && strings.Contains(t, "null") && strings.HasPrefix(m.NullReturn, "ternary") {
					nullReturns++
				} else if strings.HasPrefix(t, "return") && strings.Contains(t, "null") && !m.NullCompare {
					return fmt.Errorf("%s.%s: return expression mentions null: %s", c.Name, m.Name, t)
				}
			}
			if (nullReturns > 0) != (m.NullReturn != NullNone) {
				return fmt.Errorf("%s.%s: null-return flag disagrees with the body", c.Name, m.Name)
			}
			hasAnno := false
			for _, h := range m.Head {
				hasAnno = hasAnno || h == "@Nullable" || h == "@CheckForNull"
			}
			nAnno := 0
			for _, h := range m.Head {
				if h == "@Nullable" || h == "@CheckForNull" {
					nAnno++
				}
			}
			want := 0
			if m.NullAnno != "" {
				want++
			}
			if m.NullAnno2 != "" {
				want++
			}
			if nAnno != want {
				return fmt.Errorf("%s.%s: %d null annotations in the head, %d planted", c.Name, m.Name, nAnno, want)
			}
			for _, pc := range m.Calls {
				if pc.BodyLine >= len(m.Body) || !strings.Contains(m.Body[pc.BodyLine], pc.Callee+"(") {
					return fmt.Errorf("%s.%s: planted call of %s is not on body line %d", c.Name, m.Name, pc.Callee, pc.BodyLine)
				}
			}
			if hasAnno != (m.NullAnno != "") {
				return fmt.Errorf("%s.%s: annotation flag disagrees with the head", c.Name, m.Name)
			}
		}
	}
	return nil
}
