package evalgen

import (
	"strings"

	"verifharness/run"
)

// Word is one segment of a plain camel-case method name.
type Word struct {
	Text  string // lower case; a digit group for Digit words
	Stop  bool   // an English function word (the, of, and, ...)
	Digit bool   // a group of decimal digits: not a word
	// Lookalike: an ordinary word that begins with get/set (setup, getaway): one word, not an accessor prefix
	Lookalike bool
}

type ConceptMethod struct {
	Name  string
	Words []Word
}

type ConceptClass struct {
	Pkg, Name string
	Methods   []ConceptMethod
}

type ConceptCase struct {
	Classes []ConceptClass
}

// ordinary nouns and verbs: none of them is in the English stop-word list or in the technical stop-word list
// coca ships (checked by hand against pkg/application/call/stop_words/languages/en.go and
// pkg/infrastructure/constants; words such as find, get, save, id, name, bill, amount, call, system, show,
// move, detail, part ARE in those lists and are therefore not used: their status is a matter of taste).
var ordinaryWords = []string{"order", "invoice", "customer", "payment", "stock", "mail", "report", "account", "cart", "product",
	"ticket", "route", "ship", "cancel", "refund", "compute", "render", "validate", "archive", "publish", "approve", "total",
	"price", "address", "email", "history", "item", "line", "group", "owner", "batch", "ledger", "voucher", "parcel", "tariff",
	"warehouse", "shipment", "coupon", "discount", "balance"}

// ordinary words that merely BEGIN with the letters get/set (checked against both of coca's stop lists: none
// of them is a stop word, so each counts as one word wherever it stands, alone or as the first segment)
var accessorLookalikes = []string{"setup", "setback", "settle", "getaway", "settings", "getter"}

// function words every English stop-word list contains (and coca's does)
var stopWords = []string{"the", "of", "and", "for", "with", "to", "in", "by", "from", "or", "on", "at"}

type ConceptOpts struct {
	MaxClasses, MaxMethods, MaxWords int
}

// GenerateConcept builds classes whose method names are plain camel case over the two word lists
// (every word has at least two letters; digit groups stand between or after words, never first).
func GenerateConcept(r *run.Rand, o ConceptOpts) *ConceptCase {
	cc := &ConceptCase{}
	nc := r.Range(0, o.MaxClasses)
	if nc == 0 && r.Chance(9, 10) {
		nc = 1
	}
	// a small vocabulary per case makes words repeat inside and across names
	vocab := make([]string, 0, 8)
	for _, i := range r.Perm(len(ordinaryWords))[:r.Range(2, 8)] {
		vocab = append(vocab, ordinaryWords[i])
	}
	stopRate := r.Pick([]string{"none", "some", "some", "many"})
	for i := 0; i < nc; i++ {
		c := ConceptClass{Pkg: r.Pick(pkgs), Name: r.Pick(nouns) + r.Pick(ordinarySuffix)}
		for k := r.Range(0, o.MaxMethods); k > 0; k-- {
			var m ConceptMethod
			nw := r.Range(1, o.MaxWords)
			for w := 0; w < nw; w++ {
				var wd Word
				switch {
				case w > 0 && r.Chance(1, 12):
					// also timestamps / sequence numbers that do not fit a machine integer (19 digits above 2^63-1, 20 and 25 digits)
					wd = Word{Text: r.Pick([]string{"2", "7", "10", "404", "2024", "1234567890123456789", "9223372036854775808", "20240131120000123456", "2024013112000012345678901"}), Digit: true}
				case stopRate == "many" && r.Chance(1, 2), stopRate == "some" && r.Chance(1, 4):
					wd = Word{Text: r.Pick(stopWords), Stop: true}
				case r.Chance(1, 10) || (w == 0 && r.Chance(1, 8)):
					wd = Word{Text: r.Pick(accessorLookalikes), Lookalike: true}
				default:
					wd = Word{Text: r.Pick(vocab)}
				}
				m.Words = append(m.Words, wd)
			}
			if len(m.Words) == 1 && m.Words[0].Text == "for" {
				// a lone `for` is a Java keyword, not a method name
				m.Words = append(m.Words, Word{Text: r.Pick(vocab)})
			}
			var sb strings.Builder
			for w, wd := range m.Words {
				if w == 0 || wd.Digit {
					sb.WriteString(wd.Text)
				} else {
					sb.WriteString(strings.ToUpper(wd.Text[:1]) + wd.Text[1:])
				}
			}
			m.Name = underscoreForm(sb.String(), m.Words)
			c.Methods = append(c.Methods, m)
		}
		cc.Classes = append(cc.Classes, c)
	}
	return cc
}

func (cc *ConceptCase) Names() []string {
	var out []string
	for _, c := range cc.Classes {
		for _, m := range c.Methods {
			out = append(out, m.Name)
		}
	}
	return out
}

// underscoreForm gives about a quarter of the names an underscore that is legal in a Java identifier and is not
// a word: a leading one (_refreshInventory), a trailing one (shipOrder_) or a doubled one before the second
// word (should__rejectOrder). The choice is a function of the name alone (no draw from the case's random
// stream, so the names of all other cases stay what they were before this form existed).
func underscoreForm(name string, words []Word) string {
	h := uint32(2166136261)
	for i := 0; i < len(name); i++ {
		h = (h ^ uint32(name[i])) * 16777619
	}
	switch h % 12 {
	case 0:
		return "_" + name
	case 1:
		if !words[len(words)-1].Digit {
			return name + "_"
		}
	case 2:
		if len(words) > 1 && !words[1].Digit && !words[0].Digit {
			rest := name[len(words[0].Text):]
			return words[0].Text + "__" + strings.ToLower(rest[:1]) + rest[1:]
		}
	}
	return name
}
