// Package springgen generates small, conventional Spring MVC projects with planted ground truth for C12:
// which classes are controllers, what their own base path is, which members are handler methods (and with
// which verb / path / request-body type), and which members and classes must contribute nothing.
//
// Everything the oracle needs is recorded on the abstract model (Class / Member / Mapping / Param); the
// rendered text is derived from the model, never the other way round. No coca imports.
//
// Shapes that the C12 statement leaves open are either not generated (path= attribute, several paths or
// verbs per mapping, generic or array
// request-body types, handlers inside nested classes, handler overloads) or generated with the affected field marked as
// "not determined by the statement" (see Mapping.PathDetermined / VerbDetermined, Class.BaseDetermined).
//
// Base paths that end in '/' are generated (shorthand and value= form, both annotation orders); the handlers of
// such a class carry method paths with and without a leading '/'. The expected Uri is always the plain
// concatenation of the two written strings ("/api/v1/" + "/x" = "/api/v1//x", "/api/v1/" + "x" = "/api/v1/x").
package springgen

import (
	"fmt"
	"sort"
	"strings"

	"verifharness/run"
)

// Mapping annotation kinds.
const (
	AnnoGet     = "GetMapping"
	AnnoPost    = "PostMapping"
	AnnoPut     = "PutMapping"
	AnnoDelete  = "DeleteMapping"
	AnnoRequest = "RequestMapping"
)

// Forms of a method-level mapping annotation.
const (
	FormBare        = "bare"         // @GetMapping
	FormBareParens  = "bare-parens"  // @GetMapping()
	FormShorthand   = "shorthand"    // @GetMapping("/x")
	FormValue       = "value"        // @GetMapping(value = "/x")
	FormValueMethod = "value+method" // @RequestMapping(value = "/x", method = RequestMethod.GET)
	FormMethodValue = "method+value" // @RequestMapping(method = RequestMethod.GET, value = "/x")
	FormMethodOnly  = "method-only"  // @RequestMapping(method = RequestMethod.GET)
	FormConst       = "const"        // @GetMapping(Paths.X)
	FormConstValue  = "const-value"  // @GetMapping(value = X)
)

// Class-level mapping kinds.
const (
	ClassMapNone       = "none"
	ClassMapBare       = "bare"        // @RequestMapping
	ClassMapShorthand  = "shorthand"   // @RequestMapping("/p")
	ClassMapValue      = "value"       // @RequestMapping(value = "/p")
	ClassMapConst      = "const"       // @RequestMapping(Paths.P)
	ClassMapConstValue = "const-value" // @RequestMapping(value = P)
)

// Member kinds.
const (
	KindHandler = "handler" // mapping-annotated method of a controller class: exactly one API entry
	KindCarrier = "carrier" // mapping-annotated method of a class WITHOUT controller annotation: nothing
	KindMethod  = "method"  // method without mapping annotation: nothing
	KindField   = "field"
	KindCtor    = "ctor"
	KindNested  = "nested" // nested (member) class of the type: its methods contribute nothing
)

type Param struct {
	Modifiers []string // rendered variable modifiers in order: annotations and/or "final"
	Type      string
	Name      string
	Body      bool // carries @RequestBody
}

type Mapping struct {
	Anno      string // AnnoGet ...
	Form      string // FormBare ...
	Path      string // the planted path literal (without quotes); for const forms the constant expression
	Verb      string // GET|POST|PUT|DELETE, "" when the annotation names none (@RequestMapping without method=)
	VerbStyle string // "RequestMethod.GET" | "GET" (static import) | "" (verb carried by the annotation name)
	Extra     string // extra attribute pair rendered with value= forms, e.g. `produces = "application/json"`
	ExtraLast bool   // extra pair after (true) or before (false) the others
	Tight     bool   // `value="/x"` instead of `value = "/x"`
	Text      string // rendered annotation
}

// PathDetermined: the statement fixes the URI only if the method path is a literal written in the annotation.
func (m *Mapping) PathDetermined() bool {
	switch m.Form {
	case FormShorthand, FormValue, FormValueMethod, FormMethodValue:
		return true
	}
	return false
}

// VerbDetermined: Get/Post/Put/DeleteMapping and @RequestMapping with one method= name a verb.
func (m *Mapping) VerbDetermined() bool { return m.Verb != "" }

type Member struct {
	Kind        string
	Name        string
	Mapping     *Mapping // KindHandler, KindCarrier
	AnnosBefore []string // other annotations written before the mapping annotation (or all annotations of a non-handler)
	AnnosAfter  []string // other annotations written after the mapping annotation
	Inline      bool     // annotations on the same line as the declaration
	Comment     string   // comment line(s) in front of the member ("" = none)
	Modifiers   string
	TypeParams  string // "<T> " for a generic method
	Return      string
	Params      []Param
	Throws      string
	Body        []string   // statements (methods, ctors); nil for interface methods
	FieldText   string     // KindField: complete declaration without annotations
	Nested      *OtherType // KindNested
	// derived
	FirstMethodOfClass bool // first method declaration in the class body (constructors are not methods)
	AfterNested        bool // a nested class is declared earlier in the class body
}

// OtherType is a further class declared in the file of a class: a nested class (a member, see KindNested) or a
// second, package-private top-level class. It carries no mapping annotations; its methods contribute nothing,
// and it must not lend its name to the entries of the handlers of the file.
type OtherType struct {
	Name    string
	Where   string   // nested-before-first-handler | nested-between-handlers | nested-after-last-handler | nested-no-handlers | top-level-after | top-level-before
	Annos   []string // annotations in front of the declaration
	Mods    string   // "static", "public static", ... ("" for a second top-level class)
	Methods []string // names of its methods
	Lines   []string // the declaration, unindented
}

// BodyType returns the planted request-body type ("" = no parameter carries @RequestBody).
func (m *Member) BodyType() string {
	for _, p := range m.Params {
		if p.Body {
			return p.Type
		}
	}
	return ""
}

// BodyShape describes where the @RequestBody parameter sits: "none", or "<1-based index>of<n>".
func (m *Member) BodyShape() string {
	for i, p := range m.Params {
		if p.Body {
			return fmt.Sprintf("%dof%d", i+1, len(m.Params))
		}
	}
	return "none"
}

type Class struct {
	ID           int
	Package      string
	Name         string
	TypeKind     string // class | abstract class | interface
	Controller   bool
	Marker       string // RestController | Controller | "" (not a controller)
	Role         string // non-controllers: Service | Component | Repository | Configuration | FeignClient | plain | dto | abstract-base
	ClassMap     string // ClassMapNone ...
	Base         string // planted base path literal / constant expression ("" when none)
	MarkerFirst  bool   // controller annotation written before the class-level mapping
	ClassAnnos   []string
	Extends      string
	Implements   string
	Imports      []string
	HeaderNote   string // comment before the class annotations
	Members      []*Member
	StaticVerbs  []string   // verbs imported statically
	Second       *OtherType // second top-level class of the file (nil = none)
	Text         string
	FileBaseName string // <Name>.java
}

// BaseDetermined: the class's own base path is fixed by the statement when there is no class-level mapping
// (empty base) or when it is a literal.
func (c *Class) BaseDetermined() bool {
	switch c.ClassMap {
	case ClassMapNone, ClassMapShorthand, ClassMapValue:
		return true
	}
	return false
}

// BaseTrailingSlash: the class-level mapping is a literal that ends in '/'.
func (c *Class) BaseTrailingSlash() bool {
	return (c.ClassMap == ClassMapShorthand || c.ClassMap == ClassMapValue) && strings.HasSuffix(c.Base, "/")
}

// OwnBase is the class's own base path ("" without class-level mapping). Only meaningful if BaseDetermined.
func (c *Class) OwnBase() string {
	if c.ClassMap == ClassMapNone {
		return ""
	}
	return c.Base
}

// OtherTypes lists the nested classes (in declaration order) and the second top-level class of the file.
func (c *Class) OtherTypes() []*OtherType {
	var out []*OtherType
	for _, m := range c.Members {
		if m.Kind == KindNested {
			out = append(out, m.Nested)
		}
	}
	if c.Second != nil {
		out = append(out, c.Second)
	}
	return out
}

func (c *Class) Handlers() []*Member {
	var out []*Member
	for _, m := range c.Members {
		if m.Kind == KindHandler {
			out = append(out, m)
		}
	}
	return out
}

// NaturalPath is the conventional single-module location of the class.
func (c *Class) NaturalPath() string {
	return "src/main/java/" + strings.ReplaceAll(c.Package, ".", "/") + "/" + c.FileBaseName
}

// ModulePath puts the class into its own Maven module whose directory name starts with a two-digit rank:
// the lexical directory walk then visits the classes in rank order, whatever their packages and names are.
func (c *Class) ModulePath(rank int) string {
	return fmt.Sprintf("m%02d-%s/", rank, strings.ToLower(c.Name)) + c.NaturalPath()
}

type Project struct {
	Classes []*Class
}

func (p *Project) Controllers() []*Class {
	var out []*Class
	for _, c := range p.Classes {
		if c.Controller {
			out = append(out, c)
		}
	}
	return out
}

// ---------------------------------------------------------------------------------------------------------

type gen struct {
	r        *run.Rand
	relPaths bool // the class being filled has a base path ending in '/': method paths also without leading '/'
	org      string
	dtoNames []string
	usedCls  map[string]bool
	nextID   int
}

var nouns = []string{"User", "Order", "Book", "Account", "Invoice", "Product", "Cart", "Payment", "Report", "Ticket", "Customer", "Device", "Team", "Tag"}
var ctlSuffix = []string{"Controller", "Controller", "Controller", "Resource", "Api", "Endpoint", "RestController"}
var subPkgs = []string{"web", "api", "controller", "rest", "user", "order", "admin", "web.v1", "adapter.in.web", "app"}
var svcPkgs = []string{"service", "domain", "client", "config", "support", "web", "api", "model"}
var handlerVerbs = []string{"list", "get", "create", "update", "delete", "find", "search", "save", "remove", "export", "count", "show", "patch", "upload"}
var helperNames = []string{"toDto", "validate", "currentUser", "buildResponse", "log", "init", "handleError", "mapAll", "ensureExists", "page", "setService", "configure"}
var segs = []string{"users", "orders", "books", "api", "v1", "v2", "items", "admin", "search", "export", "{id}", "{name}", "{orderId}", "active", "me", "batch", "by-name", "line_items", "v1.1", "2fa", "{id:[0-9]+}", "**", "*.json"}
var baseSegs = []string{"api", "v1", "v2", "users", "orders", "books", "admin", "internal", "rest", "accounts", "shop-api", "public_api"}
var simpleTypes = []string{"String", "Long", "Integer", "int", "long", "boolean", "UUID", "Pageable", "Principal", "HttpServletRequest", "Model", "List<String>", "Map<String, String>", "String[]", "MultipartFile", "Optional<String>"}
var returnTypes = []string{"String", "void", "ResponseEntity<%s>", "List<%s>", "%s", "Map<String, Object>", "ResponseEntity<Void>", "ModelAndView", "Page<%s>", "long"}

func (g *gen) path() string {
	n := g.r.PickInt(1, 1, 1, 2, 2, 3)
	var sb strings.Builder
	for i := 0; i < n; i++ {
		sb.WriteString("/" + g.r.Pick(segs))
	}
	return sb.String()
}

func (g *gen) basePath() string {
	n := g.r.PickInt(1, 1, 2, 2, 3)
	var sb strings.Builder
	for i := 0; i < n; i++ {
		sb.WriteString("/" + g.r.Pick(baseSegs))
	}
	return sb.String()
}

func (g *gen) constExpr() string {
	switch g.r.Intn(6) {
	case 0:
		return g.r.Pick([]string{"P", "B", "X", "V"}) // one-character constant
	case 1:
		return g.r.Pick([]string{"BASE", "PATH", "ROOT", "V1", "URL"})
	case 2:
		return "ApiPaths." + g.r.Pick([]string{"USERS", "ORDERS", "ROOT", "V1"})
	case 3:
		return "Routes." + g.r.Pick([]string{"X", "ITEMS", "BY_ID"})
	case 4:
		return g.r.Pick([]string{"API_PREFIX", "USERS_PATH", "ID"})
	}
	return g.r.Pick([]string{"Paths.P", "Urls.BASE_URL", "C.A"})
}

func pair(key, val string, tight bool) string {
	if tight {
		return key + "=" + val
	}
	return key + " = " + val
}

func quote(s string) string { return "\"" + s + "\"" }

// mapping draws a method-level mapping annotation.
func (g *gen) mapping() *Mapping {
	r := g.r
	m := &Mapping{Tight: r.Chance(1, 4)}
	m.Anno = r.Pick([]string{AnnoGet, AnnoGet, AnnoPost, AnnoPost, AnnoPut, AnnoDelete, AnnoRequest, AnnoRequest, AnnoRequest})
	verbOf := map[string]string{AnnoGet: "GET", AnnoPost: "POST", AnnoPut: "PUT", AnnoDelete: "DELETE"}
	if m.Anno != AnnoRequest {
		m.Verb = verbOf[m.Anno]
		switch k := r.Intn(20); {
		case k < 2:
			m.Form = FormBare
		case k < 3:
			m.Form = FormBareParens
		case k < 10:
			m.Form = FormShorthand
		case k < 18:
			m.Form = FormValue
		case k < 19:
			m.Form = FormConst
		default:
			m.Form = FormConstValue
		}
	} else {
		switch k := r.Intn(20); {
		case k < 1:
			m.Form = FormBare
		case k < 4:
			m.Form = FormShorthand
		case k < 7:
			m.Form = FormValue
		case k < 12:
			m.Form = FormValueMethod
		case k < 16:
			m.Form = FormMethodValue
		case k < 18:
			m.Form = FormMethodOnly
		case k < 19:
			m.Form = FormConst
		default:
			m.Form = FormConstValue
		}
		if m.Form == FormValueMethod || m.Form == FormMethodValue || m.Form == FormMethodOnly {
			m.Verb = r.Pick([]string{"GET", "POST", "PUT", "DELETE"})
			if r.Chance(1, 6) {
				m.VerbStyle = m.Verb
			} else {
				m.VerbStyle = "RequestMethod." + m.Verb
			}
		}
	}
	switch m.Form {
	case FormShorthand, FormValue, FormValueMethod, FormMethodValue:
		switch k := r.Intn(24); {
		case k == 0:
			m.Path = "" // explicit empty path literal
		case k == 1:
			m.Path = "/"
		default:
			m.Path = g.path()
			if g.relPaths && r.Bool() {
				m.Path = strings.TrimPrefix(m.Path, "/")
			}
		}
	case FormConst, FormConstValue:
		m.Path = g.constExpr()
	}
	if (m.Form == FormValue || m.Form == FormValueMethod || m.Form == FormMethodValue || m.Form == FormConstValue) && r.Chance(1, 6) {
		m.Extra = r.Pick([]string{`produces = "application/json"`, `consumes = "application/json"`, `produces = MediaType.APPLICATION_JSON_VALUE`, `name = "op"`, `params = "v=2"`})
		m.ExtraLast = r.Bool()
	}
	var args []string
	switch m.Form {
	case FormBare:
		m.Text = "@" + m.Anno
		return m
	case FormBareParens:
		m.Text = "@" + m.Anno + "()"
		return m
	case FormShorthand:
		m.Text = "@" + m.Anno + "(" + quote(m.Path) + ")"
		return m
	case FormConst:
		m.Text = "@" + m.Anno + "(" + m.Path + ")"
		return m
	case FormValue:
		args = []string{pair("value", quote(m.Path), m.Tight)}
	case FormConstValue:
		args = []string{pair("value", m.Path, m.Tight)}
	case FormValueMethod:
		args = []string{pair("value", quote(m.Path), m.Tight), pair("method", m.VerbStyle, m.Tight)}
	case FormMethodValue:
		args = []string{pair("method", m.VerbStyle, m.Tight), pair("value", quote(m.Path), m.Tight)}
	case FormMethodOnly:
		args = []string{pair("method", m.VerbStyle, m.Tight)}
	}
	if m.Extra != "" {
		if m.ExtraLast {
			args = append(args, m.Extra)
		} else {
			args = append([]string{m.Extra}, args...)
		}
	}
	m.Text = "@" + m.Anno + "(" + strings.Join(args, ", ") + ")"
	return m
}

var otherMethodAnnos = []string{
	"@ResponseStatus(HttpStatus.CREATED)", "@ResponseStatus(HttpStatus.OK)", "@ResponseBody", "@Deprecated", "@Override",
	`@PreAuthorize("hasRole('ADMIN')")`, `@Secured("ROLE_USER")`, `@ApiOperation("list all entries")`, `@ApiOperation(value = "/not/a/path")`,
	`@Transactional(readOnly = true)`, `@Timed(value = "http.requests")`, `@CrossOrigin(origins = "/elsewhere")`, `@SuppressWarnings("unchecked")`,
	`@Cacheable("/cache/key")`,
}

var nonHandlerAnnos = []string{
	"@Override", "@ExceptionHandler(IllegalArgumentException.class)", "@InitBinder", `@ModelAttribute("current")`, "@PostConstruct", "@Autowired",
	`@Scheduled(cron = "0 0 * * * *")`, "@Bean", "@Deprecated", `@EventListener(value = ReadyEvent.class)`, `@Value("/static/path")`,
}

func (g *gen) otherAnnos(pool []string, max int) []string {
	n := 0
	switch k := g.r.Intn(10); {
	case k < 5:
		n = 0
	case k < 8:
		n = 1
	default:
		n = 2
	}
	if n > max {
		n = max
	}
	var out []string
	seen := map[string]bool{}
	for len(out) < n {
		a := g.r.Pick(pool)
		name := a
		if i := strings.Index(a, "("); i >= 0 {
			name = a[:i]
		}
		if seen[name] {
			continue
		}
		seen[name] = true
		out = append(out, a)
	}
	return out
}

func (g *gen) dto() string { return g.r.Pick(g.dtoNames) }

func (g *gen) params(handlerLike bool) []Param {
	r := g.r
	n := r.PickInt(0, 0, 1, 1, 1, 2, 2, 3, 4)
	var ps []Param
	bodyAt := -1
	if handlerLike && n > 0 && r.Chance(1, 2) {
		bodyAt = r.Intn(n)
	}
	used := map[string]bool{}
	for i := 0; i < n; i++ {
		p := Param{}
		if i == bodyAt {
			p.Body = true
			p.Type = g.dto()
			if r.Chance(1, 8) {
				p.Type = g.org + ".model." + p.Type // qualified type name
			}
			p.Name = r.Pick([]string{"command", "body", "request", "dto", "payload", "form"})
			switch r.Intn(6) {
			case 0:
				p.Modifiers = []string{"@RequestBody", "@Valid"}
			case 1:
				p.Modifiers = []string{"@Valid", "@RequestBody"}
			case 2:
				p.Modifiers = []string{"final", "@RequestBody"}
			case 3:
				p.Modifiers = []string{"@RequestBody(required = false)"}
			case 4:
				p.Modifiers = []string{"@Validated", "@RequestBody", "final"}
			default:
				p.Modifiers = []string{"@RequestBody"}
			}
		} else {
			// a parameter that is NOT the request body; its type may be a DTO too (e.g. a form object)
			if r.Chance(1, 4) {
				p.Type = g.dto()
			} else {
				p.Type = r.Pick(simpleTypes)
			}
			p.Name = r.Pick([]string{"id", "name", "page", "size", "q", "principal", "req", "model", "file", "filter", "orderId", "locale"})
			if handlerLike {
				switch r.Intn(8) {
				case 0:
					p.Modifiers = []string{fmt.Sprintf(`@PathVariable("%s")`, p.Name)}
				case 1:
					p.Modifiers = []string{fmt.Sprintf(`@PathVariable(name = "%s")`, p.Name)}
				case 2:
					p.Modifiers = []string{"@PathVariable"}
				case 3:
					p.Modifiers = []string{fmt.Sprintf(`@RequestParam(value = "%s", required = false)`, p.Name)}
				case 4:
					p.Modifiers = []string{"@RequestParam", "final"}
				case 5:
					p.Modifiers = []string{`@RequestHeader("X-Trace")`}
				case 6:
					p.Modifiers = []string{"@Valid", "@ModelAttribute"}
				}
			} else if r.Chance(1, 5) {
				p.Modifiers = []string{"final"}
			}
		}
		for used[p.Name] {
			p.Name += fmt.Sprint(i)
		}
		used[p.Name] = true
		ps = append(ps, p)
	}
	return ps
}

func zero(ret string) string {
	switch ret {
	case "void":
		return ""
	case "long", "int":
		return "0"
	case "boolean":
		return "false"
	}
	return "null"
}

func (g *gen) body(ret string, ps []Param, svc string) []string {
	r := g.r
	var out []string
	if r.Chance(1, 6) {
		out = append(out, `@SuppressWarnings("unchecked") List<String> names = new ArrayList<>();`)
	}
	if len(ps) > 0 && r.Chance(1, 4) {
		out = append(out, fmt.Sprintf(`if (%s == null) { throw new IllegalArgumentException("@GetMapping(\"/fake\") %s"); }`, ps[0].Name, ps[0].Name))
	}
	var args []string
	for _, p := range ps {
		args = append(args, p.Name)
	}
	call := fmt.Sprintf("%s.%s(%s)", svc, r.Pick([]string{"handle", "findAll", "save", "load", "apply", "remove"}), strings.Join(args, ", "))
	switch {
	case ret == "void":
		out = append(out, call+";")
	case zero(ret) == "0", zero(ret) == "false":
		out = append(out, call+";", "return "+zero(ret)+";")
	case strings.HasPrefix(ret, "ResponseEntity") && r.Bool():
		out = append(out, "return ResponseEntity.ok("+call+");")
	case ret == "String" && r.Bool():
		out = append(out, call+";", `return "redirect:/home";`)
	case r.Chance(1, 5):
		out = append(out, "return null;")
	default:
		out = append(out, "return "+call+";")
	}
	return out
}

func (g *gen) retType() string {
	t := g.r.Pick(returnTypes)
	if strings.Contains(t, "%s") {
		t = fmt.Sprintf(t, g.dto())
	}
	return t
}

func uniqueName(used map[string]bool, base string) string {
	name := base
	for i := 2; used[name]; i++ {
		name = fmt.Sprintf("%s%d", base, i)
	}
	used[name] = true
	return name
}

func lowerFirst(s string) string { return strings.ToLower(s[:1]) + s[1:] }

// mappedMethod draws a method carrying a mapping annotation (handler in a controller, carrier elsewhere).
func (g *gen) mappedMethod(kind string, used map[string]bool, svc string, iface bool) *Member {
	r := g.r
	m := &Member{Kind: kind, Mapping: g.mapping()}
	noun := r.Pick(nouns)
	m.Name = uniqueName(used, r.Pick(handlerVerbs)+r.Pick([]string{noun, noun + "s", "", "ById", "All"}))
	all := g.otherAnnos(otherMethodAnnos, 2)
	for _, a := range all {
		if r.Bool() {
			m.AnnosBefore = append(m.AnnosBefore, a)
		} else {
			m.AnnosAfter = append(m.AnnosAfter, a)
		}
	}
	m.Inline = r.Chance(1, 7) && len(all) == 0
	m.Return = g.retType()
	m.Params = g.params(true)
	if iface {
		m.Modifiers = ""
	} else {
		m.Modifiers = r.Pick([]string{"public", "public", "public", "public", "", "protected", "public final", "public synchronized"})
		if r.Chance(1, 12) {
			m.TypeParams = "<T> "
		}
		if r.Chance(1, 8) {
			m.Throws = r.Pick([]string{"IOException", "Exception", "NotFoundException, IOException"})
		}
		m.Body = g.body(m.Return, m.Params, svc)
	}
	if r.Chance(1, 10) {
		m.Comment = r.Pick([]string{"// @GetMapping(\"/old\")", "/** Handles the request. @see #other */", "// TODO @RequestMapping(value = \"/legacy\", method = RequestMethod.GET)", "/* @PostMapping(\"/disabled\") */"})
	}
	return m
}

func (g *gen) plainMethod(used map[string]bool, svc string, iface bool) *Member {
	r := g.r
	m := &Member{Kind: KindMethod}
	m.Name = uniqueName(used, r.Pick(helperNames))
	m.AnnosBefore = g.otherAnnos(nonHandlerAnnos, 2)
	m.Return = g.retType()
	m.Params = g.params(false)
	if !iface {
		m.Modifiers = r.Pick([]string{"public", "private", "private", "protected", "", "private static", "public static"})
		m.Body = g.body(m.Return, m.Params, svc)
		if strings.Contains(m.Modifiers, "static") {
			m.Body = []string{"return " + zero(m.Return) + ";"}
			if m.Return == "void" {
				m.Body = []string{"System.out.println(\"/static\");"}
			}
		}
	}
	if r.Chance(1, 8) {
		m.Comment = r.Pick([]string{"// @GetMapping(\"/old\")", "// helper", "/* @DeleteMapping(value = \"/gone\") */", "/** Not an endpoint: @PostMapping is deliberately absent. */"})
	}
	return m
}

func (g *gen) field(svcType, svcName string, first bool) *Member {
	r := g.r
	m := &Member{Kind: KindField}
	if first {
		m.Name = svcName
		switch r.Intn(4) {
		case 0:
			m.AnnosBefore = []string{"@Autowired"}
			m.FieldText = "private " + svcType + " " + svcName + ";"
		case 1:
			m.AnnosBefore = []string{`@Resource(name = "` + svcName + `")`}
			m.FieldText = "private " + svcType + " " + svcName + ";"
		case 2:
			m.FieldText = "private final " + svcType + " " + svcName + ";"
		default:
			m.AnnosBefore = []string{"@Autowired", `@Qualifier("/primary")`}
			m.Inline = true
			m.FieldText = svcType + " " + svcName + ";"
		}
		return m
	}
	switch r.Intn(5) {
	case 0:
		m.Name = "prefix"
		m.AnnosBefore = []string{`@Value("${app.prefix:/fallback}")`}
		m.FieldText = "private String prefix;"
	case 1:
		m.Name = "BASE"
		m.FieldText = `private static final String BASE = "/const/base";`
	case 2:
		m.Name = "log"
		m.FieldText = "private static final Logger log = LoggerFactory.getLogger(\"web\");"
	case 3:
		m.Name = "mapper"
		m.AnnosBefore = []string{"@Autowired"}
		m.FieldText = "private ObjectMapper mapper;"
	default:
		m.Name = "P"
		m.FieldText = `static final String P = "/p";`
	}
	return m
}

func (g *gen) pickClassName(pkg string, base string) string {
	name := base
	for i := 2; g.usedCls[pkg+"."+name]; i++ {
		name = fmt.Sprintf("%s%d", base, i)
	}
	g.usedCls[pkg+"."+name] = true
	return name
}

func (g *gen) controller(forceMap string) *Class {
	r := g.r
	c := &Class{ID: g.nextID, Controller: true, TypeKind: "class"}
	g.nextID++
	c.Package = g.org + "." + r.Pick(subPkgs)
	noun := r.Pick(nouns)
	c.Name = g.pickClassName(c.Package, noun+r.Pick(ctlSuffix))
	c.Marker = r.Pick([]string{"RestController", "RestController", "Controller"})
	c.ClassMap = forceMap
	if forceMap == "" {
		switch k := r.Intn(20); {
		case k < 6:
			c.ClassMap = ClassMapNone
		case k < 8:
			c.ClassMap = ClassMapBare
		case k < 13:
			c.ClassMap = ClassMapShorthand
		case k < 18:
			c.ClassMap = ClassMapValue
		case k < 19:
			c.ClassMap = ClassMapConst
		default:
			c.ClassMap = ClassMapConstValue
		}
	}
	c.MarkerFirst = r.Chance(3, 5)
	g.fillClassAnnos(c)
	g.relPaths = c.BaseTrailingSlash()
	defer func() { g.relPaths = false }()
	if r.Chance(1, 8) {
		c.Extends = r.Pick([]string{"BaseController", "AbstractResource"})
	}
	if r.Chance(1, 8) {
		c.Implements = r.Pick([]string{noun + "Operations", "Auditable", "InitializingBean"})
	}
	svcType, svcName := noun+"Service", lowerFirst(noun)+"Service"

	used := map[string]bool{}
	nH := r.PickInt(0, 1, 1, 2, 2, 3, 3, 4, 5)
	nM := r.PickInt(0, 0, 1, 1, 2, 3)
	nF := r.PickInt(0, 1, 1, 2)
	var members []*Member
	for i := 0; i < nH; i++ {
		members = append(members, g.mappedMethod(KindHandler, used, svcName, false))
	}
	for i := 0; i < nM; i++ {
		members = append(members, g.plainMethod(used, svcName, false))
	}
	for i := 0; i < nF; i++ {
		members = append(members, g.field(svcType, svcName, i == 0))
	}
	if r.Chance(1, 3) {
		ctor := &Member{Kind: KindCtor, Name: c.Name, Modifiers: "public", Params: []Param{{Type: svcType, Name: svcName}}, Body: []string{"this." + svcName + " = " + svcName + ";"}}
		if r.Chance(1, 3) {
			ctor.AnnosBefore = []string{"@Autowired"}
		}
		members = append(members, ctor)
	}
	// nested request/response classes: anywhere among the members (the conventional layout puts them last)
	typeNames := map[string]bool{c.Name: true}
	if r.Chance(1, 4) {
		for i, nN := 0, r.PickInt(1, 1, 2); i < nN; i++ {
			ot := g.otherType(typeNames, noun, true)
			members = append(members, &Member{Kind: KindNested, Name: ot.Name, Nested: ot})
		}
	}
	if r.Chance(1, 10) {
		c.Second = g.otherType(typeNames, noun, false)
		c.Second.Where = "top-level-after"
		if r.Chance(1, 4) {
			c.Second.Where = "top-level-before"
		}
	}
	// any member order ...
	perm := r.Perm(len(members))
	ordered := make([]*Member, len(members))
	for i, j := range perm {
		ordered[i] = members[j]
	}
	// ... but conventional layouts dominate: fields first in most classes
	if r.Chance(2, 3) {
		sort.SliceStable(ordered, func(i, j int) bool {
			return rank(ordered[i].Kind) < rank(ordered[j].Kind)
		})
	}
	// a non-handler method as the very first member / first method of the class in a good share of the classes
	if nM > 0 && r.Chance(1, 2) {
		for i, m := range ordered {
			if m.Kind == KindMethod {
				first := 0
				if r.Bool() {
					for first < len(ordered) && (ordered[first].Kind == KindField || ordered[first].Kind == KindCtor) {
						first++
					}
				}
				if first < i {
					mv := ordered[i]
					copy(ordered[first+1:i+1], ordered[first:i])
					ordered[first] = mv
				}
				break
			}
		}
	}
	c.Members = ordered
	g.finishClass(c)
	return c
}

func rank(kind string) int {
	switch kind {
	case KindField:
		return 0
	case KindCtor:
		return 1
	case KindNested:
		return 3
	}
	return 2
}

// otherType draws a small class without mapping annotations (nested=true: a member class).
func (g *gen) otherType(used map[string]bool, noun string, nested bool) *OtherType {
	r := g.r
	ot := &OtherType{}
	ot.Name = uniqueName(used, r.Pick([]string{noun, "Place" + noun, "Create" + noun, ""})+r.Pick([]string{"View", "Request", "Response", "Result", "Filter", "Entry"}))
	if nested {
		ot.Mods = r.Pick([]string{"static", "static", "public static", "private static", "public static final", ""})
	}
	if r.Chance(1, 3) {
		ot.Annos = []string{r.Pick([]string{"@Data", "@JsonIgnoreProperties(ignoreUnknown = true)", `@JsonRootName(value = "/root")`, "@Deprecated"})}
	}
	head := "class " + ot.Name
	if ot.Mods != "" {
		head = ot.Mods + " " + head
	}
	if r.Chance(1, 5) {
		head += " implements Serializable"
	}
	ot.Lines = append(ot.Lines, head+" {")
	fields := []string{"id", "sku", "name", "total", "note"}
	k := r.Intn(len(fields))
	for i, n := 0, r.Range(0, 2); i < n; i++ {
		f := fields[(k+i)%len(fields)]
		if r.Chance(1, 4) {
			ot.Lines = append(ot.Lines, `    @JsonProperty("/`+f+`")`)
		}
		ot.Lines = append(ot.Lines, "    private String "+f+";", "")
		if r.Chance(2, 3) {
			getter := "get" + strings.ToUpper(f[:1]) + f[1:]
			ot.Methods = append(ot.Methods, getter)
			ot.Lines = append(ot.Lines, "    public String "+getter+"() {", "        return "+f+";", "    }", "")
		}
	}
	ot.Lines = append(ot.Lines, "}")
	return ot
}

func (g *gen) fillClassAnnos(c *Class) {
	r := g.r
	var mapAnno string
	tight := r.Chance(1, 4)
	switch c.ClassMap {
	case ClassMapBare:
		mapAnno = "@RequestMapping"
		if r.Chance(1, 4) {
			mapAnno = "@RequestMapping()"
		}
	case ClassMapShorthand:
		c.Base = g.basePath()
		if r.Chance(1, 5) {
			c.Base += "/"
		}
		mapAnno = "@RequestMapping(" + quote(c.Base) + ")"
	case ClassMapValue:
		c.Base = g.basePath()
		if r.Chance(1, 5) {
			c.Base += "/"
		}
		args := []string{pair("value", quote(c.Base), tight)}
		if r.Chance(1, 5) {
			extra := r.Pick([]string{`produces = "application/json"`, `produces = MediaType.APPLICATION_JSON_VALUE`, `name = "grp"`})
			if r.Bool() {
				args = append(args, extra)
			} else {
				args = append([]string{extra}, args...)
			}
		}
		mapAnno = "@RequestMapping(" + strings.Join(args, ", ") + ")"
	case ClassMapConst:
		c.Base = g.constExpr()
		mapAnno = "@RequestMapping(" + c.Base + ")"
	case ClassMapConstValue:
		c.Base = g.constExpr()
		mapAnno = "@RequestMapping(" + pair("value", c.Base, tight) + ")"
	}
	var core []string
	marker := ""
	if c.Marker != "" {
		marker = "@" + c.Marker
	} else {
		switch c.Role {
		case "Service", "Component", "Repository", "Configuration":
			marker = "@" + c.Role
		case "FeignClient":
			marker = `@FeignClient(name = "` + strings.ToLower(c.Name) + `", url = "/remote")`
		}
	}
	switch {
	case marker != "" && mapAnno != "":
		if c.MarkerFirst {
			core = []string{marker, mapAnno}
		} else {
			core = []string{mapAnno, marker}
		}
	case marker != "":
		core = []string{marker}
	case mapAnno != "":
		core = []string{mapAnno}
	}
	// other class annotations, anywhere among the two
	others := []string{"@Validated", `@Api(tags = "users")`, `@Api(value = "/swagger/group")`, "@CrossOrigin", "@Slf4j", "@RequiredArgsConstructor", `@Tag(name = "/tagged")`, `@SuppressWarnings("all")`, "@Deprecated"}
	n := r.PickInt(0, 0, 0, 1, 1, 2)
	seen := map[string]bool{}
	for i := 0; i < n; i++ {
		a := r.Pick(others)
		name := a
		if k := strings.Index(a, "("); k >= 0 {
			name = a[:k]
		}
		if seen[name] {
			continue
		}
		seen[name] = true
		at := r.Intn(len(core) + 1)
		core = append(core[:at], append([]string{a}, core[at:]...)...)
	}
	c.ClassAnnos = core
}

func (g *gen) nonController(forceRole string) *Class {
	r := g.r
	c := &Class{ID: g.nextID, TypeKind: "class"}
	g.nextID++
	c.Package = g.org + "." + r.Pick(svcPkgs)
	noun := r.Pick(nouns)
	c.Role = forceRole
	if c.Role == "" {
		c.Role = r.Pick([]string{"Service", "Service", "Component", "Repository", "Configuration", "FeignClient", "plain", "plain", "abstract-base"})
	}
	suffix := map[string][]string{"Service": {"Service", "Facade"}, "Component": {"Component", "Helper", "Mapper"}, "Repository": {"Repository", "Dao"}, "Configuration": {"Config", "Configuration"},
		"FeignClient": {"Client", "RemoteApi"}, "plain": {"Support", "Handler", "Controller", "Util"}, "abstract-base": {"BaseController", "Base"}}[c.Role]
	base := noun + r.Pick(suffix)
	if c.Role == "abstract-base" {
		base = "Abstract" + base
		c.TypeKind = "abstract class"
	}
	if c.Role == "FeignClient" {
		c.TypeKind = "interface"
	}
	c.Name = g.pickClassName(c.Package, base)
	c.ClassMap = ClassMapNone
	// a class-level mapping on a class that is not a controller (still contributes nothing)
	if r.Chance(1, 4) {
		c.ClassMap = r.Pick([]string{ClassMapShorthand, ClassMapValue, ClassMapValue, ClassMapBare})
	}
	c.MarkerFirst = r.Bool()
	g.fillClassAnnos(c)
	iface := c.TypeKind == "interface"
	svcType, svcName := noun+"Gateway", lowerFirst(noun)+"Gateway"
	used := map[string]bool{}
	var members []*Member
	nC := r.PickInt(1, 1, 2, 3) // methods that carry the same mapping annotations
	nM := r.PickInt(0, 1, 1, 2)
	for i := 0; i < nC; i++ {
		members = append(members, g.mappedMethod(KindCarrier, used, svcName, iface))
	}
	for i := 0; i < nM; i++ {
		members = append(members, g.plainMethod(used, svcName, iface))
	}
	if !iface {
		members = append(members, g.field(svcType, svcName, true))
	}
	perm := r.Perm(len(members))
	ordered := make([]*Member, len(members))
	for i, j := range perm {
		ordered[i] = members[j]
	}
	c.Members = ordered
	g.finishClass(c)
	return c
}

func (g *gen) dtoClass(name string) *Class {
	r := g.r
	c := &Class{ID: g.nextID, TypeKind: "class", Role: "dto", ClassMap: ClassMapNone}
	g.nextID++
	c.Package = g.org + ".model"
	c.Name = name
	g.usedCls[c.Package+"."+name] = true
	if r.Chance(1, 3) {
		c.ClassAnnos = []string{r.Pick([]string{"@Data", "@JsonIgnoreProperties(ignoreUnknown = true)", `@JsonRootName(value = "/root")`})}
	}
	fields := []string{"id", "name", "email", "total", "note"}
	n := r.Range(1, 3)
	for i := 0; i < n; i++ {
		f := fields[(i+r.Intn(3))%len(fields)]
		dup := false
		for _, m := range c.Members {
			if m.Name == f {
				dup = true
			}
		}
		if dup {
			continue
		}
		fm := &Member{Kind: KindField, Name: f, FieldText: "private String " + f + ";"}
		if r.Chance(1, 4) {
			fm.AnnosBefore = []string{`@JsonProperty("` + f + `")`}
		}
		c.Members = append(c.Members, fm)
	}
	for _, fm := range append([]*Member(nil), c.Members...) {
		c.Members = append(c.Members, &Member{Kind: KindMethod, Name: "get" + strings.ToUpper(fm.Name[:1]) + fm.Name[1:], Modifiers: "public", Return: "String", Body: []string{"return " + fm.Name + ";"}})
	}
	g.finishClass(c)
	return c
}

func (g *gen) finishClass(c *Class) {
	seenMethod := false
	for _, m := range c.Members {
		if m.Kind == KindHandler || m.Kind == KindCarrier || m.Kind == KindMethod {
			m.FirstMethodOfClass = !seenMethod
			seenMethod = true
		}
	}
	nHandlers, handlersSeen, nestedSeen := len(c.Handlers()), 0, false
	for _, m := range c.Members {
		switch m.Kind {
		case KindHandler:
			handlersSeen++
			m.AfterNested = nestedSeen
		case KindNested:
			nestedSeen = true
			switch {
			case nHandlers == 0:
				m.Nested.Where = "nested-no-handlers"
			case handlersSeen == 0:
				m.Nested.Where = "nested-before-first-handler"
			case handlersSeen == nHandlers:
				m.Nested.Where = "nested-after-last-handler"
			default:
				m.Nested.Where = "nested-between-handlers"
			}
		}
	}
	seen := map[string]bool{}
	for _, m := range c.Members {
		if m.Mapping != nil && m.Mapping.VerbStyle != "" && !strings.HasPrefix(m.Mapping.VerbStyle, "RequestMethod.") && !seen[m.Mapping.VerbStyle] {
			seen[m.Mapping.VerbStyle] = true
			c.StaticVerbs = append(c.StaticVerbs, m.Mapping.VerbStyle)
		}
	}
	sort.Strings(c.StaticVerbs)
	c.FileBaseName = c.Name + ".java"
	if g.r.Chance(1, 6) {
		c.HeaderNote = g.r.Pick([]string{"/**\n * REST endpoints.\n * @RequestMapping(\"/from/javadoc\")\n */", "// @RestController @RequestMapping(\"/commented/out\")", "/* generated */"})
	}
	c.Imports = g.imports(c)
	c.Text = render(c)
}

func (g *gen) imports(c *Class) []string {
	r := g.r
	var imps []string
	if c.Role == "dto" {
		if len(c.ClassAnnos) > 0 {
			imps = append(imps, "import com.fasterxml.jackson.annotation.*;")
		}
		return imps
	}
	if r.Chance(2, 3) {
		imps = append(imps, "import org.springframework.web.bind.annotation.*;")
	} else {
		imps = append(imps, "import org.springframework.web.bind.annotation.RequestMapping;", "import org.springframework.web.bind.annotation.GetMapping;",
			"import org.springframework.web.bind.annotation.PostMapping;", "import org.springframework.web.bind.annotation.RequestBody;", "import org.springframework.web.bind.annotation.RestController;")
	}
	imps = append(imps, "import org.springframework.http.HttpStatus;", "import org.springframework.http.ResponseEntity;")
	switch c.Role {
	case "Service", "Component", "Repository":
		imps = append(imps, "import org.springframework.stereotype."+c.Role+";")
	case "Configuration":
		imps = append(imps, "import org.springframework.context.annotation.Configuration;")
	case "FeignClient":
		imps = append(imps, "import org.springframework.cloud.openfeign.FeignClient;")
	}
	if c.Marker == "Controller" {
		imps = append(imps, "import org.springframework.stereotype.Controller;")
	}
	imps = append(imps, "import "+g.org+".model.*;", "import java.util.List;", "import java.util.Map;")
	if r.Bool() {
		imps = append(imps, "import javax.validation.Valid;")
	}
	for _, v := range c.StaticVerbs {
		imps = append(imps, "import static org.springframework.web.bind.annotation.RequestMethod."+v+";")
	}
	if r.Chance(1, 3) {
		pm := r.Perm(len(imps))
		out := make([]string, len(imps))
		for i, j := range pm {
			out[i] = imps[j]
		}
		imps = out
	}
	return imps
}

func renderParams(ps []Param, wrap bool) string {
	var parts []string
	for _, p := range ps {
		s := ""
		for _, m := range p.Modifiers {
			s += m + " "
		}
		parts = append(parts, s+p.Type+" "+p.Name)
	}
	if wrap && len(parts) > 1 {
		return strings.Join(parts, ",\n            ")
	}
	return strings.Join(parts, ", ")
}

func render(c *Class) string {
	var sb strings.Builder
	sb.WriteString("package " + c.Package + ";\n\n")
	for _, i := range c.Imports {
		sb.WriteString(i + "\n")
	}
	sb.WriteString("\n")
	writeOther := func(ot *OtherType, indent string) {
		for _, a := range ot.Annos {
			sb.WriteString(indent + a + "\n")
		}
		for _, l := range ot.Lines {
			if l == "" {
				sb.WriteString("\n")
			} else {
				sb.WriteString(indent + l + "\n")
			}
		}
	}
	if c.Second != nil && c.Second.Where == "top-level-before" {
		writeOther(c.Second, "")
		sb.WriteString("\n")
	}
	if c.HeaderNote != "" {
		sb.WriteString(c.HeaderNote + "\n")
	}
	for _, a := range c.ClassAnnos {
		sb.WriteString(a + "\n")
	}
	vis := "public "
	sb.WriteString(vis + c.TypeKind + " " + c.Name)
	if c.Extends != "" {
		sb.WriteString(" extends " + c.Extends)
	}
	if c.Implements != "" {
		sb.WriteString(" implements " + c.Implements)
	}
	sb.WriteString(" {\n")
	iface := c.TypeKind == "interface"
	for _, m := range c.Members {
		sb.WriteString("\n")
		if m.Comment != "" {
			sb.WriteString("    " + m.Comment + "\n")
		}
		if m.Kind == KindNested {
			writeOther(m.Nested, "    ")
			continue
		}
		var annos []string
		annos = append(annos, m.AnnosBefore...)
		if m.Mapping != nil {
			annos = append(annos, m.Mapping.Text)
		}
		annos = append(annos, m.AnnosAfter...)
		decl := ""
		switch m.Kind {
		case KindField:
			decl = m.FieldText
		case KindCtor:
			decl = m.Modifiers + " " + m.Name + "(" + renderParams(m.Params, false) + ") {"
		default:
			mod := m.Modifiers
			if mod != "" {
				mod += " "
			}
			decl = mod + m.TypeParams + m.Return + " " + m.Name + "(" + renderParams(m.Params, len(m.Params) >= 3) + ")"
			if m.Throws != "" {
				decl += " throws " + m.Throws
			}
			if iface || m.Body == nil {
				decl += ";"
			} else {
				decl += " {"
			}
		}
		if m.Inline && len(annos) > 0 {
			sb.WriteString("    " + strings.Join(annos, " ") + " " + decl + "\n")
		} else {
			for _, a := range annos {
				sb.WriteString("    " + a + "\n")
			}
			sb.WriteString("    " + decl + "\n")
		}
		if m.Kind != KindField && !(iface || m.Body == nil) {
			for _, st := range m.Body {
				sb.WriteString("        " + st + "\n")
			}
			sb.WriteString("    }\n")
		}
	}
	sb.WriteString("}\n")
	if c.Second != nil && c.Second.Where == "top-level-after" {
		sb.WriteString("\n")
		writeOther(c.Second, "")
	}
	return sb.String()
}

// Generate draws a project of 1-6 classes. Several controllers with and without class-level mapping are
// favoured so that a base path leaking from one file into the next is observable whatever the file order.
func Generate(r *run.Rand) *Project {
	g := &gen{r: r, usedCls: map[string]bool{}}
	g.org = "com." + r.Pick([]string{"acme", "phodal", "example", "shop", "corp"}) + "." + r.Pick([]string{"app", "store", "portal", "billing", "core"})
	nd := r.Range(2, 4)
	seen := map[string]bool{}
	for len(g.dtoNames) < nd {
		n := r.Pick(nouns) + r.Pick([]string{"Dto", "Command", "Request", "Form", "Payload"})
		if r.Chance(1, 3) {
			n = r.Pick([]string{"Create", "Update"}) + n
		}
		if !seen[n] {
			seen[n] = true
			g.dtoNames = append(g.dtoNames, n)
		}
	}
	n := r.Range(1, 6)
	p := &Project{}
	// the first two controllers of a multi-class project differ in having a class-level mapping
	plan := make([]string, n) // "c:<forced classmap>" | "n" | "d"
	for i := range plan {
		switch k := r.Intn(10); {
		case k < 6:
			plan[i] = "c"
		case k < 9:
			plan[i] = "n"
		default:
			plan[i] = "d"
		}
	}
	if n >= 2 && r.Chance(3, 4) {
		plan[0], plan[1] = "c+", "c-"
	} else if r.Chance(9, 10) {
		plan[0] = "c"
	}
	for _, k := range plan {
		switch k {
		case "c":
			p.Classes = append(p.Classes, g.controller(""))
		case "c+":
			p.Classes = append(p.Classes, g.controller(r.Pick([]string{ClassMapShorthand, ClassMapValue})))
		case "c-":
			p.Classes = append(p.Classes, g.controller(ClassMapNone))
		case "n":
			p.Classes = append(p.Classes, g.nonController(""))
		case "d":
			name := g.dto()
			if g.usedCls[g.org+".model."+name] {
				p.Classes = append(p.Classes, g.nonController("plain"))
			} else {
				p.Classes = append(p.Classes, g.dtoClass(name))
			}
		}
	}
	// generation order is not file order: shuffle
	perm := r.Perm(len(p.Classes))
	out := make([]*Class, len(p.Classes))
	for i, j := range perm {
		out[i] = p.Classes[j]
	}
	p.Classes = out
	return p
}

// Shape is a structural description of the project without any of the random names.
func Shape(p *Project) string {
	var sb strings.Builder
	for _, c := range p.Classes {
		sb.WriteString("[" + c.TypeKind + ":" + c.Marker + ":" + c.Role + ":" + c.ClassMap)
		if c.MarkerFirst {
			sb.WriteString(":mf")
		}
		if c.BaseTrailingSlash() {
			sb.WriteString(":ts")
		}
		if c.Second != nil {
			sb.WriteString(":" + c.Second.Where)
		}
		for _, m := range c.Members {
			sb.WriteString("," + m.Kind)
			if m.Mapping != nil {
				sb.WriteString("/" + m.Mapping.Anno + "/" + m.Mapping.Form + "/" + m.BodyShape())
				if m.Mapping.PathDetermined() && m.Mapping.Path != "" && !strings.HasPrefix(m.Mapping.Path, "/") {
					sb.WriteString("/rel")
				}
			}
		}
		sb.WriteString("]")
	}
	return sb.String()
}
