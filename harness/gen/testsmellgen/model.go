// Package testsmellgen generates JUnit-style test trees with planted test-smell evidence (ground truth of C11).
//
// A tree is a set of Java files in a flat, nested-package or Maven layout: test classes (named *Test.java /
// *Tests.java, or any name under src/test/java/<package dirs>) mixed with production classes that contain the
// same patterns. Test methods are assembled from planted evidence, every call recorded with the line it is
// written on. No coca imports: the ground truth is what the generator wrote, never what the tool read.
package testsmellgen

import "strings"

// DocumentedAssertionPrefixes is the documented list of (lower-case) method-name prefixes that make a call
// "an assertion" (constants.ASSERTION_LIST, read once by a human; the generator never consults the code).
var DocumentedAssertionPrefixes = []string{"assert", "should", "check", "maynotbe", "is", "spec", "verify"}

// PrefixOf returns the documented assertion prefix a method name starts with (case-insensitively), or "".
func PrefixOf(name string) string {
	l := strings.ToLower(name)
	for _, p := range DocumentedAssertionPrefixes {
		if strings.HasPrefix(l, p) {
			return p
		}
	}
	return ""
}

// Call kinds.
const (
	KindPrint   = "print"          // System.out.print / println / printf
	KindSleep   = "sleep"          // Thread.sleep
	KindAssert  = "assert"         // method name starts with a documented assertion prefix
	KindPlain   = "plain"          // any other method call (incl. look-alikes such as System.err.println, timer.sleep)
	KindNew     = "new"            // object creation
	KindHelper  = "helper"         // call of a non-test method of the same class
	KindForeign = "foreign-helper" // call of a static method of another test class
	// KindMethodRef: a method reference (Thread::sleep, System.out::println, Assert::assertTrue) passed as an argument;
	// kept in Method.Refs, never in Method.Calls
	KindMethodRef = "method-reference"
)

// Call is one planted call site.
type Call struct {
	Kind      string
	Form      string // how it is written: "System.out.println", "unqualified", "receiver", "static-qualified", "this-qualified", "chained", "nested-in-arguments", ...
	Recv      string
	Name      string // method name ("" for new: see Type)
	Type      string // created type for KindNew
	NArgs     int
	Identical bool   // exactly two arguments with identical text
	Prefix    string // documented assertion prefix of Name ("" if none)
	Key       string // identity of the called method inside one body: receiver text + name + arity
	Target    string // KindHelper: helper method name; KindForeign: "Class.method"
	Line      int    // 1-based line of the method-name token (the whole receiver.name( is on that line)
	Text      string // statement text it was planted in
}

// Anno is one annotation of a method.
type Anno struct {
	Name string // Test | Ignore | Before | After | ...
	Args string // "" or "(…)" text
	Line int
}

// Method roles.
const (
	RoleTestMethod = "test"   // carries @Test and/or @Ignore
	RoleHelper     = "helper" // no @Test/@Ignore; may be called by tests of its class
	RoleOther      = "other"  // no @Test/@Ignore; carries the same patterns; never called from its own class
)

// Method is one planted method.
type Method struct {
	Name       string
	Role       string
	Profile    string // how the body was composed (for shapes / samples)
	Annos      []Anno // in source order
	AnnoLayout string // own-lines | one-line | with-declaration | comment-between
	Static     bool
	DeclLine   int // line of the return type / name (annotations may be above)
	EndLine    int
	Calls      []Call
	Refs       []Call // method references written in the body (not calls)
}

func (m *Method) HasAnno(name string) bool {
	for _, a := range m.Annos {
		if a.Name == name {
			return true
		}
	}
	return false
}

// IsTestMethod: annotated @Test and/or @Ignore.
func (m *Method) IsTestMethod() bool { return m.HasAnno("Test") || m.HasAnno("Ignore") }

// AnnoClass names the @Test/@Ignore combination in source order.
func (m *Method) AnnoClass() string {
	var seq []string
	for _, a := range m.Annos {
		if a.Name == "Test" || a.Name == "Ignore" {
			seq = append(seq, strings.ToLower(a.Name))
		}
	}
	switch strings.Join(seq, ",") {
	case "test":
		return "test-alone"
	case "ignore":
		return "ignore-alone"
	case "test,ignore":
		return "test-before-ignore"
	case "ignore,test":
		return "ignore-before-test"
	case "":
		return "unannotated"
	}
	return strings.Join(seq, ",")
}

// File roles.
const (
	RoleTestByName = "test-by-name" // *Test.java / *Tests.java
	RoleTestByDir  = "test-by-dir"  // under src/test/java/, name without the suffix
	RoleMain       = "main"         // production class
)

type File struct {
	RelPath string // slash-separated, relative to the tree root
	Role    string
	Package string
	Class   string
	Methods []*Method
	Text    string
	// LeadingBlankLines: empty or white-space-only lines before the first token of the file
	LeadingBlankLines int
}

func (f *File) IsTest() bool { return f.Role == RoleTestByName || f.Role == RoleTestByDir }

func (f *File) Method(name string) *Method {
	for _, m := range f.Methods {
		if m.Name == name {
			return m
		}
	}
	return nil
}

type Tree struct {
	Layout string // flat | nested | maven
	Files  []*File
}
