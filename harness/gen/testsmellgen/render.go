package testsmellgen

import (
	"fmt"
	"sort"
	"strings"
)

type writer struct{ lines []string }

// line appends one source line and returns its 1-based number.
func (w *writer) line(s string) int {
	w.lines = append(w.lines, s)
	return len(w.lines)
}

func (w *writer) multi(indent, s string) {
	for _, l := range strings.Split(s, "\n") {
		w.line(indent + l)
	}
}

// render writes the class text and fixes every planted line number.
func render(cp *cplan) {
	f := cp.f
	w := &writer{}
	for _, l := range cp.lead {
		w.line(l)
	}
	f.LeadingBlankLines = len(cp.lead)
	if cp.comment != "" {
		w.multi("", cp.comment)
	}
	if f.Package != "" {
		w.line("package " + f.Package + ";")
		w.line("")
	}
	for _, imp := range cp.imports {
		w.line("import " + imp + ";")
	}
	if len(cp.imports) > 0 {
		w.line("")
	}
	if cp.classAnno != "" {
		w.line(cp.classAnno)
	}
	decl := "public class " + f.Class
	if cp.extends != "" {
		decl += " extends " + cp.extends
	}
	w.line(decl + " {")
	u := cp.sty.unit
	for _, fd := range cp.fields {
		w.multi(u, fd)
	}
	if len(cp.fields) > 0 {
		w.line("")
	}
	for i, mp := range cp.methods {
		if i > 0 && cp.sty.blank {
			w.line("")
		}
		renderMethod(w, mp, cp.sty)
		f.Methods = append(f.Methods, mp.m)
	}
	w.line("}")
	f.Text = strings.Join(w.lines, "\n") + "\n"
}

func renderMethod(w *writer, mp *mplan, sty style) {
	m := mp.m
	u := sty.unit
	annoText := func(a Anno) string { return "@" + a.Name + a.Args }
	open := " {"
	if sty.allman {
		open = ""
	}
	switch {
	case len(m.Annos) == 0:
		m.DeclLine = w.line(u + mp.header + open)
	case m.AnnoLayout == "with-declaration":
		var parts []string
		for _, a := range m.Annos {
			parts = append(parts, annoText(a))
		}
		n := w.line(u + strings.Join(parts, " ") + " " + mp.header + open)
		for i := range m.Annos {
			m.Annos[i].Line = n
		}
		m.DeclLine = n
	case m.AnnoLayout == "one-line":
		var parts []string
		for _, a := range m.Annos {
			parts = append(parts, annoText(a))
		}
		n := w.line(u + strings.Join(parts, " "))
		for i := range m.Annos {
			m.Annos[i].Line = n
		}
		m.DeclLine = w.line(u + mp.header + open)
	default: // own-lines, comment-between, split-arguments
		for i := range m.Annos {
			a := m.Annos[i]
			if m.AnnoLayout == "split-arguments" && strings.HasPrefix(a.Args, "(") {
				// one annotation written over several lines
				m.Annos[i].Line = w.line(u + "@" + a.Name + "(")
				w.line(u + u + u + strings.TrimSuffix(strings.TrimPrefix(a.Args, "("), ")"))
				w.line(u + ")")
				continue
			}
			m.Annos[i].Line = w.line(u + annoText(m.Annos[i]))
			if m.AnnoLayout == "comment-between" {
				w.line(u + "// see ticket " + fmt.Sprint(100+i))
			}
		}
		m.DeclLine = w.line(u + mp.header + open)
	}
	if sty.allman {
		w.line(u + "{")
	}
	m.Calls, m.Refs = nil, nil
	for _, s := range mp.stmts {
		base := len(w.lines) + 1
		for _, l := range s.lines {
			if l == "" {
				w.line("")
			} else {
				w.line(u + u + l)
			}
		}
		for _, c := range s.calls {
			c.Line += base
			m.Calls = append(m.Calls, c)
		}
		for _, c := range s.refs {
			c.Line += base
			m.Refs = append(m.Refs, c)
		}
	}
	sort.SliceStable(m.Calls, func(i, j int) bool { return m.Calls[i].Line < m.Calls[j].Line })
	m.EndLine = w.line(u + "}")
}

// SelfCheck verifies the generator's own invariants (a failure makes the case inconclusive, never a verdict).
func SelfCheck(t *Tree) error {
	paths := map[string]bool{}
	for _, f := range t.Files {
		// method names are unique per class (two classes of the same simple name in different packages may both have
		// a helper of one name); paths are unique per tree
		names := map[string]bool{}
		if paths[f.RelPath] {
			return fmt.Errorf("path %s used twice", f.RelPath)
		}
		paths[f.RelPath] = true
		lines := strings.Split(f.Text, "\n")
		at := func(n int) string {
			if n < 1 || n > len(lines) {
				return ""
			}
			return lines[n-1]
		}
		suffixed := strings.HasSuffix(f.RelPath, "Test.java") || strings.HasSuffix(f.RelPath, "Tests.java")
		underTestDir := strings.Contains(f.RelPath, "src/test/java/")
		switch f.Role {
		case RoleTestByName:
			if !suffixed {
				return fmt.Errorf("%s: role test-by-name without the suffix", f.RelPath)
			}
		case RoleTestByDir:
			if suffixed || !underTestDir {
				return fmt.Errorf("%s: role test-by-dir", f.RelPath)
			}
		case RoleMain:
			if suffixed || underTestDir {
				return fmt.Errorf("%s: production file looks like a test file", f.RelPath)
			}
		}
		if strings.Contains(f.RelPath, "testData") {
			return fmt.Errorf("%s: path contains testData", f.RelPath)
		}
		var nonTests []*Method
		for _, m := range f.Methods {
			if !m.IsTestMethod() {
				nonTests = append(nonTests, m)
			}
		}
		for _, m := range f.Methods {
			if names[m.Name] {
				return fmt.Errorf("method name %s used twice", m.Name)
			}
			names[m.Name] = true
			if PrefixOf(m.Name) != "" && !m.IsTestMethod() {
				return fmt.Errorf("non-test method %s has an assertion prefix", m.Name)
			}
			if !strings.Contains(at(m.DeclLine), " "+m.Name+"(") {
				return fmt.Errorf("%s: declaration of %s not on line %d", f.RelPath, m.Name, m.DeclLine)
			}
			if (m.Role == RoleTestMethod) != m.IsTestMethod() {
				return fmt.Errorf("%s: role %s does not fit the annotations", m.Name, m.Role)
			}
			for _, c := range m.Calls {
				if c.Line <= m.DeclLine || c.Line >= m.EndLine {
					return fmt.Errorf("%s.%s: call line %d outside the body", f.RelPath, m.Name, c.Line)
				}
				want := c.Name + "("
				switch c.Kind {
				case KindNew:
					want = "new " + c.Type
				case KindPrint:
					want = "System.out." + c.Name + "("
				case KindSleep:
					want = "Thread.sleep("
				case KindHelper, KindForeign:
					if c.Recv != "" {
						want = c.Recv + "." + c.Name + "("
					}
				}
				if !strings.Contains(at(c.Line), want) {
					return fmt.Errorf("%s.%s: %q not on line %d (%q)", f.RelPath, m.Name, want, c.Line, at(c.Line))
				}
				if (c.Kind == KindAssert) != (c.Prefix != "") {
					return fmt.Errorf("%s.%s: call %s of kind %s has prefix %q", f.RelPath, m.Name, c.Name, c.Kind, c.Prefix)
				}
				if c.Identical && c.NArgs != 2 {
					return fmt.Errorf("%s.%s: identical arguments on a %d-argument call", f.RelPath, m.Name, c.NArgs)
				}
			}
			for _, c := range m.Refs {
				if !strings.Contains(at(c.Line), c.Recv+"::"+c.Name) {
					return fmt.Errorf("%s.%s: method reference %s::%s not on line %d", f.RelPath, m.Name, c.Recv, c.Name, c.Line)
				}
				if c.Prefix != "" {
					// an assertion reference must not be able to change a finding: the body asserts directly and
					// calls no assertion of that name
					direct, same := false, false
					for _, d := range m.Calls {
						if d.Kind == KindAssert {
							direct = true
							same = same || d.Name == c.Name
						}
					}
					if m.IsTestMethod() && (!direct || same) {
						return fmt.Errorf("%s.%s: assertion reference %s could change a finding", f.RelPath, m.Name, c.Form)
					}
				}
			}
			if f.IsTest() && m.IsTestMethod() {
				if why := Ambiguous(m.Calls, nonTests); why != "" {
					return fmt.Errorf("%s.%s: %s", f.RelPath, m.Name, why)
				}
			}
		}
	}
	return nil
}

// Shape is the structural description of a tree (no random names, no literals).
func Shape(t *Tree) string {
	var sb strings.Builder
	sb.WriteString(t.Layout)
	for _, f := range t.Files {
		sb.WriteString("|" + f.Role)
		if f.LeadingBlankLines > 0 {
			sb.WriteString("^")
		}
		for _, m := range f.Methods {
			sb.WriteString(";" + m.Role + ":" + m.AnnoClass() + ":" + m.AnnoLayout + ":")
			counts := map[string]int{}
			for _, c := range m.Calls {
				k := c.Kind
				if c.Kind == KindAssert {
					k = c.Key
				}
				if c.Identical {
					k += "=="
				}
				counts[k]++
			}
			for _, c := range m.Refs {
				counts["ref "+c.Form]++
			}
			var ks []string
			for k := range counts {
				ks = append(ks, k)
			}
			sort.Strings(ks)
			for _, k := range ks {
				sb.WriteString(fmt.Sprintf("%s*%d,", k, counts[k]))
			}
		}
	}
	return sb.String()
}
