package testsmellgen

import (
	"strconv"
	"strings"
)

// stmt is one planted statement: its source lines (without indentation) and the calls written in it.
// Until a file is rendered, Call.Line holds the 0-based offset of the call's line inside lines.
type stmt struct {
	lines []string
	calls []Call
	refs  []Call // method references written in the statement (Kind KindMethodRef); not calls
	what  string // evidence class of the statement (print, sleep, redundant, assert:<prefix>, plain, lookalike, new, helper, foreign, decoy)
}

// cs is a call specification inside a form.
type cs struct {
	kind, form, recv, name string
	nargs                  int
}

// form is a statement template. Placeholders: {A} {B} two different atoms, {I} {J} two different identifiers,
// {S} a string literal, {N} {M} two different integers, {U} a number unique in the tree.
type form struct {
	tmpl  string
	calls []cs // calls[0] is the principal call
}

func (f form) single() bool { return len(f.calls) == 1 }

func mkCall(c cs) Call {
	call := Call{Kind: c.kind, Form: c.form, Recv: c.recv, Name: c.name, NArgs: c.nargs, Prefix: PrefixOf(c.name)}
	call.Key = c.recv + "." + c.name + "/" + strconv.Itoa(c.nargs)
	if c.kind == KindNew {
		call.Type = c.name
		call.Name = ""
		call.Prefix = ""
		call.Key = "new " + c.name
	}
	return call
}

// long argument texts (more than 64 characters each, white space between tokens not counted)
const (
	longStringA = `"order 4711 for customer alice was accepted yesterday evening and is now waiting for shipment to Hamburg"`
	longStringB = `"order 4711 for customer alice was accepted yesterday evening and is now waiting for shipment to Bremen"`
	longChain   = "fixture.customer.billingAddress.country.isoCode.alpha3.normalizedUpperCaseValue"
	longCall    = `repo.findByCustomerNameAndOrderStatusOrderedByDate("alice", Status.OPEN).get(0)`
	fUnqLong    = "unqualified-long-arguments"
)

const (
	fUnq     = "unqualified"
	fRecv    = "receiver"
	fStatic  = "static-qualified"
	fChained = "chained"
	fNested  = "nested-in-arguments"
	fThis    = "this-qualified"
)

// Assertion forms per documented prefix. Every name starts (case-insensitively) with its prefix and with no other
// documented prefix earlier in the list.
var assertForms = map[string][]form{
	"assert": {
		{"assertEquals({A}, {B});", []cs{{KindAssert, fUnq, "", "assertEquals", 2}}},
		{"assertEquals({S}, {A}, {B});", []cs{{KindAssert, fUnq, "", "assertEquals", 3}}},
		{"assertEquals({S}, {A}, {A});", []cs{{KindAssert, fUnq, "", "assertEquals", 3}}}, // three arguments, two identical: no redundant assertion
		{"assertEquals({A}, {A}, {S});", []cs{{KindAssert, fUnq, "", "assertEquals", 3}}}, // JUnit 5 order (message last): still not a two-argument call
		{"assertTrue({I} != null);", []cs{{KindAssert, fUnq, "", "assertTrue", 1}}},
		{"assertFalse({I} == null);", []cs{{KindAssert, fUnq, "", "assertFalse", 1}}},
		{"assertNotNull({I});", []cs{{KindAssert, fUnq, "", "assertNotNull", 1}}},
		{"assertSame({I}, {J});", []cs{{KindAssert, fUnq, "", "assertSame", 2}}},
		{"Assert.assertEquals({A}, {B});", []cs{{KindAssert, fStatic, "Assert", "assertEquals", 2}}},
		{"Assertions.assertTrue({I} != null);", []cs{{KindAssert, fStatic, "Assertions", "assertTrue", 1}}},
		{"assertThat({I}).isEqualTo({A});", []cs{{KindAssert, fUnq, "", "assertThat", 1}, {KindAssert, fChained, "assertThat()", "isEqualTo", 1}}},
		{"assertThat({I}, is({A}));", []cs{{KindAssert, fUnq, "", "assertThat", 2}, {KindAssert, fNested, "", "is", 1}}},
		// two arguments longer than 64 characters that differ only near their end: not identical
		{"assertEquals(" + longStringA + ", " + longStringB + ");", []cs{{KindAssert, fUnqLong, "", "assertEquals", 2}}},
		{"assertSame(" + longChain + ".expectedText, " + longChain + ".actualText);", []cs{{KindAssert, fUnqLong, "", "assertSame", 2}}},
		{"assertNotEquals(" + longCall + ".getTotal(), " + longCall + ".getDiscountedTotal());", []cs{{KindAssert, fUnqLong, "", "assertNotEquals", 2},
			{KindPlain, fRecv, "repo", "findByCustomerNameAndOrderStatusOrderedByDate", 2}, {KindPlain, fChained, "findByCustomerNameAndOrderStatusOrderedByDate()", "get", 1}, {KindPlain, fChained, "get()", "getTotal", 0},
			{KindPlain, fRecv, "repo", "findByCustomerNameAndOrderStatusOrderedByDate", 2}, {KindPlain, fChained, "findByCustomerNameAndOrderStatusOrderedByDate()", "get", 1}, {KindPlain, fChained, "get()", "getDiscountedTotal", 0}}},
		{"assertThrows(IllegalStateException.class, () -> service.execute());", []cs{{KindAssert, fUnq, "", "assertThrows", 2}, {KindPlain, fNested, "service", "execute", 0}}},
	},
	"should": {
		{"shouldBeValid({I});", []cs{{KindAssert, fUnq, "", "shouldBeValid", 1}}},
		{"subject.shouldEqual({A});", []cs{{KindAssert, fRecv, "subject", "shouldEqual", 1}}},
		{"shouldHaveSize(items, {N});", []cs{{KindAssert, fUnq, "", "shouldHaveSize", 2}}},
	},
	"check": {
		{"rule.check(classes);", []cs{{KindAssert, fRecv, "rule", "check", 1}}},
		{"checkState({I});", []cs{{KindAssert, fUnq, "", "checkState", 1}}},
		{"checkResult({A}, {B});", []cs{{KindAssert, fUnq, "", "checkResult", 2}}},
		{"Preconditions.checkNotNull({I});", []cs{{KindAssert, fStatic, "Preconditions", "checkNotNull", 1}}},
	},
	"maynotbe": {
		{"layers.mayNotBeAccessedByAnyLayer();", []cs{{KindAssert, fRecv, "layers", "mayNotBeAccessedByAnyLayer", 0}}},
		{"mayNotBeEmpty({I});", []cs{{KindAssert, fUnq, "", "mayNotBeEmpty", 1}}},
	},
	"is": {
		{"response.isOk();", []cs{{KindAssert, fRecv, "response", "isOk", 0}}},
		{"matcher.isEqualTo({A});", []cs{{KindAssert, fRecv, "matcher", "isEqualTo", 1}}},
		{"isValid({I});", []cs{{KindAssert, fUnq, "", "isValid", 1}}},
		{"response.body({S}, is({A}));", []cs{{KindAssert, fNested, "", "is", 1}, {KindPlain, fRecv, "response", "body", 2}}},
	},
	"spec": {
		{"spec(requestSpec);", []cs{{KindAssert, fUnq, "", "spec", 1}}},
		{"request.spec(requestSpec);", []cs{{KindAssert, fRecv, "request", "spec", 1}}},
		{"given().spec(requestSpec);", []cs{{KindAssert, fChained, "given()", "spec", 1}, {KindPlain, fUnq, "", "given", 0}}},
		{"specification({I});", []cs{{KindAssert, fUnq, "", "specification", 1}}},
	},
	"verify": {
		{"verify(mockRepo).save({I});", []cs{{KindAssert, fUnq, "", "verify", 1}, {KindPlain, fChained, "verify()", "save", 1}}},
		{"verifyNoMoreInteractions(mockRepo);", []cs{{KindAssert, fUnq, "", "verifyNoMoreInteractions", 1}}},
		{"Mockito.verify(mockRepo);", []cs{{KindAssert, fStatic, "Mockito", "verify", 1}}},
		{"mockServer.verify();", []cs{{KindAssert, fRecv, "mockServer", "verify", 0}}},
	},
}

// Redundant assertions: a two-argument call whose arguments are textually identical.
var redundantForms = []form{
	{"assertEquals(true, true);", []cs{{KindAssert, fUnq, "", "assertEquals", 2}}},
	{"assertEquals({A}, {A});", []cs{{KindAssert, fUnq, "", "assertEquals", 2}}},
	{"assertSame({I}, {I});", []cs{{KindAssert, fUnq, "", "assertSame", 2}}},
	{"Assert.assertEquals({S}, {S});", []cs{{KindAssert, fStatic, "Assert", "assertEquals", 2}}},
	{"checkResult({A}, {A});", []cs{{KindAssert, fUnq, "", "checkResult", 2}}},
	// genuinely identical arguments longer than 64 characters
	{"assertEquals(" + longStringA + ", " + longStringA + ");", []cs{{KindAssert, fUnqLong, "", "assertEquals", 2}}},
	{"assertSame(" + longChain + ".expectedText, " + longChain + ".expectedText);", []cs{{KindAssert, fUnqLong, "", "assertSame", 2}}},
	{"compare({A}, {A});", []cs{{KindPlain, fUnq, "", "compare", 2}}},
	{"calc.add({N}, {N});", []cs{{KindPlain, fRecv, "calc", "add", 2}}},
}

var printForms = []form{
	{"System.out.println({S});", []cs{{KindPrint, "System.out.println", "System.out", "println", 1}}},
	{"System.out.println({S} + {I});", []cs{{KindPrint, "System.out.println", "System.out", "println", 1}}},
	{"System.out.println();", []cs{{KindPrint, "System.out.println", "System.out", "println", 0}}},
	{"System.out.print({I});", []cs{{KindPrint, "System.out.print", "System.out", "print", 1}}},
	{"System.out.print({S});", []cs{{KindPrint, "System.out.print", "System.out", "print", 1}}},
	{"System.out.printf({S}, {I});", []cs{{KindPrint, "System.out.printf", "System.out", "printf", 2}}},
	{"System.out.printf(\"%d %d%n\", {N}, {M});", []cs{{KindPrint, "System.out.printf", "System.out", "printf", 3}}},
	{"System.out.println(calc.add({N}, {M}));", []cs{{KindPrint, "System.out.println", "System.out", "println", 1}, {KindPlain, fNested, "calc", "add", 2}}},
}

// print / sleep calls that are, in addition, two-argument calls with identical arguments
var identicalPrintForms = []form{
	{"System.out.printf({S}, {S});", []cs{{KindPrint, "System.out.printf", "System.out", "printf", 2}}},
}

var identicalSleepForms = []form{
	{"Thread.sleep({N}, {N});", []cs{{KindSleep, "Thread.sleep", "Thread", "sleep", 2}}},
}

var sleepForms = []form{
	{"Thread.sleep({N}00);", []cs{{KindSleep, "Thread.sleep", "Thread", "sleep", 1}}},
	{"Thread.sleep(1000L);", []cs{{KindSleep, "Thread.sleep", "Thread", "sleep", 1}}},
	{"Thread.sleep(delay);", []cs{{KindSleep, "Thread.sleep", "Thread", "sleep", 1}}},
	{"Thread.sleep({N}, {M});", []cs{{KindSleep, "Thread.sleep", "Thread", "sleep", 2}}},
}

// Plain calls: names with no documented assertion prefix.
var plainForms = []form{
	{"calc.add({N}, {M});", []cs{{KindPlain, fRecv, "calc", "add", 2}}},
	{"int sum{U} = calc.add({N}, {M});", []cs{{KindPlain, fRecv, "calc", "add", 2}}},
	{"service.load({S});", []cs{{KindPlain, fRecv, "service", "load", 1}}},
	{"Show({A}, {B});", []cs{{KindPlain, fUnq, "", "Show", 2}}},
	{"repo.store({I});", []cs{{KindPlain, fRecv, "repo", "store", 1}}},
	{"prepareFixture();", []cs{{KindPlain, fUnq, "", "prepareFixture", 0}}},
	{"this.resetState();", []cs{{KindPlain, fThis, "this", "resetState", 0}}},
	{"String text{U} = String.valueOf({N});", []cs{{KindPlain, fStatic, "String", "valueOf", 1}}},
	{"items.add({S});", []cs{{KindPlain, fRecv, "items", "add", 1}}},
	{"boolean ok{U} = XmlSanitizer.sanitize({S});", []cs{{KindPlain, fStatic, "XmlSanitizer", "sanitize", 1}}},
	{"builder.name({S}).build();", []cs{{KindPlain, fRecv, "builder", "name", 1}, {KindPlain, fChained, "name()", "build", 0}}},
}

// Look-alikes: calls that resemble print / sleep evidence but are not System.out.print* / Thread.sleep.
var lookalikeForms = []form{
	{"System.err.println({S});", []cs{{KindPlain, "System.err.println", "System.err", "println", 1}}},
	{"System.out.flush();", []cs{{KindPlain, "System.out.flush", "System.out", "flush", 0}}},
	{"System.out.format({S}, {I});", []cs{{KindPlain, "System.out.format", "System.out", "format", 2}}},
	{"writer.println({S});", []cs{{KindPlain, "writer.println", "writer", "println", 1}}},
	{"logger.print({I});", []cs{{KindPlain, "logger.print", "logger", "print", 1}}},
	{"timer.sleep({N});", []cs{{KindPlain, "timer.sleep", "timer", "sleep", 1}}},
	{"TimeUnit.SECONDS.sleep({N});", []cs{{KindPlain, "TimeUnit.SECONDS.sleep", "TimeUnit.SECONDS", "sleep", 1}}},
	{"sleep({N});", []cs{{KindPlain, "unqualified-sleep", "", "sleep", 1}}},
	{"Thread.yield();", []cs{{KindPlain, "Thread.yield", "Thread", "yield", 0}}},
	{"Thread worker{U} = Thread.currentThread();", []cs{{KindPlain, "Thread.currentThread", "Thread", "currentThread", 0}}},
}

// new expressions (never the only calls of a body: whether `new` alone is "a call" is left open by the statement).
var newForms = []form{
	{"Calc calc{U} = new Calc();", []cs{{KindNew, "new", "", "Calc", 0}}},
	{"new Widget({N});", []cs{{KindNew, "new", "", "Widget", 1}}},
	{"Object marker{U} = new Object();", []cs{{KindNew, "new", "", "Object", 0}}},
	{"Order order{U} = new Order({S}, {N});", []cs{{KindNew, "new", "", "Order", 2}}},
}

// Statements without any call (and text that only looks like evidence).
var decoyLines = []string{
	"// System.out.println(\"debug\");",
	"// Thread.sleep(1000);",
	"/* assertEquals(1, 1); */",
	"// assertEquals(expected, actual);",
	"String note{U} = \"Thread.sleep(5); System.out.println(x); assertEquals(1, 1)\";",
	"int limit{U} = {N};",
	"String label{U} = {S} + {N};",
	"boolean ready{U} = {N} > {M};",
	"// TODO: implement",
	"",
}

var identAtoms = []string{"expected", "actual", "result", "total", "count", "input", "value", "name"}
var litAtoms = []string{"1", "2", "42", "0", "true", "false", "\"abc\"", "\"a b\"", "3.5", "'c'", "null", "-1"}
var stringAtoms = []string{"\"abc\"", "\"result = \"", "\"a b c\"", "\"%s%n\"", "\"Fritzbox is valid\"", "\"x\"", "\"sleep\"", "\"assert\""}

func (g *gen) fill(tmpl string) string {
	out := tmpl
	if strings.Contains(out, "{A}") || strings.Contains(out, "{B}") {
		all := append(append([]string{}, identAtoms...), litAtoms...)
		a := g.r.Intn(len(all))
		b := g.r.Intn(len(all) - 1)
		if b >= a {
			b++
		}
		out = strings.ReplaceAll(out, "{A}", all[a])
		out = strings.ReplaceAll(out, "{B}", all[b])
	}
	if strings.Contains(out, "{I}") || strings.Contains(out, "{J}") {
		a := g.r.Intn(len(identAtoms))
		b := g.r.Intn(len(identAtoms) - 1)
		if b >= a {
			b++
		}
		out = strings.ReplaceAll(out, "{I}", identAtoms[a])
		out = strings.ReplaceAll(out, "{J}", identAtoms[b])
	}
	if strings.Contains(out, "{N}") || strings.Contains(out, "{M}") {
		a := g.r.Range(1, 9)
		b := g.r.Range(1, 8)
		if b >= a {
			b++
		}
		out = strings.ReplaceAll(out, "{N}", strconv.Itoa(a))
		out = strings.ReplaceAll(out, "{M}", strconv.Itoa(b))
	}
	for strings.Contains(out, "{S}") {
		// every {S} of one template gets the same literal (templates use it for "identical" arguments too)
		out = strings.ReplaceAll(out, "{S}", g.r.Pick(stringAtoms))
	}
	if strings.Contains(out, "{U}") {
		g.seq++
		out = strings.ReplaceAll(out, "{U}", strconv.Itoa(g.seq))
	}
	return out
}

// build instantiates a form as a one-line statement.
func (g *gen) build(f form, what string) stmt {
	text := g.fill(f.tmpl)
	s := stmt{lines: []string{text}, what: what}
	for _, c := range f.calls {
		call := mkCall(c)
		call.Text = text
		s.calls = append(s.calls, call)
	}
	return s
}

// identicalTwo marks the calls of a redundant form: the principal call has two identical arguments.
func markIdentical(s stmt) stmt {
	s.calls[0].Identical = true
	return s
}

// Method references passed as arguments. The enclosing call is an ordinary (plain) call; the reference itself is
// recorded apart from the calls: whether `Thread::sleep` is "a Thread.sleep call" is not settled by the statement.
type refForm struct {
	tmpl  string
	calls []cs
	recv  string // left of "::"
	name  string // right of "::"
}

var sleepRefForms = []refForm{
	{"waitWith(Thread::sleep, {N}0);", []cs{{KindPlain, fUnq, "", "waitWith", 2}}, "Thread", "sleep"},
	{"retry.run(Thread::sleep);", []cs{{KindPlain, fRecv, "retry", "run", 1}}, "Thread", "sleep"},
}

var printRefForms = []refForm{
	{"items.forEach(System.out::println);", []cs{{KindPlain, fRecv, "items", "forEach", 1}}, "System.out", "println"},
	{"values.forEach(System.out::print);", []cs{{KindPlain, fRecv, "values", "forEach", 1}}, "System.out", "print"},
}

var assertRefForms = []refForm{
	{"flags.forEach(Assert::assertTrue);", []cs{{KindPlain, fRecv, "flags", "forEach", 1}}, "Assert", "assertTrue"},
	{"results.forEach(Assertions::assertNotNull);", []cs{{KindPlain, fRecv, "results", "forEach", 1}}, "Assertions", "assertNotNull"},
}

var neutralRefForms = []refForm{
	{"names.forEach(builder::append);", []cs{{KindPlain, fRecv, "names", "forEach", 1}}, "builder", "append"},
}

func (g *gen) buildRef(f refForm, what string) stmt {
	s := g.build(form{f.tmpl, f.calls}, what)
	s.refs = []Call{{Kind: KindMethodRef, Form: f.recv + "::" + f.name, Recv: f.recv, Name: f.name, Prefix: PrefixOf(f.name), Text: s.lines[0]}}
	return s
}
