package testsmellgen

import (
	"strconv"
	"strings"

	"verifharness/run"
)

type gen struct {
	r   *run.Rand
	seq int
}

func (g *gen) uniq(base string) string {
	g.seq++
	return base + strconv.Itoa(g.seq)
}

func (g *gen) weighted(xs ...int) int { return xs[g.r.Intn(len(xs))] }

type style struct {
	unit   string // one indentation level
	allman bool   // opening brace of methods on its own line
	blank  bool   // blank line between members
}

type mplan struct {
	m      *Method
	stmts  []stmt
	header string // "public void name() throws Exception"
}

type cplan struct {
	f         *File
	sty       style
	imports   []string
	classAnno string
	extends   string
	fields    []string
	methods   []*mplan
	shared    *mplan // static method that other classes may call
	comment   string
	lead      []string // blank / white-space-only lines before the first token of the file
}

// body collects the statements of one method and keeps "one assertion method name = one receiver form and arity".
type body struct {
	stmts   []stmt
	nameKey map[string]string
}

func newBody() *body { return &body{nameKey: map[string]string{}} }

func (b *body) fits(s stmt) bool {
	for _, c := range s.calls {
		if c.Prefix != "" {
			if k, ok := b.nameKey[c.Name]; ok && k != c.Key {
				return false
			}
		}
	}
	return true
}

func (b *body) add(s stmt) bool {
	if !b.fits(s) {
		return false
	}
	for _, c := range s.calls {
		if c.Prefix != "" {
			b.nameKey[c.Name] = c.Key
		}
	}
	b.stmts = append(b.stmts, s)
	return true
}

// pickForm draws a form that fits the body (up to 8 tries).
func (g *gen) pickForm(b *body, forms []form, what string, singleOnly bool) (form, bool) {
	for try := 0; try < 8; try++ {
		f := forms[g.r.Intn(len(forms))]
		if singleOnly && !f.single() {
			continue
		}
		if b.fits(g.build(f, what)) {
			return f, true
		}
	}
	return form{}, false
}

func (g *gen) addForms(b *body, forms []form, what string, n int, singleOnly bool, identical bool) {
	for i := 0; i < n; i++ {
		if f, ok := g.pickForm(b, forms, what, singleOnly); ok {
			s := g.build(f, what)
			if identical {
				s = markIdentical(s)
			}
			b.add(s)
		}
	}
}

func (g *gen) addPrints(b *body, n int, singleOnly bool) {
	for i := 0; i < n; i++ {
		if !singleOnly && g.r.Chance(1, 12) {
			b.add(markIdentical(g.build(identicalPrintForms[0], "print+redundant")))
			continue
		}
		g.addForms(b, printForms, "print", 1, singleOnly, false)
	}
}

func (g *gen) addSleeps(b *body, n int) {
	for i := 0; i < n; i++ {
		if g.r.Chance(1, 14) {
			b.add(markIdentical(g.build(identicalSleepForms[0], "sleep+redundant")))
			continue
		}
		g.addForms(b, sleepForms, "sleep", 1, true, false)
	}
}

// addAssertGroup plants one assertion method of the given prefix mult times.
func (g *gen) addAssertGroup(b *body, prefix string, mult int, singleOnly bool) {
	f, ok := g.pickForm(b, assertForms[prefix], "assert:"+prefix, singleOnly)
	if !ok {
		return
	}
	for i := 0; i < mult; i++ {
		b.add(g.build(f, "assert:"+prefix))
	}
}

func (g *gen) helperCall(cls string, h *Method) stmt {
	formName, text, recv := fUnq, h.Name+"();", ""
	switch k := g.r.Intn(10); {
	case k < 2:
		formName, text, recv = fThis, "this."+h.Name+"();", "this"
	case k < 4 && h.Static:
		formName, text, recv = "class-qualified", cls+"."+h.Name+"();", cls
	}
	c := Call{Kind: KindHelper, Form: formName, Recv: recv, Name: h.Name, Target: h.Name, Key: "helper " + h.Name, Text: text}
	return stmt{lines: []string{text}, calls: []Call{c}, what: "helper"}
}

func (g *gen) foreignCall(target string) stmt {
	text := target + "();"
	i := strings.Index(target, ".")
	c := Call{Kind: KindForeign, Form: fStatic, Recv: target[:i], Name: target[i+1:], Target: target, Key: "foreign " + target, Text: text}
	return stmt{lines: []string{text}, calls: []Call{c}, what: "foreign"}
}

func hasAssertion(m *Method) bool {
	for _, c := range m.Calls {
		if c.Kind == KindAssert {
			return true
		}
	}
	return false
}

var profiles = []string{"empty", "one", "one", "two", "dup", "dup", "dup", "noassert", "noassert", "helper", "helper", "plainrepeat", "mixed", "mixed", "mixed", "mixed", "mixed"}

// composeTest builds the evidence of one test method.
func (g *gen) composeTest(cls string, profile string, helpers []*Method, foreign []string) []stmt {
	b := newBody()
	var withAssert, withoutAssert []*Method
	for _, h := range helpers {
		if hasAssertion(h) {
			withAssert = append(withAssert, h)
		} else {
			withoutAssert = append(withoutAssert, h)
		}
	}
	prefix := func() string { return g.r.Pick(DocumentedAssertionPrefixes) }
	single := func() {
		// one statement with exactly one call
		for tries := 0; tries < 6; tries++ {
			before := len(b.stmts)
			switch g.r.Intn(10) {
			case 0:
				g.addForms(b, plainForms, "plain", 1, true, false)
			case 1:
				g.addForms(b, lookalikeForms, "lookalike", 1, true, false)
			case 2, 3:
				g.addAssertGroup(b, prefix(), 1, true)
			case 4:
				g.addPrints(b, 1, true)
			case 5:
				g.addForms(b, sleepForms, "sleep", 1, true, false)
			case 6:
				g.addForms(b, redundantForms, "redundant", 1, true, true)
			case 7:
				if len(helpers) > 0 {
					b.add(g.helperCall(cls, helpers[g.r.Intn(len(helpers))]))
				}
			case 8:
				if len(withAssert) > 0 {
					b.add(g.helperCall(cls, withAssert[g.r.Intn(len(withAssert))]))
				}
			case 9:
				if len(foreign) > 0 {
					b.add(g.foreignCall(g.r.Pick(foreign)))
				}
			}
			if len(b.stmts) > before {
				return
			}
		}
		g.addForms(b, plainForms, "plain", 1, true, false)
	}
	switch profile {
	case "empty":
	case "one":
		single()
	case "two":
		if g.r.Chance(1, 4) {
			// one statement that makes two calls
			if g.r.Bool() {
				b.add(g.build(assertForms["verify"][0], "assert:verify"))
			} else {
				b.add(g.build(plainForms[len(plainForms)-1], "plain"))
			}
		} else {
			single()
			single()
		}
	case "dup":
		g.addAssertGroup(b, prefix(), g.weighted(3, 4, 4, 4, 5, 5, 5, 6, 6, 6, 7), false)
		if g.r.Chance(2, 5) {
			g.addAssertGroup(b, prefix(), g.weighted(1, 2, 4, 4, 5), false)
		}
		g.addPrints(b, g.weighted(0, 0, 1), false)
		g.addForms(b, plainForms, "plain", g.weighted(0, 0, 1, 2), false, false)
		g.addForms(b, redundantForms, "redundant", g.weighted(0, 0, 0, 1), true, true)
	case "noassert":
		g.addForms(b, plainForms, "plain", g.weighted(1, 1, 2, 3, 4), false, false)
		g.addPrints(b, g.weighted(0, 0, 1, 2, 3), false)
		g.addSleeps(b, g.weighted(0, 0, 0, 1, 2))
		g.addForms(b, lookalikeForms, "lookalike", g.weighted(0, 0, 1, 2), true, false)
		g.addForms(b, newForms, "new", g.weighted(0, 0, 1), true, false)
		if len(withoutAssert) > 0 && g.r.Chance(1, 2) {
			b.add(g.helperCall(cls, withoutAssert[g.r.Intn(len(withoutAssert))]))
		}
		if len(foreign) > 0 && g.r.Chance(1, 2) {
			b.add(g.foreignCall(g.r.Pick(foreign)))
		}
		if g.r.Chance(1, 5) {
			// a plain two-argument call with identical arguments
			b.add(markIdentical(g.build(redundantForms[len(redundantForms)-1-g.r.Intn(2)], "redundant")))
		}
	case "helper":
		if len(withAssert) == 0 {
			g.addForms(b, plainForms, "plain", g.weighted(1, 2), false, false)
		} else {
			for i, n := 0, g.weighted(1, 1, 1, 2); i < n; i++ {
				b.add(g.helperCall(cls, withAssert[g.r.Intn(len(withAssert))]))
			}
		}
		g.addForms(b, plainForms, "plain", g.weighted(0, 0, 1, 2, 3), false, false)
		g.addPrints(b, g.weighted(0, 0, 1, 2), false)
		g.addSleeps(b, g.weighted(0, 0, 0, 1))
	case "plainrepeat":
		f := plainForms[g.r.Intn(2)]
		for i, n := 0, g.weighted(5, 5, 6, 7); i < n; i++ {
			b.add(g.build(f, "plain"))
		}
		if g.r.Bool() {
			g.addAssertGroup(b, prefix(), g.weighted(1, 2), false)
		}
	default: // mixed
		g.addPrints(b, g.weighted(0, 0, 0, 1, 1, 2, 3, 7), false)
		g.addSleeps(b, g.weighted(0, 0, 0, 0, 1, 1, 2, 5))
		g.addForms(b, redundantForms, "redundant", g.weighted(0, 0, 0, 1, 1, 2, 3), true, true)
		for i, n := 0, g.weighted(0, 1, 1, 2, 3); i < n; i++ {
			g.addAssertGroup(b, prefix(), g.weighted(1, 1, 1, 2, 3, 4, 5, 6), false)
		}
		g.addForms(b, plainForms, "plain", g.weighted(0, 0, 1, 2, 3), false, false)
		g.addForms(b, lookalikeForms, "lookalike", g.weighted(0, 0, 0, 1), true, false)
		g.addForms(b, newForms, "new", g.weighted(0, 0, 0, 1, 2), true, false)
		if len(helpers) > 0 {
			for i, n := 0, g.weighted(0, 0, 1, 1, 2); i < n; i++ {
				b.add(g.helperCall(cls, helpers[g.r.Intn(len(helpers))]))
			}
		}
		if len(foreign) > 0 && g.r.Chance(1, 5) {
			b.add(g.foreignCall(g.r.Pick(foreign)))
		}
	}
	stmts := g.guard(b.stmts, helpers)
	stmts = append(stmts, g.refStatements(profile, stmts)...)
	// any order
	out := make([]stmt, len(stmts))
	for i, j := range g.r.Perm(len(stmts)) {
		out[i] = stmts[j]
	}
	return out
}

// refStatements: method references passed as arguments. Thread::sleep / System.out::print* anywhere (the findings
// at their lines are left open), Assert::assertTrue only where it cannot change any expected finding: the body
// asserts directly anyway and does not call an assertion of that name.
func (g *gen) refStatements(profile string, body []stmt) []stmt {
	switch profile {
	case "dup", "noassert", "helper", "mixed":
	default:
		return nil // bodies with an exact number of calls stay as drawn
	}
	var out []stmt
	if g.r.Chance(1, 9) {
		out = append(out, g.buildRef(sleepRefForms[g.r.Intn(len(sleepRefForms))], "ref:sleep"))
	}
	if g.r.Chance(1, 10) {
		out = append(out, g.buildRef(printRefForms[g.r.Intn(len(printRefForms))], "ref:print"))
	}
	if g.r.Chance(1, 14) {
		out = append(out, g.buildRef(neutralRefForms[0], "ref:neutral"))
	}
	if g.r.Chance(1, 6) {
		f := assertRefForms[g.r.Intn(len(assertRefForms))]
		direct, sameName := false, false
		for _, c := range collect(body) {
			if c.Kind == KindAssert {
				direct = true
				if c.Name == f.name {
					sameName = true
				}
			}
		}
		if direct && !sameName {
			out = append(out, g.buildRef(f, "ref:assert"))
		}
	}
	return out
}

func helperByName(helpers []*Method, name string) *Method {
	for _, h := range helpers {
		if h.Name == name {
			return h
		}
	}
	return nil
}

// guard removes what the statement leaves open:
//   - `new` expressions in a body that makes no method call (is `new` alone "a call"?),
//   - helper calls when one assertion method would reach 5 calls only together with the helpers' own calls, or when
//     the same assertion name is used with another receiver form / arity in a helper.
func (g *gen) guard(stmts []stmt, helpers []*Method) []stmt {
	if Ambiguous(collect(stmts), helpers) != "" {
		var kept []stmt
		for _, s := range stmts {
			if s.what != "helper" {
				kept = append(kept, s)
			}
		}
		stmts = kept
	}
	methodCalls := 0
	for _, s := range stmts {
		for _, c := range s.calls {
			if c.Kind != KindNew {
				methodCalls++
			}
		}
	}
	if methodCalls == 0 {
		var kept []stmt
		for _, s := range stmts {
			if s.what != "new" {
				kept = append(kept, s)
			}
		}
		stmts = kept
	}
	return stmts
}

func collect(stmts []stmt) []Call {
	var cs []Call
	for _, s := range stmts {
		cs = append(cs, s.calls...)
	}
	return cs
}

// Ambiguous explains why a test body (given the non-test methods of its class) is outside what the statement
// settles, or returns "".
func Ambiguous(calls []Call, helpers []*Method) string {
	direct := map[string]int{}
	total := map[string]int{}
	nameKey := map[string]string{}
	var keys []string
	note := func(c Call, isDirect bool) string {
		if c.Kind != KindAssert {
			return ""
		}
		if k, ok := nameKey[c.Name]; ok && k != c.Key {
			return "assertion name " + c.Name + " used as " + k + " and " + c.Key
		}
		nameKey[c.Name] = c.Key
		if _, ok := total[c.Key]; !ok {
			keys = append(keys, c.Key)
		}
		total[c.Key]++
		if isDirect {
			direct[c.Key]++
		}
		return ""
	}
	methodCalls, news := 0, 0
	for _, c := range calls {
		if c.Kind == KindNew {
			news++
		} else {
			methodCalls++
		}
		if why := note(c, true); why != "" {
			return why
		}
	}
	if methodCalls == 0 && news > 0 {
		return "body whose only calls are new expressions"
	}
	for _, c := range calls {
		if c.Kind != KindHelper {
			continue
		}
		h := helperByName(helpers, c.Target)
		if h == nil {
			return "helper " + c.Target + " not found in the class"
		}
		for _, hc := range h.Calls {
			switch hc.Kind {
			case KindPrint, KindSleep, KindHelper, KindForeign:
				return "called helper contains a " + hc.Kind + " call"
			}
			if hc.Identical {
				return "called helper contains a two-argument call with identical arguments"
			}
			if why := note(hc, false); why != "" {
				return why
			}
		}
	}
	for _, k := range keys {
		if direct[k] < 5 && total[k] >= 5 {
			return "assertion " + k + " reaches 5 calls only together with helper bodies"
		}
	}
	return ""
}

// composeHelper: a non-test method that tests of its class may call: assertions (or none), plain calls, new.
func (g *gen) composeHelper(withAssert bool) []stmt {
	b := newBody()
	if g.r.Chance(1, 10) {
		return nil // helper that makes no call
	}
	if withAssert {
		for i, n := 0, g.weighted(1, 1, 2); i < n; i++ {
			g.addAssertGroup(b, g.r.Pick(DocumentedAssertionPrefixes), g.weighted(1, 1, 2, 3), false)
		}
	}
	n := g.weighted(0, 1, 1, 2)
	if !withAssert && n == 0 {
		n = 1
	}
	g.addForms(b, plainForms, "plain", n, false, false)
	if len(b.stmts) > 0 {
		g.addForms(b, newForms, "new", g.weighted(0, 0, 1), true, false)
		if g.r.Chance(1, 12) {
			// a method reference in a helper that tests call
			b.stmts = append(b.stmts, g.buildRef(sleepRefForms[g.r.Intn(len(sleepRefForms))], "ref:sleep"))
		}
	}
	out := make([]stmt, len(b.stmts))
	for i, j := range g.r.Perm(len(b.stmts)) {
		out[i] = b.stmts[j]
	}
	return out
}

// composeOther: a method without @Test/@Ignore carrying the same patterns as tests.
func (g *gen) composeOther() []stmt {
	b := newBody()
	g.addPrints(b, g.weighted(0, 1, 1, 2), false)
	g.addSleeps(b, g.weighted(0, 0, 1, 2))
	g.addForms(b, redundantForms, "redundant", g.weighted(0, 0, 1, 2), true, true)
	for i, n := 0, g.weighted(0, 1, 1, 2); i < n; i++ {
		g.addAssertGroup(b, g.r.Pick(DocumentedAssertionPrefixes), g.weighted(1, 2, 5, 6), false)
	}
	g.addForms(b, plainForms, "plain", g.weighted(0, 1, 2), false, false)
	if g.r.Chance(1, 10) {
		b.stmts = append(b.stmts, g.buildRef(sleepRefForms[g.r.Intn(len(sleepRefForms))], "ref:sleep"))
	}
	if g.r.Chance(1, 10) {
		b.stmts = append(b.stmts, g.buildRef(printRefForms[g.r.Intn(len(printRefForms))], "ref:print"))
	}
	if g.r.Chance(1, 8) {
		b.stmts = nil // empty body
	}
	out := make([]stmt, len(b.stmts))
	for i, j := range g.r.Perm(len(b.stmts)) {
		out[i] = b.stmts[j]
	}
	return out
}

// decorate adds what surrounds evidence in real tests: comments and declarations without calls, blocks,
// several statements on a line, argument lists continued on the next line.
func (g *gen) decorate(stmts []stmt, sty style) []stmt {
	var out []stmt
	for _, s := range stmts {
		// continue the argument list of a single print / sleep call on the next line (the call starts where its name is)
		if len(s.lines) == 1 && len(s.calls) == 1 && (s.calls[0].Kind == KindPrint || s.calls[0].Kind == KindSleep) && s.calls[0].NArgs > 0 && g.r.Chance(1, 7) {
			text := s.lines[0]
			i := strings.Index(text, s.calls[0].Name+"(") + len(s.calls[0].Name) + 1
			s.lines = []string{text[:i], sty.unit + sty.unit + text[i:]}
		}
		out = append(out, s)
	}
	// decoys
	for i, n := 0, g.weighted(0, 0, 1, 1, 2, 3); i < n; i++ {
		d := stmt{lines: []string{g.fill(g.r.Pick(decoyLines))}, what: "decoy"}
		at := g.r.Intn(len(out) + 1)
		out = append(out[:at], append([]stmt{d}, out[at:]...)...)
	}
	// two statements on one line
	if len(out) >= 2 && g.r.Chance(1, 6) {
		i := g.r.Intn(len(out) - 1)
		a, b := out[i], out[i+1]
		if len(a.lines) == 1 && len(b.lines) == 1 && a.what != "decoy" && b.what != "decoy" {
			m := stmt{lines: []string{a.lines[0] + " " + b.lines[0]}, what: a.what + "+" + b.what}
			m.calls = append(append([]Call{}, a.calls...), b.calls...)
			m.refs = append(append([]Call{}, a.refs...), b.refs...)
			out = append(out[:i], append([]stmt{m}, out[i+2:]...)...)
		}
	}
	// a block around a run of statements
	if len(out) >= 1 && g.r.Chance(1, 3) {
		from := g.r.Intn(len(out))
		to := from + g.r.Range(1, 3)
		if to > len(out) {
			to = len(out)
		}
		var open string
		var tail []string
		switch g.r.Intn(4) {
		case 0:
			open, tail = "if (ready) {", []string{"}"}
		case 1:
			open, tail = "for (int i = 0; i < 3; i++) {", []string{"}"}
		case 2:
			open, tail = "try {", []string{"} catch (InterruptedException e) {", sty.unit + "// interrupted", "}"}
		default:
			open, tail = "try {", []string{"} finally {", sty.unit + "cleaned = true;", "}"}
		}
		w := stmt{lines: []string{open}, what: "block"}
		for _, s := range out[from:to] {
			base := len(w.lines)
			for _, l := range s.lines {
				if l == "" {
					w.lines = append(w.lines, "")
				} else {
					w.lines = append(w.lines, sty.unit+l)
				}
			}
			for _, c := range s.calls {
				c.Line += base
				w.calls = append(w.calls, c)
			}
			for _, c := range s.refs {
				c.Line += base
				w.refs = append(w.refs, c)
			}
		}
		w.lines = append(w.lines, tail...)
		out = append(out[:from], append([]stmt{w}, out[to:]...)...)
	}
	return out
}

var classBases = []string{"Order", "Invoice", "Parser", "Cache", "Router", "Ledger", "Mailer", "Planner", "Account", "Basket", "Gateway", "Report", "Catalog", "Shipment"}
var basePackages = []string{"com.acme.billing", "org.example.shop", "io.demo", "net.sample.core.util", "tbs"}

var fieldPool = []string{
	"private Calc calc;",
	"private Calc calc = new Calc();",
	"@Mock private Repo mockRepo;",
	"private Service service;",
	"private ArchRule rule;",
	"private Response response;",
	"private final List<String> items = new ArrayList<>();",
	"private long delay = 50L;",
	"private PrintWriter writer;",
	"@Mock\nprivate Timer timer;",
	"private boolean ready = true;",
	"private boolean cleaned;",
}

var importSets = [][]string{
	{"org.junit.Test", "org.junit.Ignore", "static org.junit.Assert.assertEquals", "static org.junit.Assert.assertTrue"},
	{"org.junit.Test", "org.junit.Ignore", "static org.junit.Assert.*"},
	{"org.junit.Test"},
	{"org.junit.*", "static org.junit.Assert.*", "static org.mockito.Mockito.verify", "org.mockito.Mock"},
	{"org.junit.jupiter.api.Test", "static org.assertj.core.api.Assertions.assertThat", "java.util.List", "java.util.ArrayList"},
	{"org.junit.Ignore", "org.junit.Test", "java.util.concurrent.TimeUnit", "static org.hamcrest.CoreMatchers.is"},
	{},
}

// lookalikeAnnotations are clearly other annotations (TestNG set-up / tear-down, Jackson, JAXB) whose names end in
// "Test" / "Ignore".
var lookalikeAnnotations = []string{"BeforeTest", "AfterTest", "JsonIgnore", "XmlIgnore"}

// ordinary package names containing testdata / Testdata (the tool documents the exact spelling "testData" as an
// exclusion; that spelling is never generated)
var testdataPackages = []string{"com.acme.testdata", "io.demo.testdata.orders", "org.example.Testdata", "net.sample.Testdata.loader"}

var testNameWords = []string{"Create", "Update", "Remove", "Parse", "Render", "Load", "Sum", "Route", "Expire", "Merge"}

func (g *gen) testMethodName() string {
	w := g.r.Pick(testNameWords)
	switch g.r.Intn(4) {
	case 0:
		return g.uniq("test" + w)
	case 1:
		return g.uniq("should" + w + "Entry")
	case 2:
		return g.uniq(strings.ToLower(w) + "ReturnsResult")
	}
	return g.uniq(strings.ToLower(w) + "_whenCalled_")
}

func (g *gen) testAnnos() ([]Anno, string) {
	testArgs := []string{"", "", "", "", "(timeout = 1000)", "(expected = IllegalStateException.class)", "(timeout = 500, expected = Exception.class)"}
	ignoreArgs := []string{"", "", "(\"not yet\")", "(\"Oops, Not Time fix it\")", "(value = \"flaky\")"}
	t := Anno{Name: "Test", Args: g.r.Pick(testArgs)}
	i := Anno{Name: "Ignore", Args: g.r.Pick(ignoreArgs)}
	var as []Anno
	switch k := g.r.Intn(20); {
	case k < 11:
		as = []Anno{t}
	case k < 14:
		as = []Anno{i}
	case k < 17:
		as = []Anno{t, i}
	default:
		as = []Anno{i, t}
	}
	layout := "own-lines"
	switch k := g.r.Intn(20); {
	case k < 11:
	case k < 15:
		layout = "one-line"
	case k < 18:
		layout = "with-declaration"
	default:
		layout = "comment-between"
	}
	if layout == "own-lines" {
		for _, a := range as {
			if a.Args != "" && g.r.Chance(1, 3) {
				layout = "split-arguments"
			}
		}
	}
	return as, layout
}

func (g *gen) style() style {
	return style{unit: g.r.Pick([]string{"    ", "    ", "  ", "\t"}), allman: g.r.Chance(1, 5), blank: g.r.Chance(3, 4)}
}

// composeTestClass plans one test class.
// twinSpec: the class shares its simple name with a test class of another package; both have a helper of the
// same name, one of them asserting, and a test that reaches an assertion (or none) only through that helper.
type twinSpec struct {
	helper  string
	asserts bool
}

func (g *gen) composeTestClass(f *File, foreign []string, shared *mplan, twin *twinSpec) *cplan {
	cp := &cplan{f: f, sty: g.style(), imports: importSets[g.r.Intn(len(importSets))], shared: shared}
	if g.r.Chance(1, 4) {
		cp.classAnno = g.r.Pick([]string{"@RunWith(MockitoJUnitRunner.class)", "@RunWith(PowerMockRunner.class)", "@SuppressWarnings(\"unchecked\")"})
	}
	if g.r.Chance(1, 7) {
		cp.extends = "AbstractScenarioBase"
	}
	if g.r.Chance(1, 5) {
		cp.comment = "/*\n * Licensed under the Example License: assertEquals(1, 1) Thread.sleep(10)\n */"
	}
	for _, j := range g.r.Perm(len(fieldPool))[:g.r.Intn(5)] {
		cp.fields = append(cp.fields, fieldPool[j])
	}
	var helpers []*Method
	var nonTests []*mplan
	for i, n := 0, g.weighted(0, 0, 1, 1, 2, 3); i < n; i++ {
		m := &Method{Name: g.uniq(g.r.Pick([]string{"helperStep", "prepareData", "buildFixture", "doRound", "expectOutcome"})), Role: RoleHelper, Static: g.r.Chance(1, 3), Profile: "helper"}
		switch k := g.r.Intn(12); {
		case k < 2:
			m.Annos = []Anno{{Name: "SuppressWarnings", Args: "(\"rawtypes\")"}}
			m.AnnoLayout = "own-lines"
		case k < 5:
			// other annotations whose names merely END in Test / Ignore: the method is no test
			m.Annos = []Anno{{Name: g.r.Pick(lookalikeAnnotations)}}
			m.AnnoLayout = g.r.Pick([]string{"own-lines", "own-lines", "with-declaration"})
		}
		mp := &mplan{m: m, stmts: g.decorate(g.composeHelper(g.r.Chance(3, 5)), cp.sty)}
		m.Calls = collect(mp.stmts) // lines are set when the file is rendered
		mod := g.r.Pick([]string{"private void", "void", "protected void"})
		if m.Static {
			mod = g.r.Pick([]string{"private static void", "static void", "public static void"})
		}
		mp.header = mod + " " + m.Name + "()"
		helpers = append(helpers, m)
		nonTests = append(nonTests, mp)
	}
	var twinHelper *Method
	if twin != nil {
		m := &Method{Name: twin.helper, Role: RoleHelper, Profile: "twin-helper"}
		var body []stmt
		for try := 0; try < 20; try++ {
			body = g.composeHelper(twin.asserts)
			if !twin.asserts || hasAssertion(&Method{Calls: collect(body)}) {
				break
			}
		}
		mp := &mplan{m: m, stmts: g.decorate(body, cp.sty)}
		m.Calls = collect(mp.stmts)
		mp.header = g.r.Pick([]string{"private void", "void", "protected void"}) + " " + m.Name + "()"
		helpers = append(helpers, m)
		nonTests = append(nonTests, mp)
		twinHelper = m
	}
	for i, n := 0, g.weighted(0, 1, 1, 2); i < n; i++ {
		m := &Method{Name: g.uniq(g.r.Pick([]string{"setUp", "tearDown", "dumpState", "waitABit", "initAll"})), Role: RoleOther, Profile: "other"}
		if a := g.r.Pick([]string{"", "", "Before", "After", "BeforeClass", "BeforeEach", "Override", "Deprecated", "BeforeTest", "AfterTest", "JsonIgnore", "XmlIgnore"}); a != "" {
			m.Annos = []Anno{{Name: a}}
			m.AnnoLayout = g.r.Pick([]string{"own-lines", "own-lines", "own-lines", "with-declaration"})
			if g.r.Chance(1, 6) {
				// two annotations, e.g. @Before @JsonIgnore
				m.Annos = append(m.Annos, Anno{Name: g.r.Pick(lookalikeAnnotations)})
				if m.Annos[0].Name == m.Annos[1].Name {
					m.Annos = m.Annos[:1]
				}
			}
		}
		mp := &mplan{m: m, stmts: g.decorate(g.composeOther(), cp.sty)}
		mp.header = g.r.Pick([]string{"public void", "void", "private void"}) + " " + m.Name + "()" + g.r.Pick([]string{"", " throws Exception"})
		nonTests = append(nonTests, mp)
	}
	if shared != nil {
		nonTests = append(nonTests, shared)
	}
	nTests := 1
	if g.r.Chance(11, 20) {
		nTests = g.r.Range(2, 5)
	}
	var tests []*mplan
	for i := 0; i < nTests; i++ {
		m := &Method{Name: g.testMethodName(), Role: RoleTestMethod, Profile: profiles[g.r.Intn(len(profiles))]}
		m.Annos, m.AnnoLayout = g.testAnnos()
		mp := &mplan{m: m, stmts: g.decorate(g.composeTest(f.Class, m.Profile, helpers, foreign), cp.sty)}
		mp.header = g.r.Pick([]string{"public void", "public void", "void", "public final void"}) + " " + m.Name + "()" + g.r.Pick([]string{"", "", " throws Exception", " throws InterruptedException", " throws Throwable"})
		tests = append(tests, mp)
	}
	if twinHelper != nil {
		// the test whose only way to an assertion (if any) is the helper that the same-named class also has
		m := &Method{Name: g.testMethodName(), Role: RoleTestMethod, Profile: "twin"}
		m.Annos, m.AnnoLayout = g.testAnnos()
		b := newBody()
		b.add(g.helperCall(f.Class, twinHelper))
		g.addForms(b, plainForms, "plain", g.weighted(1, 1, 2), false, false)
		g.addPrints(b, g.weighted(0, 0, 1), false)
		body := g.guard(b.stmts, helpers)
		shuffled := make([]stmt, len(body))
		for i, j := range g.r.Perm(len(body)) {
			shuffled[i] = body[j]
		}
		mp := &mplan{m: m, stmts: g.decorate(shuffled, cp.sty)}
		mp.header = g.r.Pick([]string{"public void", "void"}) + " " + m.Name + "()" + g.r.Pick([]string{"", " throws Exception"})
		tests = append(tests, mp)
	}
	// helpers / other methods before, between or after the tests
	all := append(append([]*mplan{}, tests...), nonTests...)
	cp.methods = make([]*mplan, len(all))
	for i, j := range g.r.Perm(len(all)) {
		cp.methods[i] = all[j]
	}
	return cp
}

// composeMainClass: a production class containing the same patterns (also under @Test / @Ignore).
func (g *gen) composeMainClass(f *File) *cplan {
	cp := &cplan{f: f, sty: g.style(), imports: importSets[g.r.Intn(len(importSets))]}
	for _, j := range g.r.Perm(len(fieldPool))[:g.r.Intn(3)] {
		cp.fields = append(cp.fields, fieldPool[j])
	}
	for i, n := 0, g.r.Range(1, 4); i < n; i++ {
		m := &Method{Name: g.uniq(g.r.Pick([]string{"process", "handle", "runJob", "selfTest", "diagnose"})), Role: RoleOther, Profile: "production"}
		var stmts []stmt
		if g.r.Chance(2, 5) {
			m.Annos, m.AnnoLayout = g.testAnnos()
			m.Role = RoleTestMethod
			stmts = g.composeTest(f.Class, profiles[g.r.Intn(len(profiles))], nil, nil)
		} else {
			stmts = g.composeOther()
		}
		mp := &mplan{m: m, stmts: g.decorate(stmts, cp.sty)}
		mp.header = g.r.Pick([]string{"public void", "void", "private void"}) + " " + m.Name + "()" + g.r.Pick([]string{"", " throws Exception"})
		cp.methods = append(cp.methods, mp)
	}
	return cp
}

func pkgPath(pkg string) string { return strings.ReplaceAll(pkg, ".", "/") }

// Opts steer single dimensions of a tree.
type Opts struct {
	// MavenRoot: Maven layout whose src/ lies directly in the tree root (no module prefix) and whose first test
	// class is a test file only by its directory (name without the Test / Tests suffix).
	MavenRoot bool
}

// Generate builds one tree. Everything is drawn from r.
func Generate(r *run.Rand) *Tree { return GenerateWith(r, Opts{}) }

func GenerateWith(r *run.Rand, opt Opts) *Tree {
	g := &gen{r: r}
	t := &Tree{Layout: g.r.Pick([]string{"flat", "flat", "nested", "nested", "nested", "maven", "maven", "maven", "maven"})}
	if opt.MavenRoot {
		t.Layout = "maven"
	}
	pkgs := []string{g.r.Pick(basePackages)}
	if g.r.Chance(1, 3) {
		p2 := g.r.Pick(basePackages)
		if p2 != pkgs[0] {
			pkgs = append(pkgs, p2)
		}
	}
	if t.Layout != "flat" && g.r.Chance(1, 6) {
		pkgs[g.r.Intn(len(pkgs))] = g.r.Pick(testdataPackages)
	}
	noPackage := t.Layout == "flat" && g.r.Chance(1, 4)
	module := ""
	if t.Layout == "maven" && g.r.Chance(1, 4) {
		module = g.r.Pick([]string{"core/", "modules/service-a/"})
	}
	if opt.MavenRoot {
		module = ""
	}
	nTest := g.weighted(1, 1, 2, 2, 2, 3, 3, 4)
	nMain := g.weighted(0, 1, 1, 1, 2, 2)
	bases := g.r.Perm(len(classBases))
	type pending struct {
		f      *File
		shared *mplan
		twin   *twinSpec
	}
	var tests []pending
	var mains []*File
	for i := 0; i < nTest; i++ {
		base := classBases[bases[i]]
		f := &File{Package: pkgs[g.r.Intn(len(pkgs))]}
		if noPackage {
			f.Package = ""
		}
		if t.Layout == "maven" && (g.r.Chance(3, 10) || (opt.MavenRoot && i == 0)) {
			f.Role = RoleTestByDir
			f.Class = base + g.r.Pick([]string{"IT", "Spec", "Checks", "Fixtures", "Scenario", "TestCase"})
		} else {
			f.Role = RoleTestByName
			f.Class = base + g.r.Pick([]string{"Test", "Test", "Tests"})
			if g.r.Chance(1, 7) {
				// ordinary class names that contain TestData / Testdata
				f.Class = g.r.Pick([]string{base + "TestDataTest", base + "TestDataTests", "Testdata" + base + "LoaderTests", base + "TestdataTest"})
			}
		}
		switch t.Layout {
		case "flat":
			f.RelPath = f.Class + ".java"
		case "nested":
			f.RelPath = pkgPath(f.Package) + "/" + f.Class + ".java"
		default:
			f.RelPath = module + "src/test/java/" + pkgPath(f.Package) + "/" + f.Class + ".java"
		}
		p := pending{f: f}
		if g.r.Chance(3, 5) {
			m := &Method{Name: g.uniq("sharedStep"), Role: RoleOther, Static: true, Profile: "shared"}
			b := newBody()
			g.addAssertGroup(b, g.r.Pick(DocumentedAssertionPrefixes), g.weighted(1, 1, 2), false)
			if g.r.Chance(1, 3) {
				g.addPrints(b, 1, false)
			}
			p.shared = &mplan{m: m, stmts: b.stmts, header: g.r.Pick([]string{"static void", "public static void"}) + " " + m.Name + "()"}
		}
		tests = append(tests, p)
		t.Files = append(t.Files, f)
	}
	// two test classes with the same simple name in different packages (their files would collide in the flat layout)
	if t.Layout != "flat" && g.r.Chance(3, 10) {
		a := g.r.Intn(len(basePackages))
		b := g.r.Intn(len(basePackages) - 1)
		if b >= a {
			b++
		}
		class := classBases[bases[nTest+nMain]] + g.r.Pick([]string{"Test", "Test", "Tests"})
		helper := g.uniq("helperTwin")
		firstAsserts := g.r.Bool()
		for k, pkg := range []string{basePackages[a], basePackages[b]} {
			f := &File{Package: pkg, Role: RoleTestByName, Class: class}
			if t.Layout == "nested" {
				f.RelPath = pkgPath(pkg) + "/" + class + ".java"
			} else {
				f.RelPath = module + "src/test/java/" + pkgPath(pkg) + "/" + class + ".java"
			}
			tests = append(tests, pending{f: f, twin: &twinSpec{helper: helper, asserts: (k == 0) == firstAsserts}})
			t.Files = append(t.Files, f)
		}
	}
	for i := 0; i < nMain; i++ {
		base := classBases[bases[nTest+i]]
		f := &File{Role: RoleMain, Package: pkgs[g.r.Intn(len(pkgs))], Class: base + g.r.Pick([]string{"", "Service", "Repo", "Util", "Tester", "Contest"})}
		if noPackage {
			f.Package = ""
		}
		switch t.Layout {
		case "flat":
			f.RelPath = f.Class + ".java"
		case "nested":
			f.RelPath = pkgPath(f.Package) + "/" + f.Class + ".java"
		default:
			f.RelPath = module + "src/main/java/" + pkgPath(f.Package) + "/" + f.Class + ".java"
		}
		mains = append(mains, f)
		t.Files = append(t.Files, f)
	}
	var plans []*cplan
	for i, p := range tests {
		// static methods of the other test classes this class may call
		var foreign []string
		var extraImports []string
		for j, q := range tests {
			if j != i && q.shared != nil {
				foreign = append(foreign, q.f.Class+"."+q.shared.m.Name)
				if q.f.Package != p.f.Package {
					extraImports = append(extraImports, q.f.Package+"."+q.f.Class)
				}
			}
		}
		cp := g.composeTestClass(p.f, foreign, p.shared, p.twin)
		cp.imports = append(append([]string{}, cp.imports...), extraImports...)
		plans = append(plans, cp)
	}
	for _, f := range mains {
		plans = append(plans, g.composeMainClass(f))
	}
	for _, cp := range plans {
		// some files start with 1-3 empty or white-space-only lines (before the header comment / package line)
		if g.r.Chance(1, 5) {
			for i, n := 0, g.r.Range(1, 3); i < n; i++ {
				cp.lead = append(cp.lead, g.r.Pick([]string{"", "", "", "  ", "\t"}))
			}
		}
		render(cp)
	}
	return t
}
