package javawide

import (
	"fmt"
	"strings"
	"unicode"
)

// A small reader for the subset of the ANTLR 4 grammar notation that JavaParser.g4 / JavaLexer.g4 use:
// rules, alternatives, groups, ? * + (and their non-greedy forms), labels, <options>, literals,
// character sets, negation, '.', fragment rules and lexer commands.

type g4kind int

const (
	kAlt g4kind = iota // children are alternatives
	kSeq               // children in order
	kRef               // name
	kLit               // text
	kSet               // ranges (+ neg)
	kAny
	kNot // child: set or literal
)

type g4node struct {
	kind     g4kind
	children []*g4node
	name     string
	text     string
	ranges   [][2]rune
	min, max int // repetition: 1,1 = exactly once; max -1 = unbounded
	h        int // minimal derivation height (parser rules)
	reach    int // number of parser rules reachable from this node (how much of the grammar it can exercise)
}

type g4rule struct {
	name     string
	body     *g4node
	fragment bool
	hidden   bool // lexer rule with a channel(HIDDEN) / skip command
	index    int
	h        int
	reach    map[string]bool
}

type Grammar struct {
	rules  map[string]*g4rule
	order  []*g4rule // in file order (parser rules first, then lexer rules)
	lexers []*g4rule
}

type g4tok struct {
	kind string // id lit set sym
	text string
}

func g4lex(src string) ([]g4tok, error) {
	var toks []g4tok
	rs := []rune(src)
	for i := 0; i < len(rs); {
		c := rs[i]
		switch {
		case unicode.IsSpace(c):
			i++
		case c == '/' && i+1 < len(rs) && rs[i+1] == '/':
			for i < len(rs) && rs[i] != '\n' {
				i++
			}
		case c == '/' && i+1 < len(rs) && rs[i+1] == '*':
			j := i + 2
			for j+1 < len(rs) && !(rs[j] == '*' && rs[j+1] == '/') {
				j++
			}
			i = j + 2
		case c == '\'':
			j := i + 1
			var sb strings.Builder
			for j < len(rs) && rs[j] != '\'' {
				if rs[j] == '\\' && j+1 < len(rs) {
					r, n := unescape(rs[j:])
					sb.WriteRune(r)
					j += n
					continue
				}
				sb.WriteRune(rs[j])
				j++
			}
			toks = append(toks, g4tok{"lit", sb.String()})
			i = j + 1
		case c == '[':
			j := i + 1
			for j < len(rs) && rs[j] != ']' {
				if rs[j] == '\\' {
					j++
				}
				j++
			}
			toks = append(toks, g4tok{"set", string(rs[i+1 : j])})
			i = j + 1
		case c == '<':
			// element / rule option such as <assoc=right>
			j := i
			for j < len(rs) && rs[j] != '>' {
				j++
			}
			i = j + 1
		case unicode.IsLetter(c) || c == '_':
			j := i
			for j < len(rs) && (unicode.IsLetter(rs[j]) || unicode.IsDigit(rs[j]) || rs[j] == '_') {
				j++
			}
			toks = append(toks, g4tok{"id", string(rs[i:j])})
			i = j
		case c == '-' && i+1 < len(rs) && rs[i+1] == '>':
			toks = append(toks, g4tok{"sym", "->"})
			i += 2
		case c == '+' && i+1 < len(rs) && rs[i+1] == '=':
			toks = append(toks, g4tok{"sym", "="})
			i += 2
		default:
			toks = append(toks, g4tok{"sym", string(c)})
			i++
		}
	}
	return toks, nil
}

func unescape(rs []rune) (rune, int) {
	// rs[0] == '\\'
	switch rs[1] {
	case 'n':
		return '\n', 2
	case 'r':
		return '\r', 2
	case 't':
		return '\t', 2
	case 'b':
		return '\b', 2
	case 'f':
		return '\f', 2
	case 'u':
		if len(rs) >= 6 {
			var v rune
			for _, h := range rs[2:6] {
				v = v*16 + rune(hexVal(h))
			}
			return v, 6
		}
	}
	return rs[1], 2
}

func hexVal(r rune) int {
	switch {
	case r >= '0' && r <= '9':
		return int(r - '0')
	case r >= 'a' && r <= 'f':
		return int(r-'a') + 10
	case r >= 'A' && r <= 'F':
		return int(r-'A') + 10
	}
	return 0
}

func parseSet(body string) [][2]rune {
	rs := []rune(body)
	var items []rune
	var isRangeDash []bool
	for i := 0; i < len(rs); {
		if rs[i] == '\\' && i+1 < len(rs) {
			r, n := unescape(rs[i:])
			items = append(items, r)
			isRangeDash = append(isRangeDash, false)
			i += n
			continue
		}
		items = append(items, rs[i])
		isRangeDash = append(isRangeDash, rs[i] == '-')
		i++
	}
	var out [][2]rune
	for i := 0; i < len(items); i++ {
		if i+2 < len(items) && isRangeDash[i+1] {
			out = append(out, [2]rune{items[i], items[i+2]})
			i += 2
			continue
		}
		out = append(out, [2]rune{items[i], items[i]})
	}
	return out
}

type g4parser struct {
	toks []g4tok
	pos  int
}

func (p *g4parser) peek() g4tok {
	if p.pos < len(p.toks) {
		return p.toks[p.pos]
	}
	return g4tok{"eof", ""}
}
func (p *g4parser) next() g4tok { t := p.peek(); p.pos++; return t }
func (p *g4parser) isSym(s string) bool {
	t := p.peek()
	return t.kind == "sym" && t.text == s
}

func (p *g4parser) alternatives() *g4node {
	n := &g4node{kind: kAlt, min: 1, max: 1}
	n.children = append(n.children, p.sequence())
	for p.isSym("|") {
		p.next()
		n.children = append(n.children, p.sequence())
	}
	return n
}

func (p *g4parser) sequence() *g4node {
	n := &g4node{kind: kSeq, min: 1, max: 1}
	for {
		t := p.peek()
		if t.kind == "eof" || (t.kind == "sym" && (t.text == "|" || t.text == ")" || t.text == ";" || t.text == "->")) {
			return n
		}
		n.children = append(n.children, p.element())
	}
}

func (p *g4parser) atom() *g4node {
	t := p.next()
	var n *g4node
	switch {
	case t.kind == "id":
		if p.isSym("=") { // label
			p.next()
			return p.element()
		}
		n = &g4node{kind: kRef, name: t.text}
	case t.kind == "lit":
		n = &g4node{kind: kLit, text: t.text}
	case t.kind == "set":
		n = &g4node{kind: kSet, ranges: parseSet(t.text)}
	case t.kind == "sym" && t.text == ".":
		n = &g4node{kind: kAny}
	case t.kind == "sym" && t.text == "~":
		n = &g4node{kind: kNot, children: []*g4node{p.atom()}}
	case t.kind == "sym" && t.text == "(":
		n = p.alternatives()
		p.next() // ')'
	default:
		n = &g4node{kind: kLit, text: ""}
	}
	n.min, n.max = 1, 1
	return n
}

func (p *g4parser) element() *g4node {
	n := p.atom()
	if s := p.peek(); s.kind == "sym" && (s.text == "?" || s.text == "*" || s.text == "+") {
		p.next()
		inner := n
		n = &g4node{kind: kSeq, children: []*g4node{inner}}
		switch s.text {
		case "?":
			n.min, n.max = 0, 1
		case "*":
			n.min, n.max = 0, -1
		case "+":
			n.min, n.max = 1, -1
		}
		if p.isSym("?") { // non-greedy
			p.next()
		}
	}
	return n
}

// ParseGrammar reads the parser grammar text and the lexer grammar text.
func ParseGrammar(parserG4, lexerG4 string) (*Grammar, error) {
	g := &Grammar{rules: map[string]*g4rule{}}
	for gi, src := range []string{parserG4, lexerG4} {
		toks, _ := g4lex(src)
		p := &g4parser{toks: toks}
		for p.peek().kind != "eof" {
			t := p.next()
			if t.kind != "id" {
				continue
			}
			switch t.text {
			case "parser", "lexer", "grammar":
				for p.peek().kind != "eof" && !p.isSym(";") {
					p.next()
				}
				p.next()
				continue
			case "options", "tokens", "channels":
				for p.peek().kind != "eof" && !p.isSym("}") {
					p.next()
				}
				p.next()
				continue
			}
			frag := false
			name := t.text
			if name == "fragment" {
				frag = true
				name = p.next().text
			}
			if !p.isSym(":") {
				return nil, fmt.Errorf("grammar %d: expected ':' after %q", gi, name)
			}
			p.next()
			body := p.alternatives()
			hidden := false
			for p.peek().kind != "eof" && !p.isSym(";") {
				tk := p.next()
				if tk.kind == "id" && (tk.text == "HIDDEN" || tk.text == "skip") {
					hidden = true
				}
			}
			p.next()
			r := &g4rule{name: name, body: body, fragment: frag, hidden: hidden, index: len(g.order)}
			g.rules[name] = r
			g.order = append(g.order, r)
			if gi == 1 {
				g.lexers = append(g.lexers, r)
			}
		}
	}
	if len(g.order) < 10 {
		return nil, fmt.Errorf("only %d rules found", len(g.order))
	}
	g.heights()
	g.reaches()
	return g, nil
}

func isParserRule(name string) bool { return name != "" && unicode.IsLower([]rune(name)[0]) }

const hInf = 1 << 20

// heights computes the shortest-derivation table: the minimal height of a derivation of every parser rule.
func (g *Grammar) heights() {
	for _, r := range g.order {
		r.h = hInf
	}
	for changed := true; changed; {
		changed = false
		for _, r := range g.order {
			if !isParserRule(r.name) {
				continue
			}
			h := g.nodeHeight(r.body)
			if h < hInf && h+1 < r.h {
				r.h = h + 1
				changed = true
			}
		}
	}
	for _, r := range g.order {
		if isParserRule(r.name) {
			g.nodeHeight(r.body)
		}
	}
}

func (g *Grammar) nodeHeight(n *g4node) int {
	h := 0
	switch n.kind {
	case kRef:
		if isParserRule(n.name) {
			if r := g.rules[n.name]; r != nil {
				h = r.h
			} else {
				h = hInf
			}
		}
	case kAlt:
		h = hInf
		for _, c := range n.children {
			if ch := g.nodeHeight(c); ch < h {
				h = ch
			}
		}
	case kSeq:
		for _, c := range n.children {
			ch := g.nodeHeight(c)
			if c.min == 0 {
				continue
			}
			if ch > h {
				h = ch
			}
		}
	}
	n.h = h
	return h
}

// reaches computes, for every parser rule and every node, which parser rules its derivations can use.
func (g *Grammar) reaches() {
	for _, r := range g.order {
		r.reach = map[string]bool{}
	}
	var refs func(n *g4node, f func(name string))
	refs = func(n *g4node, f func(name string)) {
		if n.kind == kRef && isParserRule(n.name) {
			f(n.name)
		}
		for _, c := range n.children {
			refs(c, f)
		}
	}
	for changed := true; changed; {
		changed = false
		for _, r := range g.order {
			if !isParserRule(r.name) {
				continue
			}
			refs(r.body, func(name string) {
				if !r.reach[name] {
					r.reach[name] = true
					changed = true
				}
				if o := g.rules[name]; o != nil {
					for k := range o.reach {
						if !r.reach[k] {
							r.reach[k] = true
							changed = true
						}
					}
				}
			})
		}
	}
	var setReach func(n *g4node) map[string]bool
	setReach = func(n *g4node) map[string]bool {
		m := map[string]bool{}
		if n.kind == kRef && isParserRule(n.name) {
			m[n.name] = true
			if o := g.rules[n.name]; o != nil {
				for k := range o.reach {
					m[k] = true
				}
			}
		}
		for _, c := range n.children {
			for k := range setReach(c) {
				m[k] = true
			}
		}
		n.reach = len(m)
		return m
	}
	for _, r := range g.order {
		if isParserRule(r.name) {
			setReach(r.body)
		}
	}
}
