package javawide

import "strings"

// ---- types

// refType is a class-or-interface type (no arrays, no primitives).
func (g *wgen) refType(d int) string {
	r := g.r
	switch {
	case d > 0 && r.Chance(1, 5):
		return g.pick(genericTypes) + "<" + g.typeArg(d-1) + ">"
	case d > 0 && r.Chance(1, 8):
		return g.pick(generic2Types) + "<" + g.typeArg(d-1) + ", " + g.typeArg(d-1) + ">"
	case r.Chance(1, 10):
		g.use("qualified-type")
		return g.pick([]string{"java.util.List<String>", "java.lang.String", "java.util.Map.Entry<String, Integer>", "Map.Entry<K, V>", "Outer.Inner", "a.b.Ünit"})
	case r.Chance(1, 14):
		g.use("type-annotation-qualified")
		return g.pick([]string{"java.lang.@NonNull String", "java.util.@Nullable List<String>", "Map.@A Entry<String, Integer>",
			"java.lang.@NonNull(\"x\") String", "a.b.@Märker Ünit"})
	case r.Chance(1, 14):
		g.use("generic-outer-inner-type")
		return "Outer<String>.Inner<Integer>"
	case len(g.declared) > 0 && r.Chance(1, 4):
		return g.declared[r.Intn(len(g.declared))]
	case r.Chance(1, 2):
		return g.pick(libTypes)
	default:
		return g.uname()
	}
}

func (g *wgen) typeArg(d int) string {
	r := g.r
	switch {
	case r.Chance(1, 7):
		g.use("wildcard")
		return "?"
	case r.Chance(1, 7):
		g.use("wildcard")
		return "? extends " + g.refType(d)
	case r.Chance(1, 9):
		g.use("wildcard")
		return "? super " + g.refType(d)
	case r.Chance(1, 12):
		g.use("type-annotation")
		return "@NonNull " + g.refType(d)
	case r.Chance(1, 16):
		g.use("type-annotation")
		return "@Nullable ? extends " + g.refType(d)
	case r.Chance(1, 12):
		return g.pick(libTypes) + "[]"
	default:
		return g.refType(d)
	}
}

// typ is any type usable for a variable, parameter, field or return value.
func (g *wgen) typ(d int) string {
	r := g.r
	var t string
	switch {
	case r.Chance(1, 3):
		t = g.pick(primitiveNames)
	default:
		t = g.refType(d)
	}
	if r.Chance(1, 14) && !strings.Contains(t, "@") {
		g.use("type-annotation")
		t = "@" + g.pick([]string{"NonNull", "Nullable", "Valid", "org.acme.Tag"}) + " " + t
	}
	if r.Chance(1, 6) {
		g.use("array-type")
		t += "[]"
		if r.Chance(1, 4) {
			t += "[]"
		}
	} else if r.Chance(1, 30) {
		g.use("type-annotation")
		g.use("array-type")
		t += " @NonNull []"
	}
	return t
}

func (g *wgen) typeParams() string {
	r := g.r
	n := r.Range(1, 3)
	var ps []string
	for i := 0; i < n; i++ {
		p := g.pick([]string{"T", "U", "K", "V", "E", "Τ"})
		p += itoa(i)
		if r.Chance(1, 8) {
			g.use("type-parameter-annotation")
			p = "@NonNull " + p
		}
		switch {
		case r.Chance(1, 4):
			p += " extends " + g.refType(1)
		case r.Chance(1, 6):
			g.use("intersection-bound")
			p += " extends " + g.refType(1) + " & " + g.pick([]string{"Comparable<T0>", "java.io.Serializable", "Runnable"})
		case r.Chance(1, 14):
			g.use("type-parameter-annotation")
			p += " extends @Nullable Object"
		}
		ps = append(ps, p)
	}
	return "<" + strings.Join(ps, ", ") + ">"
}

// ---- literals

func (g *wgen) intLit() string {
	r := g.r
	switch r.Intn(12) {
	case 0:
		g.use("literal-hex")
		return g.pick([]string{"0xFF", "0Xcafe_babeL", "0x0", "0x7fff_ffff", "0xAL"})
	case 1:
		g.use("literal-binary")
		return g.pick([]string{"0b1010", "0B1_0L", "0b0", "0b1111_0000"})
	case 2:
		g.use("literal-octal")
		return g.pick([]string{"017", "0_7", "00", "0777L", "01_2"})
	case 3:
		g.use("literal-underscore")
		return g.pick([]string{"1_000", "1__0", "9_223_372_036_854_775_807L", "1_0l"})
	case 4:
		return g.pick([]string{"123L", "0L", "2147483647"})
	default:
		return itoa(r.Intn(100))
	}
}

func (g *wgen) floatLit() string {
	if g.r.Chance(1, 4) {
		g.use("literal-hexfloat")
		return g.pick([]string{"0x1.8p3", "0x.8p-2f", "0x1p1", "0X1.P+2d", "0xA_B.cp0"})
	}
	g.use("literal-float")
	return g.pick([]string{"1.5", ".5", "1.", "1e10", "1.5e-3f", "1f", "1d", "1_0.0_1", "6.02E+23", "0.0D", "3F", ".0e0"})
}

func (g *wgen) charLit() string {
	r := g.r
	if r.Chance(1, 2) {
		g.use("literal-char-escape")
		return g.pick([]string{`'\n'`, `'\''`, `'\\'`, `'A'`, `'\0'`, `'\377'`, `'\t'`, `'"'`, `'\uuu00e9'`, `'\12'`, `'\b'`, `'\f'`, `'\r'`, `'\"'`})
	}
	if r.Chance(1, 3) {
		g.use("non-ascii-literal")
		return g.pick([]string{"'é'", "'中'", "'π'", "'😀'", "'ß'"})
	}
	return g.pick([]string{"'a'", "'Z'", "' '", "'0'", "'/'", "'*'", "'@'"})
}

// rawChars are characters that may stand raw inside a Java string / char literal or a comment (any input character
// but a line terminator, the quote and the backslash) and that serialisers treat specially: control characters other
// than \b \f \n \r \t (SOH, VT, ESC, US, DEL, C1 controls), the line / paragraph separators, a BOM, non-characters,
// and unassigned / private-use / tag characters beyond the BMP (the England flag is U+1F3F4 + tag characters).
var rawChars = []string{"\x01", "\x0b", "\x1b", "\x1f", "\x7f", "\u0085", "\u009f", "\u2028", "\u2029", "\ufeff", "\ufffe", "\uffff",
	"\U000E0067", "\U000E007F", "\U000F0000", "\U0010FFFD", "\U0001FFFE", "\U000E0001"}

// hostileLit is a string or char literal that holds such a character raw.
func (g *wgen) hostileLit() string {
	r := g.r
	g.use("literal-raw-control-or-supplementary")
	c := g.pick(rawChars)
	switch r.Intn(6) {
	case 0:
		return "'" + c + "'"
	case 1:
		return `"` + c + `"`
	case 2:
		return `"a` + c + `b"`
	case 3:
		// the flag of England: U+1F3F4 followed by tag characters
		return "\"\U0001F3F4\U000E0067\U000E0062\U000E0065\U000E006E\U000E0067\U000E007F\""
	case 4:
		return `"` + c + g.pick(rawChars) + ` x ` + g.pick(rawChars) + `"`
	default:
		return `"id=` + c + `"`
	}
}

func (g *wgen) strLit() string {
	r := g.r
	if r.Chance(1, 30) {
		return g.hostileLit()
	}
	switch r.Intn(9) {
	case 0:
		g.use("literal-string-escape")
		return g.pick([]string{`"a\tb\"c\\"`, `"été"`, `"\0\12\377"`, `"line\nnext\r\n"`, `"\'"`, `"//not a comment"`, `"/* nor this */"`, `"TODO: in a string"`})
	case 1:
		g.use("non-ascii-literal")
		return g.pick([]string{`"日本語"`, `"naïve café"`, `"😀 emoji"`, `"Привет"`, `"ß"`, `"/路径/{id}"`})
	case 2:
		return `""`
	case 3:
		return g.pick([]string{`"/"`, `"/api"`, `"/api/{id}"`, `"x"`, `"{}"`, `"a"`})
	default:
		return `"` + g.pick([]string{"hello", "x y", "v1", "k=v", "a.b", "100%", "()", "@"}) + `"`
	}
}

func (g *wgen) textBlock() string {
	g.use("text-block")
	return g.pick([]string{
		"\"\"\"\n    hello\n    world\"\"\"",
		"\"\"\"\n\"\"\"",
		"\"\"\" \t\n  a \"quoted\" word, two \"\" quotes and \\\" an escaped one\n  \"\"\"",
		"\"\"\"\n  TODO: inside a text block // not a comment\n  line \\\n  joined \\t tab\n  \"\"\"",
		"\"\"\"\n  ünïcödé 日本\n  \"\"\"",
	})
}

func (g *wgen) literal() ex {
	r := g.r
	switch r.Intn(12) {
	case 0, 1, 2, 3:
		return ex{g.intLit(), pNum}
	case 4:
		return ex{g.floatLit(), pNum}
	case 5:
		return ex{g.charLit(), pPrimary}
	case 6, 7:
		return ex{g.strLit(), pPrimary}
	case 8:
		return ex{g.pick([]string{"true", "false"}), pPrimary}
	case 9:
		return ex{"null", pPrimary}
	case 10:
		return ex{g.textBlock(), pPrimary}
	default:
		return ex{g.intLit(), pNum}
	}
}

// ---- annotations

// elementValue: ConditionalExpression | Annotation | ElementValueArrayInitializer
func (g *wgen) elementValue(d int) string {
	r := g.r
	switch {
	case r.Chance(1, 6):
		g.use("annotation-arg-constant")
		return g.pick(constNames) // incl. one-character constants
	case r.Chance(1, 8):
		g.use("annotation-arg-constant")
		return g.pick([]string{"Consts.PATH", "RequestMethod.GET", "a.b.C.D", "Foo.class", "int.class", "String[].class", "ElementType.TYPE_USE"})
	case d > 0 && r.Chance(1, 6):
		g.use("annotation-arg-array")
		n := r.Intn(4)
		var vs []string
		for i := 0; i < n; i++ {
			vs = append(vs, g.elementValue(d-1))
		}
		s := "{" + strings.Join(vs, ", ")
		if n > 0 && r.Chance(1, 3) {
			s += ","
		} else if n == 0 && r.Chance(1, 5) {
			s += ","
		}
		return s + "}"
	case d > 0 && r.Chance(1, 8):
		g.use("annotation-arg-annotation")
		return g.anno(d - 1)
	case r.Chance(1, 5):
		g.use("annotation-arg-expression")
		return g.pick([]string{`"a" + "b"`, "1 << 2", "BASE + \"/x\"", "-1", "(byte) 3", "FLAG ? 1 : 2", "A | B", "~0", "Consts.A + Consts.B", "'c'", "!DEBUG", "1.5f * 2"})
	default:
		return g.need(1, pTernary).s
	}
}

func (g *wgen) anno(d int) string {
	r := g.r
	name := g.pick(annoNames)
	switch r.Intn(8) {
	case 0, 1, 2:
		return "@" + name
	case 3:
		g.use("annotation-empty-parens")
		return "@" + name + "()"
	case 4, 5:
		return "@" + name + "(" + g.elementValue(d) + ")"
	default:
		n := r.Range(1, 3)
		var ps []string
		for i := 0; i < n; i++ {
			k := g.pick([]string{"value", "name", "method", "path", "required", "k", "to", "with", "étiquette"})
			ps = append(ps, k+" = "+g.elementValue(d))
		}
		return "@" + name + "(" + strings.Join(ps, ", ") + ")"
	}
}

// annos returns 0..n annotations followed by a blank, for use as modifiers.
func (g *wgen) annos(pos string, chance int) string {
	var sb strings.Builder
	for i := 0; i < 3 && g.r.Chance(1, chance); i++ {
		if pos != "" {
			g.use("annotation-on-" + pos)
		}
		sb.WriteString(g.anno(2))
		sb.WriteString(" ")
	}
	return sb.String()
}

// ---- Spring-style annotations (so that the API scan does real work)

func (g *wgen) mappingArgs() string {
	r := g.r
	paths := []string{`"/"`, `"/api"`, `"/api/{id}"`, `""`, `"/用户/{名}"`, `"x"`, `"/a/b/c"`}
	switch r.Intn(16) {
	case 0:
		return ""
	case 1:
		return "()"
	case 2, 3:
		return "(" + g.pick(paths) + ")"
	case 4:
		return "(value = " + g.pick(paths) + ")"
	case 5:
		return "(value = " + g.pick(paths) + ", method = RequestMethod." + g.pick([]string{"GET", "POST", "PUT", "DELETE", "PATCH"}) + ")"
	case 6:
		return "(method = " + g.pick([]string{"GET", "POST", "RequestMethod.PUT", "{RequestMethod.GET, RequestMethod.POST}"}) + ", value = " + g.pick(paths) + ")"
	case 7:
		g.use("annotation-arg-constant")
		return "(" + g.pick(constNames) + ")"
	case 8:
		g.use("annotation-arg-constant")
		return "(value = " + g.pick(constNames) + ")"
	case 9:
		g.use("annotation-arg-constant")
		return "(" + g.pick([]string{"Consts.PATH", "Api.V1 + \"/x\"", "BASE + PATH", "a.b.Routes.ROOT"}) + ")"
	case 10:
		g.use("annotation-arg-array")
		return "(" + g.pick([]string{`{"/a", "/b"}`, `{}`, `{"/a",}`, `{A}`, `{A, "/b"}`}) + ")"
	case 11:
		g.use("annotation-arg-array")
		return "(value = " + g.pick([]string{`{"/a", "/b"}`, `{}`, `{PATH}`}) + ", produces = \"application/json\")"
	case 12:
		return "(path = " + g.pick(paths) + ", consumes = {\"a/b\"})"
	case 13:
		return "(value = " + g.pick([]string{"'/'", "1", "true", "null", "Foo.class", "@Nested(\"x\")", "(\"/p\")", "\"/a\" + \"/b\"", "COND ? \"/a\" : \"/b\""}) + ")"
	case 14:
		return "(" + g.pick([]string{"'/'", "0", "Foo.class", "\"\"\"\n    /block\"\"\""}) + ")"
	default:
		return "(name = \"n\", value = " + g.pick(paths) + ", method = {})"
	}
}

func (g *wgen) springMapping() string {
	g.use("spring-mapping")
	return "@" + g.pick([]string{"RequestMapping", "RequestMapping", "GetMapping", "PostMapping", "PutMapping", "DeleteMapping", "org.springframework.web.bind.annotation.RequestMapping"}) + g.mappingArgs()
}

func (g *wgen) springParamAnno() string {
	return g.pick([]string{"@RequestBody ", "@RequestBody @Valid ", "@PathVariable(\"id\") ", "@RequestParam(value = \"q\", required = false) ", "@PathVariable ", "final @RequestBody ",
		"@org.springframework.web.bind.annotation.RequestBody ", "@RequestHeader(X) "})
}
