package javawide

import "strings"

// precedence classes of a generated expression text (used to decide where parentheses are required so
// that the text stays syntactically valid Java, not merely acceptable to the shipped grammar)
const (
	pLow        = 0 // assignment, lambda, method reference
	pTernary    = 1
	pInstanceof = 2
	pBinary     = 3
	pUnary      = 4 // prefix operators, casts, switch expressions
	pNum        = 5 // numeric literal (cannot be followed by '.')
	pPrimary    = 6
)

type ex struct {
	s string
	p int
}

func (g *wgen) need(d, min int) ex {
	e := g.expr(d)
	if e.p < min {
		g.use("parenthesised")
		return ex{"(" + e.s + ")", pPrimary}
	}
	return e
}

func (g *wgen) args(d int) string {
	n := g.r.Intn(4)
	if d <= 1 && n > 2 {
		n = 2
	}
	var as []string
	for i := 0; i < n; i++ {
		as = append(as, g.expr(d-1).s)
	}
	if g.r.Chance(1, 30) {
		// a literal argument with a raw control / non-printable character (the passes record argument texts)
		as = append(as, g.hostileLit())
	}
	return "(" + strings.Join(as, ", ") + ")"
}

// lvalue: name, field access or array access
func (g *wgen) lvalue(d int) string {
	r := g.r
	switch r.Intn(6) {
	case 0:
		return "this." + g.pname()
	case 1:
		g.use("array-access")
		return g.lname() + "[" + g.expr(min(d-1, 2)).s + "]"
	case 2:
		return g.lname() + "." + g.lname()
	default:
		return g.lname()
	}
}

func min(a, b int) int {
	if a < b {
		return a
	}
	return b
}

func (g *wgen) atom() ex {
	r := g.r
	switch r.Intn(10) {
	case 0, 1, 2:
		return g.literal()
	case 3:
		return ex{"this", pPrimary}
	case 4:
		g.use("class-literal")
		return ex{g.pick([]string{"Foo.class", "int.class", "void.class", "int[].class", "String[][].class", "java.util.List.class", "Ünit.class"}), pPrimary}
	case 5:
		return ex{g.pick(constNames), pPrimary}
	default:
		return ex{g.lname(), pPrimary}
	}
}

var binOps = []string{"+", "-", "*", "/", "%", "<", ">", "<=", ">=", "==", "!=", "&", "|", "^", "&&", "||", "<<", ">>", ">>>"}
var assignOps = []string{"=", "=", "=", "+=", "-=", "*=", "/=", "&=", "|=", "^=", ">>=", ">>>=", "<<=", "%="}

func (g *wgen) lambda(d int) ex {
	r := g.r
	var params string
	switch r.Intn(9) {
	case 0:
		params = g.lname()
	case 1:
		g.use("lambda-no-params")
		params = "()"
	case 2:
		params = "(" + g.lname() + ")"
	case 3:
		g.use("lambda-multi-params")
		params = "(" + g.lname() + ", " + g.lname() + "2)"
	case 4:
		g.use("lambda-typed-params")
		params = "(" + g.typ(1) + " " + g.lname() + ", " + g.typ(1) + " " + g.lname() + "2)"
	case 5:
		g.use("lambda-var-params")
		params = "(var " + g.lname() + ", var " + g.lname() + "2)"
	case 6:
		g.use("lambda-typed-params")
		params = "(final " + g.typ(1) + " " + g.lname() + ")"
	case 7:
		g.use("lambda-typed-params")
		g.use("annotation-on-parameter")
		params = "(@NonNull " + g.typ(0) + " " + g.lname() + ")"
	default:
		g.use("lambda-typed-params")
		g.use("varargs")
		params = "(" + g.pick(libTypes) + "... " + g.lname() + ")"
	}
	if r.Chance(1, 3) && g.budget > 2 {
		g.use("lambda-block-body")
		return ex{params + " -> " + g.inlineBlock(min(d-1, 3)), pLow}
	}
	return ex{params + " -> " + g.expr(d-1).s, pLow}
}

func (g *wgen) methodRef(d int) ex {
	r := g.r
	g.use("method-reference")
	switch r.Intn(10) {
	case 0:
		g.use("mref-static")
		return ex{g.uname() + "::" + g.mname(), pLow}
	case 1:
		g.use("mref-bound")
		return ex{g.need(d-1, pPrimary).s + "::" + g.mname(), pLow}
	case 2:
		g.use("mref-bound")
		return ex{"this::" + g.mname(), pLow}
	case 3:
		g.use("mref-super")
		return ex{"super::" + g.mname(), pLow}
	case 4:
		g.use("mref-constructor")
		return ex{g.uname() + "::new", pLow}
	case 5:
		g.use("mref-constructor")
		return ex{g.pick([]string{"int[]::new", "String[][]::new", "java.util.ArrayList<String>::new", "Foo<String>::new", "Outer.Inner::new"}), pLow}
	case 6:
		g.use("mref-type-args")
		return ex{g.uname() + "::<String>" + g.mname(), pLow}
	case 7:
		g.use("mref-static")
		return ex{g.pick([]string{"java.util.Objects::nonNull", "List<String>::size", "String::valueOf", "a.b.Ünit::von"}), pLow}
	case 8:
		g.use("mref-constructor")
		return ex{g.uname() + "::<Integer>new", pLow}
	default:
		g.use("mref-bound")
		return ex{g.lname() + "." + g.lname() + "::" + g.mname(), pLow}
	}
}

func (g *wgen) creation(d int) ex {
	r := g.r
	switch r.Intn(13) {
	case 0:
		g.use("diamond")
		return ex{"new " + g.pick(genericTypes) + "<>" + g.args(d), pPrimary}
	case 1:
		return ex{"new " + g.pick(generic2Types) + "<String, " + g.refTypeNoAnno() + ">" + g.args(d), pPrimary}
	case 2:
		g.use("qualified-creation")
		return ex{"new " + g.pick([]string{"java.util.ArrayList<String>", "Outer.Inner", "a.b.Ünit", "java.lang.Object"}) + g.args(d), pPrimary}
	case 3:
		if g.budget > 3 {
			g.use("anonymous-class")
			return ex{"new " + g.pick([]string{"Runnable", "Object", "Foo<String>", "Comparable<Bar>", "Ünit"}) + g.args(min(d, 2)) + " " + g.anonBody(), pPrimary}
		}
		return ex{"new Object()", pPrimary}
	case 4:
		g.use("generic-constructor-call")
		return ex{"new <String>" + g.uname() + g.args(d), pPrimary}
	case 5:
		g.use("array-creation")
		return ex{"new " + g.pick(append([]string{"Foo", "String", "java.lang.Object"}, primitiveNames...)) + "[" + g.expr(min(d-1, 2)).s + "]" + g.pick([]string{"", "[]", "[2]", "[3][]"}), pPrimary}
	case 6, 7:
		g.use("array-initialiser")
		return ex{"new " + g.pick([]string{"int", "String", "Object", "long"}) + "[]" + g.arrayInit(d-1, 1), pPrimary}
	case 8:
		g.use("array-initialiser")
		return ex{"new " + g.pick([]string{"int", "String"}) + "[][]" + g.arrayInit(d-1, 2), pPrimary}
	case 9:
		g.use("inner-creator")
		return ex{g.need(min(d-1, 2), pPrimary).s + ".new " + g.pick([]string{"Inner", "Inner<>", "<String>Inner", "Inner<String>"}) + g.args(d), pPrimary}
	case 10:
		if g.budget > 3 {
			g.use("inner-creator")
			g.use("anonymous-class")
			return ex{g.lname() + ".new Inner() " + g.anonBody(), pPrimary}
		}
		return ex{"this.new Inner()", pPrimary}
	default:
		return ex{"new " + g.uname() + g.args(d), pPrimary}
	}
}

func (g *wgen) refTypeNoAnno() string {
	for i := 0; i < 6; i++ {
		t := g.refType(1)
		if !strings.Contains(t, "@") {
			return t
		}
	}
	return "Object"
}

func (g *wgen) arrayInit(d, dims int) string {
	r := g.r
	n := r.Intn(4)
	var vs []string
	for i := 0; i < n; i++ {
		if dims > 1 {
			vs = append(vs, g.arrayInit(d, dims-1))
		} else {
			vs = append(vs, g.expr(min(d, 2)).s)
		}
	}
	s := "{" + strings.Join(vs, ", ")
	if n > 0 && r.Chance(1, 4) {
		s += ","
	}
	return s + "}"
}

func (g *wgen) call(d int) ex {
	r := g.r
	switch r.Intn(12) {
	case 0, 1:
		return ex{g.mname() + g.args(d), pPrimary}
	case 2:
		return ex{"this." + g.mname() + g.args(d), pPrimary}
	case 3:
		g.use("super-method-call")
		return ex{"super." + g.mname() + g.args(d), pPrimary}
	case 4:
		g.use("explicit-generic-invocation")
		return ex{g.pick([]string{"this", "Foo", "java.util.Collections", g.lname()}) + ".<" + g.refTypeNoAnno() + ">" + g.mname() + g.args(d), pPrimary}
	case 5:
		g.use("explicit-generic-invocation")
		return ex{"super.<String, Integer>" + g.mname() + g.args(d), pPrimary}
	case 6:
		g.use("qualified-this-super")
		return ex{g.pick([]string{"Outer.this." + g.lname(), "Outer.super." + g.mname() + g.args(d), "Outer.this." + g.mname() + g.args(d), "a.b.Outer.this", "Outer.super.<String>" + g.mname() + "()"}), pPrimary}
	case 7:
		g.use("chained-call")
		return ex{g.need(d-1, pPrimary).s + "." + g.mname() + g.args(d-1) + "." + g.mname() + "()", pPrimary}
	case 8:
		return ex{g.uname() + "." + g.mname() + g.args(d), pPrimary}
	default:
		return ex{g.need(d-1, pPrimary).s + "." + g.mname() + g.args(d), pPrimary}
	}
}

func (g *wgen) castExpr(d int) ex {
	r := g.r
	g.use("cast")
	switch r.Intn(7) {
	case 0:
		return ex{"(" + g.pick(primitiveNames) + ") " + g.unaryOperand(d-1), pUnary}
	case 1:
		g.use("intersection-cast")
		return ex{"(" + g.pick([]string{"Runnable & java.io.Serializable", "Foo & Bar & Comparable<Foo>"}) + ") " + g.need(d-1, pPrimary).s, pUnary}
	case 2:
		g.use("type-annotation")
		return ex{"(@NonNull " + g.refTypeNoAnno() + ") " + g.need(d-1, pPrimary).s, pUnary}
	case 3:
		g.use("cast-lambda")
		return ex{"(" + g.pick([]string{"Runnable", "Supplier<String>", "Runnable & java.io.Serializable"}) + ") () -> " + g.need(d-1, pUnary).s, pLow}
	case 4:
		return ex{"(" + g.typ(1) + ") " + g.need(d-1, pPrimary).s, pUnary}
	default:
		return ex{"(" + g.refType(1) + ") " + g.need(d-1, pPrimary).s, pUnary}
	}
}

// unaryOperand is an operand for a prefix operator or a primitive cast; never starts with + or -
func (g *wgen) unaryOperand(d int) string {
	e := g.need(d, pUnary)
	if strings.HasPrefix(e.s, "+") || strings.HasPrefix(e.s, "-") {
		return "(" + e.s + ")"
	}
	return e.s
}

func (g *wgen) instanceOf(d int) ex {
	r := g.r
	l := g.need(d-1, pBinary).s
	switch r.Intn(6) {
	case 0, 1:
		return ex{l + " instanceof " + g.refTypeNoAnno(), pInstanceof}
	case 2:
		g.use("pattern-instanceof")
		return ex{l + " instanceof " + g.refTypeNoAnno() + " " + g.lname(), pInstanceof}
	case 3:
		g.use("pattern-instanceof")
		return ex{l + " instanceof final " + g.uname() + " " + g.lname(), pInstanceof}
	case 4:
		g.use("pattern-instanceof")
		g.use("type-annotation")
		return ex{l + " instanceof @NonNull " + g.uname() + " " + g.lname(), pInstanceof}
	default:
		return ex{l + " instanceof " + g.pick([]string{"int[]", "String[][]", "java.util.List<?>", "Map.Entry<?, ?>"}), pInstanceof}
	}
}

func (g *wgen) switchExpr(d int) ex {
	r := g.r
	g.use("switch-expression")
	var sb strings.Builder
	sb.WriteString("switch (" + g.expr(min(d-1, 2)).s + ") { ")
	n := r.Range(1, 3)
	colon := r.Chance(1, 5)
	if colon {
		g.use("switch-expression-colon")
	}
	for i := 0; i < n; i++ {
		var label string
		switch r.Intn(6) {
		case 0:
			label = "case " + g.intLit() + ", " + g.intLit()
		case 1:
			label = "case " + g.pick(constNames)
		case 2:
			label = "case " + g.strLit()
		case 3:
			if !colon {
				g.use("switch-pattern")
				label = "case " + g.pick([]string{"Foo f", "Bar b && b.ok()", "null", "final Ünit u", "(Foo f)"})
				break
			}
			label = "case 'x'"
		default:
			label = "case " + itoa(i)
		}
		if colon {
			sb.WriteString(label + ": yield " + g.expr(min(d-1, 2)).s + "; ")
			continue
		}
		switch r.Intn(4) {
		case 0:
			g.use("yield")
			sb.WriteString(label + " -> { " + g.lname() + "(); yield " + g.expr(min(d-1, 2)).s + "; } ")
		case 1:
			sb.WriteString(label + " -> throw new IllegalStateException(" + g.strLit() + "); ")
		default:
			sb.WriteString(label + " -> " + g.expr(min(d-1, 3)).s + "; ")
		}
	}
	if colon {
		sb.WriteString("default: yield " + g.atom().s + "; }")
	} else {
		sb.WriteString("default -> " + g.expr(min(d-1, 2)).s + "; }")
	}
	return ex{sb.String(), pUnary}
}

// expr generates an expression whose nesting depth is at most d (d <= 6).
func (g *wgen) expr(d int) ex {
	r := g.r
	if d <= 1 {
		return g.atom()
	}
	switch r.Intn(30) {
	case 0, 1, 2:
		return g.atom()
	case 3, 4:
		op := g.pick(binOps)
		if op == "<<" || op == ">>" || op == ">>>" {
			g.use("shift")
		}
		return ex{g.need(d-1, pBinary).s + " " + op + " " + g.need(d-1, pBinary).s, pBinary}
	case 5:
		// a longer unparenthesised chain
		s := g.need(d-1, pBinary).s
		for i := 0; i < r.Range(2, 4); i++ {
			s += " " + g.pick(binOps) + " " + g.need(min(d-1, 2), pBinary).s
		}
		return ex{s, pBinary}
	case 6, 7, 8:
		return g.call(d)
	case 9, 10:
		return g.creation(d)
	case 11:
		return g.castExpr(d)
	case 12:
		g.use("ternary")
		return ex{g.need(d-1, pInstanceof).s + " ? " + g.expr(d-1).s + " : " + g.need(d-1, pTernary).s, pTernary}
	case 13:
		return g.instanceOf(d)
	case 14, 15:
		return g.lambda(d)
	case 16, 17:
		return g.methodRef(d)
	case 18:
		op := g.pick([]string{"!", "~", "-", "+"})
		g.use("prefix-operator")
		return ex{op + g.unaryOperand(d-1), pUnary}
	case 19:
		g.use("increment")
		if r.Bool() {
			return ex{g.pick([]string{"++", "--"}) + g.lvalue(d-1), pUnary}
		}
		return ex{g.lvalue(d-1) + g.pick([]string{"++", "--"}), pUnary}
	case 20:
		op := g.pick(assignOps)
		if op != "=" {
			g.use("compound-assignment")
		}
		return ex{g.lvalue(d-1) + " " + op + " " + g.expr(d-1).s, pLow}
	case 21:
		return g.switchExpr(d)
	case 22:
		g.use("array-access")
		return ex{g.need(d-1, pPrimary).s + "[" + g.expr(min(d-1, 2)).s + "]", pPrimary}
	case 23:
		return ex{g.need(d-1, pPrimary).s + "." + g.lname(), pPrimary}
	case 24:
		g.use("parenthesised")
		return ex{"(" + g.expr(d-1).s + ")", pPrimary}
	case 25:
		g.use("super-field")
		return ex{"super." + g.lname(), pPrimary}
	default:
		return g.call(d)
	}
}

// stmtExpr is an expression that Java allows as an expression statement.
func (g *wgen) stmtExpr(d int) string {
	r := g.r
	switch r.Intn(8) {
	case 0, 1, 2:
		return g.call(d).s
	case 3:
		op := g.pick(assignOps)
		if op != "=" {
			g.use("compound-assignment")
		}
		return g.lvalue(d) + " " + op + " " + g.expr(d).s
	case 4:
		g.use("increment")
		if r.Bool() {
			return g.lvalue(d) + g.pick([]string{"++", "--"})
		}
		return g.pick([]string{"++", "--"}) + g.lvalue(d)
	case 5:
		e := g.creation(min(d, 3))
		if strings.HasPrefix(e.s, "new ") && !strings.Contains(strings.SplitN(e.s, "(", 2)[0], "[") {
			return e.s
		}
		return "new Foo()"
	default:
		return g.call(d).s
	}
}
