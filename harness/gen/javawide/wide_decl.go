package javawide

import (
	"strings"

	"verifharness/run"
)

func (g *wgen) params(spring bool) string {
	r := g.r
	n := r.Intn(4)
	var ps []string
	if r.Chance(1, 14) {
		g.use("receiver-parameter")
		ps = append(ps, g.pick([]string{"Foo this", "@NonNull Foo this", "Outer.Inner Outer.this", "Foo<T> this"}))
	}
	for i := 0; i < n; i++ {
		p := ""
		if spring && r.Chance(2, 3) {
			g.use("annotation-on-parameter")
			p = g.springParamAnno()
		} else {
			if r.Chance(1, 6) {
				p = "final "
			}
			if r.Chance(1, 6) {
				g.use("annotation-on-parameter")
				switch r.Intn(3) {
				case 0:
					p += g.anno(1) + " "
				case 1:
					p = g.anno(1) + " " + p
				default:
					p = g.anno(1) + " final " + g.anno(0) + " "
				}
			}
		}
		nm := g.pname() + itoa(i)
		if r.Chance(1, 10) {
			g.use("c-style-array")
			p += g.typ(1) + " " + nm + "[]"
		} else {
			p += g.typ(2) + " " + nm
		}
		ps = append(ps, p)
	}
	if r.Chance(1, 7) {
		g.use("varargs")
		switch r.Intn(3) {
		case 0:
			g.use("type-annotation")
			ps = append(ps, g.pick(libTypes)+" @NonNull ... rest")
		case 1:
			ps = append(ps, "final "+g.pick(primitiveNames)+"... rest")
		default:
			ps = append(ps, g.refTypeNoAnno()+"... rest")
		}
	}
	return "(" + strings.Join(ps, ", ") + ")"
}

func (g *wgen) throws() string {
	if g.r.Chance(1, 5) {
		g.use("throws")
		s := " throws " + g.pick(exceptionNames)
		if g.r.Chance(1, 3) {
			s += ", " + g.pick(exceptionNames)
		}
		return s
	}
	return ""
}

func (g *wgen) methodBody(d int, ctorOf string) []string {
	r := g.r
	var body []string
	if ctorOf != "" && r.Chance(1, 2) {
		switch r.Intn(8) {
		case 0, 1:
			g.use("this-call")
			body = append(body, "this"+g.args(3)+";")
		case 2, 3:
			g.use("super-call")
			body = append(body, "super"+g.args(3)+";")
		case 4:
			g.use("this-call")
			g.use("explicit-generic-invocation")
			body = append(body, "<String>this"+g.args(2)+";")
		case 5:
			g.use("super-call")
			g.use("explicit-generic-invocation")
			body = append(body, "<String, Foo>super"+g.args(2)+";")
		case 6:
			g.use("super-call")
			g.use("qualified-this-super")
			body = append(body, g.lname()+".super"+g.args(2)+";")
		default:
			g.use("this-call")
			body = append(body, "this();")
		}
	}
	body = append(body, g.stmts(d, r.Range(0, 5))...)
	return body
}

func (g *wgen) method(kind string, d int) []string {
	r := g.r
	var head string
	if kind != "interface" && kind != "anon" && r.Chance(1, 5) {
		head += strings.Join(g.comment(), "\n") + "\n"
	}
	spring := g.spring && kind == "class"
	if spring && r.Chance(3, 4) {
		g.use("annotation-on-method")
		if g.slashBase && r.Chance(1, 2) {
			g.use("spring-mapping")
			head += "@" + g.pick([]string{"GetMapping", "PostMapping", "PutMapping", "DeleteMapping", "RequestMapping"}) + g.pick([]string{"(\"\")", "(value = \"\")", "(\"\")", "(value = \"\", produces = \"a/b\")"}) + "\n"
		} else {
			head += g.springMapping() + "\n"
		}
		if r.Chance(1, 4) {
			head += g.pick([]string{"@ResponseBody", "@Override", "@Deprecated(since = \"1\")"}) + "\n"
		}
	} else {
		head += g.annos("method", 3)
	}
	abstract := false
	switch kind {
	case "interface":
		switch r.Intn(6) {
		case 0:
			g.use("interface-default-method")
			head += "default "
		case 1:
			g.use("interface-static-method")
			head += g.pick([]string{"static ", "public static "})
		case 2:
			g.use("interface-private-method")
			head += g.pick([]string{"private ", "private static "})
		case 3:
			head += g.pick([]string{"public ", "public abstract ", "abstract "})
			abstract = true
		default:
			abstract = true
		}
	case "anon":
		head += g.pick([]string{"", "public ", "@Override public ", "private "})
	default:
		switch r.Intn(10) {
		case 0:
			g.use("modifier-wide")
			head += g.pick([]string{"public abstract ", "protected abstract ", "abstract "})
			abstract = true
		case 1:
			g.use("modifier-wide")
			head += g.pick([]string{"public native ", "private static native "})
			abstract = true
		case 2:
			g.use("modifier-wide")
			head += g.pick([]string{"public synchronized ", "static synchronized ", "public final strictfp ", "protected static final "})
		case 3:
		default:
			head += g.pick([]string{"public ", "private ", "protected ", "public static ", "static ", "public final "})
		}
	}
	if r.Chance(1, 5) {
		if kind == "interface" {
			g.use("generic-interface-method")
		} else {
			g.use("generic-method")
		}
		head += g.typeParams() + " "
	}
	ret := "void"
	if r.Chance(2, 3) {
		ret = g.typ(2)
		if strings.HasSuffix(head, "> ") && r.Chance(1, 4) && !strings.Contains(ret, "@") {
			// (the shipped grammar has no annotation in front of 'void' after type parameters)
			g.use("annotation-on-method")
			ret = "@Nullable " + ret
		}
	}
	sig := head + ret + " " + g.mname() + g.params(spring)
	if r.Chance(1, 20) {
		g.use("c-style-array")
		sig += "[]"
	}
	sig += g.throws()
	if abstract {
		return strings.Split(sig+";", "\n")
	}
	return strings.Split(strings.Join(withBlock(sig, g.methodBody(d, ""), ""), "\n"), "\n")
}

func (g *wgen) ctor(name string, d int) []string {
	r := g.r
	head := g.annos("constructor", 6) + g.pick([]string{"public ", "private ", "protected ", ""})
	if r.Chance(1, 5) {
		g.use("generic-constructor")
		head += g.typeParams() + " "
	}
	return withBlock(head+name+g.params(false)+g.throws(), g.methodBody(d, name), "")
}

func (g *wgen) field(kind string) []string {
	r := g.r
	head := g.annos("field", 5)
	switch kind {
	case "interface", "annotation":
		head += g.pick([]string{"", "", "public static final ", "static ", "final "})
	default:
		head += g.pick([]string{"private ", "public ", "protected ", "", "private static final ", "public static ", "private final "})
		if r.Chance(1, 8) {
			g.use("modifier-wide")
			head += g.pick([]string{"transient ", "volatile "})
		}
	}
	needInit := kind == "interface" || kind == "annotation"
	name := g.pname()
	if needInit || strings.Contains(head, "final") {
		name = g.pick(constNames)
	}
	switch {
	case r.Chance(1, 7):
		g.use("array-initialiser")
		return []string{head + g.pick([]string{"int", "String", "Object"}) + "[] " + name + " = " + g.arrayInit(2, 1) + ";"}
	case r.Chance(1, 8):
		g.use("multi-declarator")
		return []string{head + g.typ(1) + " " + name + " = " + g.expr(2).s + ", " + name + "2 = " + g.expr(2).s + ";"}
	case r.Chance(1, 10):
		g.use("c-style-array")
		return []string{head + g.pick(primitiveNames) + " " + name + "[] = " + g.arrayInit(1, 1) + ";"}
	case needInit || r.Chance(2, 3):
		return strings.Split(head+g.typ(2)+" "+name+" = "+g.expr(g.ed()).s+";", "\n")
	default:
		return []string{head + g.typ(2) + " " + name + ";"}
	}
}

func (g *wgen) annotationElement() []string {
	r := g.r
	g.use("annotation-type-element")
	head := g.annos("", 8) + g.pick([]string{"", "", "public ", "public abstract "})
	t := g.pick([]string{"String", "int", "Class<?>", "String[]", "int[]", "RetentionPolicy", "Nested", "Class<? extends Foo>", "long", "boolean"})
	s := head + t + " " + g.pick([]string{"value", "name", "tags", "to", "with", "étiquette", "x"}) + "()"
	if r.Chance(2, 3) {
		g.use("annotation-default")
		switch {
		case strings.HasSuffix(t, "[]"):
			s += " default " + g.pick([]string{"{}", "{1, 2}", "{\"a\", \"b\",}", "{A}", "\"single\""})
		case t == "Nested":
			s += " default @Nested(" + g.pick([]string{"", "1", "x = 2", "{}"}) + ")"
		case strings.HasPrefix(t, "Class"):
			s += " default " + g.pick([]string{"Object.class", "void.class", "Foo.Bar.class"})
		default:
			s += " default " + g.elementValue(1)
		}
	}
	return strings.Split(s+";", "\n")
}

// nestedType declares a member type of any of the five kinds.
func (g *wgen) nestedType(outer string, d int) []string {
	mods := g.annos("type", 6)
	if outer == "class" || outer == "enum" || outer == "record" {
		m := g.pick([]string{"", "static ", "private static ", "public ", "protected ", "private "})
		if !strings.Contains(m, "static") {
			g.use("inner-class")
		} else {
			g.use("nested-class")
		}
		mods += m
	} else {
		g.use("nested-class")
	}
	return g.typeDecl(mods, d, false)
}

func (g *wgen) member(kind string, d int) []string {
	r := g.r
	switch kind {
	case "annotation":
		switch r.Intn(8) {
		case 0:
			return g.field(kind)
		case 1:
			if g.budget > 3 && d > 0 {
				return g.nestedType(kind, d-1)
			}
			return g.annotationElement()
		case 2:
			g.use("empty-declaration")
			return []string{";"}
		default:
			return g.annotationElement()
		}
	case "interface":
		switch r.Intn(10) {
		case 0, 1:
			return g.field(kind)
		case 2:
			if g.budget > 3 && d > 0 {
				return g.nestedType(kind, d-1)
			}
			return g.method(kind, 1)
		case 3:
			g.use("empty-declaration")
			return []string{";"}
		default:
			return g.method(kind, min(d+1, 2))
		}
	case "anon":
		switch r.Intn(6) {
		case 0:
			return g.field("class")
		case 1:
			g.use("instance-initialiser")
			return withBlock("", g.stmts(1, r.Range(0, 2)), "")
		default:
			return g.method(kind, 1)
		}
	}
	// class, enum, record bodies
	switch r.Intn(20) {
	case 0, 1, 2, 3:
		if kind == "record" {
			f := g.field(kind)
			if !strings.Contains(f[0], "static") {
				return g.method(kind, 2)
			}
			return f
		}
		return g.field(kind)
	case 4, 5:
		name := g.curType
		if name == "" {
			return g.method(kind, 2)
		}
		return g.ctor(name, min(d+1, 3))
	case 6:
		g.use("static-initialiser")
		out := withBlock("static", g.stmts(min(d, 2), r.Range(0, 3)), "")
		return out
	case 7:
		if kind == "record" {
			return g.method(kind, 2)
		}
		g.use("instance-initialiser")
		out := withBlock("", g.stmts(min(d, 2), r.Range(0, 3)), "")
		out[0] = "{"
		return out
	case 8, 9:
		if g.budget > 3 && d > 0 {
			return g.nestedType(kind, d-1)
		}
		return g.method(kind, 2)
	case 10:
		g.use("empty-declaration")
		return []string{";"}
	default:
		return g.method(kind, min(d+2, 3))
	}
}

func (g *wgen) members(kind string, d, n int) []string {
	var out []string
	for i := 0; i < n && g.spend(); i++ {
		if g.r.Chance(1, 6) {
			out = append(out, g.comment()...)
		}
		out = append(out, g.member(kind, d)...)
	}
	return out
}

func (g *wgen) typeList(n int) string {
	var ts []string
	for i := 0; i < n; i++ {
		ts = append(ts, g.refType(1))
	}
	return strings.Join(ts, ", ")
}

// typeDecl declares a type of a random kind; mods are the modifiers rendered so far.
func (g *wgen) typeDecl(mods string, d int, top bool) []string {
	r := g.r
	name := g.freshType()
	saved := g.curType
	defer func() { g.curType = saved }()
	g.curType = name
	nm := r.Range(1, 6)
	if !top {
		nm = r.Range(0, 3)
	}
	var out []string
	switch r.Intn(12) {
	case 0, 1: // enum
		g.use("enum")
		head := mods + "enum " + name
		if r.Chance(1, 3) {
			head += " implements " + g.typeList(r.Range(1, 2))
		}
		var body []string
		nc := r.Intn(5)
		var consts []string
		for i := 0; i < nc; i++ {
			c := ""
			if r.Chance(1, 6) {
				g.use("annotation-on-enum-constant")
				c = g.anno(1) + " "
			}
			c += g.pick(constNames) + itoa(i)
			if r.Chance(1, 3) {
				g.use("enum-constant-arguments")
				c += g.args(2)
			}
			if r.Chance(1, 5) && g.budget > 3 {
				g.use("enum-constant-body")
				c += " " + g.anonBody()
			}
			consts = append(consts, c)
		}
		cl := strings.Join(consts, ",\n")
		if nc > 0 && r.Chance(1, 4) {
			g.use("enum-trailing-comma")
			cl += ","
		}
		hasBody := r.Chance(2, 3)
		if hasBody {
			cl += ";"
		}
		if cl != "" {
			body = append(body, strings.Split(cl, "\n")...)
		}
		if hasBody {
			g.use("enum-body")
			body = append(body, g.members("enum", d, nm)...)
		}
		out = withBlock(head, body, "")
	case 2, 3: // interface
		head := mods
		if r.Chance(1, 8) {
			g.use("sealed")
			head += "sealed "
		}
		head += "interface " + name
		if r.Chance(1, 3) {
			head += g.typeParams()
		}
		if r.Chance(1, 3) {
			g.use("interface-extends-list")
			head += " extends " + g.typeList(r.Range(1, 3))
		}
		if strings.Contains(head, "sealed ") {
			head += " permits " + g.typeList(r.Range(1, 2))
		}
		if !top {
			g.use("nested-interface")
		}
		out = withBlock(head, g.members("interface", d, nm), "")
	case 4: // annotation type
		g.use("annotation-type")
		out = withBlock(mods+"@interface "+name, g.members("annotation", d, nm), "")
	case 5, 6: // record
		g.use("record")
		head := mods + "record " + name
		if r.Chance(1, 4) {
			head += g.typeParams()
		}
		var comps []string
		for i := 0; i < r.Intn(4); i++ {
			c := ""
			if r.Chance(1, 5) {
				g.use("annotation-on-record-component")
				c = "@NonNull "
			}
			comps = append(comps, c+g.typ(1)+" "+g.lname()+itoa(i))
		}
		head += "(" + strings.Join(comps, ", ") + ")"
		if r.Chance(1, 3) {
			head += " implements " + g.typeList(r.Range(1, 2))
		}
		out = withBlock(head, g.members("record", d, nm-1), "")
	default: // class
		head := mods
		switch r.Intn(8) {
		case 0:
			head += "abstract "
		case 1:
			head += "final "
		case 2:
			g.use("sealed")
			head += "sealed "
		case 3:
			g.use("sealed")
			head += "non-sealed "
		case 4:
			g.use("modifier-wide")
			head += "strictfp "
		}
		head += "class " + name
		if r.Chance(1, 3) {
			head += g.typeParams()
		}
		var twin []string
		if r.Chance(1, 8) {
			var ext string
			ext, twin = g.sameNameParent(name)
			head += " extends " + ext
		} else if r.Chance(1, 2) {
			head += " extends " + g.refType(2)
		}
		if r.Chance(1, 2) {
			head += " implements " + g.typeList(r.Range(1, 3))
		}
		if strings.Contains(head, " sealed ") || strings.HasPrefix(head, "sealed ") || r.Chance(1, 30) {
			g.use("sealed")
			head += " permits " + g.typeList(r.Range(1, 3))
		}
		body := g.members("class", d, nm)
		if r.Bool() {
			body = append(twin, body...)
		} else {
			body = append(body, twin...)
		}
		out = withBlock(head, body, "")
	}
	g.declared = append(g.declared, name)
	return out
}

func (g *wgen) moduleFile() []string {
	r := g.r
	g.use("module-declaration")
	var body []string
	for i := 0; i < r.Range(0, 5); i++ {
		switch r.Intn(6) {
		case 0:
			body = append(body, "requires "+g.pick([]string{"", "transitive ", "static ", "static transitive "})+g.pick(pkgNames)+";")
		case 1:
			body = append(body, "exports "+g.pick(pkgNames)+g.pick([]string{"", " to a.b"})+";")
		case 2:
			body = append(body, "opens "+g.pick(pkgNames)+g.pick([]string{"", " to x.y"})+";")
		case 3:
			body = append(body, "uses "+g.pick(pkgNames)+".Service;")
		case 4:
			body = append(body, "provides a.Service with b.Impl;")
		default:
			body = append(body, g.comment()...)
		}
	}
	return withBlock(g.pick([]string{"", "open "})+"module "+g.pick(pkgNames), body, "")
}

// Handwritten generates one compilation unit with the hand-written recursive generator (source i).
func Handwritten(r *run.Rand) *File {
	for try := 0; ; try++ {
		g := &wgen{r: r.Fork(), fam: map[string]int{}, budget: r.Range(8, 45) - 5*try}
		if g.budget < 8 {
			g.budget = 8
		}
		lines := g.unit()
		text := strings.Join(lines, "\n") + "\n"
		if Lines(text) <= 400 || try > 6 {
			return &File{Source: "handwritten", Text: text, Families: g.fam, Types: g.declared}
		}
	}
}

func (g *wgen) unit() []string {
	r := g.r
	var out []string
	if r.Chance(1, 50) {
		return g.moduleFile()
	}
	if r.Chance(1, 4) {
		out = append(out, g.comment()...)
	}
	if r.Chance(9, 10) {
		pk := ""
		if r.Chance(1, 10) {
			g.use("annotation-on-package")
			pk = g.anno(1) + "\n"
		}
		p := g.pick(pkgNames)
		if !isASCII(p) {
			g.use("non-ascii-identifier")
		}
		out = append(out, strings.Split(pk+"package "+p+";", "\n")...)
	} else {
		g.use("default-package")
	}
	for i := 0; i < r.Intn(5); i++ {
		switch r.Intn(6) {
		case 0:
			g.use("import-static")
			out = append(out, "import static "+g.pick([]string{"java.lang.Math.PI", "org.junit.Assert.*", "a.b.Consts.A", "com.acme.Routes.BASE_URL"})+";")
		case 1:
			out = append(out, "import "+g.pick([]string{"java.util.*", "a.b.*", "org.springframework.web.bind.annotation.*"})+";")
		default:
			out = append(out, "import "+g.pick([]string{"java.util.List", "java.util.Map", "a.b.Ünit", "org.acme.Tag", "com.acme.Foo", "a.Service", "org.springframework.web.bind.annotation.RequestMapping", "x.Handler", "x.Visitor"})+";")
		}
	}
	if r.Chance(1, 12) {
		g.use("empty-declaration")
		out = append(out, ";")
	}
	g.spring = r.Chance(1, 3)
	nTypes := r.Range(1, 3)
	for i := 0; i < nTypes; i++ {
		if r.Chance(1, 4) {
			out = append(out, g.comment()...)
		}
		mods := ""
		if g.spring {
			g.use("spring-controller")
			order := r.Intn(4)
			rc := "@" + g.pick([]string{"RestController", "Controller", "RestController(\"n\")", "org.springframework.stereotype.Controller"})
			g.slashBase = r.Chance(1, 3)
			if g.slashBase {
				// a base path that ends with '/' (or the bare class mapping, whose base is "/"), with handlers whose own
				// path is the empty string
				g.use("spring-base-path-trailing-slash")
				base := "@RequestMapping" + g.pick([]string{"(\"/items/\")", "", "(value = \"/a/b/\")", "(\"/\")", "()", "(path = \"/x/\")", "(value = \"/用户/\", produces = \"x\")"})
				if r.Bool() {
					mods = rc + "\n" + base + "\n"
				} else {
					mods = base + "\n" + rc + "\n"
				}
				order = -1
			}
			switch order {
			case -1:
			case 0:
				mods = rc + "\n" + g.springMapping() + "\n"
			case 1:
				mods = g.springMapping() + "\n" + rc + "\n"
			case 2:
				mods = rc + "\n"
			default:
				mods = rc + " " + g.anno(2) + " " + g.springMapping() + "\n"
			}
		} else {
			for j := 0; j < 3 && r.Chance(1, 3); j++ {
				g.use("annotation-on-type")
				mods += g.anno(2) + "\n"
			}
		}
		if i == 0 && r.Chance(2, 3) {
			mods += "public "
		}
		var decl []string
		if g.spring {
			// a controller is a class
			decl = g.classDecl(mods)
		} else {
			decl = g.typeDecl(mods, 2, true)
		}
		out = append(out, strings.Split(strings.Join(decl, "\n"), "\n")...)
		if r.Chance(1, 15) {
			g.use("empty-declaration")
			out = append(out, ";")
		}
	}
	return out
}

func (g *wgen) classDecl(mods string) []string {
	r := g.r
	name := g.freshType()
	saved := g.curType
	defer func() { g.curType = saved }()
	g.curType = name
	head := mods + "class " + name
	var twin []string
	if r.Chance(1, 8) {
		var ext string
		ext, twin = g.sameNameParent(name)
		head += " extends " + ext
	} else if r.Chance(1, 4) {
		head += " extends " + g.refType(1)
	}
	if r.Chance(1, 3) {
		head += " implements " + g.typeList(r.Range(1, 2))
	}
	g.declared = append(g.declared, name)
	return withBlock(head, append(g.members("class", 2, r.Range(1, 6)), twin...), "")
}

// sameNameParent: "class Service extends lib.Service": the parent has the simple name of the class itself, lives in
// another package and is written with its package (optionally with type arguments); the class calls inherited methods
// through super without declaring them itself. Returns the extends text and the member that makes the super calls.
func (g *wgen) sameNameParent(name string) (string, []string) {
	r := g.r
	g.use("extends-same-simple-name-other-package")
	ext := g.pick([]string{"lib", "other.pkg", "com.acme.base", "a.b.c"}) + "." + name
	switch r.Intn(4) {
	case 0:
		ext += "<String>"
	case 1:
		ext += "<" + g.refTypeNoAnno() + ", Integer>"
	}
	g.seq++
	m := "inherited" + itoa(g.seq)
	body := []string{"super." + m + "Stop();"}
	if r.Bool() {
		body = append(body, "int "+g.lname()+" = super."+m+"Count("+g.expr(2).s+");")
	}
	if r.Bool() {
		body = append(body, "super.<String>"+m+"Generic();")
	}
	return ext, withBlock(g.pick([]string{"public ", "", "protected ", "private "})+"void "+m+"Restart()", body, "")
}
