package javawide

import "strings"

// DetectFamilies is a token-level detector of construct families outside the conventional subset. It is
// used for sources (ii) and (iii), whose texts do not come with a record of what they contain, and is a
// heuristic: it only feeds the non-triviality rule and the shape hash, never a verdict.
func DetectFamilies(text string) map[string]int {
	fam := map[string]int{}
	var ts []Tok
	for _, t := range Tokenize(text) {
		switch t.Kind {
		case TWs:
			continue
		case TLineComment, TBlockComment:
			up := strings.ToUpper(t.Text)
			if strings.Contains(up, "TODO") || strings.Contains(up, "FIXME") {
				fam["todo-comment"]++
			}
			if !isASCII(t.Text) {
				fam["non-ascii-comment"]++
			}
			continue
		}
		ts = append(ts, t)
	}
	at := func(i int) string {
		if i >= 0 && i < len(ts) {
			return ts[i].Text
		}
		return ""
	}
	kindAt := func(i int) int {
		if i >= 0 && i < len(ts) {
			return ts[i].Kind
		}
		return -1
	}
	isName := func(i int) bool { return kindAt(i) == TIdent && !javaKeywords[at(i)] }
	// brace context: "type" bodies vs blocks
	var stack []string
	segStart := 0 // index of the first token after the last ; { }
	for i, t := range ts {
		x := t.Text
		switch t.Kind {
		case TIdent:
			if !isASCII(x) {
				fam["non-ascii-identifier"]++
			}
			switch x {
			case "enum":
				if isName(i + 1) {
					fam["enum"]++
				}
			case "record":
				if isName(i+1) && (at(i+2) == "(" || strings.HasPrefix(at(i+2), "<")) {
					fam["record"]++
				}
			case "sealed", "permits", "non-sealed":
				if x != "sealed" || at(i+1) == "class" || at(i+1) == "interface" || javaKeywords[at(i+1)] {
					fam["sealed"]++
				}
			case "class", "interface":
				if at(i-1) == "." {
					fam["class-literal"]++
					break
				}
				if strings.HasSuffix(at(i-1), "@") && x == "interface" {
					fam["annotation-type"]++
				}
				if len(stack) > 0 {
					if stack[len(stack)-1] == "type" {
						fam["nested-class"]++
					} else {
						fam["local-class"]++
					}
				}
			case "assert":
				fam["assert"]++
			case "synchronized":
				if at(i+1) == "(" {
					fam["synchronized-statement"]++
				} else {
					fam["modifier-wide"]++
				}
			case "native", "transient", "volatile", "strictfp":
				fam["modifier-wide"]++
			case "try":
				if at(i+1) == "(" {
					fam["try-with-resources"]++
				}
			case "do":
				fam["do-while"]++
			case "this":
				if at(i+1) == "(" && at(i-1) != "." {
					fam["this-call"]++
				}
				if at(i-1) == "." {
					fam["qualified-this-super"]++
				}
			case "super":
				if at(i+1) == "(" {
					fam["super-call"]++
				}
			case "new":
				if at(i-1) == "." {
					fam["inner-creator"]++
				}
				// array creation: '[' before '(' / ';'
				for j := i + 1; j < len(ts) && j < i+12; j++ {
					if at(j) == "[" {
						fam["array-creation"]++
						break
					}
					if at(j) == "(" || at(j) == ";" || at(j) == "{" {
						break
					}
				}
			case "switch":
				p := at(i - 1)
				if p == "return" || p == "(" || p == "," || strings.HasSuffix(p, "=") || strings.HasSuffix(p, "->") || p == "yield" {
					fam["switch-expression"]++
				} else {
					fam["switch-statement-wide"] += 0
				}
			case "yield":
				if n := at(i + 1); n != "" && !strings.HasPrefix(n, "=") && n != "." && n != "(" && n != ")" && n != ";" && n != "," {
					fam["yield"]++
				}
			case "instanceof":
				// pattern: "... instanceof [final] Type name"
				j := i + 1
				last2 := 0
				for ; j < len(ts) && j < i+14; j++ {
					y := at(j)
					if y == ")" || y == ";" || y == "," || strings.HasPrefix(y, "&&") || strings.HasPrefix(y, "||") || strings.HasPrefix(y, "?") && at(j-1) != "<" {
						break
					}
					if kindAt(j) == TIdent && kindAt(j-1) == TIdent && !javaKeywords[at(j-1)] || kindAt(j) == TIdent && (strings.HasSuffix(at(j-1), ">") || at(j-1) == "]") {
						last2 = j
					}
				}
				if last2 == j-1 && last2 > 0 {
					fam["pattern-instanceof"]++
				}
			case "var":
				if isName(i+1) || javaKeywords[at(i+1)] && at(i+1) != "instanceof" {
					fam["var"]++
				}
			case "module":
				if i <= 1 {
					fam["module-declaration"]++
				}
			case "static":
				if at(i+1) == "{" {
					fam["static-initialiser"]++
				}
				if at(i-1) == "import" {
					fam["import-static"]++
				}
			case "default":
				if strings.HasPrefix(at(i+1), "->") {
					fam["switch-arrow"]++
				}
			case "RestController", "Controller":
				if strings.HasSuffix(at(i-1), "@") {
					fam["spring-controller"]++
				}
			case "RequestMapping", "GetMapping", "PostMapping", "PutMapping", "DeleteMapping":
				if strings.HasSuffix(at(i-1), "@") {
					fam["spring-mapping"]++
				}
			}
			// label
			if isName(i) && at(i+1) == ":" && (i == segStart) && (len(stack) > 0 && stack[len(stack)-1] == "block") {
				fam["labelled-statement"]++
			}
		case TNumber:
			lx := strings.ToLower(x)
			switch {
			case strings.HasPrefix(lx, "0x") && strings.Contains(lx, "p"):
				fam["literal-hexfloat"]++
			case strings.HasPrefix(lx, "0x"):
				fam["literal-hex"]++
			case strings.HasPrefix(lx, "0b"):
				fam["literal-binary"]++
			case len(lx) > 1 && lx[0] == '0' && lx[1] >= '0' && lx[1] <= '9' && !strings.ContainsAny(lx, ".e"):
				fam["literal-octal"]++
			}
			if strings.Contains(x, "_") {
				fam["literal-underscore"]++
			}
		case TChar:
			if strings.Contains(x, "\\") {
				fam["literal-char-escape"]++
			}
			if !isASCII(x) {
				fam["non-ascii-literal"]++
			}
		case TString:
			if !isASCII(x) {
				fam["non-ascii-literal"]++
			}
		case TTextBlock:
			fam["text-block"]++
		case TOp:
			switch {
			case strings.Contains(x, "::"):
				fam["method-reference"]++
			case strings.Contains(x, "->"):
				// "case ... ->" is a switch rule, anything else a lambda
				if at(segStart) == "case" {
					fam["switch-arrow"]++
				} else if at(i-1) == ")" {
					fam["lambda-parenthesised-params"]++
				}
			case x == "...":
				fam["varargs"]++
			case x == ".<":
				fam["explicit-generic-invocation"]++
			case strings.HasPrefix(x, "?") && at(i-1) != "<" && at(i-1) != "," && !strings.HasPrefix(at(i-1), "<") && at(i+1) != "extends" && at(i+1) != "super" && !strings.Contains(x, ">"):
				fam["ternary"]++
			case strings.HasPrefix(x, "?"):
				fam["wildcard"]++
			case x == ">>" || x == ">>>" || x == "<<" || strings.HasPrefix(x, ">>=") || strings.HasPrefix(x, ">>>=") || strings.HasPrefix(x, "<<="):
				if at(i+1) != "" && kindAt(i+1) != TSep {
					fam["shift"]++
				}
			}
			if x == ".@" {
				fam["type-annotation-qualified"]++
			}
			if strings.HasSuffix(x, "@") && kindAt(i+1) == TIdent && at(i+2) == "(" && kindAt(i+3) == TIdent && at(i+4) == ")" && !javaKeywords[at(i+3)] {
				fam["annotation-arg-constant"]++
			}
		case TSep:
			switch x {
			case "{":
				kind := "block"
				seg := ts[segStart:i]
				for _, s := range seg {
					if s.Kind == TIdent && (s.Text == "class" || s.Text == "interface" || s.Text == "enum" || s.Text == "record") {
						kind = "type"
					}
				}
				p := at(i - 1)
				if kind == "block" && p == ")" {
					for _, s := range seg {
						if s.Text == "new" {
							kind = "type"
							fam["anonymous-class"]++
							break
						}
					}
				}
				if p == "]" || strings.HasSuffix(p, "=") && p != "==" {
					kind = "array"
					fam["array-initialiser"]++
				} else if len(stack) > 0 && stack[len(stack)-1] == "array" {
					kind = "array"
				} else if len(stack) > 0 && stack[len(stack)-1] == "type" && i == segStart && kind == "block" {
					fam["instance-initialiser"]++
				}
				stack = append(stack, kind)
				segStart = i + 1
			case "}":
				if len(stack) > 0 {
					stack = stack[:len(stack)-1]
				}
				segStart = i + 1
			case ";":
				segStart = i + 1
			}
		}
	}
	for k, v := range fam {
		if v == 0 {
			delete(fam, k)
		}
	}
	return fam
}
