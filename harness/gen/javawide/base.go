// Package javawide is G-JAVA-WIDE, the workload of C09: (i) a hand-written recursive generator over the
// Java-17 constructs of the grammar coca ships (wide*.go), (ii) a generic sentence sampler that reads
// the rule text of JavaParser.g4 / JavaLexer.g4 at run time (sampler.go), (iii) token-level
// semantics-preserving rewrites of existing Java files (rewrite.go). No coca imports: whether a text
// is "accepted" is decided by the adapter with coca's own parser.
package javawide

import (
	"sort"
	"strings"

	"verifharness/run"
)

// File is one generated compilation unit.
type File struct {
	Source   string // handwritten | grammar | fixture
	Text     string
	Families map[string]int // construct families outside the conventional subset (multiset)
	Note     string         // what was done (fixture path + rewrites, sampler budget, ...)
	Types    []string       // top-level type names declared (handwritten source only)
}

// FamilyKey renders the multiset of families in a canonical form (counts capped at 3: "3" means 3 or more).
func FamilyKey(f map[string]int) string {
	keys := make([]string, 0, len(f))
	for k := range f {
		keys = append(keys, k)
	}
	sort.Strings(keys)
	var sb strings.Builder
	for _, k := range keys {
		n := f[k]
		if n > 3 {
			n = 3
		}
		sb.WriteString(k)
		sb.WriteByte('*')
		sb.WriteByte(byte('0' + n))
		sb.WriteByte(',')
	}
	return sb.String()
}

func Lines(text string) int { return strings.Count(text, "\n") + 1 }

// ---- name pools

var lowerNames = []string{"a", "b", "i", "x", "idx", "count", "value", "name", "items", "tmp", "result", "acc", "it", "node", "ctx",
	"café", "größe", "переменная", "变量", "π", "ñu", "_tmp", "$ref", "x_1", "élan", "𝒳s",
	"module", "open", "to", "with", "requires", "exports", "uses", "provides", "transitive", "opens"}

// contextual keywords that are only safe where no statement can start
var ctxKeywordNames = []string{"record", "sealed", "permits", "yield", "var"}

var typeNames = []string{"Foo", "Bar", "Node", "Shape", "Item", "Order", "Visitor", "Handler", "Ünit", "Données", "型", "Ω", "A", "B", "T1"}
var libTypes = []string{"String", "Object", "Integer", "Long", "Number", "Runnable", "Thread", "Exception", "StringBuilder"}
var genericTypes = []string{"List", "Set", "Optional", "Supplier", "Comparable", "Iterable", "Class"}
var generic2Types = []string{"Map", "Function", "BiFunction"}
var primitiveNames = []string{"int", "long", "boolean", "double", "char", "byte", "short", "float"}
var methodNames = []string{"run", "apply", "get", "set", "size", "of", "find", "load", "close", "toString", "handle", "m", "f", "café", "计算", "to", "with", "open"}
var constNames = []string{"A", "B", "X", "MAX", "PATH", "Π", "BASE_URL", "V1", "Z"}
var annoNames = []string{"Deprecated", "Override", "SuppressWarnings", "FunctionalInterface", "SafeVarargs", "NonNull", "Nullable", "Valid", "Inject",
	"Autowired", "Entity", "Column", "JsonProperty", "Märker", "javax.annotation.Nonnull", "org.acme.Tag", "Service", "Component", "Repository", "ServiceMethod"}
var exceptionNames = []string{"Exception", "RuntimeException", "java.io.IOException", "IllegalStateException", "Error", "a.b.ÜException"}
var pkgNames = []string{"com.acme.wide", "org.demo", "x", "io.sample.α", "com.acme.shop.core", "déjà.vu", "a.b.c.d.e"}

func (g *wgen) pick(xs []string) string { return g.r.Pick(xs) }

func (g *wgen) lname() string {
	n := g.pick(lowerNames)
	if isASCII(n) == false {
		g.use("non-ascii-identifier")
	}
	return n
}

// pname is a name for parameters / fields: contextual keywords allowed
func (g *wgen) pname() string {
	if g.r.Chance(1, 12) {
		g.use("contextual-keyword-identifier")
		return g.pick(ctxKeywordNames)
	}
	return g.lname()
}

func (g *wgen) uname() string {
	n := g.pick(typeNames)
	if !isASCII(n) {
		g.use("non-ascii-identifier")
	}
	return n
}

func (g *wgen) mname() string {
	n := g.pick(methodNames)
	if !isASCII(n) {
		g.use("non-ascii-identifier")
	}
	return n
}

func (g *wgen) freshType() string {
	g.seq++
	n := g.pick(typeNames)
	if !isASCII(n) {
		g.use("non-ascii-identifier")
	}
	return n + itoa(g.seq)
}

func isASCII(s string) bool {
	for i := 0; i < len(s); i++ {
		if s[i] >= 0x80 {
			return false
		}
	}
	return true
}

func itoa(i int) string {
	if i == 0 {
		return "0"
	}
	neg := i < 0
	if neg {
		i = -i
	}
	var b []byte
	for i > 0 {
		b = append([]byte{byte('0' + i%10)}, b...)
		i /= 10
	}
	if neg {
		b = append([]byte{'-'}, b...)
	}
	return string(b)
}

// wgen is the state of one run of the hand-written generator.
type wgen struct {
	r         *run.Rand
	fam       map[string]int
	out       []string
	seq       int
	budget    int // statements + members still allowed
	labels    []string
	spring    bool
	slashBase bool     // the controller being generated has a base path ending with '/': handlers also get empty paths
	declared  []string // type names declared so far (referenced by later code)
	curType   string   // name of the innermost named type being generated (for constructors)
}

func (g *wgen) use(f string) { g.fam[f]++ }

func (g *wgen) emit(ind int, s string) {
	g.out = append(g.out, strings.Repeat("    ", ind)+s)
}

func (g *wgen) spend() bool {
	if g.budget <= 0 {
		return false
	}
	g.budget--
	return true
}
