package javawide

import "strings"

func indent(lines []string) []string {
	out := make([]string, len(lines))
	for i, l := range lines {
		out[i] = "    " + l
	}
	return out
}

func withBlock(header string, body []string, tail string) []string {
	out := []string{header + " {"}
	out = append(out, indent(body)...)
	return append(out, "}"+tail)
}

// inlineBlock renders a block for use inside an expression (lambda body).
func (g *wgen) inlineBlock(d int) string {
	body := g.stmts(d, g.r.Intn(3))
	if g.r.Chance(1, 2) {
		body = append(body, "return "+g.expr(min(d, 2)).s+";")
	}
	return strings.Join(withBlock("", body, ""), "\n")[1:]
}

func (g *wgen) anonBody() string {
	var body []string
	n := g.r.Intn(3)
	for i := 0; i < n && g.spend(); i++ {
		body = append(body, g.member("anon", 1)...)
	}
	return strings.Join(withBlock("", body, ""), "\n")[1:]
}

var todoComments = []string{
	"// TODO: fix this", "//TODO no blank", "// FIXME(bob): assignee", "// todo lower case", "//TODO", "// TODO", "// FIXME", "// TODO(a.b+c@d.e): mail",
	"// TODO (", "// TODO:::", "//", "// ", "/* TODO */", "/*TODO*/", "/**/", "/***/", "/* FIXME(x) */", "/* TODO(y): in block */", "/** TODO: javadoc\n * second line\n */",
	"/*\n * FIXME multi\n * line */", "// TODO: 处理链试调用 ünï", "// TODO(张三): 非ASCII", "// TODOnospace", "// not a todo", "/* plain */", "// FIXME: ends with */", "// TODO(", "// TODO()", "// TODO( ) x",
	"/* TODO: */", "/*FIXME*/", "// ToDo mixed", "//\tTODO tab", "/* * TODO star */", "/** FIXME */", "// TODO : colon after blank", "// TODO(a)(b): two",
}

func (g *wgen) comment() []string {
	g.use("todo-comment")
	if g.r.Chance(1, 25) {
		g.use("comment-raw-control-or-supplementary")
		c := g.pick(rawChars)
		return []string{g.pick([]string{"// TODO: " + c + " raw", "/* FIXME(x): a" + c + "b */", "// " + c, "// TODO(" + c + "): y", "/** TODO " + c + g.pick(rawChars) + " */"})}
	}
	return strings.Split(g.pick(todoComments), "\n")
}

func (g *wgen) stmts(d, n int) []string {
	var out []string
	for i := 0; i < n && g.spend(); i++ {
		if g.r.Chance(1, 8) {
			out = append(out, g.comment()...)
		}
		out = append(out, g.stmt(d)...)
	}
	return out
}

func (g *wgen) body(d int) []string {
	if d <= 0 {
		return g.stmts(0, g.r.Intn(2))
	}
	return g.stmts(d-1, g.r.Range(0, 3))
}

func (g *wgen) ed() int { // expression depth for this use: mostly shallow, sometimes up to the bound of 6
	switch g.r.Intn(10) {
	case 0:
		return 6
	case 1:
		return 5
	case 2, 3:
		return 4
	case 4, 5, 6:
		return 3
	default:
		return 2
	}
}

func (g *wgen) cond() string { return g.expr(min(g.ed(), 4)).s }

func (g *wgen) localVar() string {
	r := g.r
	mods := ""
	if r.Chance(1, 5) {
		mods = "final "
	}
	if r.Chance(1, 6) {
		g.use("annotation-on-local")
		if r.Bool() {
			mods += g.anno(1) + " "
		} else {
			mods = g.anno(1) + " " + mods
		}
		if r.Chance(1, 4) {
			mods += "final "
			if strings.Count(mods, "final") > 1 {
				mods = strings.Replace(mods, "final ", "", 1)
			}
		}
	}
	switch r.Intn(8) {
	case 0:
		g.use("var")
		switch r.Intn(5) {
		case 0:
			// the initialiser is directly an array creation (primitive or class element type)
			g.use("array-creation")
			return mods + "var " + g.lname() + " = new " + g.pick(append([]string{"String", "Foo"}, primitiveNames...)) + g.pick([]string{"[" + g.expr(2).s + "]", "[2][]", "[]" + g.arrayInit(1, 1), "[][]" + g.arrayInit(1, 2)})
		case 1:
			// ... or directly an object creation of any form
			return mods + "var " + g.lname() + " = " + g.creation(min(g.ed(), 4)).s
		}
		return mods + "var " + g.lname() + " = " + g.expr(g.ed()).s
	case 1:
		g.use("multi-declarator")
		return mods + g.typ(1) + " " + g.lname() + " = " + g.expr(2).s + ", " + g.lname() + "2, " + g.lname() + "3 = " + g.expr(2).s
	case 2:
		g.use("c-style-array")
		return mods + g.pick(primitiveNames) + " " + g.lname() + "[] = " + g.arrayInit(2, 1) + ", " + g.lname() + "2[][]"
	case 3:
		g.use("array-initialiser")
		return mods + g.pick([]string{"int", "String", "Object"}) + "[] " + g.lname() + " = " + g.arrayInit(2, 1)
	case 4:
		return mods + g.typ(2) + " " + g.lname()
	default:
		return mods + g.typ(2) + " " + g.lname() + " = " + g.expr(g.ed()).s
	}
}

func (g *wgen) localType(d int) []string {
	r := g.r
	g.use("local-class")
	name := g.freshType()
	switch r.Intn(4) {
	case 0:
		g.use("record")
		return withBlock("record "+name+"(int x, String y)", g.members("record", 1, r.Intn(2)), "")
	case 1:
		g.use("local-interface")
		return withBlock("interface "+name, g.members("interface", 1, r.Intn(2)), "")
	default:
		mods := g.pick([]string{"", "", "final ", "abstract ", "@Deprecated ", "static "})
		return withBlock(mods+"class "+name+g.pick([]string{"", "", " extends Foo", "<T>", " implements Runnable"}), g.members("class", min(d, 1), r.Intn(3)), "")
	}
}

func (g *wgen) switchOld(d int) []string {
	r := g.r
	g.use("switch-old")
	var body []string
	n := r.Range(0, 3)
	for i := 0; i < n; i++ {
		lab := "case " + g.pick([]string{itoa(i), g.pick(constNames), "'c'", g.strLit(), "1 + " + itoa(i), "-1", "Foo.BAR", "(2)"}) + ":"
		if r.Chance(1, 4) {
			g.use("switch-fallthrough-labels")
			lab += " case " + itoa(10+i) + ":"
		}
		body = append(body, lab)
		body = append(body, indent(g.stmts(d-1, r.Range(1, 2)))...)
		if r.Chance(2, 3) {
			body = append(body, "    break;")
		}
	}
	if r.Chance(1, 2) {
		body = append(body, "default:")
		if r.Chance(2, 3) {
			body = append(body, "    "+g.stmtExpr(2)+";")
		} else {
			g.use("switch-trailing-label")
		}
	} else if n > 0 && r.Chance(1, 4) {
		g.use("switch-trailing-label")
		body = append(body, "case 99:")
	}
	return withBlock("switch ("+g.expr(min(g.ed(), 3)).s+")", body, "")
}

func (g *wgen) switchArrow(d int) []string {
	r := g.r
	g.use("switch-arrow")
	var body []string
	n := r.Range(1, 3)
	for i := 0; i < n; i++ {
		lab := "case " + g.pick([]string{itoa(i), itoa(i) + ", " + itoa(i+10), g.pick(constNames), g.strLit(), "'q'"}) + " ->"
		switch r.Intn(4) {
		case 0:
			body = append(body, withBlock(lab, g.body(d), "")...)
		case 1:
			body = append(body, lab+" throw new "+g.pick(exceptionNames)+"();")
		default:
			body = append(body, lab+" "+g.stmtExpr(2)+";")
		}
	}
	if r.Chance(2, 3) {
		body = append(body, "default -> "+g.pick([]string{"{ }", g.stmtExpr(2) + ";", "throw new Error();"}))
	}
	return withBlock("switch ("+g.expr(min(g.ed(), 3)).s+")", body, g.pick([]string{"", "", ";"}))
}

func (g *wgen) tryStmt(d int) []string {
	r := g.r
	var out []string
	header := "try"
	resources := r.Chance(1, 2)
	if resources {
		g.use("try-with-resources")
		var rs []string
		for i := 0; i < r.Range(1, 3); i++ {
			switch r.Intn(5) {
			case 0:
				g.use("var")
				rs = append(rs, "var "+g.lname()+" = "+g.expr(2).s)
			case 1:
				rs = append(rs, g.lname())
			case 2:
				rs = append(rs, "final "+g.pick([]string{"java.io.Reader", "AutoCloseable", "Foo<String>"})+" "+g.lname()+" = "+g.creation(2).s)
			case 3:
				g.use("annotation-on-local")
				rs = append(rs, "@SuppressWarnings(\"x\") Closeable "+g.lname()+" = "+g.call(2).s)
			default:
				rs = append(rs, g.pick([]string{"Closeable", "java.io.InputStream"})+" "+g.lname()+" = "+g.call(2).s)
			}
		}
		header = "try (" + strings.Join(rs, "; ") + g.pick([]string{"", "", ";"}) + ")"
	} else {
		g.use("try-catch")
	}
	out = withBlock(header, g.body(d), "")
	nCatch := r.Intn(3)
	if !resources && nCatch == 0 && r.Bool() {
		nCatch = 1
	}
	for i := 0; i < nCatch; i++ {
		ct := g.pick(exceptionNames)
		if r.Chance(1, 3) {
			g.use("multi-catch")
			ct += " | " + g.pick(exceptionNames)
		}
		mods := g.pick([]string{"", "", "final ", "@SuppressWarnings(\"unused\") "})
		last := out[len(out)-1]
		out = out[:len(out)-1]
		out = append(out, withBlock(last+" catch ("+mods+ct+" "+g.pick([]string{"e", "ex", "ignored", "é"})+")", g.body(d), "")...)
	}
	if (!resources && nCatch == 0) || r.Chance(1, 3) {
		g.use("finally")
		last := out[len(out)-1]
		out = out[:len(out)-1]
		out = append(out, withBlock(last+" finally", g.body(d), "")...)
	}
	return out
}

func (g *wgen) forStmt(d int) []string {
	r := g.r
	var header string
	switch r.Intn(8) {
	case 0:
		g.use("for-empty-control")
		header = "for (;;)"
	case 1:
		g.use("for-multi-init")
		header = "for (int i = 0, j = 10; i < j; i++, j--)"
	case 2:
		g.use("for-expression-init")
		header = "for (i = 0, j = 1; ; i += 2)"
	case 3:
		g.use("foreach")
		header = "for (final " + g.typ(1) + " " + g.lname() + " : " + g.expr(2).s + ")"
	case 4:
		g.use("foreach")
		g.use("var")
		header = "for (var " + g.lname() + " : " + g.expr(3).s + ")"
	case 5:
		g.use("foreach")
		g.use("annotation-on-local")
		header = "for (@NonNull " + g.refTypeNoAnno() + " " + g.lname() + " : " + g.lname() + ")"
	case 6:
		g.use("foreach")
		header = "for (" + g.pick(primitiveNames) + " " + g.lname() + "[] : " + g.lname() + ")"
	default:
		header = "for (int " + g.lname() + " = " + g.expr(2).s + "; " + g.cond() + "; " + g.stmtExpr(2) + ")"
	}
	return g.loopBody(header, d)
}

func (g *wgen) loopBody(header string, d int) []string {
	r := g.r
	if r.Chance(1, 6) {
		g.use("unbraced-body")
		return []string{header + " " + g.pick([]string{g.stmtExpr(2) + ";", ";", "continue;", "break;"})}
	}
	body := g.body(d)
	if r.Chance(1, 4) {
		body = append(body, g.pick([]string{"break;", "continue;"}))
	}
	return withBlock(header, body, "")
}

// returnStmt: a return of a value in the forms the passes look at specially (null, a conditional with null, a class
// literal, a fraction-only literal, a parenthesised value) or of any expression.
func (g *wgen) returnStmt() string {
	r := g.r
	switch r.Intn(12) {
	case 0:
		return "return null;"
	case 1:
		g.use("ternary")
		return "return " + g.need(2, pInstanceof).s + " ? null : " + g.need(2, pTernary).s + ";"
	case 2:
		g.use("class-literal")
		return "return " + g.pick([]string{"Foo.class", "int[].class", "void.class", "java.util.List.class", "Ünit.class", "(String.class)"}) + ";"
	case 3:
		g.use("literal-float")
		return "return " + g.pick([]string{".5", ".25f", ".0e0", "-.5", ".5 * " + g.lname()}) + ";"
	case 4:
		return "return (" + g.pick([]string{"null", g.lname(), "(null)"}) + ");"
	case 5:
		return "return;"
	}
	return "return " + g.expr(g.ed()).s + ";"
}

// stmt generates one statement (d = remaining block nesting).
func (g *wgen) stmt(d int) []string {
	r := g.r
	if d <= 0 {
		switch r.Intn(5) {
		case 0:
			return []string{g.localVar() + ";"}
		case 1:
			return []string{g.returnStmt()}
		default:
			return []string{g.stmtExpr(g.ed()) + ";"}
		}
	}
	switch r.Intn(30) {
	case 0, 1, 2:
		return []string{g.localVar() + ";"}
	case 3, 4, 5:
		return []string{g.stmtExpr(g.ed()) + ";"}
	case 6:
		c := g.cond()
		out := withBlock("if ("+c+")", g.body(d), "")
		for r.Chance(1, 3) {
			g.use("else-if-chain")
			last := out[len(out)-1]
			out = append(out[:len(out)-1], withBlock(last+" else if ("+g.cond()+")", g.body(d), "")...)
		}
		if r.Bool() {
			last := out[len(out)-1]
			eb := g.body(d)
			if r.Chance(2, 5) {
				// an else block that holds exactly one declaration (no statement)
				g.use("else-block-single-declaration")
				if r.Chance(1, 3) && g.budget > 3 {
					eb = g.localType(0)
				} else {
					eb = []string{g.localVar() + ";"}
				}
			}
			out = append(out[:len(out)-1], withBlock(last+" else", eb, "")...)
		}
		return out
	case 7:
		g.use("unbraced-body")
		s := "if (" + g.cond() + ") " + g.pick([]string{"return;", g.stmtExpr(2) + ";", ";", "throw new Error();"})
		if r.Chance(1, 3) {
			s += " else " + g.stmtExpr(2) + ";"
		}
		return []string{s}
	case 8, 9:
		return g.forStmt(d)
	case 10:
		return g.loopBody("while ("+g.cond()+")", d)
	case 11:
		g.use("do-while")
		return withBlock("do", g.body(d), " while ("+g.cond()+");")
	case 12, 13:
		return g.tryStmt(d)
	case 14:
		return g.switchOld(d)
	case 15:
		return g.switchArrow(d)
	case 16:
		g.use("synchronized-statement")
		return withBlock("synchronized ("+g.need(2, pPrimary).s+")", g.body(d), "")
	case 17:
		g.use("assert")
		if r.Bool() {
			return []string{"assert " + g.cond() + ";"}
		}
		return []string{"assert " + g.cond() + " : " + g.expr(3).s + ";"}
	case 18:
		g.use("labelled-statement")
		lab := g.pick([]string{"outer", "loop", "L1", "étiquette", "to"}) + itoa(len(g.labels))
		g.labels = append(g.labels, lab)
		var inner []string
		if r.Bool() {
			body := g.body(d)
			body = append(body, g.pick([]string{"break ", "continue "})+lab+";")
			inner = withBlock("for (;;)", body, "")
		} else {
			body := g.body(d)
			body = append(body, "break "+lab+";")
			inner = withBlock("", body, "")
			inner[0] = "{"
		}
		g.labels = g.labels[:len(g.labels)-1]
		inner[0] = lab + ": " + inner[0]
		return inner
	case 19:
		g.use("throw")
		return []string{"throw " + g.pick([]string{"new " + g.pick(exceptionNames) + g.args(2), g.lname(), "(RuntimeException) " + g.lname()}) + ";"}
	case 20:
		g.use("nested-block")
		out := withBlock("", g.body(d), "")
		out[0] = "{"
		return out
	case 21:
		g.use("empty-statement")
		return []string{";"}
	case 22:
		if g.budget > 4 {
			return g.localType(d)
		}
		return []string{g.localVar() + ";"}
	case 23:
		return []string{g.returnStmt()}
	case 24:
		// switch expression as initialiser / return value
		e := g.switchExpr(3)
		return strings.Split(g.pick([]string{"int " + g.lname() + " = ", "return ", g.lname() + " = ", "var " + g.lname() + " = "})+e.s+";", "\n")
	case 25:
		// lambda / method reference in the usual places
		e := g.lambda(4)
		if r.Bool() {
			e = g.methodRef(3)
		}
		switch r.Intn(3) {
		case 0:
			return []string{"Runnable " + g.lname() + " = " + e.s + ";"}
		case 1:
			return []string{g.lname() + ".forEach(" + e.s + ");"}
		default:
			return []string{"return " + e.s + ";"}
		}
	default:
		return []string{g.stmtExpr(g.ed()) + ";"}
	}
}
