package javawide

import (
	"io/ioutil"
	"path/filepath"
	"strings"
	"sync"

	"verifharness/run"
)

// Source (ii): random sentences derived from the rule text of the grammar coca ships.

var (
	grammarOnce sync.Once
	grammar     *Grammar
	grammarErr  error
)

// LoadGrammar reads languages/java/JavaParser.g4 + JavaLexer.g4 under repoDir (once per process).
func LoadGrammar(repoDir string) (*Grammar, error) {
	grammarOnce.Do(func() {
		pb, err := ioutil.ReadFile(filepath.Join(repoDir, "languages", "java", "JavaParser.g4"))
		if err != nil {
			grammarErr = err
			return
		}
		lb, err := ioutil.ReadFile(filepath.Join(repoDir, "languages", "java", "JavaLexer.g4"))
		if err != nil {
			grammarErr = err
			return
		}
		grammar, grammarErr = ParseGrammar(string(pb), string(lb))
	})
	return grammar, grammarErr
}

type sampler struct {
	g         *Grammar
	r         *run.Rand
	toks      []string
	maxToks   int
	exprDepth int
	maxExpr   int
	rulesUsed map[string]int
}

// candidate characters for '.' and negated sets
var anyPool = []rune("abcxyzABC019 _$+-*/=<>!?:;,.(){}[]@#%&|^~'\"\\\téß中πж")

func inRanges(rs [][2]rune, c rune) bool {
	for _, r := range rs {
		if c >= r[0] && c <= r[1] {
			return true
		}
	}
	return false
}

func (s *sampler) pickFrom(rs [][2]rune) rune {
	if len(rs) == 0 {
		return 'x'
	}
	r := rs[s.r.Intn(len(rs))]
	// wide ranges (e.g. \u0080-￿) are sampled near their start
	span := int(r[1]-r[0]) + 1
	if span > 64 {
		span = 64
	}
	return r[0] + rune(s.r.Intn(span))
}

func (s *sampler) pickNot(n *g4node) rune {
	for try := 0; try < 50; try++ {
		c := anyPool[s.r.Intn(len(anyPool))]
		switch n.kind {
		case kSet:
			if !inRanges(n.ranges, c) {
				return c
			}
		case kLit:
			if string(c) != n.text {
				return c
			}
		default:
			return c
		}
	}
	return 'é'
}

// lexText derives the text of one lexer rule.
func (s *sampler) lexText(n *g4node, depth int, sb *strings.Builder) {
	if depth > 24 {
		return
	}
	switch n.kind {
	case kLit:
		sb.WriteString(n.text)
	case kSet:
		sb.WriteRune(s.pickFrom(n.ranges))
	case kAny:
		sb.WriteRune(anyPool[s.r.Intn(len(anyPool))])
	case kNot:
		sb.WriteRune(s.pickNot(n.children[0]))
	case kRef:
		if r := s.g.rules[n.name]; r != nil {
			s.lexText(r.body, depth+1, sb)
		}
	case kAlt:
		s.lexText(n.children[s.r.Intn(len(n.children))], depth+1, sb)
	case kSeq:
		for _, c := range n.children {
			reps := 1
			switch {
			case c.min == 0 && c.max == 1:
				reps = s.r.Intn(2)
			case c.max == -1:
				reps = c.min + s.r.Intn(4)
				if s.r.Chance(1, 2) {
					reps = c.min
				}
			}
			for i := 0; i < reps; i++ {
				if c.min == 1 && c.max == 1 {
					s.lexText(c, depth+1, sb)
				} else {
					s.lexText(c.children[0], depth+1, sb)
				}
			}
		}
	}
}

// literalOnly reports the literal alternatives of a lexer rule whose every alternative is a single literal.
func literalOnly(r *g4rule) []string {
	var out []string
	if r.body.kind != kAlt {
		return nil
	}
	for _, alt := range r.body.children {
		if alt.kind != kSeq || len(alt.children) != 1 || alt.children[0].kind != kLit || alt.children[0].min != 1 || alt.children[0].max != 1 {
			return nil
		}
		out = append(out, alt.children[0].text)
	}
	return out
}

// tokenText derives a text for token type name that the lexer will give back as that token: a text that an
// earlier literal-only rule (a keyword) claims is derived again.
func (s *sampler) tokenText(name string) string {
	if name == "EOF" {
		return ""
	}
	r := s.g.rules[name]
	if r == nil {
		return name
	}
	for try := 0; ; try++ {
		var sb strings.Builder
		s.lexText(r.body, 0, &sb)
		text := sb.String()
		clash := false
		if literalOnly(r) == nil {
			for _, other := range s.g.lexers {
				if other == r || other.fragment {
					continue
				}
				for _, lit := range literalOnly(other) {
					if lit == text {
						clash = true
					}
				}
			}
		}
		if !clash || try > 8 {
			return text
		}
	}
}

func (s *sampler) minimal() bool { return len(s.toks) >= s.maxToks }

func (s *sampler) derive(n *g4node, budget int) {
	switch n.kind {
	case kLit:
		if n.text != "" {
			s.toks = append(s.toks, n.text)
		}
	case kRef:
		if !isParserRule(n.name) {
			if t := s.tokenText(n.name); t != "" {
				s.toks = append(s.toks, t)
			}
			return
		}
		r := s.g.rules[n.name]
		if r == nil {
			return
		}
		s.rulesUsed[n.name]++
		if n.name == "expression" {
			s.exprDepth++
			defer func() { s.exprDepth-- }()
		}
		s.derive(r.body, budget-1)
	case kAlt:
		// alternatives whose shortest derivation fits the remaining budget
		var fit []*g4node
		best := hInf
		for _, c := range n.children {
			if c.h < best {
				best = c.h
			}
		}
		tight := s.minimal() || s.exprDepth >= s.maxExpr
		for _, c := range n.children {
			if (tight && c.h == best) || (!tight && c.h <= budget) {
				fit = append(fit, c)
			}
		}
		if len(fit) == 0 {
			for _, c := range n.children {
				if c.h == best {
					fit = append(fit, c)
				}
			}
		}
		if tight || len(fit) == 1 {
			s.derive(fit[s.r.Intn(len(fit))], budget)
			return
		}
		// weights: alternatives that can exercise more of the grammar are preferred; a token class (IDENTIFIER,
		// a literal kind) stands for infinitely many texts and weighs more than a single keyword
		total := 0
		ws := make([]int, len(fit))
		for i, c := range fit {
			w := 2 + c.reach/6
			if len(c.children) == 1 && c.children[0].kind == kRef && !isParserRule(c.children[0].name) {
				if tr := s.g.rules[c.children[0].name]; tr != nil && literalOnly(tr) == nil {
					w *= 8
				}
			}
			ws[i] = w
			total += w
		}
		x := s.r.Intn(total)
		for i, w := range ws {
			if x < w {
				s.derive(fit[i], budget)
				return
			}
			x -= w
		}
	case kSeq:
		for _, c := range n.children {
			if c.min == 1 && c.max == 1 {
				s.derive(c, budget)
				continue
			}
			inner := c.children[0]
			reps := c.min
			if inner.h <= budget && !s.minimal() && s.exprDepth < s.maxExpr {
				if c.max == 1 {
					if s.r.Chance(2, 3) {
						reps = 1
					}
				} else {
					reps = c.min + s.r.PickInt(0, 1, 1, 2, 2, 3)
				}
			}
			for i := 0; i < reps; i++ {
				s.derive(inner, budget)
			}
		}
	}
}

// Sentence derives one random sentence of the start rule. extra is the slack above the shortest
// derivation (depth budget); maxToks switches to shortest derivations once that many tokens exist.
func (g *Grammar) Sentence(r *run.Rand, start string, extra, maxToks int) (tokens []string, rulesUsed map[string]int) {
	s := &sampler{g: g, r: r, maxToks: maxToks, maxExpr: 6, rulesUsed: map[string]int{}}
	sr := g.rules[start]
	if sr == nil {
		return nil, nil
	}
	s.rulesUsed[start]++
	s.derive(sr.body, sr.h+extra)
	return s.toks, s.rulesUsed
}

// hiddenText derives a hidden-channel token (comment) from the lexer grammar; ok=false if it is whitespace.
func (g *Grammar) hiddenRules() []*g4rule {
	var out []*g4rule
	for _, r := range g.lexers {
		if r.hidden && !r.fragment {
			out = append(out, r)
		}
	}
	return out
}

// Grammatical generates one sentence of compilationUnit (source ii) and renders it with blanks, newlines
// and, now and then, hidden-channel tokens derived from the lexer grammar between the tokens.
func Grammatical(r *run.Rand, g *Grammar) *File {
	extra := r.Range(6, 34)
	maxToks := r.PickInt(60, 150, 300, 600)
	toks, used := g.Sentence(r.Fork(), "compilationUnit", extra, maxToks)
	hidden := g.hiddenRules()
	s := &sampler{g: g, r: r.Fork()}
	var sb strings.Builder
	col := 0
	for i, t := range toks {
		if i > 0 {
			switch {
			case len(hidden) > 0 && r.Chance(1, 40):
				h := hidden[r.Intn(len(hidden))]
				var hb strings.Builder
				s.lexText(h.body, 0, &hb)
				ht := hb.String()
				if strings.TrimSpace(ht) == "" {
					sb.WriteString(" ")
					break
				}
				// a line comment ends at the line end; a block comment must not be glued to '/' or '*'
				sb.WriteString(" " + ht)
				if strings.HasPrefix(ht, "//") {
					sb.WriteString("\n")
					col = 0
				} else {
					sb.WriteString(" ")
				}
			case col > 100 || r.Chance(1, 9):
				sb.WriteString("\n")
				col = 0
			default:
				sb.WriteString(" ")
			}
		}
		sb.WriteString(t)
		col += len(t) + 1
	}
	sb.WriteString("\n")
	text := sb.String()
	fam := DetectFamilies(text)
	for k, v := range used {
		_ = k
		_ = v
	}
	return &File{Source: "grammar", Text: text, Families: fam, Note: "depth slack " + itoa(extra) + ", token cap " + itoa(maxToks) + ", " + itoa(len(toks)) + " tokens, " + itoa(len(used)) + " parser rules used"}
}
