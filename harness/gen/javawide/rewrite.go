package javawide

import (
	"strings"
	"unicode"

	"verifharness/run"
)

// Source (iii): token-level, semantics-preserving rewrites of existing Java text. The tokenizer is
// deliberately conservative: every maximal run of operator characters is ONE unit that is never split
// (">>", "->", "::", "++", ">>>=", "<?>" ... stay as written), string / char / text-block literals and
// comments are units, so a rewrite only ever changes the blank space between units or adds units.

const (
	TWs = iota
	TLineComment
	TBlockComment
	TString
	TChar
	TTextBlock
	TNumber
	TIdent
	TOp
	TSep
)

type Tok struct {
	Kind int
	Text string
}

const opChars = "+-*/%&|^!~=<>?:.@"
const sepChars = "(){}[];,"

var javaKeywords = map[string]bool{}

func init() {
	for _, k := range strings.Fields(`abstract assert boolean break byte case catch char class const continue default do double else enum extends
		final finally float for if goto implements import instanceof int interface long native new package private protected public return short
		static strictfp super switch synchronized this throw throws transient try void volatile while true false null
		module open requires exports opens to uses provides with transitive var yield record sealed permits non`) {
		javaKeywords[k] = true
	}
}

func isIdentStart(c rune) bool { return c == '_' || c == '$' || unicode.IsLetter(c) || c > 0x7F }
func isIdentPart(c rune) bool  { return isIdentStart(c) || unicode.IsDigit(c) }

// Tokenize splits Java text into units. It never fails: unknown characters become one-character separators.
func Tokenize(text string) []Tok {
	rs := []rune(text)
	var out []Tok
	n := len(rs)
	for i := 0; i < n; {
		c := rs[i]
		j := i
		switch {
		case c == ' ' || c == '\t' || c == '\r' || c == '\n' || c == '\f':
			for j < n && (rs[j] == ' ' || rs[j] == '\t' || rs[j] == '\r' || rs[j] == '\n' || rs[j] == '\f') {
				j++
			}
			out = append(out, Tok{TWs, string(rs[i:j])})
		case c == '/' && i+1 < n && rs[i+1] == '/':
			for j < n && rs[j] != '\n' && rs[j] != '\r' {
				j++
			}
			out = append(out, Tok{TLineComment, string(rs[i:j])})
		case c == '/' && i+1 < n && rs[i+1] == '*':
			j = i + 2
			for j+1 < n && !(rs[j] == '*' && rs[j+1] == '/') {
				j++
			}
			j += 2
			if j > n {
				j = n
			}
			out = append(out, Tok{TBlockComment, string(rs[i:j])})
		case c == '"' && i+2 < n && rs[i+1] == '"' && rs[i+2] == '"':
			j = i + 3
			for j+2 < n && !(rs[j] == '"' && rs[j+1] == '"' && rs[j+2] == '"') {
				j++
			}
			j += 3
			if j > n {
				j = n
			}
			out = append(out, Tok{TTextBlock, string(rs[i:j])})
		case c == '"' || c == '\'':
			j = i + 1
			for j < n && rs[j] != c && rs[j] != '\n' {
				if rs[j] == '\\' {
					j++
				}
				j++
			}
			j++
			if j > n {
				j = n
			}
			k := TString
			if c == '\'' {
				k = TChar
			}
			out = append(out, Tok{k, string(rs[i:j])})
		case unicode.IsDigit(c) || (c == '.' && i+1 < n && unicode.IsDigit(rs[i+1])):
			for j < n {
				d := rs[j]
				if unicode.IsDigit(d) || unicode.IsLetter(d) || d == '_' || d == '.' {
					j++
					continue
				}
				if (d == '+' || d == '-') && j > i && strings.ContainsRune("eEpP", rs[j-1]) {
					j++
					continue
				}
				break
			}
			out = append(out, Tok{TNumber, string(rs[i:j])})
		case isIdentStart(c):
			for j < n && isIdentPart(rs[j]) {
				j++
			}
			// "non-sealed" is one keyword
			if string(rs[i:j]) == "non" && j+7 <= n && string(rs[j:j+7]) == "-sealed" {
				j += 7
			}
			out = append(out, Tok{TIdent, string(rs[i:j])})
		case strings.ContainsRune(opChars, c):
			for j < n && strings.ContainsRune(opChars, rs[j]) {
				// a comment start ends the run
				if rs[j] == '/' && j+1 < n && (rs[j+1] == '/' || rs[j+1] == '*') {
					break
				}
				// ".5" after an operator is a number
				if rs[j] == '.' && j+1 < n && unicode.IsDigit(rs[j+1]) && j > i {
					break
				}
				j++
			}
			if j == i {
				j = i + 1
			}
			out = append(out, Tok{TOp, string(rs[i:j])})
		default:
			j = i + 1
			out = append(out, Tok{TSep, string(rs[i:j])})
		}
		i = j
	}
	return out
}

func Untokenize(ts []Tok) string {
	var sb strings.Builder
	for _, t := range ts {
		sb.WriteString(t.Text)
	}
	return sb.String()
}

var insertComments = []string{"/* c */", "/**/", "/* TODO: inserted */", "/*FIXME(x)*/", "/** doc */", "/* ünï 中 */", "/* a\n * b */", "/* TODO */", "/*// */", "/* * */"}
var insertLineComments = []string{"// c", "//", "// TODO: inserted", "//FIXME(bob): x", "// ünï 中", "// TODO(", "// /* not a block", "// \"quote", "// todo"}

func freshName(r *run.Rand, old string, used map[string]bool) string {
	ors := []rune(old)
	upper := unicode.IsUpper(ors[0])
	var cands []string
	if upper {
		cands = []string{"Rn" + old, old + "Q7", "Ünï" + old, "X", "Zz9", old + "_", "型" + old}
	} else {
		cands = []string{"rn" + string(unicode.ToUpper(ors[0])) + string(ors[1:]), old + "Q7", "é" + old, "q", "zz9", old + "_", "变" + old, "$" + old}
	}
	for _, i := range r.Perm(len(cands)) {
		if !used[cands[i]] && !javaKeywords[cands[i]] {
			return cands[i]
		}
	}
	return old + "Q7x9"
}

// Rewrite applies re-layout, comment insertion and/or a consistent renaming of one identifier.
// kinds: bit 0 re-layout, bit 1 comments, bit 2 rename (0 = choose at random, at least one).
func Rewrite(r *run.Rand, text string, kinds int) (string, string) {
	if kinds == 0 {
		for kinds == 0 {
			if r.Chance(3, 4) {
				kinds |= 1
			}
			if r.Chance(1, 2) {
				kinds |= 2
			}
			if r.Chance(1, 2) {
				kinds |= 4
			}
		}
	}
	toks := Tokenize(text)
	var notes []string
	if kinds&4 != 0 {
		used := map[string]bool{}
		var names []string
		for _, t := range toks {
			if t.Kind == TIdent {
				if !used[t.Text] && !javaKeywords[t.Text] {
					names = append(names, t.Text)
				}
				used[t.Text] = true
			}
		}
		if len(names) > 0 {
			old := names[r.Intn(len(names))]
			nw := freshName(r, old, used)
			cnt := 0
			for i := range toks {
				if toks[i].Kind == TIdent && toks[i].Text == old {
					toks[i].Text = nw
					cnt++
				}
			}
			notes = append(notes, "rename "+old+" -> "+nw+" ("+itoa(cnt)+" tokens)")
		}
	}
	nlDen := r.PickInt(3, 6, 12, 30)
	for try := 0; ; try++ {
		rr := r.Fork()
		var out []Tok
		inserted := 0
		for i, t := range toks {
			afterLine := len(out) > 0 && out[len(out)-1].Kind == TLineComment
			if t.Kind == TWs {
				if kinds&1 == 0 {
					out = append(out, t)
					continue
				}
				var ws string
				switch {
				case afterLine || rr.Chance(1, nlDen):
					ws = "\n" + strings.Repeat(rr.Pick([]string{" ", "  ", "\t", "    "}), rr.Intn(4))
					if rr.Chance(1, 10) {
						ws = "\n" + ws
					}
					if rr.Chance(1, 20) {
						ws = "\r" + ws
					}
				case strings.Contains(t.Text, "\n") && rr.Chance(1, 2):
					ws = t.Text
				default:
					ws = rr.Pick([]string{" ", " ", " ", "  ", "\t", "   "})
				}
				out = append(out, Tok{TWs, ws})
				continue
			}
			prevIsWs := len(out) == 0 || out[len(out)-1].Kind == TWs
			if i > 0 && !prevIsWs {
				// two units with nothing between them
				if afterLine {
					out = append(out, Tok{TWs, "\n"})
				} else if kinds&1 != 0 && rr.Chance(1, 8) {
					out = append(out, Tok{TWs, rr.Pick([]string{" ", " ", "\n", "  "})})
				}
			}
			if kinds&2 != 0 && i > 0 && rr.Chance(1, 25) {
				inserted++
				if rr.Chance(1, 3) {
					out = append(out, Tok{TLineComment, rr.Pick(insertLineComments)}, Tok{TWs, "\n"})
				} else {
					// a blank on both sides: "a/**/b" would be fine, "a / /* c */" glued to an operator unit is not needed
					if len(out) > 0 && out[len(out)-1].Kind != TWs {
						out = append(out, Tok{TWs, " "})
					}
					out = append(out, Tok{TBlockComment, rr.Pick(insertComments)}, Tok{TWs, " "})
				}
			}
			out = append(out, t)
		}
		res := Untokenize(out)
		if Lines(res) <= 400 || try > 5 {
			if kinds&1 != 0 {
				notes = append(notes, "re-layout (newline chance 1/"+itoa(nlDen)+")")
			}
			if kinds&2 != 0 {
				notes = append(notes, itoa(inserted)+" comments inserted")
			}
			return res, strings.Join(notes, "; ")
		}
		nlDen *= 3
	}
}
