// Package smellgen generates conventional Java classes / interfaces whose method lengths, parameter counts,
// top-level if / switch counts, condition heights and method counts sit on and around the thresholds of coca's
// bad-smell report, together with the planted facts (line numbers as rendered). No coca imports.
//
// Shapes are restricted to those where the C10 statement gives one answer:
//   - modifiers, return type and method name stand on ONE line (no annotation / Javadoc tag line can be mistaken for
//     the start of the declaration: annotations are not generated, comments end on the line before);
//   - the closing brace of a body stands alone on its line (or, for one-line getters/setters, on the declaration line);
//   - a "top-level if/switch" is an if/switch statement that is a direct child of the method body's statement list;
//     ifs / switches inside the branches of another statement (if, else, for, while, do, try, switch case,
//     synchronized) are nested. The `if` of an `else if` is the statement of the else branch of the if before it,
//     i.e. nested in that if statement: `if … else if … else if …` is ONE top-level if statement however long the
//     ladder is, and the conditions of its else-if branches are not conditions of top-level ifs. Labelled ifs and bare
//     blocks are not generated;
//   - a condition's '(' stands on the line of its first token and its ')' on the line of its last token, so "lines the
//     condition spans" is the same with or without the parentheses; the `if` keyword may stand alone on the line before;
//   - getters / setters are `getXxx` / `setXxx` with an upper-case letter after the prefix; every other method name
//     does not start with "get"/"set" at all (names like `settle`, `getaway`, `isReady` are not generated); besides
//     the trivial field accessors there are accessor-NAMED ordinary methods (getReport(a,b,c,d,e,f), a 31-line
//     setUpEverything()): the method-level kinds apply to them like to any method, and they are only put into classes
//     that have another ordinary method and fewer than 18 ordinary methods, so that the class-level verdicts are the
//     same whether or not one calls them getters/setters;
//   - the keyword modifiers and/or the method's own type-parameter list may stand on the line above the return type
//     (`default <T extends Comparable<T>>` / `T pick(…) {`, `public static` / `int run(…) {`): the declaration then
//     starts on that upper line (keyword modifiers and type parameters are part of the declaration); annotations are
//     never generated, so no line can be taken for the start of the declaration but that one;
//   - lambdas only as one-line expression lambdas in local initialisers (typed `(Integer x, Integer y) -> x + y` or
//     inferred `(x, y) -> x + y`): their parameters are not parameters of the method, and no statement hides in them;
//   - files are written with \n line ends, about one in five (and a dedicated copy of one boundary point per
//     dimension and offset) with \r\n: both are the same lines with the same numbers. A lone \r is a line terminator
//     for Java too, but no tool of this kind (nor coca's lexer) counts it and such files are not conventional: not
//     generated;
//   - one top-level type per file, no nested / anonymous / local types, no enums / records / annotations;
//   - constructors only in classes whose verdicts do not depend on whether a constructor is a method.
package smellgen

import (
	"fmt"
	"strings"
)

// Cond is one top-level `if` of a method.
type Cond struct {
	IfLine    int `json:"if_line"`
	StartLine int `json:"start_line"` // line of '(' (and of the condition's first token)
	EndLine   int `json:"end_line"`   // line of ')' (and of the condition's last token)
}

// Method is the planted record of one method.
type Method struct {
	Name string `json:"name"`
	Form string `json:"form"` // class | static | abstract | iface-abstract | iface-default | iface-static
	Role string `json:"role"` // plain | getter | setter (by NAME: get/set + upper-case letter)
	// AccessorNamed: an ordinary method (own parameters, statements, any length) that merely carries a get…/set… name,
	// e.g. getReport(a,b,c,d,e,f) or a 31-line setUpEverything(); Role is getter/setter for it.
	AccessorNamed bool `json:"accessor_named,omitempty"`
	Params        int  `json:"params"`
	Varargs       bool `json:"varargs,omitempty"`
	Generic       bool `json:"generic,omitempty"` // declares its own type parameter: `<T> void name(…)`
	HasBody       bool `json:"has_body"`
	// HeadSplit: the keyword modifiers and/or the method's own type-parameter list stand on StartLine, the
	// return type and the name on the next line: `default <T extends Comparable<T>>` / `T pick(T a, T b) {`
	HeadSplit bool   `json:"head_split,omitempty"`
	HeadFirst string `json:"head_first,omitempty"` // first token of that upper line: default | static | public | … | type-parameters
	// TypedLambdaParams: explicitly typed lambda parameters in the body (`(Integer x, Integer y) -> x + y`); they are
	// not parameters of the method
	TypedLambdaParams int    `json:"typed_lambda_params,omitempty"`
	StartLine         int    `json:"start_line"`
	CloseLine         int    `json:"close_line"`
	TopIfs            int    `json:"top_ifs"`
	TopSwitches       int    `json:"top_switches"`
	Conds             []Cond `json:"conds,omitempty"`
	// decoys: things that must not count
	NestedIfs      int   `json:"nested_ifs,omitempty"`
	NestedSwitches int   `json:"nested_switches,omitempty"`
	ElseIfs        int   `json:"else_ifs,omitempty"`
	TallElseIfs    int   `json:"tall_else_if_conds,omitempty"` // else-if conditions spanning >= 4 lines
	ElseIfLines    []int `json:"else_if_lines,omitempty"`      // '(' lines of the else-if conditions (a subset of DecoyLines)
	DecoyLines     []int `json:"decoy_lines,omitempty"`        // '(' lines of conditions that are not top-level if conditions
	TallDecoys     int   `json:"tall_decoy_conds,omitempty"`   // of those, conditions spanning >= 4 lines
}

func (m *Method) GetterSetter() bool { return m.Role == "getter" || m.Role == "setter" }

// Class is one generated file.
type Class struct {
	RelPath string   `json:"path"`
	Pkg     string   `json:"package"`
	Name    string   `json:"name"`
	Kind    string   `json:"kind"` // class | interface
	Methods []Method `json:"methods"`
	Ctors   int      `json:"constructors,omitempty"`
	Fields  int      `json:"fields,omitempty"`
	CRLF    bool     `json:"crlf,omitempty"` // the file is written with \r\n line ends (same lines, same numbers)
	Text    string   `json:"text"`
}

func (c *Class) NonGetterSetter() int {
	n := 0
	for i := range c.Methods {
		if !c.Methods[i].GetterSetter() {
			n++
		}
	}
	return n
}

// Project is a directory of generated files.
type Project struct {
	Classes []*Class `json:"classes"`
	Tag     string   `json:"tag"` // which boundary point / generator produced it
}

// ShapeKey is a structural description without names (for distinct-shape counting).
func (p *Project) ShapeKey() string {
	var sb strings.Builder
	for _, c := range p.Classes {
		fmt.Fprintf(&sb, "[%s f%d c%d w%v", c.Kind, c.Fields, c.Ctors, c.CRLF)
		for i := range c.Methods {
			m := &c.Methods[i]
			fmt.Fprintf(&sb, "|%s,%s%v,h%v,L%d,p%d,v%v%v,l%d,i%d,s%d,n%d/%d/%d", m.Form, m.Role, m.AccessorNamed, m.HeadSplit, m.TypedLambdaParams, m.Params, m.Varargs, m.Generic, m.CloseLine-m.StartLine, m.TopIfs, m.TopSwitches, m.NestedIfs, m.NestedSwitches, m.ElseIfs)
			for _, cd := range m.Conds {
				fmt.Fprintf(&sb, ";%d.%d", cd.StartLine-cd.IfLine, cd.EndLine-cd.StartLine)
			}
		}
		sb.WriteString("]")
	}
	return sb.String()
}

// SelfCheck re-derives the planted facts from the rendered text with an independent, much simpler reader (brace depth
// and line prefixes) and reports the first disagreement. It relies on two generator guarantees that it also verifies:
// no brace inside a string literal or comment, at most one statement keyword per line.
func SelfCheck(p *Project) error {
	seen := map[string]bool{}
	for _, c := range p.Classes {
		if seen[c.RelPath] {
			return fmt.Errorf("duplicate path %s", c.RelPath)
		}
		seen[c.RelPath] = true
		if strings.HasSuffix(c.RelPath, "Test.java") || strings.HasSuffix(c.RelPath, "Tests.java") || strings.Contains(c.RelPath, "src/test/java/") || strings.Contains(c.RelPath, "testData") {
			return fmt.Errorf("path %s would be skipped by the file walker", c.RelPath)
		}
		text := c.Text
		if c.CRLF {
			if strings.Count(text, "\r\n") != strings.Count(text, "\n") || strings.Count(text, "\r") != strings.Count(text, "\n") {
				return fmt.Errorf("%s: CRLF file with a lone CR or LF", c.RelPath)
			}
			text = strings.ReplaceAll(text, "\r\n", "\n")
		} else if strings.Contains(text, "\r") {
			return fmt.Errorf("%s: CR in an LF file", c.RelPath)
		}
		lines := strings.Split(text, "\n")
		at := func(n int) (string, bool) {
			if n < 1 || n > len(lines) {
				return "", false
			}
			return lines[n-1], true
		}
		names := map[string]bool{}
		for mi := range c.Methods {
			m := &c.Methods[mi]
			if names[m.Name] {
				return fmt.Errorf("%s: duplicate method name %s", c.RelPath, m.Name)
			}
			names[m.Name] = true
			lower := strings.HasPrefix(m.Name, "get") || strings.HasPrefix(m.Name, "set")
			if m.GetterSetter() {
				if !lower || len(m.Name) < 4 || m.Name[3] < 'A' || m.Name[3] > 'Z' {
					return fmt.Errorf("%s: %s is not a conventional getter/setter name", c.RelPath, m.Name)
				}
			} else if lower {
				return fmt.Errorf("%s: plain method %s starts with get/set", c.RelPath, m.Name)
			}
			nameLine := m.StartLine
			if m.HeadSplit {
				// the first line holds modifiers / type parameters only, the name follows on the next line
				first, _ := at(m.StartLine)
				ft := strings.TrimSpace(first)
				okStart := false
				for _, kw := range []string{"default", "static", "public", "protected", "private", "abstract", "final", "synchronized", "<"} {
					okStart = okStart || strings.HasPrefix(ft, kw)
				}
				if ft == "" || strings.ContainsAny(ft, "(){};@") || !okStart {
					return fmt.Errorf("%s: line %d is not a modifier / type-parameter line: %q", c.RelPath, m.StartLine, first)
				}
				nameLine++
			}
			hl, ok := at(nameLine)
			if !ok || !(strings.Contains(hl, " "+m.Name+"(") || strings.HasPrefix(strings.TrimSpace(hl), m.Name+"(")) {
				return fmt.Errorf("%s: line %d does not declare %s: %q", c.RelPath, nameLine, m.Name, hl)
			}
			if m.TypedLambdaParams > 0 && (m.CloseLine < m.StartLine || !strings.Contains(strings.Join(lines[m.StartLine-1:m.CloseLine], "\n"), ") -> ")) {
				return fmt.Errorf("%s: %s planted %d typed lambda parameters but the text has no such lambda", c.RelPath, m.Name, m.TypedLambdaParams)
			}
			if !m.HasBody {
				if m.CloseLine != 0 || m.TopIfs+m.TopSwitches+len(m.Conds) != 0 {
					return fmt.Errorf("%s: %s has no body but body facts", c.RelPath, m.Name)
				}
				continue
			}
			cl, ok := at(m.CloseLine)
			if !ok {
				return fmt.Errorf("%s: %s close line %d out of range", c.RelPath, m.Name, m.CloseLine)
			}
			if m.CloseLine == m.StartLine {
				if !strings.HasSuffix(strings.TrimSpace(cl), "}") {
					return fmt.Errorf("%s: one-line method %s does not end in a brace", c.RelPath, m.Name)
				}
				continue
			}
			if strings.TrimSpace(cl) != "}" {
				return fmt.Errorf("%s: %s close line %d is %q", c.RelPath, m.Name, m.CloseLine, cl)
			}
			// walk the body
			depth, opened := 0, false
			ifs, sws := 0, 0
			var ifLines []int
			for ln := m.StartLine; ln <= m.CloseLine; ln++ {
				raw, _ := at(ln)
				t := strings.TrimSpace(raw)
				code := t
				if strings.HasPrefix(t, "//") || strings.HasPrefix(t, "/*") || strings.HasPrefix(t, "*") {
					if strings.ContainsAny(t, "{}") {
						return fmt.Errorf("%s:%d brace inside a comment", c.RelPath, ln)
					}
					code = ""
				}
				if i := strings.Index(code, "\""); i >= 0 {
					j := strings.LastIndex(code, "\"")
					if strings.ContainsAny(code[i:j+1], "{}") {
						return fmt.Errorf("%s:%d brace inside a string literal", c.RelPath, ln)
					}
				}
				if opened && depth == 1 {
					switch {
					case code == "if" || strings.HasPrefix(code, "if (") || strings.HasPrefix(code, "if("):
						ifs++
						ifLines = append(ifLines, ln)
					case strings.HasPrefix(code, "switch (") || strings.HasPrefix(code, "switch("):
						sws++
					}
				}
				for _, ch := range code {
					if ch == '{' {
						depth++
						opened = true
					} else if ch == '}' {
						depth--
					}
				}
				if opened && depth == 0 && ln != m.CloseLine {
					return fmt.Errorf("%s: body of %s closes at %d, planted %d", c.RelPath, m.Name, ln, m.CloseLine)
				}
			}
			if depth != 0 {
				return fmt.Errorf("%s: body of %s not closed at planted line %d", c.RelPath, m.Name, m.CloseLine)
			}
			if ifs != m.TopIfs || sws != m.TopSwitches || len(m.Conds) != m.TopIfs {
				return fmt.Errorf("%s: %s planted %d ifs / %d switches / %d conds, text has %d / %d", c.RelPath, m.Name, m.TopIfs, m.TopSwitches, len(m.Conds), ifs, sws)
			}
			for i, cd := range m.Conds {
				if cd.IfLine != ifLines[i] {
					return fmt.Errorf("%s: %s if #%d planted at %d, found at %d", c.RelPath, m.Name, i, cd.IfLine, ifLines[i])
				}
				sl, _ := at(cd.StartLine)
				el, _ := at(cd.EndLine)
				st := strings.TrimSpace(sl)
				if cd.IfLine == cd.StartLine {
					if !strings.HasPrefix(st, "if (") {
						return fmt.Errorf("%s:%d condition start %q", c.RelPath, cd.StartLine, sl)
					}
				} else if cd.StartLine != cd.IfLine+1 || !strings.HasPrefix(st, "(") || len(st) < 2 || st[1] == ' ' {
					return fmt.Errorf("%s:%d condition start after lone if %q", c.RelPath, cd.StartLine, sl)
				}
				if cd.EndLine < cd.StartLine || !strings.Contains(el, ")") {
					return fmt.Errorf("%s:%d condition end %q", c.RelPath, cd.EndLine, el)
				}
				// the ')' closing the condition is on EndLine: parenthesis balance from StartLine to EndLine reaches 0 there, not earlier
				bal, closedAt := 0, 0
				for ln := cd.StartLine; ln <= cd.EndLine && closedAt == 0; ln++ {
					s, _ := at(ln)
					if ln == cd.StartLine {
						s = s[strings.Index(s, "("):]
					}
					for _, ch := range s {
						if ch == '(' {
							bal++
						} else if ch == ')' {
							bal--
							if bal == 0 {
								closedAt = ln
								break
							}
						}
					}
				}
				if closedAt != cd.EndLine {
					return fmt.Errorf("%s: condition starting at %d closes at %d, planted %d", c.RelPath, cd.StartLine, closedAt, cd.EndLine)
				}
			}
		}
	}
	return nil
}
