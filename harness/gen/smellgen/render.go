package smellgen

import (
	"strconv"
	"strings"

	"verifharness/run"
)

// ---- specifications (what to render) -------------------------------------------------------------------------------

type stmtSpec struct {
	kind  string // simple | comment | blank | if | switch | for | foreach | while | do | try | sync
	text  string // simple / comment: the line
	lam   int    // simple: number of explicitly typed lambda parameters on the line
	h     int    // if / while: number of lines the parenthesised condition spans (>= 1)
	own   bool   // if: the keyword stands alone on the line before the '('
	noBr  bool   // if: one simple statement without braces, no else
	body  []stmtSpec
	els   []stmtSpec   // plain else block (nil: none)
	elifs [][]stmtSpec // else-if branches
	elifH []int        // heights (lines) of the else-if conditions; missing entries mean 1
	cases [][]stmtSpec // switch: bodies of the case groups
	deflt bool         // switch: default group present
	fin   bool         // try: finally block present
}

type methodSpec struct {
	name    string
	role    string // plain | getter | setter (getter/setter: trivial field accessor)
	accRole string // plain method carrying an accessor name: getter | setter ("" otherwise)
	form    string
	mods    string
	ret     string
	field   string // getter/setter: the field
	params  int
	varargs bool
	wrap    int // 0 one line, 1 continuation lines after the first parameter, 2 every parameter on its own line
	throws  bool
	generic bool
	brace   string // same | next
	oneLine bool   // getter/setter on one line
	body    []stmtSpec
	target  int  // wanted closeLine-startLine (0: natural)
	lead    int  // 0 nothing, 1 blank line, 2 line comment, 3 Javadoc block before the method
	split   bool // keyword modifiers / own type-parameter list on the line above the return type
}

func (m *methodSpec) hasBody() bool { return m.form != "abstract" && m.form != "iface-abstract" }

type classSpec struct {
	kind     string // class | interface
	abstract bool
	final    bool
	public   bool
	name     string
	pkg      string
	layout   string // flat | pkgdirs | maven
	typePar  bool
	extends  string
	impls    string
	fields   []string // extra field declarations (without indentation)
	ctor     bool
	javadoc  bool
	unit     string // indentation unit
	crlf     bool   // write the file with \r\n line ends
	methods  []*methodSpec
}

// ---- rendering -----------------------------------------------------------------------------------------------------

type bodyOut struct {
	lines    []string
	conds    [][3]int // top-level ifs: relative (ifLine, startLine, endLine), 0-based into lines
	decoy    []int    // relative '(' lines of conditions that are not top-level if conditions
	elif     []int    // of those, the conditions of else-if branches
	tallElif int
	tall     int
	lam      int
	tIf      int
	tSw      int
	nIf      int
	nSw      int
	eIf      int
}

type renderer struct {
	r    *run.Rand
	unit string
	nv   int
}

var condOperands = []string{"acc > %d", "acc %% %d == 0", "tag != null", "!tag.isEmpty()", "(acc + %d) < 90", "tag.length() > %d", "acc != %d", "tag.startsWith(\"k%d\")", "acc <= %d"}

func (rd *renderer) operand() string {
	s := condOperands[rd.r.Intn(len(condOperands))]
	if strings.Contains(s, "%d") {
		s = strings.Replace(s, "%d", strconv.Itoa(rd.r.Range(1, 40)), 1)
	}
	return strings.Replace(s, "%%", "%", 1)
}

func (rd *renderer) join() string { return rd.r.Pick([]string{"&&", "||"}) }

// condLines renders a parenthesised condition over h lines: "(" + first operand … last operand + ")".
func (rd *renderer) condLines(h int) []string {
	if h <= 1 {
		s := rd.operand()
		if rd.r.Chance(1, 3) {
			s += " " + rd.join() + " " + rd.operand()
		}
		return []string{"(" + s + ")"}
	}
	out := make([]string, h)
	out[0] = "(" + rd.operand()
	for i := 1; i < h; i++ {
		out[i] = rd.join() + " " + rd.operand()
		if i < h-1 && rd.r.Chance(1, 4) {
			out[i] += " " + rd.join() + " " + rd.operand()
		}
	}
	out[h-1] += ")"
	return out
}

func (rd *renderer) stmts(list []stmtSpec, ind string, top bool, out *bodyOut) {
	for i := range list {
		rd.stmt(&list[i], ind, top, out)
	}
}

func (rd *renderer) stmt(s *stmtSpec, ind string, top bool, out *bodyOut) {
	u := rd.unit
	add := func(t string) int { out.lines = append(out.lines, t); return len(out.lines) - 1 }
	switch s.kind {
	case "blank":
		add("")
	case "simple", "comment":
		add(ind + s.text)
		out.lam += s.lam
	case "if":
		h := s.h
		if h < 1 {
			h = 1
		}
		cl := rd.condLines(h)
		ifLine := 0
		start := 0
		if s.own {
			ifLine = add(ind + "if")
			start = add(ind + u + u + cl[0])
		} else {
			ifLine = add(ind + "if " + cl[0])
			start = ifLine
		}
		for k := 1; k < h; k++ {
			add(ind + u + u + cl[k])
		}
		end := len(out.lines) - 1
		if top {
			out.tIf++
			out.conds = append(out.conds, [3]int{ifLine, start, end})
		} else {
			out.nIf++
			out.decoy = append(out.decoy, start)
			if h >= 4 {
				out.tall++
			}
		}
		if s.noBr {
			if h == 1 && !s.own {
				out.lines[end] += " " + s.body[0].text
			} else {
				add(ind + u + s.body[0].text)
			}
			return
		}
		out.lines[end] += " {"
		rd.stmts(s.body, ind+u, false, out)
		for bi, eb := range s.elifs {
			eh := 1
			if bi < len(s.elifH) && s.elifH[bi] > 1 {
				eh = s.elifH[bi]
			}
			ecl := rd.condLines(eh)
			ln := add(ind + "} else if " + ecl[0])
			for k := 1; k < eh; k++ {
				add(ind + u + u + ecl[k])
			}
			out.lines[len(out.lines)-1] += " {"
			out.eIf++
			out.decoy = append(out.decoy, ln)
			out.elif = append(out.elif, ln)
			if eh >= 4 {
				out.tall++
				out.tallElif++
			}
			rd.stmts(eb, ind+u, false, out)
		}
		if s.els != nil {
			add(ind + "} else {")
			rd.stmts(s.els, ind+u, false, out)
		}
		add(ind + "}")
	case "switch":
		add(ind + "switch (" + rd.r.Pick([]string{"acc % 5", "acc", "tag.length()", "(acc + 3) % 7"}) + ") {")
		if top {
			out.tSw++
		} else {
			out.nSw++
		}
		for k, cb := range s.cases {
			add(ind + u + "case " + strconv.Itoa(k) + ":")
			rd.stmts(cb, ind+u+u, false, out)
			add(ind + u + u + "break;")
		}
		if s.deflt {
			add(ind + u + "default:")
			add(ind + u + u + "break;")
		}
		add(ind + "}")
	case "for":
		rd.nv++
		v := "i" + strconv.Itoa(rd.nv)
		add(ind + "for (int " + v + " = 0; " + v + " < " + strconv.Itoa(rd.r.Range(2, 9)) + "; " + v + "++) {")
		rd.stmts(s.body, ind+u, false, out)
		add(ind + "}")
	case "foreach":
		rd.nv++
		add(ind + "for (String part" + strconv.Itoa(rd.nv) + " : tag.split(\",\")) {")
		rd.stmts(s.body, ind+u, false, out)
		add(ind + "}")
	case "while":
		h := s.h
		if h < 1 {
			h = 1
		}
		cl := rd.condLines(h)
		start := add(ind + "while " + cl[0])
		for k := 1; k < h; k++ {
			add(ind + u + u + cl[k])
		}
		out.decoy = append(out.decoy, start)
		if h >= 4 {
			out.tall++
		}
		out.lines[len(out.lines)-1] += " {"
		rd.stmts(s.body, ind+u, false, out)
		add(ind + u + "acc = acc / 2 - 50;")
		add(ind + "}")
	case "do":
		add(ind + "do {")
		rd.stmts(s.body, ind+u, false, out)
		add(ind + u + "acc++;")
		ln := add(ind + "} while (acc < " + strconv.Itoa(rd.r.Range(2, 30)) + ");")
		out.decoy = append(out.decoy, ln)
	case "try":
		add(ind + "try {")
		rd.stmts(s.body, ind+u, false, out)
		add(ind + "} catch (RuntimeException ex) {")
		rd.stmts(s.els, ind+u, false, out)
		if s.fin {
			add(ind + "} finally {")
			add(ind + u + "acc++;")
		}
		add(ind + "}")
	case "sync":
		ln := add(ind + "synchronized (this) {")
		out.decoy = append(out.decoy, ln)
		rd.stmts(s.body, ind+u, false, out)
		add(ind + "}")
	}
}

var paramTypes = []string{"int", "String", "long", "boolean", "double", "List<String>", "Map<String, Integer>", "int[]", "final int", "final String", "Object", "char"}
var paramNames = []string{"amount", "label", "limit", "flag", "ratio", "items", "index", "codes", "depth", "owner", "source", "mark", "width", "scope", "batch", "origin"}

func (rd *renderer) paramList(n int, varargs bool) []string {
	perm := rd.r.Perm(len(paramNames))
	out := make([]string, n)
	for i := 0; i < n; i++ {
		name := paramNames[perm[i%len(paramNames)]]
		if i >= len(paramNames) {
			name += strconv.Itoa(i)
		}
		out[i] = rd.r.Pick(paramTypes) + " " + name
	}
	if varargs && n > 0 {
		name := paramNames[perm[(n-1)%len(paramNames)]]
		out[n-1] = rd.r.Pick([]string{"String", "int", "Object", "long"}) + "... " + name
	}
	return out
}

func retStmt(ret string, r *run.Rand) string {
	switch ret {
	case "void":
		return ""
	case "int", "long", "double":
		return "return acc;"
	case "String":
		return "return tag;"
	case "boolean":
		return "return acc > " + strconv.Itoa(r.Range(1, 50)) + ";"
	}
	return "return null;"
}

var fillerWords = []string{"alpha", "bravo", "carbon", "delta", "ember", "fjord", "gamma", "harbor", "indigo", "jasper", "kilo", "lumen"}

// filler is a one-line top-level statement / comment / blank that is neither an if nor a switch (some mention the
// words so that a text-based counter would be fooled).
func filler(r *run.Rand) stmtSpec {
	n := strconv.Itoa(r.Range(1, 60))
	switch r.Intn(14) {
	case 0:
		return stmtSpec{kind: "simple", text: "acc += " + n + ";"}
	case 1:
		return stmtSpec{kind: "simple", text: "acc = acc * 2 + " + n + ";"}
	case 2:
		return stmtSpec{kind: "simple", text: "tag = tag + \"" + r.Pick(fillerWords) + "\";"}
	case 3:
		return stmtSpec{kind: "simple", text: "System.out.println(\"if (acc > " + n + ") then switch (tag) else if (none)\");"}
	case 4:
		return stmtSpec{kind: "simple", text: "acc = Math.max(acc, " + n + ");"}
	case 5:
		return stmtSpec{kind: "simple", text: "tag = String.valueOf(acc);"}
	case 6:
		return stmtSpec{kind: "simple", text: "acc = tag.length() > " + n + " ? acc : " + n + ";"}
	case 7:
		return stmtSpec{kind: "comment", text: "// if (acc > " + n + ") switch (tag) - kept for reference"}
	case 8:
		return stmtSpec{kind: "blank"}
	case 9:
		return stmtSpec{kind: "simple", text: "acc--;"}
	case 10:
		return stmtSpec{kind: "simple", text: "System.out.println(tag);"}
	case 11:
		return stmtSpec{kind: "comment", text: "/* " + r.Pick(fillerWords) + " step " + n + " */"}
	case 12:
		return stmtSpec{kind: "simple", text: "tag = tag.trim();"}
	}
	return stmtSpec{kind: "simple", text: "acc = (acc + " + n + ") % 97;"}
}

// lambdaStmt is a one-line local declaration initialised with an expression lambda. typed > 0: the lambda declares
// the types of its `typed` parameters (the grammar then uses the same rule as for a method's parameter list); typed ==
// 0: inferred parameter types (decoy). Lambda bodies are expressions only, so no statement hides inside them.
func lambdaStmt(r *run.Rand, typed int, seq int) stmtSpec {
	v := "fn" + strconv.Itoa(seq)
	k := strconv.Itoa(r.Range(2, 9))
	switch typed {
	case 0:
		if r.Bool() {
			return stmtSpec{kind: "simple", text: "java.util.function.BiFunction<Integer, Integer, Integer> " + v + " = (lx, ly) -> lx + ly * " + k + ";"}
		}
		return stmtSpec{kind: "simple", text: "java.util.function.Function<Integer, Integer> " + v + " = lz -> lz * " + k + ";"}
	case 1:
		mod := r.Pick([]string{"", "final "})
		return stmtSpec{kind: "simple", lam: 1, text: "java.util.function.Function<Integer, Integer> " + v + " = (" + mod + "Integer lz) -> lz * " + k + ";"}
	case 2:
		if r.Bool() {
			return stmtSpec{kind: "simple", lam: 2, text: "java.util.function.BiFunction<Integer, Integer, Integer> " + v + " = (Integer lx, Integer ly) -> lx + ly * " + k + ";"}
		}
		return stmtSpec{kind: "simple", lam: 2, text: "java.util.function.BinaryOperator<String> " + v + " = (final String lx, String ly) -> lx + ly;"}
	}
	return stmtSpec{kind: "simple", lam: 3, text: "java.util.Comparator<String> " + v + " = java.util.Comparator.comparing((String lx) -> lx.length()).thenComparing((String ly, String lz) -> ly.compareTo(lz));"}
}

type writer struct {
	lines []string
}

func (w *writer) add(s string) int { w.lines = append(w.lines, s); return len(w.lines) }

func upperFirst(s string) string { return strings.ToUpper(s[:1]) + s[1:] }

// renderMethod appends one method and returns its planted record.
func (rd *renderer) renderMethod(w *writer, ms *methodSpec, ind string) Method {
	u := rd.unit
	switch ms.lead {
	case 1:
		w.add("")
	case 2:
		w.add("")
		w.add(ind + "// " + ms.name + ": switch (mode) and if (ready) are described in the handbook")
	case 3:
		w.add("")
		w.add(ind + "/**")
		w.add(ind + " * " + upperFirst(ms.name) + " - see if (x) and switch (y) in the design notes.")
		w.add(ind + " */")
	}
	m := Method{Name: ms.name, Form: ms.form, Role: ms.role, Params: ms.params, Varargs: ms.varargs, Generic: ms.generic, HasBody: ms.hasBody()}
	if ms.role == "plain" && ms.accRole != "" {
		m.Role, m.AccessorNamed = ms.accRole, true
	}
	head := ms.mods
	if head != "" {
		head += " "
	}
	if ms.generic {
		if ms.split {
			head += "<T extends Comparable<T>> "
		} else {
			head += "<T> "
		}
	}
	splitLine := 0
	if ms.split && strings.TrimSpace(head) != "" && !ms.oneLine {
		// the declaration starts here: `default <T extends Comparable<T>>` / newline / `T pick(…) {`
		splitLine = w.add(ind + strings.TrimSpace(head))
		head = ""
	}
	head += ms.ret + " " + ms.name + "("
	var params []string
	if ms.role == "setter" {
		params = []string{fieldType(ms.field) + " " + fieldName(ms.field)}
	} else {
		params = rd.paramList(ms.params, ms.varargs)
	}
	tail := ")"
	if ms.throws {
		tail += " throws java.io.IOException"
	}
	if !ms.hasBody() {
		tail += ";"
	} else if ms.brace != "next" && !(ms.oneLine && (ms.role == "getter" || ms.role == "setter")) {
		tail += " {"
	}
	// one-line getters / setters
	if ms.oneLine && ms.hasBody() && (ms.role == "getter" || ms.role == "setter") {
		body := "return " + fieldName(ms.field) + ";"
		if ms.role == "setter" {
			body = "this." + fieldName(ms.field) + " = " + fieldName(ms.field) + ";"
		}
		m.StartLine = w.add(ind + head + strings.Join(params, ", ") + tail + " { " + body + " }")
		m.CloseLine = m.StartLine
		return m
	}
	wrap := ms.wrap
	if len(params) < 2 {
		wrap = 0
	}
	switch wrap {
	case 0:
		m.StartLine = w.add(ind + head + strings.Join(params, ", ") + tail)
	case 1:
		m.StartLine = w.add(ind + head + params[0] + ",")
		for i := 1; i < len(params); i++ {
			t := ","
			if i == len(params)-1 {
				t = tail
			}
			w.add(ind + u + u + params[i] + t)
		}
	default:
		m.StartLine = w.add(ind + head)
		for i, p := range params {
			t := ","
			if i == len(params)-1 {
				t = ""
			}
			w.add(ind + u + u + p + t)
		}
		w.add(ind + tail)
	}
	if splitLine > 0 {
		m.StartLine, m.HeadSplit = splitLine, true
		m.HeadFirst = strings.Fields(w.lines[splitLine-1])[0]
		if strings.HasPrefix(m.HeadFirst, "<") {
			m.HeadFirst = "type-parameters"
		}
	}
	if !ms.hasBody() {
		return m
	}
	if ms.brace == "next" {
		w.add(ind + "{")
	}
	var out bodyOut
	in := ind + u
	var pre []string
	var ret string
	switch ms.role {
	case "getter":
		ret = "return " + fieldName(ms.field) + ";"
	case "setter":
		pre = []string{"this." + fieldName(ms.field) + " = " + fieldName(ms.field) + ";"}
	default:
		if len(ms.body) > 0 || ms.target > 0 || ms.ret != "void" {
			pre = []string{"int acc = " + strconv.Itoa(rd.r.Range(0, 99)) + ";", "String tag = \"" + rd.r.Pick(fillerWords) + "\";"}
		}
		ret = retStmt(ms.ret, rd.r)
	}
	for _, p := range pre {
		out.lines = append(out.lines, in+p)
	}
	rd.stmts(ms.body, in, true, &out)
	bodyFirst := len(w.lines) + 1 // absolute line of out.lines[0]
	nret := 0
	if ret != "" {
		nret = 1
	}
	if ms.target > 0 {
		pad := ms.target - (bodyFirst - 1 - m.StartLine) - len(out.lines) - nret - 1
		for k := 0; k < pad; k++ {
			f := filler(rd.r)
			rd.stmt(&f, in, true, &out)
		}
	}
	for _, l := range out.lines {
		w.add(l)
	}
	if ret != "" {
		w.add(in + ret)
	}
	m.CloseLine = w.add(ind + "}")
	m.TopIfs, m.TopSwitches = out.tIf, out.tSw
	m.NestedIfs, m.NestedSwitches, m.ElseIfs, m.TallDecoys = out.nIf, out.nSw, out.eIf, out.tall
	m.TypedLambdaParams = out.lam
	m.TallElseIfs = out.tallElif
	for _, c := range out.conds {
		m.Conds = append(m.Conds, Cond{IfLine: bodyFirst + c[0], StartLine: bodyFirst + c[1], EndLine: bodyFirst + c[2]})
	}
	for _, d := range out.decoy {
		m.DecoyLines = append(m.DecoyLines, bodyFirst+d)
	}
	for _, d := range out.elif {
		m.ElseIfLines = append(m.ElseIfLines, bodyFirst+d)
	}
	return m
}

// fields are written "Type name"
func fieldType(f string) string { return f[:strings.LastIndex(f, " ")] }
func fieldName(f string) string { return f[strings.LastIndex(f, " ")+1:] }

func relPath(cs *classSpec) string {
	dir := strings.ReplaceAll(cs.pkg, ".", "/")
	switch cs.layout {
	case "flat":
		return cs.name + ".java"
	case "maven":
		return "src/main/java/" + dir + "/" + cs.name + ".java"
	}
	return dir + "/" + cs.name + ".java"
}

func renderClass(r *run.Rand, cs *classSpec) *Class {
	rd := &renderer{r: r, unit: cs.unit}
	w := &writer{}
	c := &Class{RelPath: relPath(cs), Pkg: cs.pkg, Name: cs.name, Kind: cs.kind}
	w.add("package " + cs.pkg + ";")
	w.add("")
	w.add("import java.util.List;")
	w.add("import java.util.Map;")
	w.add("")
	if cs.javadoc {
		w.add("/**")
		w.add(" * " + cs.name + " keeps the " + r.Pick(fillerWords) + " records; if (empty) nothing is written.")
		w.add(" */")
	}
	head := ""
	if cs.public {
		head = "public "
	}
	if cs.kind == "class" {
		if cs.abstract {
			head += "abstract "
		} else if cs.final {
			head += "final "
		}
		head += "class " + cs.name
	} else {
		head += "interface " + cs.name
	}
	if cs.typePar {
		head += "<E>"
	}
	if cs.extends != "" {
		head += " extends " + cs.extends
	}
	if cs.impls != "" && cs.kind == "class" {
		head += " implements " + cs.impls
	}
	w.add(head + " {")
	ind := cs.unit
	// fields: one per getter/setter field plus the extra ones
	seenField := map[string]bool{}
	var fields []string
	for _, ms := range cs.methods {
		if ms.field != "" && !seenField[ms.field] {
			seenField[ms.field] = true
			fields = append(fields, ms.field)
		}
	}
	if cs.kind == "class" {
		for _, f := range fields {
			w.add(ind + "private " + f + ";")
			c.Fields++
		}
		for _, f := range cs.fields {
			w.add(ind + f)
			c.Fields++
		}
	} else {
		for _, f := range cs.fields {
			w.add(ind + f)
			c.Fields++
		}
	}
	if cs.ctor && cs.kind == "class" {
		w.add("")
		mod := "public "
		if cs.abstract {
			mod = "protected "
		}
		w.add(ind + mod + cs.name + "(int seed) {")
		w.add(ind + cs.unit + "int start = seed + 1;")
		w.add(ind + cs.unit + "System.out.println(start);")
		w.add(ind + "}")
		c.Ctors = 1
	}
	for _, ms := range cs.methods {
		c.Methods = append(c.Methods, rd.renderMethod(w, ms, ind))
	}
	w.add("}")
	c.Text = strings.Join(w.lines, "\n") + "\n"
	if cs.crlf {
		// Windows line ends: the same lines, the same line numbers
		c.Text = strings.ReplaceAll(c.Text, "\n", "\r\n")
		c.CRLF = true
	}
	return c
}
