package smellgen

import (
	"strconv"

	"verifharness/run"
)

// Thresholds of the statement (the generator only needs them to know where "around" is).
const (
	tLen    = 30
	tParams = 5
	tLarge  = 20
	tRepeat = 8
	tCond   = 4
)

var classWords = []string{"Order", "Invoice", "Customer", "Account", "Shipment", "Payment", "Catalog", "Report", "Ledger", "Parcel", "Route", "Ticket",
	"Profile", "Basket", "Voucher", "Tariff", "Depot", "Tenant", "Quota", "Roster"}
var classTails = []string{"Service", "Manager", "Record", "Registry", "Handler", "Policy", "Summary", "Gateway", "Planner", "Store", "View", "Mapper"}
var pkgWords = []string{"billing", "stock", "routing", "crm", "core", "ledger", "portal"}

// verbs never start with "get"/"set"; several contain the letters (reset, forget, offset, budget, widget) or start with
// "ge"/"se" so that a shortened or "contains" prefix test would misclassify them.
var plainVerbs = []string{"compute", "load", "save", "build", "parse", "render", "handle", "apply", "check", "update", "resolve", "merge", "find",
	"send", "select", "gather", "generate", "reset", "forget", "offset", "budget", "widget", "sum", "gauge", "serve", "is", "has", "target", "asset"}
var nouns = []string{"Total", "Entry", "Batch", "Window", "Quota", "Rate", "Path", "Level", "Stamp", "Range", "Token", "Weight", "Zone", "Draft", "Slot", "Grade"}
var fieldTypes = []string{"String", "int", "long", "boolean", "double", "List<String>"}

type gen struct {
	r     *run.Rand
	names map[string]bool
	cls   map[string]bool
}

func newGen(r *run.Rand) *gen { return &gen{r: r, names: map[string]bool{}, cls: map[string]bool{}} }

func (g *gen) className() string {
	for {
		n := g.r.Pick(classWords) + g.r.Pick(classTails)
		if g.r.Chance(1, 3) {
			n = g.r.Pick(classWords) + n
		}
		if !g.cls[n] {
			g.cls[n] = true
			return n
		}
	}
}

func (g *gen) newClass(kind string) *classSpec {
	cs := &classSpec{kind: kind, name: g.className(), pkg: "com.acme." + g.r.Pick(pkgWords), public: g.r.Chance(5, 6),
		layout: g.r.Pick([]string{"flat", "pkgdirs", "pkgdirs", "maven"}), unit: g.r.Pick([]string{"    ", "    ", "  ", "\t"}), javadoc: g.r.Chance(1, 3), crlf: g.r.Chance(1, 5)}
	if kind == "class" {
		cs.final = g.r.Chance(1, 8)
		if g.r.Chance(1, 6) {
			cs.impls = g.r.Pick([]string{"java.io.Serializable", "Comparable<Object>", "Runnable"})
		}
		if g.r.Chance(1, 8) {
			cs.extends = g.r.Pick([]string{"BaseEntity", "AbstractSupport"})
		}
		for i, n := 0, g.r.Intn(3); i < n; i++ {
			cs.fields = append(cs.fields, g.r.Pick([]string{"private", "protected", "private final", "private static final"})+" int "+g.r.Pick([]string{"count", "state", "mode", "rank"})+strconv.Itoa(i)+" = "+strconv.Itoa(g.r.Intn(9))+";")
		}
	} else {
		if g.r.Chance(1, 6) {
			cs.extends = "Comparable<Object>"
		}
		if g.r.Chance(1, 3) {
			cs.fields = append(cs.fields, "int LIMIT = "+strconv.Itoa(g.r.Range(1, 90))+";")
		}
	}
	cs.typePar = g.r.Chance(1, 10)
	return cs
}

func (g *gen) plainName() string {
	for {
		n := g.r.Pick(plainVerbs) + g.r.Pick(nouns)
		if g.r.Chance(1, 4) {
			n += g.r.Pick(nouns)
		}
		if !g.names[n] {
			g.names[n] = true
			return n
		}
	}
}

var accessorTails = []string{"Report", "UpEverything", "OrCreate", "Summary", "Ready", "Details", "Everything", "AllFor"}

// accessorNamed turns an ordinary method into one that carries a get…/set… name (getReport, setUpEverythingBatch …):
// by name it is a getter/setter, everything else about it is an ordinary method.
func (g *gen) accessorNamed(ms *methodSpec) *methodSpec {
	pre := g.r.Pick([]string{"get", "set"})
	for {
		n := pre + g.r.Pick(accessorTails)
		if g.names[n] || g.r.Bool() {
			n += g.r.Pick(nouns)
		}
		if !g.names[n] {
			g.names[n] = true
			ms.name = n
			break
		}
	}
	ms.accRole = "getter"
	if pre == "set" {
		ms.accRole = "setter"
	}
	return ms
}

// form picks a method form that fits the class kind; body says whether a body is wanted.
func (g *gen) form(cs *classSpec, body bool) string {
	if cs.kind == "interface" {
		if !body {
			return "iface-abstract"
		}
		if g.r.Chance(1, 5) {
			return "iface-static"
		}
		return "iface-default"
	}
	if !body && cs.abstract {
		return "abstract"
	}
	if g.r.Chance(1, 6) {
		return "static"
	}
	return "class"
}

func (g *gen) mods(form string) string {
	switch form {
	case "class":
		return g.r.Pick([]string{"public", "public", "protected", "private", "", "public final", "public synchronized"})
	case "static":
		return g.r.Pick([]string{"public static", "private static", "static"})
	case "abstract":
		return g.r.Pick([]string{"public abstract", "protected abstract", "abstract"})
	case "iface-abstract":
		return g.r.Pick([]string{"", "", "public", "public abstract"})
	case "iface-default":
		return g.r.Pick([]string{"default", "default", "public default"})
	case "iface-static":
		return g.r.Pick([]string{"static", "public static"})
	}
	return ""
}

// plain makes a non-getter/setter method with the given form.
func (g *gen) plain(form string) *methodSpec {
	ms := &methodSpec{name: g.plainName(), role: "plain", form: form, mods: g.mods(form),
		ret: g.r.Pick([]string{"void", "void", "int", "String", "boolean", "long", "List<String>"}), brace: "same", lead: g.r.Intn(4)}
	if ms.hasBody() && g.r.Chance(1, 5) {
		ms.brace = "next"
	}
	ms.throws = g.r.Chance(1, 10)
	return ms
}

// shortPlain is a small method far from every threshold.
func (g *gen) shortPlain(cs *classSpec) *methodSpec {
	body := g.r.Chance(1, 4)
	if cs.kind == "class" {
		body = !(cs.abstract && g.r.Chance(1, 3))
	}
	ms := g.plain(g.form(cs, body))
	ms.params = g.r.Intn(4)
	ms.wrap = 0
	ms.generic = g.r.Chance(1, 20)
	if ms.hasBody() {
		for i, n := 0, g.r.Intn(3); i < n; i++ {
			ms.body = append(ms.body, filler(g.r))
		}
	}
	return ms
}

func (g *gen) gsPair() (field string, getter, setter string) {
	for {
		n := g.r.Pick(nouns)
		if g.r.Chance(1, 3) {
			n = g.r.Pick(nouns) + n
		}
		if g.names["get"+n] {
			continue
		}
		g.names["get"+n], g.names["set"+n] = true, true
		lower := string(n[0]|0x20) + n[1:]
		return g.r.Pick(fieldTypes) + " " + lower, "get" + n, "set" + n
	}
}

// gs adds n getters/setters (pairs first, a lone getter or setter when n is odd).
func (g *gen) gs(cs *classSpec, n int) []*methodSpec {
	var out []*methodSpec
	for len(out) < n {
		field, gn, sn := g.gsPair()
		form := "class"
		if cs.kind == "interface" {
			form = "iface-abstract"
		} else if cs.abstract && g.r.Chance(1, 4) {
			form = "abstract"
		}
		mods := "public"
		if form == "iface-abstract" {
			mods = g.mods(form)
		} else if form == "abstract" {
			mods = "public abstract"
		}
		one := g.r.Chance(1, 4)
		get := &methodSpec{name: gn, role: "getter", form: form, mods: mods, ret: fieldType(field), field: field, brace: "same", oneLine: one, lead: g.r.Intn(2)}
		set := &methodSpec{name: sn, role: "setter", form: form, mods: mods, ret: "void", field: field, params: 1, brace: "same", oneLine: one, lead: g.r.Intn(2)}
		if n-len(out) == 1 {
			if g.r.Bool() {
				out = append(out, get)
			} else {
				out = append(out, set)
			}
			break
		}
		out = append(out, get, set)
	}
	return out
}

func (g *gen) shuffle(ms []*methodSpec) []*methodSpec {
	out := make([]*methodSpec, len(ms))
	for i, j := range g.r.Perm(len(ms)) {
		out[i] = ms[j]
	}
	return out
}

// ---- statements ----------------------------------------------------------------------------------------------------

func (g *gen) simples(n int) []stmtSpec {
	var out []stmtSpec
	for i := 0; i < n; i++ {
		f := filler(g.r)
		if f.kind != "simple" {
			f = stmtSpec{kind: "simple", text: "acc += " + strconv.Itoa(g.r.Range(1, 9)) + ";"}
		}
		out = append(out, f)
	}
	return out
}

// ifS is an if statement with an h-line condition and a small body.
func (g *gen) ifS(h int, own bool) stmtSpec {
	s := stmtSpec{kind: "if", h: h, own: own, body: g.simples(g.r.Range(1, 2))}
	switch g.r.Intn(5) {
	case 0:
		s.els = g.simples(1)
	case 1:
		s.noBr = true
		s.body = []stmtSpec{{kind: "simple", text: g.r.Pick([]string{"acc++;", "acc = 0;", "tag = \"\";"})}}
	}
	return s
}

// tinyIf is the shortest brace form (3 lines), used where many ifs must fit into few lines.
func (g *gen) tinyIf() stmtSpec {
	if g.r.Chance(1, 3) {
		return stmtSpec{kind: "if", h: 1, noBr: true, body: []stmtSpec{{kind: "simple", text: "acc++;"}}}
	}
	return stmtSpec{kind: "if", h: 1, body: g.simples(1)}
}

func (g *gen) switchS(nested bool) stmtSpec {
	s := stmtSpec{kind: "switch", deflt: g.r.Chance(2, 3)}
	for i, n := 0, g.r.Range(1, 2); i < n; i++ {
		b := g.simples(1)
		if nested && i == 0 {
			b = append(b, g.nestedCarrier(1))
		}
		s.cases = append(s.cases, b)
	}
	return s
}

// nestedCarrier is a top-level statement that is neither if nor switch itself but contains k ifs / switches (and
// sometimes a tall condition) in its branches: none of them is top-level.
func (g *gen) nestedCarrier(k int) stmtSpec {
	var inner []stmtSpec
	for i := 0; i < k; i++ {
		switch g.r.Intn(4) {
		case 0:
			inner = append(inner, stmtSpec{kind: "switch", cases: [][]stmtSpec{g.simples(1)}, deflt: true})
		case 1:
			inner = append(inner, stmtSpec{kind: "if", h: g.r.Range(4, 5), body: g.simples(1)})
		default:
			inner = append(inner, stmtSpec{kind: "if", h: 1, body: g.simples(1)})
		}
	}
	switch g.r.Intn(6) {
	case 0:
		return stmtSpec{kind: "for", body: inner}
	case 1:
		return stmtSpec{kind: "foreach", body: inner}
	case 2:
		return stmtSpec{kind: "while", h: g.r.PickInt(1, 1, 4, 5), body: inner}
	case 3:
		return stmtSpec{kind: "do", body: inner}
	case 4:
		return stmtSpec{kind: "try", body: inner, els: g.simples(1), fin: g.r.Bool()}
	}
	return stmtSpec{kind: "try", body: g.simples(1), els: inner}
}

// ifWithNested is ONE top-level if whose branches hold k further ifs.
func (g *gen) ifWithNested(k int) stmtSpec {
	s := stmtSpec{kind: "if", h: 1}
	for i := 0; i < k; i++ {
		in := stmtSpec{kind: "if", h: g.r.PickInt(1, 1, 1, 4), body: g.simples(1)}
		if i%2 == 0 {
			s.body = append(s.body, in)
		} else {
			s.els = append(s.els, in)
		}
	}
	if len(s.body) == 0 {
		s.body = g.simples(1)
	}
	return s
}

// elseIfChain is ONE top-level if followed by k else-if branches; tall > 0 gives one of the branches a condition of
// that many lines.
func (g *gen) elseIfChain(k int, tall int) stmtSpec {
	s := stmtSpec{kind: "if", h: 1, body: g.simples(1)}
	for i := 0; i < k; i++ {
		s.elifs = append(s.elifs, g.simples(1))
		s.elifH = append(s.elifH, 1)
	}
	if tall > 1 && k > 0 {
		s.elifH[g.r.Intn(k)] = tall
	}
	if g.r.Bool() {
		s.els = g.simples(1)
	}
	return s
}

// ---- boundary points (bounded-exhaustive part) ---------------------------------------------------------------------

type point struct {
	tag   string
	build func(g *gen) *classSpec
}

var points []point

func offs() []int { return []int{-2, -1, 0, 1, 2} }

func tagOff(d int) string {
	if d >= 0 {
		return "T+" + strconv.Itoa(d)
	}
	return "T" + strconv.Itoa(d)
}

func kindOf(form string) string {
	if len(form) > 6 && form[:6] == "iface-" {
		return "interface"
	}
	return "class"
}

// host wraps methods into a class that has at least one ordinary short method besides them (so that class-level
// verdicts stay away from their own boundaries).
func (g *gen) host(kind string, abstract bool, ms ...*methodSpec) *classSpec {
	cs := g.newClass(kind)
	cs.abstract = abstract
	if abstract {
		cs.final = false
	}
	all := append([]*methodSpec{}, ms...)
	for i, n := 0, g.r.Range(1, 3); i < n; i++ {
		all = append(all, g.shortPlain(cs))
	}
	if g.r.Chance(1, 3) {
		all = append(all, g.gs(cs, g.r.Range(1, 2))...)
	}
	cs.methods = g.shuffle(all)
	cs.ctor = kind == "class" && g.r.Chance(1, 4)
	return cs
}

func init() {
	// 1. method length: closing brace - start line in 28..32
	for _, d := range offs() {
		for _, form := range []string{"class", "static", "iface-default"} {
			for _, lay := range []string{"same", "next", "wrap"} {
				d, form, lay := d, form, lay
				points = append(points, point{"methodLen:" + tagOff(d) + "/" + form + "/" + lay, func(g *gen) *classSpec {
					ms := g.plain(form)
					ms.brace = "same"
					ms.params = g.r.Intn(3)
					switch lay {
					case "next":
						ms.brace = "next"
					case "wrap":
						ms.params = g.r.Range(2, 4)
						ms.wrap = g.r.Range(1, 2)
					}
					ms.target = tLen + d
					if g.r.Bool() {
						ms.body = append(ms.body, g.ifS(1, false))
					}
					if g.r.Chance(1, 3) {
						ms.body = append(ms.body, g.nestedCarrier(1))
					}
					return g.host(kindOf(form), false, ms)
				}})
			}
		}
	}
	// 2. parameter count 3..7
	for _, d := range offs() {
		for _, form := range []string{"class", "static", "abstract", "iface-abstract", "iface-default"} {
			for _, va := range []bool{false, true} {
				d, form, va := d, form, va
				t := "params:" + tagOff(d) + "/" + form
				if va {
					t += "/varargs"
				}
				points = append(points, point{t, func(g *gen) *classSpec {
					ms := g.plain(form)
					ms.params = tParams + d
					ms.varargs = va
					ms.wrap = g.r.Intn(3)
					if ms.hasBody() {
						ms.body = g.simples(g.r.Intn(3))
					}
					return g.host(kindOf(form), form == "abstract", ms)
				}})
			}
		}
	}
	// 2b. the same for methods with a type parameter of their own
	for _, d := range offs() {
		for _, form := range []string{"class", "iface-abstract", "iface-default"} {
			d, form := d, form
			points = append(points, point{"params:" + tagOff(d) + "/" + form + "/generic", func(g *gen) *classSpec {
				ms := g.plain(form)
				ms.generic = true
				ms.params = tParams + d
				ms.wrap = g.r.Intn(3)
				if ms.hasBody() {
					ms.body = g.simples(g.r.Intn(3))
				}
				return g.host(kindOf(form), false, ms)
			}})
		}
	}
	// 3. number of methods that are not getters/setters 18..22
	for _, d := range offs() {
		for _, ngs := range []int{0, 3} {
			for _, k := range []string{"class", "abstract-class", "interface"} {
				d, ngs, k := d, ngs, k
				points = append(points, point{"nonGetterSetter:" + tagOff(d) + "/gs=" + strconv.Itoa(ngs) + "/" + k, func(g *gen) *classSpec {
					kind := "class"
					if k == "interface" {
						kind = "interface"
					}
					cs := g.newClass(kind)
					cs.abstract = k == "abstract-class"
					if cs.abstract {
						cs.final = false
					}
					var all []*methodSpec
					for i := 0; i < tLarge+d; i++ {
						all = append(all, g.shortPlain(cs))
					}
					all = append(all, g.gs(cs, ngs)...)
					cs.methods = g.shuffle(all)
					return cs
				}})
			}
		}
	}
	// 4. data class / lazy element: g getters/setters and n other methods
	for _, ngs := range []int{0, 1, 2, 4} {
		for _, n := range []int{0, 1, 2} {
			for _, k := range []string{"class", "interface"} {
				ngs, n, k := ngs, n, k
				points = append(points, point{"members:gs=" + strconv.Itoa(ngs) + ",other=" + strconv.Itoa(n) + "/" + k, func(g *gen) *classSpec {
					cs := g.newClass(k)
					cs.abstract = k == "class" && ngs+n > 0 && g.r.Chance(1, 4)
					if cs.abstract {
						cs.final = false
					}
					var all []*methodSpec
					for i := 0; i < n; i++ {
						all = append(all, g.shortPlain(cs))
					}
					all = append(all, g.gs(cs, ngs)...)
					cs.methods = g.shuffle(all)
					return cs
				}})
			}
		}
	}
	// 5a. top-level ifs 6..10 with decoys that must not count
	for _, d := range offs() {
		for _, decoy := range []string{"none", "nested", "branches"} {
			for _, form := range []string{"class", "iface-default"} {
				d, decoy, form := d, decoy, form
				points = append(points, point{"topIfs:" + tagOff(d) + "/" + decoy + "/" + form, func(g *gen) *classSpec {
					ms := g.plain(form)
					ms.params = g.r.Intn(3)
					n := tRepeat + d
					var body []stmtSpec
					start := 0
					if decoy == "branches" {
						body = append(body, g.ifWithNested(g.r.Range(3, 5))) // one top-level if holding 3-5 more
						start = 1
					}
					for i := start; i < n; i++ {
						if g.r.Chance(1, 4) {
							body = append(body, g.ifS(1, false))
						} else {
							body = append(body, g.tinyIf())
						}
					}
					if decoy == "nested" {
						body = append(body, g.nestedCarrier(g.r.Range(2, 3)), g.nestedCarrier(1))
					}
					ms.body = g.mix(body)
					return g.host(kindOf(form), false, ms)
				}})
			}
		}
	}
	// 5b. top-level switches 6..10
	for _, d := range offs() {
		for _, decoy := range []string{"none", "nested"} {
			for _, form := range []string{"class", "iface-default"} {
				d, decoy, form := d, decoy, form
				points = append(points, point{"topSwitches:" + tagOff(d) + "/" + decoy + "/" + form, func(g *gen) *classSpec {
					ms := g.plain(form)
					ms.params = g.r.Intn(3)
					var body []stmtSpec
					for i := 0; i < tRepeat+d; i++ {
						body = append(body, g.switchS(decoy == "nested" && i < 3))
					}
					if decoy == "nested" {
						in := stmtSpec{kind: "if", h: 1, body: []stmtSpec{g.switchS(false), g.switchS(false)}}
						body = append(body, in, g.nestedCarrier(2))
					}
					ms.body = g.mix(body)
					return g.host(kindOf(form), false, ms)
				}})
			}
		}
	}
	// 5c. both counters next to the threshold in one method
	for _, ni := range []int{tRepeat - 1, tRepeat} {
		for _, ns := range []int{tRepeat - 1, tRepeat} {
			ni, ns := ni, ns
			points = append(points, point{"topIfs=" + strconv.Itoa(ni) + ",topSwitches=" + strconv.Itoa(ns), func(g *gen) *classSpec {
				ms := g.plain("class")
				var body []stmtSpec
				for i := 0; i < ni; i++ {
					body = append(body, g.tinyIf())
				}
				for i := 0; i < ns; i++ {
					body = append(body, g.switchS(false))
				}
				ms.body = g.mix(body)
				return g.host("class", false, ms)
			}})
		}
	}
	// 6. condition height 2..6 lines; as top-level if (two method forms) and in three places where it must not count
	for _, d := range offs() {
		for _, own := range []bool{false, true} {
			for _, pos := range []string{"top/class", "top/iface-default", "nested-in-if", "nested-in-loop", "while-condition"} {
				d, own, pos := d, own, pos
				if own && pos == "while-condition" {
					continue
				}
				t := "conditionLines:" + tagOff(d) + "/" + pos
				if own {
					t += "/if-alone-on-previous-line"
				}
				points = append(points, point{t, func(g *gen) *classSpec {
					form := "class"
					if pos == "top/iface-default" {
						form = "iface-default"
					}
					ms := g.plain(form)
					ms.params = g.r.Intn(3)
					h := tCond + d
					tall := stmtSpec{kind: "if", h: h, own: own, body: g.simples(g.r.Range(1, 2))}
					if g.r.Chance(1, 3) {
						tall.els = g.simples(1)
					}
					var body []stmtSpec
					switch pos {
					case "top/class", "top/iface-default":
						body = []stmtSpec{tall}
					case "nested-in-if":
						body = []stmtSpec{{kind: "if", h: 1, body: []stmtSpec{tall}, els: g.simples(1)}}
					case "nested-in-loop":
						body = []stmtSpec{{kind: g.r.Pick([]string{"for", "foreach", "do", "try"}), body: []stmtSpec{tall}, els: g.simples(1)}}
					default:
						body = []stmtSpec{{kind: "while", h: h, body: g.simples(1)}}
					}
					for i, n := 0, g.r.Intn(3); i < n; i++ {
						body = append(body, g.ifS(g.r.Range(1, 3), false))
					}
					ms.body = g.mix(body)
					return g.host(kindOf(form), false, ms)
				}})
			}
		}
	}
	// 7. every method-level threshold once more on an accessor-NAMED method (getReport(a,b,c,d,e,f), a 31-line
	// setUpEverything() …); the host class has 1-3 other ordinary methods, so no class-level verdict depends on it
	for _, d := range offs() {
		for _, dim := range []string{"methodLen", "params", "topIfs", "topSwitches", "conditionLines"} {
			d, dim := d, dim
			points = append(points, point{dim + ":" + tagOff(d) + "/class/accessor-named", func(g *gen) *classSpec {
				ms := g.accessorNamed(g.plain("class"))
				ms.params = g.r.Intn(3)
				switch dim {
				case "methodLen":
					ms.target = tLen + d
					if g.r.Bool() {
						ms.body = append(ms.body, g.ifS(1, false))
					}
				case "params":
					ms.params = tParams + d
					ms.wrap = g.r.Intn(3)
					ms.body = g.simples(g.r.Intn(3))
				case "topIfs":
					var body []stmtSpec
					for i := 0; i < tRepeat+d; i++ {
						body = append(body, g.tinyIf())
					}
					ms.body = g.mix(append(body, g.nestedCarrier(2)))
				case "topSwitches":
					var body []stmtSpec
					for i := 0; i < tRepeat+d; i++ {
						body = append(body, g.switchS(false))
					}
					ms.body = g.mix(body)
				default:
					ms.body = g.mix([]stmtSpec{{kind: "if", h: tCond + d, own: g.r.Chance(1, 3), body: g.simples(1)}, g.ifS(1, false)})
				}
				return g.host("class", false, ms)
			}})
		}
	}
	// 8. methods whose keyword modifiers / own type-parameter list stand on the line ABOVE the return type: the
	// declaration starts on that upper line, so the length is measured from there and every method-level finding names it
	for _, d := range offs() {
		for _, v := range []string{"methodLen/iface-default", "methodLen/iface-static/generic", "params/iface-abstract/generic", "params/iface-default", "topIfs/iface-default/generic",
			"methodLen/class", "params/static/generic"} {
			d, v := d, v
			points = append(points, point{v[:strIndex(v, "/")] + ":" + tagOff(d) + v[strIndex(v, "/"):] + "/modifiers-on-previous-line", func(g *gen) *classSpec {
				form := "iface-default"
				switch {
				case strContains(v, "iface-static"):
					form = "iface-static"
				case strContains(v, "iface-abstract"):
					form = "iface-abstract"
				case strContains(v, "/class"):
					form = "class"
				case strContains(v, "/static"):
					form = "static"
				}
				ms := g.plain(form)
				ms.split = true
				ms.brace = "same"
				ms.generic = strContains(v, "generic")
				if !ms.generic && ms.mods == "" {
					ms.mods = "public"
				}
				ms.params = g.r.Intn(3)
				switch v[:strIndex(v, "/")] {
				case "methodLen":
					ms.target = tLen + d
					if g.r.Bool() {
						ms.body = append(ms.body, g.ifS(1, false))
					}
				case "params":
					ms.params = tParams + d
					ms.wrap = g.r.Intn(3)
					if ms.hasBody() {
						ms.body = g.simples(g.r.Intn(3))
					}
				default:
					var body []stmtSpec
					for i := 0; i < tRepeat+d; i++ {
						body = append(body, g.tinyIf())
					}
					ms.body = g.mix(body)
				}
				return g.host(kindOf(form), false, ms)
			}})
		}
	}
	// 10. else-if ladders at the boundaries. The if of an `else if` is nested in the else branch of the if before it:
	// (a) ONE top-level if with 5..9 else-if branches (6..10 conditions) is one top-level if: no repeatedSwitches;
	// (b) 6..10 top-level ifs one of which carries 1-3 else-if branches: the count is the number of top-level ifs;
	// (c) an else-if branch whose condition spans 2..6 lines: not a top-level if condition, no complexCondition
	for _, d := range offs() {
		for _, v := range []string{"ladderBranches", "topIfs", "elseIfConditionLines"} {
			d, v := d, v
			tag := v + ":" + tagOff(d) + "/class/else-if"
			if v == "ladderBranches" {
				tag = "elseIfLadder:conditions=" + tagOff(d) + "/class"
			}
			points = append(points, point{tag, func(g *gen) *classSpec {
				form := "class"
				if g.r.Chance(1, 4) {
					form = "iface-default"
				}
				ms := g.plain(form)
				ms.params = g.r.Intn(3)
				var body []stmtSpec
				switch v {
				case "ladderBranches":
					body = []stmtSpec{g.elseIfChain(tRepeat+d-1, 0)}
					for i, n := 0, g.r.Intn(3); i < n; i++ {
						body = append(body, g.tinyIf())
					}
				case "topIfs":
					for i := 0; i < tRepeat+d-1; i++ {
						body = append(body, g.tinyIf())
					}
					body = append(body, g.elseIfChain(g.r.Range(1, 3), 0))
				default:
					body = []stmtSpec{g.elseIfChain(g.r.Range(1, 3), tCond+d), g.ifS(g.r.Range(1, 3), false)}
				}
				ms.body = g.mix(body)
				return g.host(kindOf(form), false, ms)
			}})
		}
	}
	// 9. lambdas with explicitly typed parameters in the body of a method whose own parameter count is 3..7: the
	// lambda's parameters are not the method's
	for _, d := range offs() {
		for _, form := range []string{"class", "iface-default"} {
			d, form := d, form
			points = append(points, point{"params:" + tagOff(d) + "/" + form + "/typed-lambdas-in-body", func(g *gen) *classSpec {
				ms := g.plain(form)
				ms.params = tParams + d
				ms.wrap = g.r.Intn(3)
				ms.body = g.mix([]stmtSpec{lambdaStmt(g.r, g.r.Range(1, 2), 1), lambdaStmt(g.r, g.r.PickInt(0, 1, 2, 3), 2), g.ifS(1, false)})
				return g.host(kindOf(form), false, ms)
			}})
		}
	}
}

func strIndex(s, sub string) int {
	for i := 0; i+len(sub) <= len(s); i++ {
		if s[i:i+len(sub)] == sub {
			return i
		}
	}
	return -1
}

func strContains(s, sub string) bool { return strIndex(s, sub) >= 0 }

// 11. one point per dimension and offset once more in a file written with \r\n line ends (the other points get
// them by chance, one file in five)
func init() {
	want := []string{"methodLen:%s/class/same", "params:%s/class", "nonGetterSetter:%s/gs=3/class", "topIfs:%s/nested/class", "topSwitches:%s/none/class",
		"conditionLines:%s/top/class", "conditionLines:%s/nested-in-if"}
	n := len(points)
	for _, d := range offs() {
		for _, w := range want {
			tag := strReplace(w, "%s", tagOff(d))
			for i := 0; i < n; i++ {
				if points[i].tag == tag {
					orig := points[i].build
					points = append(points, point{tag + "/crlf", func(g *gen) *classSpec {
						cs := orig(g)
						cs.crlf = true
						return cs
					}})
				}
			}
		}
	}
}

func strReplace(s, old, new string) string {
	i := strIndex(s, old)
	if i < 0 {
		return s
	}
	return s[:i] + new + s[i+len(old):]
}

// mix shuffles top-level statements and sprinkles one-line fillers between them.
func (g *gen) mix(body []stmtSpec) []stmtSpec {
	var out []stmtSpec
	for _, j := range g.r.Perm(len(body)) {
		if g.r.Chance(1, 4) {
			out = append(out, filler(g.r))
		}
		out = append(out, body[j])
	}
	return out
}

// BoundaryCount is the number of boundary points of the bounded-exhaustive part.
func BoundaryCount() int { return len(points) }

// BoundaryTag names point i.
func BoundaryTag(i int) string { return points[i].tag }

// Boundary builds the single-class project for boundary point i (names, fillers and layout are drawn from r).
func Boundary(i int, r *run.Rand) *Project {
	g := newGen(r)
	cs := points[i].build(g)
	return &Project{Classes: []*Class{renderClass(r.Fork(), cs)}, Tag: "boundary/" + points[i].tag}
}

// ---- random classes ------------------------------------------------------------------------------------------------

// around draws a value near threshold t with probability 3/4 (t-2 … t+2), otherwise anywhere in [lo,hi].
func (g *gen) around(t, lo, hi int) int {
	if g.r.Chance(3, 4) {
		return t + g.r.Range(-2, 2)
	}
	return g.r.Range(lo, hi)
}

// richMethod draws every method-level dimension at once.
func (g *gen) richMethod(cs *classSpec) *methodSpec {
	body := cs.kind == "class" || g.r.Chance(2, 3)
	if cs.kind == "class" && cs.abstract && g.r.Chance(1, 4) {
		body = false
	}
	ms := g.plain(g.form(cs, body))
	if g.r.Chance(1, 2) {
		ms.params = g.around(tParams, 0, 9)
	} else {
		ms.params = g.r.Intn(4)
	}
	ms.varargs = ms.params > 0 && g.r.Chance(1, 6)
	ms.generic = g.r.Chance(1, 10)
	ms.split = g.r.Chance(1, 5)
	ms.wrap = g.r.PickInt(0, 0, 1, 2)
	if !ms.hasBody() {
		return ms
	}
	var stm []stmtSpec
	nIf, nSw := 0, 0
	switch g.r.Intn(5) {
	case 0:
		nIf = g.around(tRepeat, 0, 12)
	case 1:
		nSw = g.around(tRepeat, 0, 10)
	case 2:
		nIf, nSw = g.r.Range(6, 9), g.r.Range(6, 9)
	default:
		nIf, nSw = g.r.Intn(4), g.r.Intn(2)
	}
	for i := 0; i < nIf; i++ {
		switch {
		case nIf >= 5 && g.r.Chance(3, 4):
			stm = append(stm, g.tinyIf())
		case g.r.Chance(1, 3):
			stm = append(stm, g.ifS(g.around(tCond, 1, 7), g.r.Chance(1, 5)))
		default:
			stm = append(stm, g.ifS(1, g.r.Chance(1, 12)))
		}
	}
	for i := 0; i < nSw; i++ {
		stm = append(stm, g.switchS(g.r.Chance(1, 5)))
	}
	for i, n := 0, g.r.Intn(3); i < n; i++ {
		stm = append(stm, g.nestedCarrier(g.r.Range(1, 3)))
	}
	if g.r.Chance(1, 5) {
		stm = append(stm, g.ifWithNested(g.r.Range(1, 4)))
		nIf++
	}
	// else-if ladders: one top-level if each, whatever the number of branches and the height of their conditions
	if g.r.Chance(1, 4) {
		stm = append(stm, g.elseIfChain(g.r.PickInt(1, 2, 3, 6, 7, 8), g.r.PickInt(0, 0, 3, 4, 5)))
		nIf++
	}
	if ms.form == "class" && g.r.Chance(1, 8) {
		stm = append(stm, stmtSpec{kind: "sync", body: []stmtSpec{g.tinyIf()}})
	}
	if g.r.Chance(1, 5) {
		for i, n := 0, g.r.Range(1, 2); i < n; i++ {
			stm = append(stm, lambdaStmt(g.r, g.r.PickInt(0, 1, 2, 2, 3), i+1))
		}
	}
	ms.body = g.mix(stm)
	if g.r.Chance(1, 2) {
		ms.target = g.around(tLen, 5, 60)
	}
	return ms
}

// Random builds one class / interface with 0..n methods, each dimension drawn near its threshold most of the time.
func Random(r *run.Rand) *Project {
	g := newGen(r)
	return &Project{Classes: []*Class{renderClass(r.Fork(), g.randomClass())}, Tag: "random"}
}

func (g *gen) randomClass() *classSpec {
	kind := "class"
	if g.r.Chance(1, 4) {
		kind = "interface"
	}
	cs := g.newClass(kind)
	cs.abstract = kind == "class" && g.r.Chance(1, 5)
	if cs.abstract {
		cs.final = false
	}
	var all []*methodSpec
	switch g.r.Intn(8) {
	case 0: // only getters/setters, or none at all
		all = g.gs(cs, g.r.Intn(6))
	case 1: // getters/setters and one or two others
		all = g.gs(cs, g.r.Range(1, 5))
		for i, n := 0, g.r.Range(1, 2); i < n; i++ {
			all = append(all, g.shortPlain(cs))
		}
	case 2: // many methods
		for i, n := 0, g.around(tLarge, 10, 28); i < n; i++ {
			all = append(all, g.shortPlain(cs))
		}
		all = append(all, g.gs(cs, g.r.Intn(5))...)
	default:
		for i, n := 0, g.r.Range(1, 5); i < n; i++ {
			m := g.richMethod(cs)
			if i > 0 && g.r.Chance(1, 4) { // the first one keeps an ordinary name: the class has an ordinary method either way
				g.accessorNamed(m)
			}
			all = append(all, m)
		}
		for i, n := 0, g.r.Intn(3); i < n; i++ {
			all = append(all, g.shortPlain(cs))
		}
		all = append(all, g.gs(cs, g.r.Intn(4))...)
	}
	cs.methods = g.shuffle(all)
	// constructors only where neither reading of "is a constructor a method" changes a verdict
	non := 0
	for _, m := range cs.methods {
		if m.role == "plain" && m.accRole == "" {
			non++
		}
	}
	cs.ctor = kind == "class" && non >= 1 && non != tLarge-1 && g.r.Chance(1, 3)
	return cs
}

// ---- rich projects (ignore subsets, sort) --------------------------------------------------------------------------

// Rich builds a project in which every documented kind has at least two findings with different sizes (where the kind
// has a size) plus near misses one below each threshold: a "core" class with the method-level kinds, two large
// classes, two data classes, two classes without methods, one interface, one class just below large / data.
func Rich(r *run.Rand) *Project {
	g := newGen(r)
	var specs []*classSpec

	core := g.newClass("class")
	core.final = false
	var ms []*methodSpec
	lens := []int{tLen + 1, tLen + g.r.Range(2, 12), tLen}
	for _, l := range lens {
		m := g.plain("class")
		m.params = g.r.Intn(3)
		m.target = l
		m.body = []stmtSpec{g.ifS(g.r.Range(1, 3), false)}
		ms = append(ms, m)
	}
	for _, p := range []int{tParams + 1, tParams + g.r.Range(2, 4), tParams} {
		m := g.plain("class")
		m.params = p
		m.wrap = g.r.Intn(3)
		m.body = append(g.simples(g.r.Intn(3)), lambdaStmt(g.r, g.r.Range(1, 3), 1))
		ms = append(ms, m)
	}
	// compact forms keep the project small (it is analysed 128 times): one-line ifs, switches with a default group only
	for _, n := range []int{tRepeat, tRepeat + g.r.Range(1, 3), tRepeat - 1} {
		m := g.plain("class")
		var b []stmtSpec
		for i := 0; i < n; i++ {
			b = append(b, stmtSpec{kind: "if", h: 1, noBr: true, body: []stmtSpec{{kind: "simple", text: "acc++;"}}})
		}
		b = append(b, g.nestedCarrier(2))
		m.body = g.mix(b)
		ms = append(ms, m)
	}
	for _, n := range []int{tRepeat, tRepeat + g.r.Range(1, 2), tRepeat - 1} {
		m := g.plain("class")
		var b []stmtSpec
		for i := 0; i < n; i++ {
			b = append(b, stmtSpec{kind: "switch", deflt: true})
		}
		m.body = g.mix(b)
		ms = append(ms, m)
	}
	{
		m := g.plain("class")
		m.body = g.mix([]stmtSpec{g.ifS(tCond, false), g.ifS(tCond+g.r.Range(1, 2), g.r.Bool()), g.ifS(tCond-1, g.r.Bool()),
			{kind: "for", body: []stmtSpec{{kind: "if", h: tCond + 1, body: g.simples(1)}}}})
		ms = append(ms, m)
	}
	{
		m := g.accessorNamed(g.plain("class"))
		m.body = g.mix([]stmtSpec{g.ifS(tCond+g.r.Range(0, 1), g.r.Bool()), g.ifS(tCond-1, false)})
		ms = append(ms, m)
	}
	{
		// one top-level if with a ladder of 7-9 else-if branches, one of them with a 4-line condition, next to 6 plain
		// ifs: 7 top-level ifs, no repeatedSwitches, no complexCondition
		m := g.plain("class")
		b := []stmtSpec{g.elseIfChain(g.r.Range(7, 9), tCond)}
		for i := 0; i < tRepeat-2; i++ {
			b = append(b, stmtSpec{kind: "if", h: 1, noBr: true, body: []stmtSpec{{kind: "simple", text: "acc++;"}}})
		}
		m.body = g.mix(b)
		ms = append(ms, m)
	}
	{
		// both counters at or over the threshold in ONE method: two findings (one per kind of statement) on one line
		m := g.plain("class")
		var b []stmtSpec
		for i, n := 0, tRepeat+g.r.Range(0, 2); i < n; i++ {
			b = append(b, stmtSpec{kind: "if", h: 1, noBr: true, body: []stmtSpec{{kind: "simple", text: "acc++;"}}})
		}
		for i, n := 0, tRepeat+g.r.Range(0, 2); i < n; i++ {
			b = append(b, stmtSpec{kind: "switch", deflt: true})
		}
		m.body = g.mix(b)
		ms = append(ms, m)
	}
	// every third of them carries an accessor name (core keeps 9 ordinary methods: no class-level verdict is touched)
	for i, m := range ms {
		if i%3 == 1 {
			g.accessorNamed(m)
		}
	}
	core.methods = g.shuffle(ms)
	specs = append(specs, core)

	core.crlf = false
	{
		// a second, small class with the method-level kinds at their boundaries, always written with \r\n line ends
		cs := g.newClass("class")
		cs.crlf = true
		var wm []*methodSpec
		for _, l := range []int{tLen + 1, tLen} {
			m := g.plain("class")
			m.params, m.target = g.r.Intn(3), l
			wm = append(wm, m)
		}
		m := g.plain("class")
		m.body = g.mix([]stmtSpec{g.ifS(tCond, false), g.ifS(tCond-1, false)})
		wm = append(wm, m)
		for _, n := range []int{tRepeat, tRepeat - 1} {
			m := g.plain("class")
			for i := 0; i < n; i++ {
				m.body = append(m.body, stmtSpec{kind: "if", h: 1, noBr: true, body: []stmtSpec{{kind: "simple", text: "acc++;"}}})
			}
			wm = append(wm, m)
		}
		cs.methods = g.shuffle(wm)
		specs = append(specs, cs)
	}

	// one sized kind with >= 13 findings spread over >= 3 files, sizes in no particular relation to the file names:
	// three abstract classes with five one-line abstract methods of 6-12 parameters each (+ the ones in core)
	for k := 0; k < 3; k++ {
		cs := g.newClass("class")
		cs.abstract, cs.final = true, false
		sizes := g.r.Perm(7)
		for i := 0; i < 5; i++ {
			m := g.plain("abstract")
			m.mods, m.lead, m.wrap = "public abstract", 0, 0
			m.params = tParams + 1 + sizes[i]
			cs.methods = append(cs.methods, m)
		}
		specs = append(specs, cs)
	}

	for _, n := range []int{tLarge + g.r.Range(0, 1), tLarge + g.r.Range(2, 4), tLarge - 1} {
		cs := g.newClass("class")
		cs.abstract, cs.final = true, false
		var all []*methodSpec
		for i := 0; i < n; i++ {
			m := g.shortPlain(cs)
			if i%4 != 0 { // mostly one-line abstract methods
				m.form, m.mods, m.body, m.generic = "abstract", "public abstract", nil, false
			}
			m.lead = 0
			all = append(all, m)
		}
		all = append(all, g.gs(cs, g.r.Intn(3))...)
		cs.methods = g.shuffle(all)
		specs = append(specs, cs)
	}
	for _, n := range []int{g.r.Range(1, 3), g.r.Range(4, 7)} {
		cs := g.newClass("class")
		cs.methods = g.gs(cs, n)
		specs = append(specs, cs)
	}
	{
		cs := g.newClass("class") // data class but for one method
		cs.methods = g.shuffle(append(g.gs(cs, g.r.Range(2, 4)), g.shortPlain(cs)))
		specs = append(specs, cs)
	}
	for i := 0; i < 2; i++ {
		cs := g.newClass("class")
		cs.abstract = false
		specs = append(specs, cs)
	}
	{
		cs := g.newClass("interface")
		cs.methods = g.gs(cs, g.r.Range(1, 3))
		if g.r.Bool() {
			m := g.plain("iface-abstract")
			m.params = tParams + 1
			cs.methods = append(cs.methods, m)
		}
		// two default methods whose `default <T extends Comparable<T>>` stands on the line above the return type: one is
		// 31 lines from that line, the other 30
		for _, l := range []int{tLen + 1, tLen} {
			m := g.plain("iface-default")
			m.split, m.generic, m.brace, m.lead = true, l > tLen, "same", 0
			m.params = tParams + g.r.Range(0, 2)
			m.target = l
			cs.methods = append(cs.methods, m)
		}
		specs = append(specs, cs)
	}
	p := &Project{Tag: "rich"}
	for _, j := range g.r.Perm(len(specs)) {
		p.Classes = append(p.Classes, renderClass(r.Fork(), specs[j]))
	}
	return p
}
