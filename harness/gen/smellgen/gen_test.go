package smellgen

import (
	"strconv"
	"strings"
	"testing"

	"verifharness/run"
)

// nominal checks that boundary point `tag` really planted the value its tag names.
func nominal(tag string, c *Class) bool {
	parts := strings.Split(tag, "/")
	dv := strings.SplitN(parts[0], ":", 2)
	if len(dv) != 2 || !strings.HasPrefix(dv[1], "T") {
		return true // members:… and topIfs=…,topSwitches=… are checked by their own tests below
	}
	d, err := strconv.Atoi(strings.TrimPrefix(strings.TrimPrefix(dv[1], "T"), "+"))
	if err != nil {
		return false
	}
	if strings.HasSuffix(tag, "/crlf") {
		if !c.CRLF || !strings.Contains(c.Text, "\r\n") {
			return false
		}
		tag = strings.TrimSuffix(tag, "/crlf")
		parts = strings.Split(tag, "/")
	}
	acc := strings.HasSuffix(tag, "/accessor-named")
	for i := range c.Methods {
		m := &c.Methods[i]
		if acc != m.AccessorNamed || strings.HasSuffix(tag, "/modifiers-on-previous-line") != m.HeadSplit {
			continue
		}
		if strings.HasSuffix(tag, "/typed-lambdas-in-body") && m.TypedLambdaParams == 0 {
			continue
		}
		if acc && dv[0] == "conditionLines" {
			for _, cd := range m.Conds {
				if cd.EndLine-cd.StartLine+1 == tCond+d {
					return true
				}
			}
			continue
		}
		switch dv[0] {
		case "elseIfLadder":
			if m.TopIfs >= 1 && m.ElseIfs >= tRepeat-3 {
				return true
			}
		case "elseIfConditionLines":
			if m.ElseIfs > 0 && len(m.ElseIfLines) == m.ElseIfs {
				return true
			}
		case "methodLen":
			if m.HasBody && m.CloseLine-m.StartLine == tLen+d {
				return true
			}
		case "params":
			if m.Params == tParams+d && m.Varargs == strings.HasSuffix(tag, "/varargs") {
				return true
			}
		case "topIfs":
			if m.TopIfs == tRepeat+d {
				return true
			}
		case "topSwitches":
			if m.TopSwitches == tRepeat+d {
				return true
			}
		case "conditionLines":
			if strings.Contains(tag, "/top/") {
				for _, cd := range m.Conds {
					if cd.EndLine-cd.StartLine+1 == tCond+d && (cd.IfLine != cd.StartLine) == strings.HasSuffix(tag, "previous-line") {
						return true
					}
				}
			} else if len(m.DecoyLines) > 0 {
				return true
			}
		}
	}
	if dv[0] == "nonGetterSetter" {
		return c.NonGetterSetter() == tLarge+d
	}
	return false
}

func TestBoundaryPoints(t *testing.T) {
	if BoundaryCount() < 200 || BoundaryCount() > 400 {
		t.Fatalf("boundary points: %d", BoundaryCount())
	}
	t.Logf("%d boundary points", BoundaryCount())
	for i := 0; i < BoundaryCount(); i++ {
		for seed := 1; seed <= 25; seed++ {
			p := Boundary(i, run.CaseRand("C10", int64(seed), i))
			if err := SelfCheck(p); err != nil {
				t.Fatalf("point %d %s seed %d: %v\n%s", i, BoundaryTag(i), seed, err, p.Classes[0].Text)
			}
			if !nominal(BoundaryTag(i), p.Classes[0]) {
				t.Fatalf("point %d %s seed %d: nominal value not planted\n%s", i, BoundaryTag(i), seed, p.Classes[0].Text)
			}
		}
	}
}

func TestRandomAndRich(t *testing.T) {
	for i := 0; i < 3000; i++ {
		p := Random(run.CaseRand("C10", 1, 1000+i))
		if err := SelfCheck(p); err != nil {
			t.Fatalf("random %d: %v\n%s", i, err, p.Classes[0].Text)
		}
		for _, c := range p.Classes {
			if acc, non := countAcc(c); acc > 0 && (non < 1 || non >= tLarge-2) {
				t.Fatalf("random %d: accessor-named method in a class with %d ordinary methods", i, non)
			}

		}
	}
	for i := 0; i < 200; i++ {
		p := Rich(run.CaseRand("C10", 1, 5000+i))
		if err := SelfCheck(p); err != nil {
			t.Fatalf("rich %d: %v", i, err)
		}
		wide, files := 0, map[string]bool{}
		for _, c := range p.Classes {
			if acc, non := countAcc(c); acc > 0 && (non < 1 || non >= tLarge-2) {
				t.Fatalf("rich %d: accessor-named method in a class with %d ordinary methods", i, non)
			}
			for _, m := range c.Methods {
				if m.Params > tParams {
					wide++
					files[c.RelPath] = true
				}
			}
		}
		if wide < 13 || len(files) < 3 {
			t.Fatalf("rich %d: %d methods with > %d parameters in %d files", i, wide, tParams, len(files))
		}
	}
}

func countAcc(c *Class) (acc, ordinary int) {
	for _, m := range c.Methods {
		if m.AccessorNamed {
			acc++
		} else if !m.GetterSetter() {
			ordinary++
		}
	}
	return
}
