package javagen

import (
	"fmt"
	"sort"
	"strings"
	"unicode"

	"verifharness/run"
)

// Opts switches generator dimensions on; a property only enables what lies inside its quantifier.
type Opts struct {
	MinFiles, MaxFiles int
	MaxMethods         int
	MaxParams          int
	MaxFields          int
	Interfaces         bool
	Generics           bool
	Annotations        bool
	Ctors              bool
	Overloads          bool // same method name twice in a class (different parameter lists)
	Excluded           bool // test files, git-ignored files, non-Java decoys
	Bodies             bool
	MaxStmts           int
	MaxSites           int
	Shadowing          bool // same variable name as field / parameter / local with different types
	SuffixImports      bool // external type whose name has a project type as suffix (MyFoo vs Foo)
	SameNameTwoPkgs    bool // the same simple class name in two packages
	MultiByte          bool
	Lambdas            bool
	FixedLayout        string // "" = random
	LongNames          bool   // identifier lengths 1..40
	UniqueMethodNames  bool   // method names unique in the whole project (default true unless Overloads)
	CRLF               bool   // some files are written with \r\n line ends
	CStyleArrays       bool   // parameters may be written `int samples[]`
	HotBias            int    // chance in 10 that a variable gets the "hot" type / a call on it targets the hot method (C05: many sites of one method)
	TwoTypesPerFile    bool   // some files declare a second, package-private top-level type after the first (consumers must use File.Types())
	CaseTwinClasses    bool   // two classes of one package whose names differ only in letter case (Url / URL), sharing a method name
	FieldInitCalls     bool   // some field initialisers are calls (recorded by the tool outside any named method; TypeDecl.InitSites)
	AnonClasses        bool   // some object creations carry an anonymous class body with (call-free) methods
	AccessorNames      bool   // some methods are named like variables of the project (`Repo repo()`, called as `repo()`)
	DeepLayout         bool   // one project in ten lies 35+ directories below the analysed root
	ExoticNames        bool   // some method AND class (= file) names contain non-ASCII letters or '$' (legal Java identifiers)
	FieldsFirst        bool   // fields are declared before the constructors and methods (receivers "declared at an earlier point")
}

type typeInfo struct {
	Simple, Pkg string
	Project     bool
	Decl        *TypeDecl
	File        *File
}

var pkgPool = []string{"com.acme.shop", "com.acme.shop.core", "org.demo.billing", "io.sample", "com.acme.util"}
var classWords = []string{"Order", "User", "Cart", "Invoice", "Stock", "Mail", "Price", "Ledger", "Account", "Item", "Batch", "Route", "Quote", "Parcel", "Token", "Audit"}
var classSuffix = []string{"Service", "Repo", "Manager", "Handler", "Mapper", "Gateway", "Factory", "Policy", "", "Impl", "Facade"}
var verbWords = []string{"find", "load", "save", "build", "apply", "check", "send", "parse", "merge", "close", "open", "count", "map", "run", "sync", "fetch", "render", "verify"}
var nounWords = []string{"Order", "User", "Total", "Item", "State", "Batch", "Route", "Price", "Token", "Entry", "Draft", "Page", "Rule", "Event"}
var varWords = []string{"repo", "svc", "item", "req", "res", "ctx", "tmp", "cur", "next", "acc", "src", "dst", "cfg", "node", "val"}

var exoticVerbs = []string{"über", "größe", "naïve", "名前", "λ", "прочитать", "get$", "$", "été", "zähle"}

type external struct{ Simple, Pkg string }

var externals = []external{{"Date", "java.util"}, {"File", "java.io"}, {"Widget", "org.ext.ui"}, {"Gadget", "org.ext.ui.sub"}, {"Clock", "java.time"}, {"Logger", "org.slf4j"}}
var primitives = []string{"int", "long", "boolean", "double", "String", "char"}

type genCtx struct {
	r       *run.Rand
	o       Opts
	types   []*typeInfo // project types
	byName  map[string][]*typeInfo
	nameSeq int
	usedM   map[string]bool
	mid     int
	hot     *typeInfo
	hotM    string
	twinOf  map[string]*typeInfo   // full name of a case-twin class -> the class it twins
	forced  map[*typeInfo][]string // single-type imports a file must carry (they decide what a simple name means)
}

func (g *genCtx) fresh(prefix string) string {
	g.nameSeq++
	return fmt.Sprintf("%s%d", prefix, g.nameSeq)
}

func (g *genCtx) ident(words []string, lowerFirst bool) string {
	r := g.r
	var s string
	if g.o.LongNames && r.Chance(1, 8) {
		// very short or very long identifiers
		if r.Bool() {
			s = string(rune('a' + r.Intn(26)))
			if !lowerFirst {
				s = strings.ToUpper(s)
			}
			return s
		}
		for len(s) < r.Range(25, 40) {
			s += r.Pick(nounWords)
		}
		if len(s) > 40 {
			s = s[:40]
		}
	} else {
		s = r.Pick(words)
	}
	if lowerFirst {
		s = strings.ToLower(s[:1]) + s[1:]
	}
	return s
}

func (g *genCtx) methodName(cls string, allowDup bool) string {
	r := g.r
	for try := 0; ; try++ {
		n := g.ident(verbWords, true)
		if g.o.AccessorNames && r.Chance(1, 8) && !g.usedM[cls+"."+"<acc>"] {
			// accessor style: the method is named like a field / parameter / local (a call `repo()` is still a call of
			// the enclosing class's method, whatever variables of that name are in scope)
			n = r.Pick(varWords)
			key := n
			if !g.o.UniqueMethodNames {
				key = cls + "." + n
			}
			if !g.usedM[key] {
				g.usedM[key] = true
				return n
			}
		}
		if g.o.ExoticNames && r.Chance(1, 6) {
			n = r.Pick(exoticVerbs)
		}
		if len(n) > 1 || !g.o.LongNames {
			n += r.Pick(nounWords)
		}
		if g.o.ExoticNames && r.Chance(1, 12) {
			n += r.Pick([]string{"$", "$1", "é", "Ω"})
		}
		if r.Chance(1, 3) || try > 3 {
			n += fmt.Sprint(r.Intn(90) + try*100)
		}
		key := n
		if !g.o.UniqueMethodNames {
			key = cls + "." + n
		}
		if !g.usedM[key] {
			g.usedM[key] = true
			return n
		}
		if allowDup && g.usedM[cls+"."+n] {
			return n
		}
	}
}

// Generate builds a project and renders every file.
func Generate(r *run.Rand, o Opts) *Project {
	if o.MaxFiles < o.MinFiles {
		o.MaxFiles = o.MinFiles
	}
	if !o.Overloads {
		o.UniqueMethodNames = true
	}
	g := &genCtx{r: r, o: o, byName: map[string][]*typeInfo{}, usedM: map[string]bool{}, twinOf: map[string]*typeInfo{}}
	p := &Project{Layout: r.Pick([]string{"flat", "nested", "maven"})}
	if o.DeepLayout && r.Chance(1, 10) {
		p.Layout = "deep" // the sources lie 35+ directories below the root (a module tree of a big monorepo)
	}
	if o.FixedLayout != "" {
		p.Layout = o.FixedLayout
	}
	nFiles := r.Range(o.MinFiles, o.MaxFiles)
	nPk := r.Range(1, 3)
	pks := []string{}
	for _, i := range r.Perm(len(pkgPool))[:nPk] {
		pks = append(pks, pkgPool[i])
	}
	usedCls := map[string]bool{}
	for i := 0; i < nFiles; i++ {
		pk := pks[r.Intn(len(pks))]
		var name string
		for {
			name = g.ident(classWords, false)
			if len(name) > 1 || !o.LongNames {
				name += r.Pick(classSuffix)
			}
			if o.Excluded && r.Chance(1, 8) {
				// main classes whose names merely END like the test-file suffixes in lower case
				cand := r.Pick([]string{"Latest", "Contest", "Backtests", "Attest", "Greatest", "Protests", "Fastest"})
				if !usedCls[pk+"."+cand] && len(g.byName[cand]) == 0 {
					name = cand
				}
			}
			if o.CaseTwinClasses && i > 0 && r.Chance(1, 5) {
				prev := g.types[r.Intn(len(g.types))]
				if tw := caseTwinName(prev.Simple); tw != prev.Simple && !usedCls[prev.Pkg+"."+tw] && len(g.byName[tw]) == 0 {
					name, pk = tw, prev.Pkg
					g.twinOf[pk+"."+tw] = prev
				}
			}
			if o.ExoticNames && r.Chance(1, 10) {
				// legal Java type (and therefore file) names outside [A-Za-z0-9_]
				name = r.Pick([]string{"Überweisung", "Prüfer", "Gebühr", "Konto$Mapper", "订单", "Café", "Ünit"}) + r.Pick([]string{"", "", "Impl", "Service"})
			}
			if o.SameNameTwoPkgs && i > 0 && r.Chance(1, 4) {
				// reuse the simple name of an earlier type in a different package
				prev := g.types[r.Intn(len(g.types))]
				if prev.Pkg != pk {
					name = prev.Simple
				}
			}
			if strings.HasSuffix(name, "Test") || strings.HasSuffix(name, "Tests") {
				continue
			}
			if usedCls[pk+"."+name] {
				name += fmt.Sprint(i)
			}
			if !o.SameNameTwoPkgs && len(g.byName[name]) > 0 {
				name += fmt.Sprint(i)
			}
			if !usedCls[pk+"."+name] {
				break
			}
		}
		usedCls[pk+"."+name] = true
		kind := "Class"
		if o.Interfaces && r.Chance(1, 5) {
			kind = "Interface"
		}
		t := &TypeDecl{Kind: kind, Name: name}
		f := &File{Role: RoleMain, Pkg: pk, Type: t}
		ti := &typeInfo{Simple: name, Pkg: pk, Project: true, Decl: t, File: f}
		g.types = append(g.types, ti)
		g.byName[name] = append(g.byName[name], ti)
		p.Files = append(p.Files, f)
	}
	if o.HotBias > 0 {
		g.hot = g.types[r.Intn(len(g.types))]
	}
	for _, ti := range g.types {
		g.skeleton(ti)
	}
	// a case-twin class shares a method name with the class it twins (p.Url.parse / p.URL.parse)
	for _, ti := range g.types {
		orig := g.twinOf[ti.Pkg+"."+ti.Simple]
		if orig == nil {
			continue
		}
		var from, to []*Method
		for _, m := range orig.Decl.Methods() {
			if !m.IsCtor {
				from = append(from, m)
			}
		}
		for _, m := range ti.Decl.Methods() {
			if !m.IsCtor {
				to = append(to, m)
			}
		}
		if len(from) == 0 || len(to) == 0 {
			continue
		}
		src := from[r.Intn(len(from))]
		if g.hot == orig && g.hotM != "" {
			for _, m := range from {
				if m.Name == g.hotM {
					src = m
				}
			}
		}
		clash := false
		for _, m := range to {
			if m.Name == src.Name {
				clash = true
			}
		}
		if !clash {
			to[r.Intn(len(to))].Name = src.Name
		}
	}
	if g.hot != nil {
		var cands []string
		for _, m := range g.hot.Decl.Methods() {
			if !m.IsCtor {
				cands = append(cands, m.Name)
			}
		}
		if len(cands) > 0 {
			g.hotM = cands[r.Intn(len(cands))]
		}
	}
	if o.Bodies {
		for _, ti := range g.types {
			g.bodies(ti)
		}
	}
	if o.TwoTypesPerFile {
		// move some types into the file of another type of the same package (declared after it, package-private)
		for i := len(g.types) - 1; i > 0; i-- {
			guest := g.types[i]
			if !r.Chance(1, 4) || len(guest.File.Extra) > 0 || guest.File.Type != guest.Decl {
				continue
			}
			var hosts []*typeInfo
			for _, h := range g.types[:i] {
				if h.Pkg == guest.Pkg && h.File.Type == h.Decl {
					hosts = append(hosts, h)
				}
			}
			if len(hosts) == 0 {
				continue
			}
			host := hosts[r.Intn(len(hosts))]
			var mods []string
			for _, mo := range guest.Decl.Modifiers {
				if mo != "public" {
					mods = append(mods, mo)
				}
			}
			guest.Decl.Modifiers = mods
			host.File.Extra = append(host.File.Extra, guest.Decl)
			old := guest.File
			guest.File = host.File
			var keep []*File
			for _, f := range p.Files {
				if f != old {
					keep = append(keep, f)
				}
			}
			p.Files = keep
		}
	}
	for _, ti := range g.types {
		g.imports(ti)
	}
	for _, f := range p.Files {
		// a file hosting two types got the imports of both: each path once
		seen := map[string]bool{}
		var is []Import
		for _, im := range f.Imports {
			k := fmt.Sprint(im.Static, im.Path)
			if !seen[k] {
				seen[k] = true
				is = append(is, im)
			}
		}
		f.Imports = is
	}
	// paths
	usedPath := map[string]bool{}
	for i, f := range p.Files {
		f.RelPath = pathFor(p.Layout, f.Pkg, f.Type.Name+".java", false)
		if usedPath[f.RelPath] {
			// flat layout with the same simple name in two packages: keep both files
			f.RelPath = fmt.Sprintf("m%d/%s", i, f.RelPath)
		}
		usedPath[f.RelPath] = true
	}
	if o.Excluded {
		g.excluded(p)
	}
	for _, f := range p.Files {
		if f.Type != nil {
			lay := RandomLayout(r, o.MultiByte)
			lay.CRLF = o.CRLF && r.Chance(1, 4)
			RenderFile(r.Fork(), f, lay)
		}
	}
	FinalizeSites(p)
	if g.hot != nil {
		p.HotPkg, p.HotClass, p.HotMethod = g.hot.Pkg, g.hot.Simple, g.hotM
	}
	return p
}

// caseTwinName: OrderService -> OrderSERVICE, Url -> URL (same letters, other case in the last camel-case word).
func caseTwinName(name string) string {
	j := 0
	for k := len(name) - 1; k > 0; k-- {
		if name[k] >= 'A' && name[k] <= 'Z' {
			j = k
			break
		}
	}
	if j+1 >= len(name) {
		return name
	}
	tail := name[j+1:]
	for _, c := range tail {
		if c > 127 {
			return name
		}
	}
	if up := strings.ToUpper(tail); up != tail {
		return name[:j+1] + up
	}
	return name
}

func pathFor(layout, pkg, file string, test bool) string {
	dir := strings.ReplaceAll(pkg, ".", "/")
	switch layout {
	case "flat":
		if test {
			return "src/test/java/" + file
		}
		return file
	case "nested":
		if test {
			return "src/test/java/" + dir + "/" + file
		}
		return dir + "/" + file
	case "deep":
		if test {
			return deepPrefix + "src/test/java/" + dir + "/" + file
		}
		return deepPrefix + "src/main/java/" + dir + "/" + file
	default:
		if test {
			return "src/test/java/" + dir + "/" + file
		}
		return "src/main/java/" + dir + "/" + file
	}
}

var deepPrefix = func() string {
	var sb strings.Builder
	for i := 1; i <= 33; i++ {
		sb.WriteString(fmt.Sprintf("m%d/", i))
	}
	return sb.String()
}()

func (g *genCtx) annotation(pool []string) Annotation {
	r := g.r
	a := Annotation{Name: r.Pick(pool), Form: "marker"}
	switch r.Intn(5) {
	case 0:
		a.Form = "single"
		a.Value = r.Pick([]string{"\"orders\"", "42", "Mode.FAST", "Order.class", "{\"a\",\"b\"}", "\"x-y\"", "\"a<b>&c\"", "\"[^\\u003c\\u003e\\u0026]*\"", "\"tab\\there\""})
	case 1:
		a.Form = "pairs"
		a.Pairs = [][2]string{{"name", r.Pick([]string{"\"t_order\"", "\"main\"", "\"<T>&\"", "\"\\u003cb\\u003e\""})}}
		if r.Bool() {
			a.Pairs = append(a.Pairs, [2]string{"size", fmt.Sprint(r.Intn(100))})
		}
		if r.Chance(1, 3) {
			a.Pairs = append(a.Pairs, [2]string{"tags", "{\"a\",\"b\"}"})
		}
	}
	return a
}

var classAnnoPool = []string{"Service", "Component", "Entity", "Table", "Deprecated", "Configuration", "Scope", "Named"}
var methodAnnoPool = []string{"Override", "Deprecated", "Transactional", "Cacheable", "SafeVarargs"}

// pickType returns a type text for a variable plus whether it is a plain class name.
func (g *genCtx) pickType(self *typeInfo) (text string, plain *typeInfo, ext *external) {
	r := g.r
	if g.hot != nil && r.Chance(g.o.HotBias, 10) && len(g.byName[g.hot.Simple]) == 1 {
		return g.hot.Simple, g.hot, nil
	}
	switch k := r.Intn(10); {
	case k < 4 && len(g.types) > 0:
		t := g.types[r.Intn(len(g.types))]
		if len(g.byName[t.Simple]) > 1 && !g.o.SameNameTwoPkgs {
			return "int", nil, nil
		}
		return t.Simple, t, nil
	case k < 6:
		e := externals[r.Intn(len(externals))]
		return e.Simple, nil, &e
	case k < 7 && g.o.Generics:
		inner := "String"
		if len(g.types) > 0 && r.Bool() {
			inner = g.types[r.Intn(len(g.types))].Simple
		}
		return r.Pick([]string{"List<" + inner + ">", "Map<String, " + inner + ">", "Optional<" + inner + ">", "Map<String, List<" + inner + ">>"}), nil, nil
	case k < 8:
		return r.Pick([]string{"int[]", "String[]", "byte[]", "long[][]"}), nil, nil
	default:
		return r.Pick(primitives), nil, nil
	}
}

func (g *genCtx) skeleton(ti *typeInfo) {
	r, o, t := g.r, g.o, ti.Decl
	isIface := t.Kind == "Interface"
	if r.Chance(3, 4) {
		t.Modifiers = []string{"public"}
	}
	if !isIface && r.Chance(1, 8) {
		t.Modifiers = append(t.Modifiers, r.Pick([]string{"abstract", "final"}))
	}
	if o.Generics && r.Chance(1, 6) {
		t.TypeParams = r.Pick([]string{"<T>", "<K, V>", "<T extends Comparable<T>>"})
	}
	if o.Annotations {
		for k := r.PickInt(0, 0, 1, 1, 2, 3); k > 0; k-- {
			a := g.annotation(classAnnoPool)
			dup := false
			for _, b := range t.Annotations {
				if b.Name == a.Name {
					dup = true
				}
			}
			if !dup {
				t.Annotations = append(t.Annotations, a)
			}
		}
	}
	if !isIface && r.Chance(1, 3) {
		// superclass: project class (unambiguous name, not itself) or external
		if r.Bool() && len(g.types) > 1 {
			s := g.types[r.Intn(len(g.types))]
			if s != ti && s.Decl.Kind == "Class" && len(g.byName[s.Simple]) == 1 && s.Simple != t.Name {
				t.Extends = s.Simple
				t.ExtendsFQ = s.Pkg + "." + s.Simple
			} else if s != ti && s.Decl.Kind == "Class" && s.Simple != t.Name && s.Pkg != ti.Pkg && len(g.byName[s.Simple]) > 1 {
				// the same simple name exists in several packages (possibly in the own one): an explicit single-type
				// import decides, as in Java
				t.Extends = s.Simple
				t.ExtendsFQ = s.Pkg + "." + s.Simple
				if g.forced == nil {
					g.forced = map[*typeInfo][]string{}
				}
				g.forced[ti] = append(g.forced[ti], s.Pkg+"."+s.Simple)
			}
		} else {
			e := externals[r.Intn(len(externals))]
			t.Extends = e.Simple
			t.ExtendsFQ = e.Pkg + "." + e.Simple
		}
	}
	if !isIface && r.Chance(1, 4) {
		t.Implements = append(t.Implements, r.Pick([]string{"Runnable", "Serializable", "Comparable<" + t.Name + ">", "Closeable"}))
	}
	// fields
	usedVar := map[string]bool{}
	if !isIface {
		for k := r.Range(0, o.MaxFields); k > 0; k-- {
			ty, _, _ := g.pickType(ti)
			name := r.Pick(varWords)
			if usedVar[name] {
				name = g.fresh(name)
			}
			usedVar[name] = true
			f := &Field{Type: ty, Name: name}
			if r.Chance(3, 4) {
				f.Modifiers = append(f.Modifiers, r.Pick([]string{"private", "protected", "public", "private final", "private static"}))
			}
			if o.Annotations && r.Chance(1, 6) {
				f.Annotation = r.Pick([]string{"@Autowired", "@Inject", "@Column(name = \"c\")"})
			}
			if strings.Contains(strings.Join(f.Modifiers, " "), "final") {
				f.Init = &Expr{Kind: "lit", Text: zeroOf(ty)}
			}
			t.Members = append(t.Members, f)
		}
	}
	// constructors
	if !isIface && o.Ctors {
		for k := r.PickInt(0, 0, 1, 1, 2, 3); k > 0; k-- {
			g.mid++
			m := &Method{ID: g.mid, Name: t.Name, IsCtor: true}
			if r.Chance(3, 4) {
				m.Modifiers = []string{r.Pick([]string{"public", "protected", "private"})}
			}
			m.Params = g.params(ti, k-1+r.Intn(2))
			for again := true; again; {
				again = false
				for _, other := range t.Methods() {
					if other.IsCtor && sigOf(other) == sigOf(m) {
						m.Params = append(m.Params, Param{Type: "int", Name: g.fresh("n")})
						again = true
					}
				}
			}
			t.Members = append(t.Members, m)
		}
	}
	// methods
	nM := r.Range(0, o.MaxMethods)
	if r.Chance(9, 10) && nM == 0 {
		nM = 1
	}
	var names []string
	for k := 0; k < nM; k++ {
		g.mid++
		m := &Method{ID: g.mid}
		if o.Overloads && len(names) > 0 && r.Chance(1, 4) {
			m.Name = names[r.Intn(len(names))]
		} else {
			m.Name = g.methodName(ti.Pkg+"."+t.Name, false)
		}
		names = append(names, m.Name)
		if r.Chance(1, 3) {
			m.Ret = "void"
		} else {
			m.Ret, _, _ = g.pickType(ti)
		}
		np := r.Range(0, o.MaxParams)
		if r.Chance(1, 2) && np > 2 {
			np = r.Intn(3)
		}
		m.Params = g.params(ti, np)
		// overloads must differ in their parameter lists
		for _, other := range t.Methods() {
			if other.Name == m.Name && sigOf(other) == sigOf(m) {
				m.Params = append(m.Params, Param{Type: "int", Name: g.fresh("n")})
			}
		}
		if isIface {
			m.NoBody = true
			if r.Chance(1, 3) {
				m.Modifiers = []string{"public"}
			}
		} else {
			if r.Chance(4, 5) {
				m.Modifiers = []string{r.Pick([]string{"public", "protected", "private", "public static", "public final", "public synchronized"})}
			}
			if contains(t.Modifiers, "abstract") && r.Chance(1, 3) {
				m.Modifiers = []string{"public", "abstract"}
				m.NoBody = true
			}
			if o.Generics && r.Chance(1, 8) && !m.NoBody {
				m.TypeParams = "<T>"
				if r.Bool() {
					m.Ret = "T"
				}
				m.Params = append(m.Params, Param{Type: "T", Name: g.fresh("t")})
			}
			if r.Chance(1, 8) {
				m.Throws = r.Pick([]string{"Exception", "IOException, IllegalStateException"})
			}
		}
		if o.Annotations && r.Chance(1, 4) {
			m.Annotations = append(m.Annotations, g.annotation(methodAnnoPool))
		}
		t.Members = append(t.Members, m)
	}
	// shuffle member order a little (fields/constructors/methods interleaved)
	if r.Chance(1, 3) {
		perm := r.Perm(len(t.Members))
		ms := make([]Member, len(t.Members))
		for i, j := range perm {
			ms[i] = t.Members[j]
		}
		t.Members = ms
	}
	if o.FieldsFirst {
		var fs, rest []Member
		for _, m := range t.Members {
			if _, ok := m.(*Field); ok {
				fs = append(fs, m)
			} else {
				rest = append(rest, m)
			}
		}
		t.Members = append(fs, rest...)
	}
}

func sigOf(m *Method) string {
	var ts []string
	for _, p := range m.Params {
		ts = append(ts, p.Type+p.Dims)
	}
	return strings.Join(ts, ",")
}

func contains(xs []string, s string) bool {
	for _, x := range xs {
		if x == s {
			return true
		}
	}
	return false
}

func zeroOf(ty string) string {
	switch ty {
	case "int", "long", "double", "char":
		return "0"
	case "boolean":
		return "false"
	case "String":
		return "\"\""
	}
	return "null"
}

func (g *genCtx) params(ti *typeInfo, n int) []Param {
	r := g.r
	var ps []Param
	used := map[string]bool{}
	var fieldNames []string
	for _, f := range ti.Decl.Fields() {
		fieldNames = append(fieldNames, f.Name)
	}
	for i := 0; i < n; i++ {
		ty, _, _ := g.pickType(ti)
		name := r.Pick(varWords)
		if g.o.Shadowing && len(fieldNames) > 0 && r.Chance(1, 3) {
			name = fieldNames[r.Intn(len(fieldNames))] // parameter hides a field
		}
		if used[name] {
			name = g.fresh(name)
		}
		used[name] = true
		p := Param{Type: ty, Name: name}
		if g.o.CStyleArrays && r.Chance(1, 8) && !strings.ContainsAny(ty, "[<") {
			p.Dims = r.Pick([]string{"[]", "[]", "[][]"})
		}
		if r.Chance(1, 6) {
			p.Final = true
		}
		if g.o.Annotations && r.Chance(1, 8) {
			p.Annotation = r.Pick([]string{"@Valid", "@Nullable", "@Param(\"x\")"})
		}
		ps = append(ps, p)
	}
	return ps
}

// imports: single-type imports for every project/external plain type used from another package
// (sometimes a wildcard instead), plus decoys.
func (g *genCtx) imports(ti *typeInfo) {
	r := g.r
	f := ti.File
	need := map[string]string{}      // simple -> full
	ambiguous := map[string]string{} // simple name declared in >= 2 other packages -> the package whose wildcard import makes it legal
	addType := func(text string) {
		for _, tok := range splitIdents(text) {
			if cands := g.byName[tok]; len(cands) >= 2 && resolvesTo(g, ti, tok) == nil {
				if _, ok := ambiguous[tok]; !ok {
					ambiguous[tok] = cands[r.Intn(len(cands))].Pkg
				}
			}
			for _, cand := range g.byName[tok] {
				if cand.Pkg != ti.Pkg && resolvesTo(g, ti, tok) == cand {
					need[tok] = cand.Pkg + "." + cand.Simple
				}
			}
			for _, e := range externals {
				if e.Simple == tok && len(g.byName[tok]) == 0 {
					need[tok] = e.Pkg + "." + e.Simple
				}
			}
		}
	}
	t := ti.Decl
	addType(t.Extends)
	for _, fl := range t.Fields() {
		addType(fl.Type)
	}
	for _, m := range t.Methods() {
		addType(m.Ret)
		for _, p := range m.Params {
			addType(p.Type)
		}
		walkStmts(m.Body, func(s *Stmt) { addType(s.Type); addType(s.CatchType) }, func(e *Expr) {
			if e.Kind == "new" {
				addType(e.Site.Name)
			}
			if e.Kind == "call" && e.RecvText != "" && e.RecvText != "this" {
				addType(e.RecvText)
			}
			if e.Kind == "lambda" && e.LambdaParamType != "" {
				addType(e.LambdaParamType)
			}
		})
	}
	forcedSet := map[string]bool{}
	for _, full := range g.forced[ti] {
		need[full[strings.LastIndex(full, ".")+1:]] = full
		forcedSet[full] = true
	}
	var keys []string
	for k := range need {
		keys = append(keys, k)
	}
	sort.Strings(keys)
	wild := map[string]bool{}
	for _, k := range keys {
		full := need[k]
		pk := full[:strings.LastIndex(full, ".")]
		if !forcedSet[full] && r.Chance(1, 10) {
			if !wild[pk] {
				wild[pk] = true
				f.Imports = append(f.Imports, Import{Path: pk + ".*", Wildcard: true})
			}
			continue
		}
		f.Imports = append(f.Imports, Import{Path: full})
	}
	// a simple name that two other packages declare and no single-type import settles: one of the packages is
	// imported on demand (legal Java; which type the tool attributes is not asserted, see FinalizeSites)
	var amb []string
	for k := range ambiguous {
		if _, settled := need[k]; !settled {
			amb = append(amb, k)
		}
	}
	sort.Strings(amb)
	f.AmbiguousNames = amb
	for _, k := range amb {
		if pk := ambiguous[k]; !wild[pk] && pk != "" {
			wild[pk] = true
			f.Imports = append(f.Imports, Import{Path: pk + ".*", Wildcard: true})
		}
	}
	// decoys
	if r.Chance(1, 3) {
		f.Imports = append(f.Imports, Import{Path: r.Pick([]string{"java.util.List", "java.util.Map", "java.util.Optional", "java.io.IOException"})})
	}
	if g.o.SuffixImports && len(g.types) > 0 && r.Chance(1, 3) {
		// an external type whose simple name ends with the name of a project type of this package
		for _, cand := range g.types {
			if cand.Pkg == ti.Pkg {
				f.Imports = append([]Import{{Path: "org.ext.other.My" + cand.Simple}}, f.Imports...)
				break
			}
		}
	}
	if r.Chance(1, 8) {
		f.Imports = append(f.Imports, Import{Path: "org.ext.Assert.notNull", Static: true})
	}
	if r.Bool() {
		perm := r.Perm(len(f.Imports))
		is := make([]Import, len(f.Imports))
		for i, j := range perm {
			is[i] = f.Imports[j]
		}
		f.Imports = is
	}
}

// resolvesTo gives the project type a simple name denotes inside ti's file under Java's rules as far as the
// generator uses them: the type of the own package wins; otherwise the unique project type of that name.
func resolvesTo(g *genCtx, ti *typeInfo, simple string) *typeInfo {
	cands := g.byName[simple]
	for _, c := range cands {
		if c.Pkg == ti.Pkg {
			return c
		}
	}
	if len(cands) == 1 {
		return cands[0]
	}
	return nil
}

func splitIdents(s string) []string {
	var out []string
	cur := ""
	for _, c := range s {
		if c == '_' || c == '$' || c >= 'a' && c <= 'z' || c >= 'A' && c <= 'Z' || c >= '0' && c <= '9' || c >= 0x80 && unicode.IsLetter(c) {
			cur += string(c)
		} else {
			if cur != "" {
				out = append(out, cur)
			}
			cur = ""
		}
	}
	if cur != "" {
		out = append(out, cur)
	}
	return out
}

func walkStmts(list []*Stmt, fs func(*Stmt), fe func(*Expr)) {
	for _, s := range list {
		fs(s)
		if s.E != nil {
			walkExpr(s.E, fs, fe)
		}
		for _, d := range s.Extra {
			if d.Init != nil {
				walkExpr(d.Init, fs, fe)
			}
		}
		walkStmts(s.Then, fs, fe)
		walkStmts(s.Else, fs, fe)
		walkStmts(s.Catch, fs, fe)
		for _, c := range s.Cases {
			walkStmts(c, fs, fe)
		}
	}
}

func walkExpr(e *Expr, fs func(*Stmt), fe func(*Expr)) {
	if e == nil {
		return
	}
	fe(e)
	walkExpr(e.Recv, fs, fe)
	for _, a := range e.Args {
		walkExpr(a, fs, fe)
	}
	walkExpr(e.L, fs, fe)
	walkExpr(e.R, fs, fe)
	walkExpr(e.LambdaBody, fs, fe)
	walkStmts(e.LambdaBlock, fs, fe)
}

// excluded adds test files (by name and by directory), git-ignored files and non-Java decoys. All of them
// contain class text that must not show up in the model.
func (g *genCtx) excluded(p *Project) {
	r := g.r
	mk := func(pk, name, role string) *File {
		t := &TypeDecl{Kind: "Class", Name: name, Modifiers: []string{"public"}}
		g.mid++
		t.Members = append(t.Members, &Method{ID: g.mid, Name: "excluded" + fmt.Sprint(g.mid), Ret: "void", Modifiers: []string{"public"}})
		return &File{Role: role, Pkg: pk, Type: t}
	}
	pk := p.Files[0].Pkg
	for k := r.Range(0, 2); k > 0; k-- {
		f := mk(pk, r.Pick(classWords)+g.fresh("X")+r.Pick([]string{"Test", "Tests"}), RoleTestByName)
		f.RelPath = pathFor(p.Layout, pk, f.Type.Name+".java", false)
		p.Files = append(p.Files, f)
	}
	for k := r.Range(0, 2); k > 0; k-- {
		f := mk(pk, r.Pick(classWords)+g.fresh("Spec"), RoleTestByDir)
		f.RelPath = pathFor(p.Layout, pk, f.Type.Name+".java", true)
		p.Files = append(p.Files, f)
	}
	if r.Bool() {
		// git-ignored: a directory pattern, a glob pattern, or a file name
		var lines []string
		switch r.Intn(3) {
		case 0:
			f := mk(pk, r.Pick(classWords)+g.fresh("Gen"), RoleIgnored)
			f.RelPath = "generated/" + f.Type.Name + ".java"
			lines = append(lines, "generated/")
			p.Files = append(p.Files, f)
		case 1:
			f := mk(pk, r.Pick(classWords)+g.fresh("Auto"), RoleIgnored)
			f.RelPath = pathFor(p.Layout, pk, f.Type.Name+".gen.java", false)
			lines = append(lines, "*.gen.java")
			p.Files = append(p.Files, f)
		default:
			f := mk(pk, r.Pick(classWords)+g.fresh("Skip"), RoleIgnored)
			f.RelPath = pathFor(p.Layout, pk, f.Type.Name+".java", false)
			lines = append(lines, f.Type.Name+".java")
			p.Files = append(p.Files, f)
		}
		lines = append(lines, "*.class", "build/")
		p.GitIgnore = strings.Join(lines, "\n") + "\n"
	}
	if r.Chance(1, 3) {
		// a .gitignore of a module directory that holds nothing but a note: its patterns name main files of OTHER
		// directories (a nested .gitignore speaks about its own directory at most, so those files stay in the model)
		var main []*File
		for _, f := range p.Files {
			if f.Role == RoleMain && f.Type != nil {
				main = append(main, f)
			}
		}
		if len(main) > 0 {
			victim := main[r.Intn(len(main))]
			base := victim.RelPath[strings.LastIndex(victim.RelPath, "/")+1:]
			lines := []string{base}
			if i := strings.LastIndex(victim.RelPath, "/"); i > 0 && r.Bool() {
				lines = []string{victim.RelPath[:i] + "/"}
			}
			dirName := r.Pick([]string{"aaa-module", "000-notes", "AModule"}) // sorts before src/, com/, generated/ ...
			p.Files = append(p.Files, &File{Role: RoleNonJava, RelPath: dirName + "/.gitignore", Text: strings.Join(lines, "\n") + "\n"},
				&File{Role: RoleNonJava, RelPath: dirName + "/NOTES.md", Text: "module notes\n"})
		}
	}
	for k := r.Range(0, 2); k > 0; k-- {
		ext := r.Pick([]string{".txt", ".kt", ".javax", ".java.bak", ".md"})
		name := r.Pick(classWords) + g.fresh("Doc")
		p.Files = append(p.Files, &File{Role: RoleNonJava, RelPath: pathFor(p.Layout, pk, name+ext, false),
			Text: "package " + pk + ";\npublic class " + name + " {\n  public void decoy() { }\n}\n"})
	}
}

// SelfCheck verifies the renderer's bookkeeping: every planted identifier is found at its recorded position.
func SelfCheck(p *Project) error {
	for _, f := range p.Files {
		if f.Type == nil {
			continue
		}
		lines := strings.Split(f.Text, "\n")
		at := func(line, col int, name string) bool {
			if line < 1 || line > len(lines) {
				return false
			}
			rs := []rune(lines[line-1])
			if col < 0 || col+len([]rune(name)) > len(rs) {
				return false
			}
			return string(rs[col:col+len([]rune(name))]) == name
		}
		var allMethods []*Method
		for _, t := range f.Types() {
			allMethods = append(allMethods, t.Methods()...)
			for i, s := range t.InitSites {
				if s.Ord != i || !at(s.Line, s.Col, s.Name) || f.Text[s.ByteOff:s.ByteOff+len(s.Name)] != s.Name {
					return fmt.Errorf("%s: field-initialiser site %s of %s not at %d:%d", f.RelPath, s.Name, t.Name, s.Line, s.Col)
				}
			}
		}
		for _, m := range allMethods {
			if !at(m.NameLine, m.NameCol, m.Name) {
				return fmt.Errorf("%s: method %s not at %d:%d", f.RelPath, m.Name, m.NameLine, m.NameCol)
			}
			if f.Text[m.NameByteOff:m.NameByteOff+len(m.Name)] != m.Name {
				return fmt.Errorf("%s: method %s byte offset wrong", f.RelPath, m.Name)
			}
			for i, s := range m.Sites {
				if s.Ord != i {
					return fmt.Errorf("%s: site ordinal", f.RelPath)
				}
				if !at(s.Line, s.Col, s.Name) {
					return fmt.Errorf("%s: site %s of %s not at %d:%d", f.RelPath, s.Name, m.Name, s.Line, s.Col)
				}
				if f.Text[s.ByteOff:s.ByteOff+len(s.Name)] != s.Name {
					return fmt.Errorf("%s: site %s byte offset wrong", f.RelPath, s.Name)
				}
			}
		}
	}
	return nil
}
