// Package javagen generates conventional Java projects with machine-readable ground truth: every
// declaration and every call site is planted with an id and its exact position in the rendered text.
// No coca imports.
package javagen

// Role of a file in the tree.
const (
	RoleMain       = "main"
	RoleTestByName = "test-by-name" // *Test.java / *Tests.java
	RoleTestByDir  = "test-by-dir"  // under src/test/java/
	RoleIgnored    = "gitignored"
	RoleNonJava    = "non-java"
)

type Project struct {
	Files     []*File
	GitIgnore string // content of .gitignore at the root ("" = none)
	Layout    string // flat | nested | maven
	// the type/method the generator biased call sites towards (Opts.HotBias), if any
	HotPkg, HotClass, HotMethod string
}

type Import struct {
	Path     string // e.g. java.util.Date, com.acme.*, org.ext.Util.helper
	Static   bool
	Wildcard bool
}

type File struct {
	RelPath string
	Role    string
	Pkg     string
	Imports []Import
	Type    *TypeDecl
	Extra   []*TypeDecl // further top-level (package-private) types written after Type in the same file (Opts.TwoTypesPerFile)
	Text    string
	// simple type names used in this file that two or more OTHER packages of the project declare (settled, if at all,
	// by an on-demand import): which type the tool attributes is not asserted, but it must be the same every time
	AmbiguousNames []string
}

// Types lists every top-level type of the file in source order.
func (f *File) Types() []*TypeDecl {
	if f.Type == nil {
		return nil
	}
	return append([]*TypeDecl{f.Type}, f.Extra...)
}

type Annotation struct {
	Name  string
	Form  string      // marker | single | pairs
	Value string      // single: element value text (blank-free)
	Pairs [][2]string // pairs: key, value text (blank-free)
}

type Param struct {
	Type, Name string
	Final      bool
	Annotation string // e.g. "@Valid" or ""
	Dims       string // C-style array brackets written after the name: `int samples[]` (Type is then the part left of the name)
}

// Receiver classes of a call site (C02).
const (
	RecvImplicit = "implicit"
	RecvThis     = "this"
	RecvField    = "field"
	RecvParam    = "param"
	RecvLocal    = "local"
	RecvStatic   = "static"
	RecvChain    = "chain"
	RecvOther    = "other" // for-variable, catch parameter, lambda parameter, literal, ...
	RecvNew      = "new"
)

// Site is a planted invocation or creation.
type Site struct {
	Ord      int    // ordinal inside its function, in source order
	Kind     string // call | new
	Name     string // callee identifier, or created simple type name
	Recv     string
	RecvVar  string // receiver variable name, if any
	RecvType string // declared simple type of the receiver variable ("" if not a plain class name)
	RecvPkg  string // package that type resolves to ("" if not asserted: not imported / not in project)
	Resolved bool   // the statement's resolution clause applies (implicit / field / param / local with plain imported-or-project type)
	NArgs    int
	ArgTexts []string // blank-free argument texts
	InLambda bool
	// filled by the renderer
	Line    int // 1-based
	Col     int // 0-based, in characters
	ByteOff int // byte offset of the identifier in the file
}

type Member interface{}

type Field struct {
	Type, Name string
	Modifiers  []string
	Annotation string
	Init       *Expr // optional initialiser (literal only unless FieldInitCalls)
}

type Method struct {
	ID          int
	Name        string
	Ret         string // "" for constructors
	TypeParams  string // e.g. "<T>" for generic methods
	Params      []Param
	IsCtor      bool
	Modifiers   []string
	Annotations []Annotation
	NoBody      bool // abstract / interface method
	IsDefault   bool // interface default method
	Body        []*Stmt
	Throws      string
	// filled by renderer
	DeclLine       int // line the declaration starts on (first modifier/annotation)
	NameLine       int
	NameCol        int
	NameByteOff    int
	CloseLine      int // line of the closing brace (or of ';')
	Sites          []*Site
	SameLineAsPrev bool // rendered on the same line as the previous member
}

type TypeDecl struct {
	Kind        string // Class | Interface
	Name        string
	TypeParams  string // "<T>" ...
	Modifiers   []string
	Extends     string // declared text
	ExtendsFQ   string // fully-qualified resolution ("" if unknown)
	Implements  []string
	Annotations []Annotation
	Members     []Member // *Field | *Method, in source order
	InitSites   []*Site  // sites planted outside any method (field initialisers), in source order; filled by the renderer
	// renderer
	DeclLine int
}

func (t *TypeDecl) Methods() []*Method {
	var out []*Method
	for _, m := range t.Members {
		if me, ok := m.(*Method); ok {
			out = append(out, me)
		}
	}
	return out
}

func (t *TypeDecl) Fields() []*Field {
	var out []*Field
	for _, m := range t.Members {
		if f, ok := m.(*Field); ok {
			out = append(out, f)
		}
	}
	return out
}

// ---- statements and expressions

type Stmt struct {
	Kind string // local | assign | expr | if | for | foreach | while | switch | try | return | comment
	// local: Type Var [= Init]; (Final, extra declarators in Extra)
	Type                string
	Var                 string
	Final               bool
	Extra               []Declarator
	E                   *Expr   // init / value / condition / switch selector / iterable
	Then                []*Stmt // if-then, loop body, try block
	Else                []*Stmt // else, finally
	Cases               [][]*Stmt
	Catch               []*Stmt // catch block
	CatchType, CatchVar string
	Text                string // comment text
}

type Declarator struct {
	Var  string
	Init *Expr
}

type Expr struct {
	Kind            string // call | new | lit | var | bin | lambda | field | paren | cast
	Site            *Site  // call/new
	Recv            *Expr  // call: receiver expression (nil for implicit)
	RecvText        string // for this./static receivers: literal text before the dot
	Args            []*Expr
	Text            string // lit / var text, operator for bin
	L, R            *Expr
	LambdaParam     string
	LambdaParamType string // "" = untyped lambda parameter; otherwise written "(Type name) ->"
	LambdaBody      *Expr
	LambdaBlock     []*Stmt
	TypeArgs        string // new: explicit type arguments or diamond written after the created name ("<>", "<Map.Entry<String, Integer>>")
	AnonBody        string // new: text of an anonymous class body written after the arguments (its methods make no calls)
}
