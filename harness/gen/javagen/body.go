package javagen

import (
	"fmt"
	"strings"
)

type varInfo struct {
	Name, Type string
	Kind       string // field | param | local | other
	Final      bool
}

type bodyCtx struct {
	g      *genCtx
	ti     *typeInfo
	m      *Method
	scope  []*varInfo
	sites  int
	seq    int
	used   map[string]bool // every local name ever declared in this method (never re-declared, not even after its block ended)
	static bool
	noAnon bool // no anonymous class bodies here (field initialisers: what the tool records for them is outside C02's statement)
}

func (b *bodyCtx) lookup(name string) *varInfo {
	for i := len(b.scope) - 1; i >= 0; i-- {
		if b.scope[i].Name == name {
			return b.scope[i]
		}
	}
	return nil
}

// visible returns the variables visible now, each name once (innermost declaration).
func (b *bodyCtx) visible() []*varInfo {
	seen := map[string]bool{}
	var out []*varInfo
	for i := len(b.scope) - 1; i >= 0; i-- {
		v := b.scope[i]
		if !seen[v.Name] {
			seen[v.Name] = true
			out = append(out, v)
		}
	}
	return out
}

func (g *genCtx) bodies(ti *typeInfo) {
	if g.o.FieldInitCalls && ti.Decl.Kind == "Class" {
		// field initialisers that are calls: only fields declared earlier are in scope
		b := &bodyCtx{g: g, ti: ti, noAnon: true}
		for _, mem := range ti.Decl.Members {
			f, ok := mem.(*Field)
			if !ok {
				continue
			}
			mods := strings.Join(f.Modifiers, " ")
			if !strings.Contains(mods, "static") && !strings.Contains(f.Type, "[") && g.r.Chance(1, 3) {
				f.Init = b.call(2)
			}
			if !strings.Contains(mods, "static") {
				b.scope = append(b.scope, &varInfo{Name: f.Name, Type: f.Type, Kind: "field", Final: strings.Contains(mods, "final")})
			}
		}
	}
	for _, m := range ti.Decl.Methods() {
		if m.NoBody {
			continue
		}
		b := &bodyCtx{g: g, ti: ti, m: m, static: contains(m.Modifiers, "public static")}
		if !b.static {
			for _, f := range ti.Decl.Fields() {
				b.scope = append(b.scope, &varInfo{Name: f.Name, Type: f.Type, Kind: "field", Final: strings.Contains(strings.Join(f.Modifiers, " "), "final")})
			}
		}
		for _, p := range m.Params {
			b.scope = append(b.scope, &varInfo{Name: p.Name, Type: p.Type, Kind: "param", Final: p.Final})
		}
		n := g.r.Range(0, g.o.MaxStmts)
		for i := 0; i < n; i++ {
			m.Body = append(m.Body, b.stmt(0)) // top-level locals stay in scope for the return expression
		}
		if !m.IsCtor && m.Ret != "void" && m.Ret != "" {
			m.Body = append(m.Body, &Stmt{Kind: "return", E: b.valueExpr(1, m.Ret)})
		}
	}
}

func (b *bodyCtx) budget() bool { return b.sites < b.g.o.MaxSites }

func (b *bodyCtx) localName(depth int) string {
	r := b.g.r
	name := r.Pick(varWords)
	if b.used == nil {
		b.used = map[string]bool{}
	}
	v := b.lookup(name)
	// a local may hide a field (if enabled, and only when declared at the top level of the method body, so that
	// the name never means the field again after an inner block ended) but never a parameter or another local
	if b.used[name] || v != nil && !(v.Kind == "field" && b.g.o.Shadowing && depth == 0 && r.Bool()) {
		for {
			b.seq++
			cand := fmt.Sprintf("%s%d", name, b.seq)
			if b.lookup(cand) == nil && !b.used[cand] {
				name = cand
				break
			}
		}
	}
	b.used[name] = true
	return name
}

func (b *bodyCtx) stmts(depth, n int) []*Stmt {
	var out []*Stmt
	mark := len(b.scope)
	for i := 0; i < n; i++ {
		out = append(out, b.stmt(depth))
	}
	b.scope = b.scope[:mark]
	return out
}

func (b *bodyCtx) stmt(depth int) *Stmt {
	r := b.g.r
	k := r.Intn(20)
	if depth >= 2 && k >= 12 {
		k = r.Intn(12)
	}
	switch {
	case k < 4: // local declaration
		ty, _, _ := b.g.pickType(b.ti)
		name := b.localName(depth)
		s := &Stmt{Kind: "local", Type: ty, Var: name, Final: r.Chance(1, 6)}
		// the scope of a local starts at its declarator, i.e. it includes its own initialiser
		b.scope = append(b.scope, &varInfo{Name: name, Type: ty, Kind: "local", Final: s.Final})
		if r.Chance(4, 5) {
			s.E = b.valueExpr(depth+1, ty)
		}
		if r.Chance(1, 8) && !strings.Contains(ty, "[") {
			extra := b.localName(depth + 1) // a further declarator never hides a field (its scope starts mid-statement)
			b.scope = append(b.scope, &varInfo{Name: extra, Type: ty, Kind: "local", Final: s.Final})
			s.Extra = append(s.Extra, Declarator{Var: extra, Init: b.valueExpr(depth+1, ty)})
		}
		return s
	case k < 6: // assignment to a visible variable
		vs := b.visible()
		if len(vs) == 0 {
			return &Stmt{Kind: "expr", E: b.call(depth + 1)}
		}
		v := vs[r.Intn(len(vs))]
		if v.Kind == "other" || v.Final {
			return &Stmt{Kind: "expr", E: b.call(depth + 1)}
		}
		s := &Stmt{Kind: "assign", Var: v.Name}
		if r.Chance(1, 2) && isPlain(v.Type) && len(b.g.types) > 0 && b.budget() {
			// assign a freshly created object, possibly of another (sub)type than the declared one
			s.E = b.newExpr(depth+1, "")
		} else {
			s.E = b.valueExpr(depth+1, v.Type)
		}
		return s
	case k < 12:
		return &Stmt{Kind: "expr", E: b.call(depth + 1)}
	case k < 14:
		s := &Stmt{Kind: "if", E: b.cond(depth + 1)}
		s.Then = b.stmts(depth+1, r.Range(0, 3))
		if r.Chance(1, 3) {
			s.Else = b.stmts(depth+1, r.Range(1, 2))
		}
		return s
	case k < 15:
		return &Stmt{Kind: "while", E: b.cond(depth + 1), Then: b.stmts(depth+1, r.Range(1, 2))}
	case k < 16:
		b.seq++
		return &Stmt{Kind: "for", Var: fmt.Sprintf("i%d", b.seq), E: b.valueExpr(depth+1, "int"), Then: b.stmts(depth+1, r.Range(1, 2))}
	case k < 17:
		b.seq++
		ty, _, _ := b.g.pickType(b.ti)
		if strings.Contains(ty, "[") || strings.Contains(ty, "<") {
			ty = "String"
		}
		v := fmt.Sprintf("each%d", b.seq)
		mark := len(b.scope)
		iter := b.valueExpr(depth+1, "List")
		b.scope = append(b.scope, &varInfo{Name: v, Type: ty, Kind: "other"})
		body := b.stmts(depth+1, r.Range(1, 2))
		b.scope = b.scope[:mark]
		return &Stmt{Kind: "foreach", Type: ty, Var: v, E: iter, Then: body}
	case k < 18:
		s := &Stmt{Kind: "switch", E: b.valueExpr(depth+1, "int")}
		for c := r.Range(2, 3); c > 0; c-- {
			s.Cases = append(s.Cases, b.stmts(depth+1, r.Range(0, 2)))
		}
		return s
	case k < 19:
		b.seq++
		s := &Stmt{Kind: "try", Then: b.stmts(depth+1, r.Range(1, 2))}
		if r.Chance(3, 4) {
			s.CatchType = r.Pick([]string{"Exception", "RuntimeException", "IllegalStateException"})
			s.CatchVar = fmt.Sprintf("ex%d", b.seq)
			mark := len(b.scope)
			b.scope = append(b.scope, &varInfo{Name: s.CatchVar, Type: s.CatchType, Kind: "other"})
			s.Catch = b.stmts(depth+1, r.Range(0, 2))
			b.scope = b.scope[:mark]
		}
		if s.Catch == nil && s.CatchType == "" || r.Chance(1, 3) {
			s.Else = b.stmts(depth+1, r.Range(0, 1))
			if s.Else == nil {
				s.Else = []*Stmt{}
			}
		}
		return s
	default:
		return &Stmt{Kind: "comment"}
	}
}

func isPlain(ty string) bool {
	if ty == "" || strings.ContainsAny(ty, "<>[],. ") {
		return false
	}
	for _, p := range primitives {
		if p == ty {
			return false
		}
	}
	return ty[0] >= 'A' && ty[0] <= 'Z'
}

func (b *bodyCtx) lit(ty string) *Expr {
	r := b.g.r
	switch ty {
	case "int", "long":
		return &Expr{Kind: "lit", Text: fmt.Sprint(r.Intn(100))}
	case "boolean":
		return &Expr{Kind: "lit", Text: r.Pick([]string{"true", "false"})}
	case "double":
		return &Expr{Kind: "lit", Text: "1.5"}
	case "char":
		return &Expr{Kind: "lit", Text: "'c'"}
	case "String":
		if b.g.o.MultiByte && r.Bool() {
			return &Expr{Kind: "lit", Text: "\"" + r.Pick(mbWords) + " " + r.Pick(commentWords[:8]) + "\""}
		}
		return &Expr{Kind: "lit", Text: r.Pick([]string{"\"a\"", "\"find()\"", "\"x.y(z)\"", "\"\"", "\"new Foo()\""})}
	}
	return &Expr{Kind: "lit", Text: "null"}
}

// valueExpr: an expression usable where a value of (roughly) type ty is expected.
func (b *bodyCtx) valueExpr(depth int, ty string) *Expr {
	r := b.g.r
	if depth > 3 || !b.budget() {
		return b.lit(ty)
	}
	switch k := r.Intn(10); {
	case k < 4:
		return b.call(depth)
	case k < 5 && isPlain(ty):
		return b.newExpr(depth, ty)
	case k < 6:
		vs := b.visible()
		if len(vs) > 0 {
			return &Expr{Kind: "var", Text: vs[r.Intn(len(vs))].Name}
		}
		return b.lit(ty)
	case k < 7 && (ty == "int" || ty == "long"):
		return &Expr{Kind: "bin", Text: r.Pick([]string{"+", "*", "-"}), L: b.valueExpr(depth+1, ty), R: b.lit(ty)}
	default:
		return b.lit(ty)
	}
}

func (b *bodyCtx) cond(depth int) *Expr {
	r := b.g.r
	switch r.Intn(4) {
	case 0:
		return &Expr{Kind: "bin", Text: r.Pick([]string{">", "<", "==", "!="}), L: b.valueExpr(depth, "int"), R: b.lit("int")}
	case 1:
		return &Expr{Kind: "bin", Text: r.Pick([]string{"&&", "||"}), L: b.call(depth), R: b.lit("boolean")}
	case 2:
		vs := b.visible()
		if len(vs) > 0 {
			return &Expr{Kind: "bin", Text: "!=", L: &Expr{Kind: "var", Text: vs[r.Intn(len(vs))].Name}, R: &Expr{Kind: "lit", Text: "null"}}
		}
	}
	return b.call(depth)
}

func (b *bodyCtx) newExpr(depth int, ty string) *Expr {
	r := b.g.r
	name := ty
	if name == "" || !isPlain(name) || r.Chance(1, 3) {
		if len(b.g.types) > 0 && r.Chance(2, 3) {
			name = b.g.types[r.Intn(len(b.g.types))].Simple
		} else {
			name = externals[r.Intn(len(externals))].Simple
		}
	}
	b.sites++
	e := &Expr{Kind: "new", Site: &Site{Kind: "new", Name: name, Recv: RecvNew}}
	if b.g.o.Generics && r.Chance(1, 6) {
		// the created type is the name in front of the type arguments, whatever they contain
		e.TypeArgs = r.Pick([]string{"<>", "<String>", "<Map.Entry<String, Integer>>", "<String, java.util.Date>", "<java.util.List<String>>", "<Outer.Inner>", "<? extends java.lang.Number>"})
	}
	e.Args = b.args(depth + 1)
	e.Site.NArgs = len(e.Args)
	if b.g.o.AnonClasses && !b.noAnon && r.Chance(1, 5) {
		// an anonymous subclass: its members are declarations, not calls of the enclosing method
		e.AnonBody = r.Pick([]string{
			" { public void run() { } }",
			" { @Override public String toString() { return \"x\"; } }",
			" { int seen; public void accept(Object o) { seen = 1; } public int size() { return seen; } }",
		})
	}
	return e
}

func (b *bodyCtx) args(depth int) []*Expr {
	r := b.g.r
	n := r.PickInt(0, 0, 1, 1, 2, 3)
	var out []*Expr
	for i := 0; i < n; i++ {
		if b.g.o.Lambdas && r.Chance(1, 8) && depth <= 3 && b.budget() {
			out = append(out, b.lambda(depth))
			continue
		}
		out = append(out, b.valueExpr(depth, r.Pick([]string{"int", "String", "Object", "boolean"})))
	}
	return out
}

func (b *bodyCtx) lambda(depth int) *Expr {
	r := b.g.r
	b.seq++
	p := fmt.Sprintf("it%d", b.seq)
	mark := len(b.scope)
	e := &Expr{Kind: "lambda", LambdaParam: p}
	if r.Chance(1, 3) && len(b.g.types) > 0 {
		// explicitly typed lambda parameter: a parameter with a declared type like any other
		ty, _, _ := b.g.pickType(b.ti)
		if isPlain(ty) {
			e.LambdaParamType = ty
			b.scope = append(b.scope, &varInfo{Name: p, Type: ty, Kind: "param"})
		}
	}
	if e.LambdaParamType == "" {
		b.scope = append(b.scope, &varInfo{Name: p, Type: "", Kind: "other"})
	}
	if r.Bool() {
		e.LambdaBody = b.call(depth + 1)
	} else {
		e.LambdaBlock = b.stmts(2, r.Range(1, 2))
		if e.LambdaBlock == nil {
			e.LambdaBlock = []*Stmt{}
		}
	}
	b.scope = b.scope[:mark]
	markSites(e, true)
	return e
}

func markSites(e *Expr, inLambda bool) {
	walkExpr(e, func(*Stmt) {}, func(x *Expr) {
		if x.Site != nil {
			x.Site.InLambda = inLambda
		}
	})
}

// calleeFor picks a method name for a receiver of the given simple type.
func (b *bodyCtx) calleeFor(ty string) string {
	r := b.g.r
	if b.g.hot != nil && b.g.hotM != "" && ty == b.g.hot.Simple && r.Chance(b.g.o.HotBias, 10) {
		return b.g.hotM
	}
	if t := resolvesTo(b.g, b.ti, ty); t != nil && r.Chance(4, 5) {
		ms := t.Decl.Methods()
		var cands []string
		for _, m := range ms {
			if !m.IsCtor {
				cands = append(cands, m.Name)
			}
		}
		if len(cands) > 0 {
			return cands[r.Intn(len(cands))]
		}
	}
	return r.Pick([]string{"size", "get", "toString", "update", "process", "isEmpty", "handle", "accept", "of", "now"})
}

func (b *bodyCtx) call(depth int) *Expr {
	r := b.g.r
	b.sites++
	site := &Site{Kind: "call"}
	e := &Expr{Kind: "call", Site: site}
	vs := b.visible()
	k := r.Intn(20)
	if depth > 3 && k >= 16 {
		k = r.Intn(16)
	}
	switch {
	case k < 5: // implicit receiver
		site.Recv = RecvImplicit
		site.Name = b.calleeFor(b.ti.Simple)
		site.RecvType = b.ti.Simple
		site.RecvPkg = b.ti.Pkg
		site.Resolved = true
	case k < 7 && !b.static:
		site.Recv = RecvThis
		e.RecvText = "this"
		site.Name = b.calleeFor(b.ti.Simple)
	case k < 14 && len(vs) > 0: // variable receiver
		// prefer variables of class type
		var cls []*varInfo
		for _, v := range vs {
			if isPlain(v.Type) && v.Kind != "other" {
				cls = append(cls, v)
			}
		}
		v := vs[r.Intn(len(vs))]
		if len(cls) > 0 && r.Chance(4, 5) {
			v = cls[r.Intn(len(cls))]
		}
		e.Recv = &Expr{Kind: "var", Text: v.Name}
		site.RecvVar = v.Name
		switch v.Kind {
		case "field":
			site.Recv = RecvField
		case "param":
			site.Recv = RecvParam
		case "local":
			site.Recv = RecvLocal
		default:
			site.Recv = RecvOther
		}
		if isPlain(v.Type) && v.Kind != "other" {
			site.RecvType = v.Type
		}
		site.Name = b.calleeFor(v.Type)
	case k < 16: // static receiver
		site.Recv = RecvStatic
		if len(b.g.types) > 0 && r.Bool() {
			t := b.g.types[r.Intn(len(b.g.types))]
			e.RecvText = t.Simple
			site.Name = b.calleeFor(t.Simple)
		} else {
			e.RecvText = r.Pick([]string{"Math", "Objects", "String", "Collections"})
			site.Name = r.Pick([]string{"max", "requireNonNull", "valueOf", "emptyList"})
		}
	case k < 18: // chained on another call or creation
		site.Recv = RecvChain
		if r.Chance(1, 4) && b.budget() {
			e.Recv = &Expr{Kind: "paren", L: b.newExpr(depth+1, "")}
		} else {
			e.Recv = b.call(depth + 1)
		}
		site.Name = r.Pick([]string{"build", "get", "orElse", "trim", "stream", "with", "and"})
	default: // literal / other receiver
		site.Recv = RecvOther
		e.Recv = &Expr{Kind: "lit", Text: r.Pick([]string{"\"abc\"", "\"a.b()\""})}
		site.Name = r.Pick([]string{"length", "trim", "isEmpty"})
	}
	if site.Name == "" {
		site.Name = "run"
	}
	e.Args = b.args(depth + 1)
	site.NArgs = len(e.Args)
	return e
}

// FinalizeSites decides, after the imports are fixed, for which receiver-variable sites the resolution
// clause of the statement applies, and to which package the receiver type resolves.
func FinalizeSites(p *Project) {
	proj := map[string][]*File{}
	for _, f := range p.Files {
		if f.Role == RoleMain {
			for _, t := range f.Types() {
				proj[t.Name] = append(proj[t.Name], f)
			}
		}
	}
	for _, f := range p.Files {
		if f.Type == nil {
			continue
		}
		single := map[string]string{}
		for _, im := range f.Imports {
			if !im.Static && !im.Wildcard {
				single[im.Path[strings.LastIndex(im.Path, ".")+1:]] = im.Path
			}
		}
		var allMethods []*Method
		for _, t := range f.Types() {
			allMethods = append(allMethods, t.Methods()...)
		}
		for _, m := range allMethods {
			for _, s := range m.Sites {
				if s.Recv != RecvField && s.Recv != RecvParam && s.Recv != RecvLocal {
					continue
				}
				s.Resolved = false
				if s.RecvType == "" {
					continue
				}
				// a single-type import decides first (it shadows a type of the own package), then the own package
				if full, ok := single[s.RecvType]; ok {
					pk := full[:strings.LastIndex(full, ".")]
					s.Resolved, s.RecvPkg = true, pk
					continue
				}
				var own *File
				for _, c := range proj[s.RecvType] {
					if c.Pkg == f.Pkg {
						own = c
					}
				}
				if own != nil {
					s.Resolved, s.RecvPkg = true, f.Pkg
					continue
				}
				// project type of another package reached through a wildcard import, or an unimported
				// external type: the statement's clause ("imported or belongs to the project") applies to
				// project types only when the name is unique in the project
				if cs := proj[s.RecvType]; len(cs) == 1 {
					s.Resolved, s.RecvPkg = true, cs[0].Pkg
				}
			}
		}
	}
}
