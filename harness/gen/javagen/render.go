package javagen

import (
	"strings"
	"unicode/utf8"

	"verifharness/run"
)

// Layout is the rendering policy of one file.
type Layout struct {
	Indent       string
	BraceNL      bool // opening brace on its own line
	StmtJoin     int  // chance in 10 that a statement continues on the line of the previous one
	MemberJoin   int  // chance in 10 that a member starts on the line the previous one ended on
	Blank        int  // chance in 10 of a blank line between members / statements
	Comments     int  // chance in 10 of a comment between members / statements
	MultiByte    bool // comments and string literals may contain multi-byte characters
	WrapParams   bool // parameter lists may be wrapped over several lines
	AnnoOwnLine  int  // chance in 10 that an annotation gets its own line
	LeadingBlank int  // blank lines before the package line (0-3)
	CRLF         bool // lines end in \r\n (a Windows checkout)
	LongComment  bool // a `//` comment line longer than 4096 bytes (declaration-like text in it) between members
	OneLine      bool // the whole type body is written on one line (generated code), usually longer than 4096 bytes
	NameNL       int  // chance in 40 that a callee / declared method name ends its line (the parenthesis follows on the next)
	AnnoLate     int  // chance in 10 that annotations are written after the first keyword modifier (`public @Service class X`)
}

func RandomLayout(r *run.Rand, multiByte bool) Layout {
	l := Layout{
		Indent:       r.Pick([]string{"  ", "    ", "\t", "   ", ""}),
		BraceNL:      r.Chance(1, 4),
		StmtJoin:     r.PickInt(0, 2, 6),
		MemberJoin:   r.PickInt(0, 0, 3),
		Blank:        r.Intn(6),
		Comments:     r.PickInt(0, 2, 5),
		MultiByte:    multiByte,
		WrapParams:   r.Chance(1, 3),
		AnnoOwnLine:  r.PickInt(10, 5, 0),
		LeadingBlank: r.Intn(3),
		LongComment:  r.Chance(1, 12),
		NameNL:       r.PickInt(0, 0, 1, 4),
		AnnoLate:     r.PickInt(0, 0, 2, 6),
	}
	if r.Chance(1, 25) {
		l.OneLine = true
		l.StmtJoin, l.MemberJoin, l.Blank, l.Comments, l.BraceNL, l.AnnoOwnLine, l.WrapParams, l.NameNL = 10, 10, 0, 0, false, 0, false, 0
	}
	return l
}

type writer struct {
	sb          strings.Builder
	line, col   int // line 1-based, col 0-based in characters
	off         int
	lay         Layout
	r           *run.Rand
	depth       int
	mustNL      bool // a line comment was written: the next token must start a new line
	atLineStart bool
	curMethod   *Method
	curType     *TypeDecl
}

func newWriter(r *run.Rand, lay Layout) *writer {
	return &writer{line: 1, lay: lay, r: r, atLineStart: true}
}

func (w *writer) s(text string) {
	if text == "" {
		return
	}
	if w.mustNL {
		w.nl()
		w.ind()
	}
	w.sb.WriteString(text)
	w.col += utf8.RuneCountInString(text)
	w.off += len(text)
	w.atLineStart = false
}

func (w *writer) nl() {
	if w.lay.CRLF {
		w.sb.WriteString("\r")
		w.off++
	}
	w.sb.WriteString("\n")
	w.line++
	w.col = 0
	w.off++
	w.mustNL = false
	w.atLineStart = true
}

func (w *writer) ind() {
	for i := 0; i < w.depth; i++ {
		w.s(w.lay.Indent)
	}
	w.atLineStart = true
}

// fresh starts a new line (with indentation) unless we already are at the start of one.
func (w *writer) fresh() {
	if w.mustNL || !w.atLineStart {
		w.nl()
	}
	if w.col == 0 {
		w.ind()
	}
}

func (w *writer) currentLine() string {
	s := w.sb.String()
	i := strings.LastIndex(s, "\n")
	return s[i+1:]
}

// sep: either continue on the same line (with a blank) or start a new line, according to chance/10.
func (w *writer) sep(joinChance int) {
	if !w.mustNL && !w.atLineStart && w.r.Chance(joinChance, 10) {
		w.s(" ")
		return
	}
	w.fresh()
}

var commentWords = []string{"handle", "the", "order", "legacy", "see", "ticket", "note", "value", "cache", "retry", "x", "old(); call", "\"quoted\"", "a.b()", "new Foo()"}
var mbWords = []string{"café", "naïve", "日本語", "über", "🙂ok", "π≈3", "señor"}

func (w *writer) commentText() string {
	n := w.r.Range(1, 4)
	var ws []string
	for i := 0; i < n; i++ {
		if w.lay.MultiByte && w.r.Chance(1, 2) {
			ws = append(ws, w.r.Pick(mbWords))
		} else {
			ws = append(ws, w.r.Pick(commentWords))
		}
	}
	return strings.Join(ws, " ")
}

// comment writes a comment at the current position. inline=true forces a block comment (so that tokens may
// follow on the same line).
func (w *writer) comment(inline bool) {
	switch k := w.r.Intn(4); {
	case inline || k == 0:
		w.s("/* " + w.commentText() + " */")
	case k == 1:
		w.s("// " + w.commentText())
		w.mustNL = true
	case k == 2:
		w.s("/**")
		w.nl()
		w.ind()
		w.s(" * " + w.commentText())
		w.nl()
		w.ind()
		w.s(" */")
	default:
		w.s("/* " + w.commentText())
		w.nl()
		w.ind()
		w.s("   " + w.commentText() + " */")
	}
}

func (w *writer) maybeBetween() {
	if w.r.Chance(w.lay.Blank, 10) {
		if !w.atLineStart || w.mustNL {
			w.nl()
		}
		w.nl()
	}
	if w.r.Chance(w.lay.Comments, 10) {
		w.fresh()
		w.comment(false)
	}
}

func (w *writer) annotation(a Annotation) {
	w.s("@" + a.Name)
	switch a.Form {
	case "single":
		w.s("(" + a.Value + ")")
	case "pairs":
		w.s("(")
		for i, p := range a.Pairs {
			if i > 0 {
				w.s(", ")
			}
			w.s(p[0] + " = " + p[1])
		}
		w.s(")")
	}
}

func (w *writer) annotations(as []Annotation) {
	for _, a := range as {
		w.annotation(a)
		if w.r.Chance(w.lay.AnnoOwnLine, 10) {
			w.nl()
			w.ind()
		} else {
			w.s(" ")
		}
	}
}

// annosAndMods writes annotations and keyword modifiers; with Layout.AnnoLate some annotations follow the first
// modifier, which Java allows (`public @Service("orders") class X`, `public @Override void f()`).
func (w *writer) annosAndMods(as []Annotation, mods []string) {
	if len(as) > 0 && len(mods) > 0 && w.r.Chance(w.lay.AnnoLate, 10) {
		k := w.r.Intn(len(as)) // annotations written first
		w.annotations(as[:k])
		w.s(mods[0] + " ")
		for _, a := range as[k:] {
			w.annotation(a)
			w.s(" ")
		}
		for _, m := range mods[1:] {
			w.s(m + " ")
		}
		return
	}
	w.annotations(as)
	for _, m := range mods {
		w.s(m + " ")
	}
}

// longComment writes one `//` line of more than 4096 bytes whose text looks like declarations and calls.
func (w *writer) longComment() {
	var sb strings.Builder
	sb.WriteString("// generated:")
	n := 4200 + w.r.Intn(5000)
	for i := 0; sb.Len() < n; i++ {
		if w.lay.MultiByte && w.r.Chance(1, 5) {
			sb.WriteString(" " + w.r.Pick(mbWords))
		}
		sb.WriteString(" public int ghost" + itoa(i) + "(int a) { return helper" + itoa(i) + ".run(a); }")
	}
	w.fresh()
	w.s(sb.String())
	w.mustNL = true
}

// nameGap writes what stands between a method name and its opening parenthesis.
func (w *writer) nameGap() {
	if w.r.Chance(w.lay.NameNL, 40) {
		w.nl()
		w.ind()
		w.s(w.lay.Indent)
		return
	}
	if w.r.Chance(1, 12) {
		// blanks or a comment between the identifier and its parenthesis
		w.s(w.r.Pick([]string{" ", "  ", " /* c */ ", "\t"}))
	}
}

func (w *writer) openBrace() {
	if w.lay.BraceNL {
		w.nl()
		w.ind()
		w.s("{")
	} else {
		w.s(" {")
	}
}

// RenderFile renders f.Type into f.Text and fills in every planted position.
func RenderFile(r *run.Rand, f *File, lay Layout) {
	w := newWriter(r, lay)
	for i := 0; i < lay.LeadingBlank; i++ {
		w.nl()
	}
	if r.Chance(lay.Comments, 10) {
		w.comment(false)
		w.fresh()
	}
	if f.Pkg != "" {
		w.s("package " + f.Pkg + ";")
		w.nl()
	}
	if r.Bool() {
		w.nl()
	}
	for _, im := range f.Imports {
		if r.Chance(lay.Comments, 20) {
			w.comment(false)
			w.fresh()
		}
		w.s("import ")
		if im.Static {
			w.s("static ")
		}
		w.s(im.Path + ";")
		w.nl()
		if r.Chance(lay.Blank, 20) {
			w.nl()
		}
	}
	if r.Bool() {
		w.nl()
	}
	for _, t := range f.Types() {
		w.typeDecl(t)
	}
	if r.Chance(1, 4) {
		w.comment(false)
		w.nl()
	}
	f.Text = w.sb.String()
}

// typeDecl renders one top-level type at the current position.
func (w *writer) typeDecl(t *TypeDecl) {
	w.curType = t
	t.InitSites = nil
	w.fresh()
	if w.r.Chance(w.lay.Comments, 10) {
		w.comment(false)
		w.fresh()
	}
	t.DeclLine = w.line
	w.annosAndMods(t.Annotations, t.Modifiers)
	if t.Kind == "Interface" {
		w.s("interface ")
	} else {
		w.s("class ")
	}
	w.s(t.Name + t.TypeParams)
	if t.Extends != "" {
		w.s(" extends " + t.Extends)
	}
	if len(t.Implements) > 0 {
		if t.Kind == "Interface" {
			w.s(" extends ")
		} else {
			w.s(" implements ")
		}
		w.s(strings.Join(t.Implements, ", "))
	}
	w.openBrace()
	w.depth++
	longAt := -1
	if w.lay.LongComment && len(t.Members) > 0 {
		longAt = w.r.Intn(len(t.Members))
	}
	for i, m := range t.Members {
		if i == longAt {
			w.longComment()
		}
		if i == 0 {
			w.sep(w.lay.MemberJoin)
		} else {
			w.maybeBetween()
			w.sep(w.lay.MemberJoin)
		}
		switch x := m.(type) {
		case *Field:
			w.field(x)
		case *Method:
			x.SameLineAsPrev = !w.atLineStart
			w.method(x, t.Kind == "Interface")
		}
	}
	w.depth--
	w.sep(w.lay.MemberJoin)
	w.s("}")
	w.nl()
}

func (w *writer) field(f *Field) {
	if f.Annotation != "" {
		w.s(f.Annotation + " ")
	}
	for _, m := range f.Modifiers {
		w.s(m + " ")
	}
	w.s(f.Type + " " + f.Name)
	if f.Init != nil {
		w.s(" = ")
		w.expr(f.Init)
	}
	w.s(";")
}

func (w *writer) method(m *Method, inInterface bool) {
	w.curMethod = m
	m.Sites = nil
	m.DeclLine = w.line
	w.annosAndMods(m.Annotations, m.Modifiers)
	if m.TypeParams != "" {
		w.s(m.TypeParams + " ")
	}
	if !m.IsCtor {
		w.s(m.Ret + " ")
	}
	m.NameLine, m.NameCol, m.NameByteOff = w.line, w.col, w.off
	w.s(m.Name)
	if w.r.Chance(w.lay.NameNL, 40) {
		w.nl()
		w.ind()
		w.s(w.lay.Indent)
	}
	w.s("(")
	wrap := w.lay.WrapParams && len(m.Params) >= 2 && w.r.Bool()
	for i, p := range m.Params {
		if i > 0 {
			w.s(",")
			if wrap {
				w.nl()
				w.ind()
				w.s(w.lay.Indent + w.lay.Indent)
			} else {
				w.s(" ")
			}
		}
		if p.Annotation != "" {
			w.s(p.Annotation + " ")
		}
		if p.Final {
			w.s("final ")
		}
		w.s(p.Type + " " + p.Name + p.Dims)
	}
	w.s(")")
	if m.Throws != "" {
		w.s(" throws " + m.Throws)
	}
	if m.NoBody {
		w.s(";")
		m.CloseLine = w.line
		w.curMethod = nil
		return
	}
	w.openBrace()
	w.depth++
	w.stmts(m.Body)
	w.depth--
	w.sep(w.lay.StmtJoin)
	m.CloseLine = w.line
	w.s("}")
	w.curMethod = nil
}

func (w *writer) stmts(list []*Stmt) {
	for i, s := range list {
		if i > 0 && w.r.Chance(w.lay.Blank, 30) {
			if !w.atLineStart || w.mustNL {
				w.nl()
			}
			w.nl()
		}
		w.sep(w.lay.StmtJoin)
		w.stmt(s)
	}
}

func (w *writer) block(list []*Stmt) {
	w.openBrace()
	w.depth++
	w.stmts(list)
	w.depth--
	w.sep(w.lay.StmtJoin)
	w.s("}")
}

func (w *writer) stmt(s *Stmt) {
	switch s.Kind {
	case "comment":
		w.comment(w.r.Bool())
	case "local":
		if s.Final {
			w.s("final ")
		}
		w.s(s.Type + " " + s.Var)
		if s.E != nil {
			w.s(" = ")
			w.expr(s.E)
		}
		for _, d := range s.Extra {
			w.s(", " + d.Var)
			if d.Init != nil {
				w.s(" = ")
				w.expr(d.Init)
			}
		}
		w.s(";")
	case "assign":
		w.s(s.Var + " = ")
		w.expr(s.E)
		w.s(";")
	case "expr":
		w.expr(s.E)
		w.s(";")
	case "return":
		w.s("return")
		if s.E != nil {
			w.s(" ")
			w.expr(s.E)
		}
		w.s(";")
	case "if":
		w.s("if (")
		w.expr(s.E)
		w.s(")")
		w.block(s.Then)
		if s.Else != nil {
			w.s(" else")
			w.block(s.Else)
		}
	case "while":
		w.s("while (")
		w.expr(s.E)
		w.s(")")
		w.block(s.Then)
	case "for":
		w.s("for (int " + s.Var + " = 0; " + s.Var + " < ")
		w.expr(s.E)
		w.s("; " + s.Var + "++)")
		w.block(s.Then)
	case "foreach":
		w.s("for (" + s.Type + " " + s.Var + " : ")
		w.expr(s.E)
		w.s(")")
		w.block(s.Then)
	case "switch":
		w.s("switch (")
		w.expr(s.E)
		w.s(")")
		w.openBrace()
		w.depth++
		for i, c := range s.Cases {
			w.sep(w.lay.StmtJoin)
			if i == len(s.Cases)-1 {
				w.s("default:")
			} else {
				w.s("case " + itoa(i+1) + ":")
			}
			w.depth++
			w.stmts(c)
			w.sep(w.lay.StmtJoin)
			w.s("break;")
			w.depth--
		}
		w.depth--
		w.sep(w.lay.StmtJoin)
		w.s("}")
	case "try":
		w.s("try")
		w.block(s.Then)
		if s.CatchType != "" {
			w.s(" catch (" + s.CatchType + " " + s.CatchVar + ")")
			w.block(s.Catch)
		}
		if s.Else != nil {
			w.s(" finally")
			w.block(s.Else)
		}
	}
}

func itoa(i int) string {
	if i == 0 {
		return "0"
	}
	var b []byte
	for i > 0 {
		b = append([]byte{byte('0' + i%10)}, b...)
		i /= 10
	}
	return string(b)
}

func (w *writer) plant(site *Site) {
	site.Line, site.Col, site.ByteOff = w.line, w.col, w.off
	if w.curMethod != nil {
		site.Ord = len(w.curMethod.Sites)
		w.curMethod.Sites = append(w.curMethod.Sites, site)
	} else if w.curType != nil {
		site.Ord = len(w.curType.InitSites)
		w.curType.InitSites = append(w.curType.InitSites, site)
	}
}

func (w *writer) args(as []*Expr) {
	w.s("(")
	for i, a := range as {
		if i > 0 {
			w.s(", ")
		}
		w.expr(a)
	}
	w.s(")")
}

func (w *writer) expr(e *Expr) {
	switch e.Kind {
	case "lit", "var":
		w.s(e.Text)
	case "paren":
		w.s("(")
		w.expr(e.L)
		w.s(")")
	case "bin":
		w.expr(e.L)
		w.s(" " + e.Text + " ")
		w.expr(e.R)
	case "call":
		if e.Recv != nil {
			w.expr(e.Recv)
			w.s(".")
		} else if e.RecvText != "" {
			w.s(e.RecvText + ".")
		}
		if w.lay.MultiByte && w.r.Chance(1, 6) {
			// an inline comment with multi-byte text right before the identifier
			w.s("/* " + w.r.Pick(mbWords) + " */ ")
		}
		w.plant(e.Site)
		w.s(e.Site.Name)
		w.nameGap()
		w.args(e.Args)
	case "new":
		w.s("new ")
		w.plant(e.Site)
		w.s(e.Site.Name)
		w.s(e.TypeArgs)
		w.args(e.Args)
		w.s(e.AnonBody)
	case "lambda":
		if e.LambdaParamType != "" {
			w.s("(" + e.LambdaParamType + " " + e.LambdaParam + ") -> ")
		} else {
			w.s(e.LambdaParam + " -> ")
		}
		if e.LambdaBody != nil {
			w.expr(e.LambdaBody)
		} else {
			w.s("{")
			w.depth++
			w.stmts(e.LambdaBlock)
			w.depth--
			w.sep(w.lay.StmtJoin)
			w.s("}")
		}
	}
}
