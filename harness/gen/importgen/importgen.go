// Package importgen is the workload of C06: directories of 1-8 conventional Java files, each with 0-10 import
// declarations (one per line, any line after the package line, blank lines / comments between them), every import
// PLANTED with its kind and with the exact set of roles in which its simple name is used in that file.
// The generator's own record (never a scanner of the rendered text, never coca) is the ground truth of the oracle;
// SelfCheck re-derives "referenced / not referenced" from the rendered text with an independent little lexer and
// rejects the case if the two disagree. No coca imports.
//
// Deliberately NOT generated (the C06 statement leaves them open, see DESIGN §4 C06 and adapter/c06):
//   - several imports on one line, an import spread over several lines, a comment that starts on an import line and
//     ends on a later line, duplicate import lines;
//   - a simple name that is also declared in the file (type, member, variable, type parameter) or that appears as a
//     segment of another import / of the package line; fully-qualified uses (`java.util.List x`) of an imported name;
//   - type names starting with a lower-case letter, names containing '$' (non-ASCII letters ARE generated: Überweisung,
//     Geprüft, 订单, GEBÜHR, prüfe and synthetic names with one non-ASCII letter, in every role);
//   - src/test/java directories and .gitignore patterns. Real test sources by name (*Test.java / *Tests.java, which the
//     tool's walk skips by design) ARE generated as bystanders: their cleaning is not demanded, everything else is.
//     Production classes whose name merely ends in lower-case "test"/"tests" (Contest, Latest, Protests) are ordinary files.
//
// Generated but marked ambiguous (either outcome is accepted): an import whose simple name occurs ONLY inside a
// comment / Javadoc `{@link X}` / string literal.
package importgen

import (
	"fmt"
	"sort"
	"strings"

	"verifharness/run"
)

const (
	KindSingle         = "single"
	KindWildcard       = "wildcard"
	KindStaticMethod   = "static-method"
	KindStaticConst    = "static-const"
	KindStaticWildcard = "static-wildcard"
)

// Import is one planted import declaration.
type Import struct {
	Kind     string   `json:"kind"`
	Name     string   `json:"name"`   // text after `import [static]` up to `;`, blanks removed (with ".*" for wildcards)
	Simple   string   `json:"simple"` // last segment, "*" for wildcards
	Nature   string   `json:"nature"` // class | annotation | exception | method | const | package
	Roles    []string `json:"roles"`  // roles in which Simple is used in code of this file (sorted); empty = not referenced
	Mentions []string `json:"mentions,omitempty"`
	Style    string   `json:"style"` // plain | trailing-comment | indented | spaced
	Gap      string   `json:"gap"`   // what precedes the line: none | blank | blank2 | line-comment | block-comment | block-comment-multi
	Line     int      `json:"line"`  // 1-based line of the declaration
	Src      string   `json:"src"`   // text of that line (without line terminator)
}

// NonASCII: the simple name contains a letter outside ASCII (Überweisung, 订单, GEBÜHR).
func (im *Import) NonASCII() bool {
	for i := 0; i < len(im.Simple); i++ {
		if im.Simple[i] >= 0x80 {
			return true
		}
	}
	return false
}

func (im *Import) IsWildcard() bool { return im.Kind == KindWildcard || im.Kind == KindStaticWildcard }

// MustKeep: the statement forbids deleting it (wildcard, or its simple name is referenced in code of the file).
func (im *Import) MustKeep() bool { return im.IsWildcard() || len(im.Roles) > 0 }

// Unused: the statement demands its deletion (not a wildcard, simple name occurs nowhere else in the file).
func (im *Import) Unused() bool {
	return !im.IsWildcard() && len(im.Roles) == 0 && len(im.Mentions) == 0
}

// Ambiguous: referenced only from a comment or a string literal; nothing is asserted about it.
func (im *Import) Ambiguous() bool {
	return !im.IsWildcard() && len(im.Roles) == 0 && len(im.Mentions) > 0
}

// RoleClasses maps the planted roles to the (coarser) classes used in signatures and counters.
func (im *Import) RoleClasses() []string {
	seen := map[string]bool{}
	var out []string
	for _, r := range im.Roles {
		c := RoleClass(r)
		if !seen[c] {
			seen[c] = true
			out = append(out, c)
		}
	}
	sort.Strings(out)
	return out
}

type File struct {
	Rel      string `json:"rel"`
	Pkg      string `json:"pkg"`
	TypeKind string `json:"type_kind"` // class | abstract-class | interface | enum
	TypeName string `json:"type_name"`
	Profile  string `json:"profile"` // none | clean | dirty | all-unused
	// Bystander: a real test source by name (*Test.java / *Tests.java). The tool's directory walk skips such files by
	// design, so their cleaning is not demanded; frame, soundness and idempotence still apply to them.
	Bystander bool     `json:"bystander,omitempty"`
	Imports   []Import `json:"imports"`
	CRLF      bool     `json:"crlf"`
	FinalNL   bool     `json:"final_newline"`
	Text      string   `json:"text"`
	shape     string
}

func (f *File) CountUnused() (n int) {
	for i := range f.Imports {
		if f.Imports[i].Unused() {
			n++
		}
	}
	return
}

func (f *File) CountMustKeep() (n int) {
	for i := range f.Imports {
		if f.Imports[i].MustKeep() {
			n++
		}
	}
	return
}

// Project: Files are in the order of a lexical directory walk (filepath.Walk), which is "directory order".
type Project struct {
	Layout string `json:"layout"` // flat | packages | maven
	Files  []File `json:"files"`
}

func (p *Project) ShapeKey() string {
	var sb strings.Builder
	sb.WriteString(p.Layout)
	for i := range p.Files {
		sb.WriteString("|" + p.Files[i].shape)
	}
	return sb.String()
}

type Opts struct {
	MinFiles, MaxFiles int
	MaxImports         int
}

// ---------------------------------------------------------------------------------------------------------------
// roles

const (
	lvHeader = iota
	lvField
	lvSig
	lvStmt
	lvMember
)

type roleInfo struct {
	level int
	class string
}

var roleInfos = map[string]roleInfo{
	// type positions
	"field-type":             {lvField, "type"},
	"field-array-type":       {lvField, "type"},
	"param-type":             {lvSig, "type"},
	"param-varargs-type":     {lvSig, "type"},
	"return-type":            {lvSig, "type"},
	"local-type":             {lvStmt, "type"},
	"local-array-type":       {lvStmt, "type"},
	"foreach-type":           {lvStmt, "type"},
	"try-resource-type":      {lvStmt, "type"},
	"cast":                   {lvStmt, "type"},
	"instanceof":             {lvStmt, "type"},
	"extends":                {lvHeader, "type"},
	"implements":             {lvHeader, "type"},
	"class-typeparam-bound":  {lvHeader, "type"},
	"method-typeparam-bound": {lvSig, "type"},
	"class-literal":          {lvStmt, "type"},
	"nested-type-qualifier":  {lvStmt, "type-qualifier"},
	// generic arguments
	"field-generic-arg":  {lvField, "generic-arg"},
	"param-generic-arg":  {lvSig, "generic-arg"},
	"return-generic-arg": {lvSig, "generic-arg"},
	"local-generic-arg":  {lvStmt, "generic-arg"},
	// annotations
	"annotation-class":       {lvHeader, "annotation"},
	"annotation-class-args":  {lvHeader, "annotation"},
	"annotation-method":      {lvSig, "annotation"},
	"annotation-method-args": {lvSig, "annotation"},
	"annotation-field":       {lvField, "annotation"},
	"annotation-param":       {lvSig, "annotation"},
	"annotation-local":       {lvStmt, "annotation"},
	"annotation-nested":      {lvSig, "annotation-qualifier"},
	"annotation-nested-deep": {lvSig, "annotation-qualifier-deep"}, // @Outer.Mid.Inner, @Outer.A.B.Inner
	// creation
	"new":            {lvStmt, "creation"},
	"new-argument":   {lvStmt, "creation"},
	"new-diamond":    {lvStmt, "creation"},
	"new-array":      {lvStmt, "creation"},
	"new-anonymous":  {lvStmt, "creation"},
	"field-init-new": {lvField, "creation"},
	"throw-new":      {lvStmt, "creation"},
	// static receiver
	"static-receiver":            {lvStmt, "static-receiver"},
	"static-receiver-argument":   {lvStmt, "static-receiver"},
	"static-receiver-chained":    {lvStmt, "static-receiver"},
	"field-init-static-receiver": {lvField, "static-receiver"},
	"static-field-receiver":      {lvStmt, "static-field-receiver"},
	"method-ref":                 {lvStmt, "method-ref-receiver"},
	// catch / throws
	"catch":              {lvStmt, "catch"},
	"catch-final":        {lvStmt, "catch"},
	"multi-catch-first":  {lvStmt, "catch"},
	"multi-catch-last":   {lvStmt, "catch"},
	"catch-nested":       {lvStmt, "catch-qualifier"},
	"catch-nested-deep":  {lvStmt, "catch-qualifier-deep"},
	"throws":             {lvSig, "throws"},
	"throws-second":      {lvSig, "throws"},
	"throws-nested":      {lvSig, "throws-qualifier"},
	"throws-nested-deep": {lvSig, "throws-qualifier-deep"},
	// static method imports: unqualified call
	"call-statement":   {lvStmt, "static-call"},
	"call-initializer": {lvStmt, "static-call"},
	"call-argument":    {lvStmt, "static-call"},
	"call-chained":     {lvStmt, "static-call"},
	"call-condition":   {lvStmt, "static-call"},
	"call-field-init":  {lvField, "static-call"},
	// static constant imports: bare name
	"const-argument":         {lvStmt, "const-read(argument)"},
	"const-local-init":       {lvStmt, "const-read(initializer)"},
	"const-field-init":       {lvField, "const-read(initializer)"},
	"const-binary-left":      {lvStmt, "const-read(binary-left)"},
	"const-binary-right":     {lvStmt, "const-read(binary-right)"},
	"const-assign":           {lvStmt, "const-read(assignment)"},
	"const-case-label":       {lvStmt, "const-read(case-label)"},
	"const-receiver":         {lvStmt, "const-read(receiver)"},
	"const-array-index":      {lvStmt, "const-read(array-index)"},
	"const-return":           {lvMember, "const-read(return)"},
	"const-annotation-value": {lvSig, "const-read(annotation-value)"},
}

// RoleClass is the coarse class of a role.
func RoleClass(role string) string {
	if ri, ok := roleInfos[role]; ok {
		return ri.class
	}
	return "?"
}

type weighted struct {
	role string
	w    int
}

var classRoles = []weighted{
	{"field-type", 5}, {"param-type", 5}, {"local-type", 5}, {"return-type", 5},
	{"field-generic-arg", 3}, {"param-generic-arg", 2}, {"return-generic-arg", 2}, {"local-generic-arg", 3},
	{"new", 5}, {"new-argument", 2}, {"new-diamond", 1}, {"new-array", 1}, {"new-anonymous", 1}, {"field-init-new", 2},
	{"static-receiver", 5}, {"static-receiver-argument", 2}, {"static-receiver-chained", 1}, {"field-init-static-receiver", 2},
	{"static-field-receiver", 1}, {"method-ref", 1},
	{"field-array-type", 1}, {"local-array-type", 1}, {"param-varargs-type", 1}, {"foreach-type", 1}, {"try-resource-type", 1},
	{"cast", 1}, {"instanceof", 1}, {"class-literal", 1}, {"extends", 1}, {"implements", 1},
	{"class-typeparam-bound", 1}, {"method-typeparam-bound", 1}, {"nested-type-qualifier", 1},
}

var annotationRoles = []weighted{
	{"annotation-class", 5}, {"annotation-method", 5}, {"annotation-field", 5},
	{"annotation-class-args", 2}, {"annotation-method-args", 2}, {"annotation-param", 1}, {"annotation-local", 1}, {"annotation-nested", 2}, {"annotation-nested-deep", 3},
}

var exceptionRoles = []weighted{
	{"catch", 7}, {"throws", 7}, {"throw-new", 2}, {"multi-catch-first", 1}, {"multi-catch-last", 1}, {"catch-final", 1},
	{"throws-second", 1}, {"catch-nested", 2}, {"throws-nested", 2}, {"catch-nested-deep", 3}, {"throws-nested-deep", 3}, {"local-type", 1}, {"param-type", 1},
}

// the roles an annotation type declaration (elements and constants only) can host
var annotationTypeRoles = map[string]bool{"annotation-class": true, "annotation-class-args": true, "annotation-method": true, "annotation-method-args": true,
	"return-type": true, "return-generic-arg": true, "field-type": true, "field-array-type": true, "field-generic-arg": true, "field-init-new": true,
	"field-init-static-receiver": true, "annotation-field": true, "call-field-init": true, "const-field-init": true}

var methodRoles = []weighted{
	{"call-statement", 4}, {"call-initializer", 3}, {"call-argument", 3}, {"call-chained", 1}, {"call-condition", 1}, {"call-field-init", 1},
}

var constRoles = []weighted{
	{"const-argument", 4}, {"const-local-init", 4}, {"const-field-init", 2}, {"const-binary-left", 2}, {"const-binary-right", 2},
	{"const-assign", 1}, {"const-case-label", 1}, {"const-receiver", 1}, {"const-array-index", 1}, {"const-return", 2}, {"const-annotation-value", 1},
}

// ---------------------------------------------------------------------------------------------------------------
// name pools

type qname struct{ pkg, simple string }

var classPool = []qname{
	{"java.util", "List"}, {"java.util", "Map"}, {"java.util", "Set"}, {"java.util", "Optional"}, {"java.util", "UUID"},
	{"java.util", "Date"}, {"java.util", "Locale"}, {"java.util", "Arrays"}, {"java.util", "Collections"}, {"java.util", "Objects"},
	{"java.util.stream", "Collectors"}, {"java.util.stream", "Stream"}, {"java.util.regex", "Pattern"}, {"java.util", "Base64"},
	{"java.time", "Instant"}, {"java.time", "Duration"}, {"java.nio.file", "Path"}, {"java.nio.file", "Files"},
	{"java.math", "BigDecimal"}, {"java.net", "URI"}, {"java.security.cert", "X509Certificate"},
	{"org.slf4j", "Logger"}, {"org.slf4j", "LoggerFactory"}, {"com.google.gson", "Gson"}, {"com.google.common.base", "Strings"},
	{"com.fasterxml.jackson.databind", "ObjectMapper"}, {"org.springframework.web.client", "RestTemplate"},
	{"org.springframework.data.domain", "Pageable"}, {"org.springframework.data.domain", "Page"}, {"android", "R"},
	{"de.bank.konto", "Überweisung"}, {"de.bank.konto", "Gebühr"}, {"de.bank.konto", "Währung"}, {"cn.shop.model", "订单"},
	{"fr.boutique", "Café"}, {"es.tienda", "Señal"}, {"gr.math", "Δείκτης"}, {"de.bank.konto", "KontoAuszügeLeser"},
}

var annotationPool = []qname{
	{"org.springframework.beans.factory.annotation", "Autowired"}, {"org.springframework.stereotype", "Service"},
	{"org.springframework.stereotype", "Component"}, {"javax.inject", "Inject"}, {"javax.inject", "Named"},
	{"javax.validation.constraints", "NotNull"}, {"javax.annotation", "Nullable"}, {"javax.validation", "Valid"},
	{"lombok", "Data"}, {"lombok", "Getter"}, {"lombok.extern.slf4j", "Slf4j"}, {"javax.persistence", "Entity"},
	{"javax.persistence", "Table"}, {"javax.persistence", "Id"}, {"javax.persistence", "Column"},
	{"org.springframework.web.bind.annotation", "RestController"}, {"org.springframework.web.bind.annotation", "GetMapping"},
	{"org.springframework.transaction.annotation", "Transactional"}, {"org.springframework.context.annotation", "Bean"},
	{"com.fasterxml.jackson.annotation", "JsonProperty"}, {"com.fasterxml.jackson.annotation", "JsonIgnore"},
	{"de.bank.pruefung", "Geprüft"}, {"de.bank.pruefung", "Prüfen"}, {"cn.shop.anno", "必填"}, {"fr.boutique.anno", "Vérifié"},
}

var exceptionPool = []qname{
	{"java.io", "IOException"}, {"java.sql", "SQLException"}, {"java.util.concurrent", "TimeoutException"},
	{"java.text", "ParseException"}, {"java.net", "URISyntaxException"}, {"java.util.concurrent", "ExecutionException"},
	{"java.io", "FileNotFoundException"}, {"org.springframework.dao", "DataAccessException"},
	{"javax.validation", "ValidationException"}, {"com.fasterxml.jackson.core", "JsonProcessingException"},
	{"org.springframework.web.client", "HttpClientErrorException"},
	{"de.bank.fehler", "UngültigeÜberweisungException"}, {"de.bank.fehler", "GebührenFehler"}, {"cn.shop.exc", "订单异常"},
}

var holderPool = []qname{
	{"org.junit", "Assert"}, {"org.junit.jupiter.api", "Assertions"}, {"java.util.concurrent", "TimeUnit"},
	{"java.nio.charset", "StandardCharsets"}, {"org.mockito", "Mockito"}, {"com.google.common.base", "Preconditions"},
	{"org.apache.commons.lang3", "StringUtils"}, {"org.springframework.http", "HttpStatus"},
	{"org.springframework.http", "MediaType"}, {"com.acme.shared", "Constants"}, {"org.hamcrest", "CoreMatchers"},
	{"com.google.common.collect", "Lists"}, {"com.acme.shared", "Defaults"},
}

var staticMethodPool = []string{"assertEquals", "assertTrue", "assertThat", "requireNonNull", "asList", "emptyList", "singletonList",
	"toList", "joining", "format", "valueOf", "of", "when", "verify", "mock", "checkNotNull", "isBlank", "max", "min", "is",
	"prüfe", "berechneGebühr", "überweise", "创建"}

var staticConstPool = []string{"MAX_VALUE", "MIN_VALUE", "UTF_8", "SECONDS", "MILLISECONDS", "EMPTY", "DEFAULT_TIMEOUT", "PI", "ZERO",
	"ONE", "TEN", "INSTANCE", "NONE", "OK", "NOT_FOUND", "GET", "POST", "APPLICATION_JSON", "E", "out", "err", "instance",
	"GEBÜHR", "MAX_GRÖSSE", "größe", "默认", "ΔT"}

var wildcardPkgs = []string{"java.util", "java.io", "java.util.function", "java.time", "javax.persistence", "org.junit", "com.acme.model",
	"org.springframework.web.bind.annotation", "com.vendor.lib.api", "java.util.concurrent"}

var ownPkgs = []string{"com.acme.shop", "com.acme.shop.order", "com.acme.shop.billing", "org.demo.app", "org.demo.app.web", "io.sample.core",
	"polymorphism", "com.acme.shop.order.internal"}

var typePrefixes = []string{"Order", "Customer", "Invoice", "Payment", "User", "Account", "Report", "Stock", "Cart", "Ledger", "Shipment", "Catalog"}

// ordinary production class names whose file name ends in "test.java" / "tests.java" in lower case: they are NOT test
// sources (only *Test.java / *Tests.java are) and must be cleaned like every other file
var lowerTestNames = []string{"Contest", "Latest", "Protests", "Backtests", "Greatest", "Attest", "Contests", "Detest", "Backtest"}

var typeSuffixes = []string{"Service", "Repository", "Controller", "Handler", "Manager", "Mapper", "Factory", "Validator", "Config", "Client", "Facade", "Job"}

// names the renderer uses without importing them (java.lang or type parameters): never drawn as import names
var reserved = map[string]bool{"String": true, "Object": true, "Integer": true, "Runnable": true, "Iterable": true, "Comparable": true, "Class": true,
	"ThreadLocal": true, "Exception": true, "RuntimeException": true, "IllegalStateException": true, "Math": true, "System": true, "Override": true,
	"Deprecated": true, "SuppressWarnings": true, "Thread": true, "T": true, "U": true, "V": true, "W": true, "Long": true}

// ---------------------------------------------------------------------------------------------------------------

type projGen struct {
	r       *run.Rand
	types   []qname // per-project pool of single-type names (with nature in natures)
	natures map[string]string
	methods []qname // holder path + member
	consts  []qname
	wild    []string
	used    map[string]bool // type names of the project's own files
}

func (g *projGen) synthType() qname {
	for {
		var sb strings.Builder
		sb.WriteByte(byte('A' + g.r.Intn(26)))
		n := g.r.PickInt(0, 1, 2, 3, 4, 6, 9, 14, 28)
		for i := 0; i < n; i++ {
			if i > 0 && i%5 == 4 {
				sb.WriteByte(byte('A' + g.r.Intn(26)))
			} else {
				sb.WriteByte(byte('a' + g.r.Intn(26)))
			}
		}
		if g.r.Chance(1, 4) {
			sb.WriteByte(byte('0' + g.r.Intn(10)))
		}
		s := sb.String()
		if g.r.Chance(1, 5) {
			// one non-ASCII letter: as the first letter, somewhere inside, or as the last
			switch rs := []rune(s); g.r.Intn(3) {
			case 0:
				s = g.r.Pick([]string{"Ä", "Ö", "Ü", "É", "Ñ", "Ø", "Ж", "Ω"}) + string(rs[1:])
			case 1:
				k := g.r.Intn(len(rs)) + 1
				s = string(rs[:k]) + g.r.Pick([]string{"ä", "ö", "ü", "ß", "é", "ñ", "ç", "ø", "ж", "单"}) + string(rs[k:])
			default:
				s += g.r.Pick([]string{"ä", "é", "ß", "ю", "单"})
			}
		}
		if reserved[s] || g.natures[s] != "" || g.used[s] {
			continue
		}
		ok := true
		for _, h := range holderPool {
			if h.simple == s {
				ok = false
			}
		}
		for _, c := range staticConstPool {
			if c == s {
				ok = false
			}
		}
		if !ok {
			continue
		}
		return qname{"com.vendor." + g.r.Pick([]string{"lib", "core", "api", "model"}), s}
	}
}

func (g *projGen) buildPools() {
	g.natures = map[string]string{}
	nTypes := g.r.Range(3, 16)
	for len(g.types) < nTypes {
		var q qname
		var nat string
		switch x := g.r.Intn(100); {
		case x < 45:
			q, nat = classPool[g.r.Intn(len(classPool))], "class"
		case x < 65:
			q, nat = annotationPool[g.r.Intn(len(annotationPool))], "annotation"
		case x < 85:
			q, nat = exceptionPool[g.r.Intn(len(exceptionPool))], "exception"
		default:
			q, nat = g.synthType(), g.r.Pick([]string{"class", "class", "annotation", "exception"})
		}
		if g.natures[q.simple] != "" {
			continue
		}
		g.natures[q.simple] = nat
		g.types = append(g.types, q)
	}
	seen := map[string]bool{}
	nm := g.r.Range(1, 5)
	for len(g.methods) < nm {
		h := holderPool[g.r.Intn(len(holderPool))]
		m := g.r.Pick(staticMethodPool)
		if seen[m] {
			continue
		}
		seen[m] = true
		g.methods = append(g.methods, qname{h.pkg + "." + h.simple, m})
	}
	nc := g.r.Range(1, 5)
	for len(g.consts) < nc {
		h := holderPool[g.r.Intn(len(holderPool))]
		m := g.r.Pick(staticConstPool)
		if seen[m] {
			continue
		}
		seen[m] = true
		g.consts = append(g.consts, qname{h.pkg + "." + h.simple, m})
	}
	for _, i := range g.r.Perm(len(wildcardPkgs))[:g.r.Range(2, 5)] {
		g.wild = append(g.wild, wildcardPkgs[i])
	}
}

// Generate draws one directory.
func Generate(r *run.Rand, o Opts) *Project {
	g := &projGen{r: r, used: map[string]bool{}}
	p := &Project{Layout: r.Pick([]string{"flat", "packages", "packages", "maven"})}
	nFiles := r.Range(o.MinFiles, o.MaxFiles)
	// own type names first (import names must differ from them)
	type slot struct {
		pkg, name string
		bystander bool
	}
	var slots []slot
	basePkgs := []string{}
	for _, i := range r.Perm(len(ownPkgs))[:r.Range(1, 3)] {
		basePkgs = append(basePkgs, ownPkgs[i])
	}
	for len(slots) < nFiles {
		name := r.Pick(typePrefixes) + r.Pick(typeSuffixes)
		if r.Chance(1, 6) {
			name = r.Pick(typePrefixes)
		}
		bystander := false
		switch x := r.Intn(100); {
		case x < 8:
			name = r.Pick(lowerTestNames)
		case x < 12:
			name = r.Pick(typePrefixes) + r.Pick(lowerTestNames)
		case x < 17 && nFiles >= 2 && len(slots) > 0:
			// a real test source by name, next to the production classes
			name = r.Pick(typePrefixes) + r.Pick(typeSuffixes) + r.Pick([]string{"Test", "Tests", "Test", "IT" + "Test"})
			bystander = true
		}
		if g.used[name] {
			continue
		}
		g.used[name] = true
		slots = append(slots, slot{r.Pick(basePkgs), name, bystander})
	}
	g.buildPools()

	// profiles: make sure multi-file directories regularly hold a clean file between two dirty ones
	profiles := make([]string, nFiles)
	for i := range profiles {
		switch x := r.Intn(100); {
		case x < 10:
			profiles[i] = "none"
		case x < 30:
			profiles[i] = "clean"
		case x < 88:
			profiles[i] = "dirty"
		default:
			profiles[i] = "all-unused"
		}
	}
	for i := range slots {
		rel := slots[i].name + ".java"
		switch p.Layout {
		case "packages":
			rel = strings.ReplaceAll(slots[i].pkg, ".", "/") + "/" + rel
		case "maven":
			rel = "src/main/java/" + strings.ReplaceAll(slots[i].pkg, ".", "/") + "/" + rel
		}
		p.Files = append(p.Files, File{Rel: rel, Pkg: slots[i].pkg, TypeName: slots[i].name, Bystander: slots[i].bystander})
	}
	sort.SliceStable(p.Files, func(a, b int) bool { return walkLess(p.Files[a].Rel, p.Files[b].Rel) })
	if nFiles >= 3 && r.Chance(1, 2) {
		// dirty … clean … dirty in walk order
		k := r.Range(1, nFiles-2)
		profiles[k] = r.Pick([]string{"clean", "none", "clean"})
		profiles[r.Intn(k)] = "dirty"
		profiles[k+1+r.Intn(nFiles-k-1)] = "dirty"
	}
	for i := range p.Files {
		f := &p.Files[i]
		f.Profile = profiles[i]
		fg := &fileGen{g: g, r: r.Fork(), f: f, maxImports: o.MaxImports}
		fg.generate()
	}
	return p
}

// walkLess orders relative slash paths the way filepath.Walk visits them (names sorted per directory).
func walkLess(a, b string) bool {
	as, bs := strings.Split(a, "/"), strings.Split(b, "/")
	for i := 0; i < len(as) && i < len(bs); i++ {
		if as[i] != bs[i] {
			return as[i] < bs[i]
		}
	}
	return len(as) < len(bs)
}

// ---------------------------------------------------------------------------------------------------------------
// one file

type method struct {
	annots     []string
	typeParams string
	ret        string
	name       string
	params     []string
	varargs    string
	throws     []string
	body       []string // relative lines, "\t" = one indent level
	nested     bool
}

type fileGen struct {
	g          *projGen
	r          *run.Rand
	f          *File
	maxImports int
	seq        int

	headerAnnots []string
	typeParams   []string
	extends      []string
	implements   []string
	fields       [][]string
	methods      []*method
	members      [][]string // whole extra members
	javadoc      []string
	bodyComments []string
}

func (fg *fileGen) id(prefix string) string {
	fg.seq++
	return fmt.Sprintf("%s%d", prefix, fg.seq)
}

func pickWeighted(r *run.Rand, ws []weighted, ok func(string) bool) string {
	total := 0
	for _, w := range ws {
		if ok(w.role) {
			total += w.w
		}
	}
	if total == 0 {
		return ""
	}
	x := r.Intn(total)
	for _, w := range ws {
		if !ok(w.role) {
			continue
		}
		if x < w.w {
			return w.role
		}
		x -= w.w
	}
	return ""
}

func (fg *fileGen) generate() {
	r, f := fg.r, fg.f
	switch x := r.Intn(100); {
	case x < 64:
		f.TypeKind = "class"
	case x < 70:
		f.TypeKind = "abstract-class"
	case x < 82:
		f.TypeKind = "interface"
	case x < 91:
		f.TypeKind = "enum"
	case x < 96:
		f.TypeKind = "record"
	default:
		f.TypeKind = "annotation-type"
	}
	annoType := f.TypeKind == "annotation-type"
	n := 0
	if f.Profile != "none" {
		n = r.Range(1, fg.maxImports)
		if r.Chance(1, 3) {
			n = r.Range(1, 4)
		}
	}
	// draw the imports
	taken := map[string]bool{}
	holders := map[string]bool{}
	for len(f.Imports) < n {
		im := Import{}
		switch x := r.Intn(100); {
		case x < 60:
			im.Kind = KindSingle
		case x < 71:
			im.Kind = KindWildcard
		case x < 83:
			im.Kind = KindStaticMethod
		case x < 95:
			im.Kind = KindStaticConst
		default:
			im.Kind = KindStaticWildcard
		}
		switch im.Kind {
		case KindSingle:
			var q qname
			if r.Chance(1, 8) {
				q = fg.g.synthType()
				im.Nature = r.Pick([]string{"class", "class", "annotation", "exception"})
			} else {
				q = fg.g.types[r.Intn(len(fg.g.types))]
				im.Nature = fg.g.natures[q.simple]
			}
			if taken[q.simple] || holders[q.simple] || q.simple == f.TypeName {
				continue
			}
			im.Name, im.Simple = q.pkg+"."+q.simple, q.simple
		case KindWildcard:
			pk := r.Pick(fg.g.wild)
			if taken[pk+".*"] {
				continue
			}
			im.Name, im.Simple, im.Nature = pk+".*", "*", "package"
			taken[pk+".*"] = true
		case KindStaticWildcard:
			h := holderPool[r.Intn(len(holderPool))]
			nm := h.pkg + "." + h.simple + ".*"
			if taken[nm] || taken[h.simple] {
				continue
			}
			im.Name, im.Simple, im.Nature = nm, "*", "package"
			taken[nm] = true
			holders[h.simple] = true
		case KindStaticMethod, KindStaticConst:
			pool, nat := fg.g.methods, "method"
			if im.Kind == KindStaticConst {
				pool, nat = fg.g.consts, "const"
			}
			q := pool[r.Intn(len(pool))]
			holder := q.pkg[strings.LastIndex(q.pkg, ".")+1:]
			if taken[q.simple] || taken[holder] {
				continue
			}
			im.Name, im.Simple, im.Nature = q.pkg+"."+q.simple, q.simple, nat
			holders[holder] = true
		}
		if im.Simple != "*" {
			taken[im.Simple] = true
		}
		f.Imports = append(f.Imports, im)
	}
	// used / unused mix
	nonWild := []int{}
	for i := range f.Imports {
		if !f.Imports[i].IsWildcard() {
			nonWild = append(nonWild, i)
		}
	}
	usedFlag := map[int]bool{}
	switch f.Profile {
	case "clean":
		for _, i := range nonWild {
			usedFlag[i] = true
		}
	case "all-unused":
	case "dirty":
		for _, i := range nonWild {
			usedFlag[i] = r.Chance(11, 20)
		}
		if len(nonWild) > 0 {
			// at least one unused
			anyUnused := false
			for _, i := range nonWild {
				if !usedFlag[i] {
					anyUnused = true
				}
			}
			if !anyUnused {
				usedFlag[nonWild[r.Intn(len(nonWild))]] = false
			}
		}
	}
	hasExtends := false
	for i := range f.Imports {
		im := &f.Imports[i]
		if im.IsWildcard() {
			continue
		}
		if !usedFlag[i] {
			if r.Chance(1, 12) {
				im.Mentions = []string{r.Pick([]string{"javadoc-link", "line-comment", "string-literal", "block-comment"})}
				if annoType {
					im.Mentions = []string{r.Pick([]string{"javadoc-link", "block-comment"})}
				}
			}
			continue
		}
		var table []weighted
		switch im.Nature {
		case "class":
			table = classRoles
		case "annotation":
			table = annotationRoles
		case "exception":
			table = exceptionRoles
			if annoType {
				table = classRoles // an annotation type has no bodies and no throws clauses
			}
		case "method":
			table = methodRoles
		case "const":
			table = constRoles
		}
		nr := r.PickInt(1, 1, 1, 2, 2, 3)
		seen := map[string]bool{}
		for k := 0; k < nr; k++ {
			role := pickWeighted(r, table, func(role string) bool {
				if seen[role] {
					return false
				}
				if annoType {
					return annotationTypeRoles[role]
				}
				switch role {
				case "extends":
					if f.TypeKind == "enum" || f.TypeKind == "record" || (f.TypeKind != "interface" && hasExtends) {
						return false
					}
				case "implements":
					if f.TypeKind == "interface" {
						return false
					}
				case "class-typeparam-bound":
					if f.TypeKind == "enum" {
						return false
					}
				}
				return true
			})
			if role == "" {
				break
			}
			seen[role] = true
			if role == "extends" {
				hasExtends = true
			}
			im.Roles = append(im.Roles, role)
		}
		sort.Strings(im.Roles)
	}
	fg.plant()
	fg.render()
}

// ---------------------------------------------------------------------------------------------------------------
// planting uses

func (fg *fileGen) pickMethod(ok func(m *method) bool) *method {
	var cands []*method
	for _, m := range fg.methods {
		if ok == nil || ok(m) {
			cands = append(cands, m)
		}
	}
	if len(cands) > 0 && !fg.r.Chance(1, 4) {
		return cands[fg.r.Intn(len(cands))]
	}
	m := &method{name: fg.id(fg.r.Pick([]string{"load", "apply", "handle", "compute", "find", "update", "render"})), ret: "void"}
	fg.methods = append(fg.methods, m)
	return m
}

// deepTail is ".Mid1.Inner2" or ".Mid1.Sub2.Inner3": the rest of a three- or four-segment nested name.
func (fg *fileGen) deepTail(last string) string {
	t := "." + fg.id(fg.r.Pick([]string{"Mid", "Codes", "Client"}))
	if fg.r.Chance(1, 3) {
		t += "." + fg.id(fg.r.Pick([]string{"Sub", "Kind"}))
	}
	return t + "." + fg.id(last)
}

func (fg *fileGen) stmt(lines ...string) {
	m := fg.pickMethod(nil)
	m.body = append(m.body, lines...)
}

func (fg *fileGen) fieldMods() string {
	switch fg.f.TypeKind {
	case "interface", "annotation-type":
		return ""
	case "record": // a record declares no instance fields
		return fg.r.Pick([]string{"private static ", "static ", "public static final ", "private static final "})
	}
	return fg.r.Pick([]string{"private ", "private final ", "protected ", "private static ", "", "public static final "})
}

func (fg *fileGen) plant() {
	r, f := fg.r, fg.f
	iface := f.TypeKind == "interface" || f.TypeKind == "annotation-type"
	annoType := f.TypeKind == "annotation-type"
	for i := range f.Imports {
		im := &f.Imports[i]
		N := im.Simple
		for _, role := range im.Roles {
			v := fg.id("value")
			switch role {
			case "field-type":
				if iface || r.Bool() {
					fg.fields = append(fg.fields, []string{fg.fieldMods() + N + " " + v + " = null;"})
				} else {
					mods := r.Pick([]string{"private ", "protected ", "", "private static "})
					if f.TypeKind == "record" {
						mods = "private static "
					}
					fg.fields = append(fg.fields, []string{mods + N + " " + v + ";"})
				}
			case "field-array-type":
				fg.fields = append(fg.fields, []string{fg.fieldMods() + N + "[] " + v + " = null;"})
			case "field-generic-arg":
				t := r.Pick([]string{"Iterable<" + N + ">", "Comparable<? extends " + N + ">", "ThreadLocal<" + N + ">", "Class<? super " + N + ">", "Iterable<Iterable<" + N + ">>", "Iterable<" + N + "[]>"})
				fg.fields = append(fg.fields, []string{fg.fieldMods() + t + " " + v + " = null;"})
			case "field-init-new":
				fg.fields = append(fg.fields, []string{fg.fieldMods() + "Object " + v + " = new " + N + r.Pick([]string{"()", "(1)", "(\"a\", 2)"}) + ";"})
			case "field-init-static-receiver":
				fg.fields = append(fg.fields, []string{fg.fieldMods() + "Object " + v + " = " + N + "." + fg.id("create") + r.Pick([]string{"()", "(3)", "(\"k\")"}) + ";"})
			case "annotation-field":
				a := "@" + N + r.Pick([]string{"", "", "", "(\"x\")", "(name = \"col\", length = 20)", "()"})
				decl := fg.fieldMods() + "int " + v + " = 0;"
				if r.Bool() {
					fg.fields = append(fg.fields, []string{a, decl})
				} else {
					fg.fields = append(fg.fields, []string{a + " " + decl})
				}
			case "call-field-init":
				fg.fields = append(fg.fields, []string{fg.fieldMods() + "Object " + v + " = " + N + r.Pick([]string{"()", "(1, 2)", "(\"s\")"}) + ";"})
			case "const-field-init":
				fg.fields = append(fg.fields, []string{fg.fieldMods() + "Object " + v + " = " + N + ";"})

			case "extends":
				fg.extends = append(fg.extends, N)
			case "implements":
				fg.implements = append(fg.implements, N)
			case "class-typeparam-bound":
				fg.typeParams = append(fg.typeParams, []string{"T", "U", "V", "W"}[len(fg.typeParams)%4]+" extends "+N)
			case "annotation-class":
				fg.headerAnnots = append(fg.headerAnnots, "@"+N)
			case "annotation-class-args":
				fg.headerAnnots = append(fg.headerAnnots, "@"+N+r.Pick([]string{"(\"orders\")", "(name = \"t_order\")", "(value = \"x\", required = false)", "({\"a\", \"b\"})"}))

			case "return-type":
				m := fg.pickMethod(func(m *method) bool { return m.ret == "void" })
				m.ret = N
			case "return-generic-arg":
				m := fg.pickMethod(func(m *method) bool { return m.ret == "void" })
				m.ret = r.Pick([]string{"Iterable<" + N + ">", "Comparable<" + N + ">", "Class<? extends " + N + ">"})
			case "param-type":
				m := fg.pickMethod(nil)
				m.params = append(m.params, r.Pick([]string{"", "", "final "})+N+" "+fg.id("arg"))
			case "param-generic-arg":
				m := fg.pickMethod(nil)
				m.params = append(m.params, r.Pick([]string{"Iterable<" + N + ">", "Comparable<? super " + N + ">"})+" "+fg.id("arg"))
			case "param-varargs-type":
				m := fg.pickMethod(func(m *method) bool { return m.varargs == "" })
				if m.varargs != "" {
					m = &method{name: fg.id("collect"), ret: "void"}
					fg.methods = append(fg.methods, m)
				}
				m.varargs = N + "... " + fg.id("arg")
			case "annotation-param":
				m := fg.pickMethod(nil)
				m.params = append(m.params, "@"+N+r.Pick([]string{"", "(\"id\")"})+" String "+fg.id("arg"))
			case "annotation-method":
				m := fg.pickMethod(nil)
				m.annots = append(m.annots, "@"+N)
			case "annotation-method-args":
				m := fg.pickMethod(nil)
				m.annots = append(m.annots, "@"+N+r.Pick([]string{"(\"/orders\")", "(timeout = 30)", "(value = \"/x\", produces = \"text/plain\")", "()"}))
			case "annotation-nested":
				m := fg.pickMethod(nil)
				m.annots = append(m.annots, "@"+N+"."+fg.id("Inner")+r.Pick([]string{"", "(\"x\")"}))
			case "annotation-nested-deep":
				m := fg.pickMethod(nil)
				m.annots = append(m.annots, "@"+N+fg.deepTail("Inner")+r.Pick([]string{"", "(\"x\")", "(name = \"n\")"}))
			case "const-annotation-value":
				m := fg.pickMethod(nil)
				m.annots = append(m.annots, r.Pick([]string{"@SuppressWarnings(" + N + ")", "@SuppressWarnings(value = " + N + ")"}))
			case "method-typeparam-bound":
				m := fg.pickMethod(func(m *method) bool { return m.typeParams == "" })
				if m.typeParams != "" {
					m = &method{name: fg.id("convert"), ret: "void"}
					fg.methods = append(fg.methods, m)
				}
				m.typeParams = "<T extends " + N + ">"
			case "throws":
				m := fg.pickMethod(nil)
				m.throws = append(m.throws, N)
			case "throws-second":
				m := fg.pickMethod(nil)
				m.throws = append([]string{"IllegalStateException"}, append(m.throws, N)...)
			case "throws-nested":
				m := fg.pickMethod(nil)
				m.throws = append(m.throws, N+"."+fg.id("NotFound"))
			case "throws-nested-deep":
				m := fg.pickMethod(nil)
				m.throws = append(m.throws, N+fg.deepTail("NotFound"))

			case "local-type":
				fg.stmt(r.Pick([]string{"", "", "final "}) + N + " " + v + r.Pick([]string{" = null;", ";", " = null;"}))
			case "local-array-type":
				fg.stmt(N + "[] " + v + " = null;")
			case "local-generic-arg":
				fg.stmt(r.Pick([]string{"Iterable<" + N + ">", "Comparable<" + N + ">", "Class<? extends " + N + ">", "Iterable<Comparable<" + N + ">>"}) + " " + v + " = null;")
			case "foreach-type":
				fg.stmt("for ("+N+" "+fg.id("item")+" : "+fg.id("items")+"()) {", "\t"+fg.id("visit")+"();", "}")
			case "try-resource-type":
				fg.stmt("try ("+N+" "+fg.id("res")+" = "+fg.id("open")+"()) {", "\t"+fg.id("use")+"();", "}")
			case "cast":
				fg.stmt("Object " + v + " = (" + N + ") " + fg.id("source") + "();")
			case "instanceof":
				fg.stmt("if ("+fg.id("source")+"() instanceof "+N+") {", "\t"+fg.id("mark")+"();", "}")
			case "class-literal":
				fg.stmt(r.Pick([]string{"Class<?> " + v + " = " + N + ".class;", fg.id("register") + "(" + N + ".class);"}))
			case "nested-type-qualifier":
				fg.stmt(N + "." + fg.id("Entry") + " " + v + " = null;")
			case "annotation-local":
				fg.stmt("@" + N + " int " + v + " = 0;")
			case "new":
				fg.stmt(r.Pick([]string{"Object " + v + " = new " + N + "();", "new " + N + "(1, \"a\")." + fg.id("run") + "();", "Object " + v + " = new " + N + "(" + fg.id("seed") + "());"}))
			case "new-argument":
				fg.stmt(fg.id("consume") + "(" + r.Pick([]string{"", "1, "}) + "new " + N + "());")
			case "new-diamond":
				fg.stmt("Object " + v + " = new " + N + r.Pick([]string{"<>", "<String>", "<String, Integer>"}) + "();")
			case "new-array":
				fg.stmt("Object " + v + " = new " + N + r.Pick([]string{"[4]", "[0]", "[] { null }"}) + ";")
			case "new-anonymous":
				fg.stmt("Object "+v+" = new "+N+"() {", "\tpublic void "+fg.id("run")+"() {", "\t}", "};")
			case "throw-new":
				fg.stmt("if ("+fg.id("failed")+"()) {", "\tthrow new "+N+"(\"broken\");", "}")
			case "static-receiver":
				fg.stmt(r.Pick([]string{N + "." + fg.id("run") + "();", "int " + v + " = " + N + "." + fg.id("compute") + "(3);", "if (" + N + "." + fg.id("check") + "(1)) { " + fg.id("mark") + "(); }"}))
			case "static-receiver-argument":
				fg.stmt(fg.id("consume") + "(" + N + "." + fg.id("get") + "(), 2);")
			case "static-receiver-chained":
				fg.stmt(N + "." + fg.id("builder") + "()." + fg.id("with") + "(1)." + fg.id("build") + "();")
			case "static-field-receiver":
				fg.stmt("Object " + v + " = " + N + "." + strings.ToUpper(fg.id("limit")) + ";")
			case "method-ref":
				fg.stmt("Runnable " + v + " = " + N + "::" + fg.id("run") + ";")
			case "catch", "catch-final", "multi-catch-first", "multi-catch-last", "catch-nested", "catch-nested-deep":
				e := fg.id("ex")
				ct := N
				switch role {
				case "catch-final":
					ct = "final " + N
				case "multi-catch-first":
					ct = N + " | IllegalStateException"
				case "multi-catch-last":
					ct = "IllegalStateException | " + N
				case "catch-nested":
					ct = N + "." + fg.id("NotFound")
				case "catch-nested-deep":
					ct = N + fg.deepTail("NotFound")
					if r.Chance(1, 4) {
						ct = "IllegalStateException | " + ct
					}
				}
				if r.Bool() {
					fg.stmt("try {", "\t"+fg.id("work")+"();", "} catch ("+ct+" "+e+") {", "\tthrow new IllegalStateException("+e+");", "}")
				} else {
					fg.stmt("try {", "\t"+fg.id("work")+"();", "}", "catch ("+ct+" "+e+") {", "}", "finally {", "\t"+fg.id("close")+"();", "}")
				}
			case "call-statement":
				fg.stmt(N + r.Pick([]string{"();", "(1, 2);", "(\"msg\", " + fg.id("actual") + "());"}))
			case "call-initializer":
				fg.stmt("Object " + v + " = " + N + r.Pick([]string{"();", "(4);"}))
			case "call-argument":
				fg.stmt(fg.id("consume") + "(" + N + "(" + r.Pick([]string{"", "\"a\"", "1, 2"}) + "));")
			case "call-chained":
				fg.stmt(N + "(" + fg.id("mockOf") + "())." + fg.id("then") + "(1);")
			case "call-condition":
				fg.stmt("if ("+N+"("+fg.id("text")+"())) {", "\t"+fg.id("mark")+"();", "}")
			case "const-argument":
				fg.stmt(fg.id("consume") + "(" + r.Pick([]string{"", "1, "}) + N + ");")
			case "const-local-init":
				fg.stmt("Object " + v + " = " + N + ";")
			case "const-binary-left":
				fg.stmt("long " + v + " = " + N + " + 1;")
			case "const-binary-right":
				fg.stmt("long " + v + " = 2 * " + N + ";")
			case "const-assign":
				fg.stmt("Object "+v+";", v+" = "+N+";")
			case "const-case-label":
				fg.stmt("switch ("+fg.id("pick")+"()) {", "\tcase "+N+":", "\t\tbreak;", "\tdefault:", "\t\tbreak;", "}")
			case "const-receiver":
				fg.stmt(N + "." + fg.id("print") + "(\"x\");")
			case "const-array-index":
				fg.stmt("Object " + v + " = " + fg.id("table") + "()[" + N + "];")
			case "const-return":
				nm := fg.id("limit")
				mods := "public "
				if iface {
					mods = "default "
				}
				fg.members = append(fg.members, []string{mods + "Object " + nm + "() {", "\treturn " + N + ";", "}"})
			default:
				panic("importgen: role without renderer: " + role)
			}
		}
		for _, mn := range im.Mentions {
			switch mn {
			case "javadoc-link":
				fg.javadoc = append(fg.javadoc, "Works together with {@link "+N+"}.")
			case "line-comment":
				fg.stmt("// " + N + " was used here before the rewrite")
			case "block-comment":
				fg.bodyComments = append(fg.bodyComments, "/* see "+N+" */")
			case "string-literal":
				fg.stmt("String " + fg.id("label") + " = \"" + N + "\";")
			}
		}
		// decoys around unreferenced names: longer identifiers that merely contain the simple name
		if len(im.Roles) == 0 && !im.IsWildcard() && r.Chance(1, 3) {
			nr := []rune(N)
			lower := strings.ToLower(string(nr[:1])) + string(nr[1:])
			pick := r.Intn(3)
			if annoType {
				pick = 2
			}
			switch pick {
			case 0:
				fg.stmt("int " + lower + fg.id("Count") + " = 0;")
			case 1:
				fg.stmt(N + fg.id("Impl") + " " + fg.id("value") + " = null;")
			case 2:
				fg.fields = append(fg.fields, []string{fg.fieldMods() + "int my" + strings.ToUpper(string(nr[:1])) + string(nr[1:]) + fg.id("Size") + " = 0;"})
			}
		}
	}
	// filler so that files without uses are still conventional
	if annoType {
		if len(fg.methods) == 0 || r.Chance(1, 3) {
			fg.methods = append(fg.methods, &method{name: fg.id("label"), ret: "String"})
		}
	} else if len(fg.methods) == 0 || r.Chance(1, 3) {
		m := &method{name: fg.id("demo"), ret: r.Pick([]string{"void", "int", "String"})}
		if r.Bool() {
			m.params = append(m.params, "int "+fg.id("arg"))
		}
		m.body = append(m.body, fg.id("log")+"(\"a: \" + "+fg.id("count")+"());")
		fg.methods = append(fg.methods, m)
	}
	if r.Chance(1, 3) {
		fg.fields = append(fg.fields, []string{fg.fieldMods() + "String " + fg.id("name") + " = \"n\";"})
	}
	for _, m := range fg.methods {
		if !annoType && r.Chance(1, 3) {
			m.body = append(m.body, r.Pick([]string{"int " + fg.id("count") + " = 0;", fg.id("touch") + "();", "String " + fg.id("text") + " = \"import java.util.Nothing;\";"}))
		}
	}
}

// ---------------------------------------------------------------------------------------------------------------
// rendering

func zero(ret string) string {
	switch ret {
	case "void":
		return ""
	case "int":
		return "return 0;"
	}
	return "return null;"
}

func (fg *fileGen) render() {
	r, f := fg.r, fg.f
	var lines []string
	add := func(s ...string) { lines = append(lines, s...) }
	shape := []string{f.TypeKind}
	if f.Bystander {
		shape = append(shape, "test-by-name")
	}
	if low := strings.ToLower(f.TypeName); !f.Bystander && (strings.HasSuffix(low, "test") || strings.HasSuffix(low, "tests")) {
		shape = append(shape, "name-ends-in-test")
	}

	// header before the package line
	switch r.Intn(10) {
	case 0:
		add("/*", " * Copyright (c) 2019 Acme Corp.", " *", " * Licensed under the Apache License, Version 2.0.", " */")
		shape = append(shape, "hdr-block")
	case 1:
		add("// Generated header; do not edit.")
		shape = append(shape, "hdr-line")
	case 2:
		add("")
		shape = append(shape, "hdr-blank")
	}
	add("package " + f.Pkg + ";")
	// gap after package
	for k := r.PickInt(0, 1, 1, 1, 2, 3); k > 0; k-- {
		add("")
	}
	order := r.Perm(len(f.Imports))
	if r.Chance(2, 3) {
		// conventional grouping: keep generation order (mixed), or statics last
		order = make([]int, 0, len(f.Imports))
		var st []int
		for i := range f.Imports {
			if strings.HasPrefix(f.Imports[i].Kind, "static") {
				st = append(st, i)
			} else {
				order = append(order, i)
			}
		}
		if r.Bool() {
			order = append(order, st...)
		} else {
			order = append(st, order...)
		}
	}
	sorted := make([]Import, 0, len(f.Imports))
	for k, i := range order {
		im := f.Imports[i]
		im.Gap = "none"
		if k > 0 {
			switch x := r.Intn(100); {
			case x < 66:
			case x < 82:
				add("")
				im.Gap = "blank"
			case x < 87:
				add("", "")
				im.Gap = "blank2"
			case x < 93:
				add(r.Pick([]string{"// third-party libraries", "// project", "// static helpers"}))
				im.Gap = "line-comment"
			case x < 97:
				add("/* keep this group sorted */")
				im.Gap = "block-comment"
			default:
				add("/*", " * infrastructure", " */")
				im.Gap = "block-comment-multi"
			}
		}
		kw := "import "
		if strings.HasPrefix(im.Kind, "static") {
			kw = "import static "
		}
		switch x := r.Intn(100); {
		case x < 88:
			im.Style, im.Src = "plain", kw+im.Name+";"
		case x < 93:
			im.Style, im.Src = "trailing-comment", kw+im.Name+"; // needed by the build"
		case x < 97:
			im.Style, im.Src = "indented", r.Pick([]string{"  ", "\t", "    "})+kw+im.Name+";"
		default:
			im.Style, im.Src = "spaced", strings.Replace(kw, " ", "  ", 1)+im.Name+" ;"
		}
		add(im.Src)
		im.Line = len(lines)
		sorted = append(sorted, im)
		roles := strings.Join(im.Roles, "+")
		if len(im.Mentions) > 0 {
			roles += "~" + strings.Join(im.Mentions, "+")
		}
		if im.NonASCII() {
			roles += "!u"
		}
		shape = append(shape, im.Kind+":"+roles+":"+im.Gap+":"+im.Style)
	}
	f.Imports = sorted
	for k := r.PickInt(0, 1, 1, 1, 2); k > 0; k-- {
		add("")
	}

	ind := r.Pick([]string{"    ", "    ", "  ", "\t"})
	braceNext := r.Chance(1, 6)
	blankBetween := r.PickInt(0, 1, 1, 1, 2)
	emit := func(level int, rel []string) {
		for _, l := range rel {
			n := 0
			for strings.HasPrefix(l, "\t") {
				l = l[1:]
				n++
			}
			add(strings.Repeat(ind, level+n) + l)
		}
	}
	open := func(level int, head string) {
		if braceNext {
			emit(level, []string{head, "{"})
		} else {
			emit(level, []string{head + " {"})
		}
	}

	// type declaration
	if len(fg.javadoc) > 0 || r.Chance(1, 4) {
		add("/**", " * "+r.Pick([]string{"Handles the domain logic.", "Entry point for the module.", "Plain holder."}))
		for _, j := range fg.javadoc {
			add(" * " + j)
		}
		add(" */")
	}
	for _, a := range fg.headerAnnots {
		add(a)
	}
	head := "public "
	switch f.TypeKind {
	case "class":
		head += r.Pick([]string{"", "", "final "}) + "class " + f.TypeName
	case "abstract-class":
		head += "abstract class " + f.TypeName
	case "interface":
		head += "interface " + f.TypeName
	case "enum":
		head += "enum " + f.TypeName
	case "record":
		head += "record " + f.TypeName
	case "annotation-type":
		head += "@interface " + f.TypeName
	}
	if len(fg.typeParams) > 0 {
		head += "<" + strings.Join(fg.typeParams, ", ") + ">"
	}
	if f.TypeKind == "record" {
		head += "(" + r.Pick([]string{"", "int id", "int id, String label"}) + ")"
	}
	if len(fg.extends) > 0 {
		head += " extends " + strings.Join(fg.extends, ", ")
	}
	if len(fg.implements) > 0 {
		head += " implements " + strings.Join(fg.implements, ", ")
	}
	open(0, head)
	if f.TypeKind == "enum" {
		emit(1, []string{strings.ToUpper(fg.id("alpha")) + ", " + strings.ToUpper(fg.id("beta")) + ";"})
	}
	first := true
	sep := func() {
		if !first {
			for k := 0; k < blankBetween; k++ {
				add("")
			}
		}
		first = false
	}
	for _, fl := range fg.fields {
		if r.Chance(1, 2) {
			sep()
		}
		first = false
		emit(1, fl)
	}
	for _, c := range fg.bodyComments {
		sep()
		emit(1, []string{c})
	}
	// a nested class takes the tail of the method list in some class files
	nestedFrom := len(fg.methods)
	if (f.TypeKind == "class" || f.TypeKind == "abstract-class") && len(fg.methods) >= 2 && r.Chance(1, 8) {
		nestedFrom = len(fg.methods) - r.Range(1, 2)
		shape = append(shape, "nested")
	}
	renderMethod := func(level int, m *method, abstractOK bool) {
		for _, a := range m.annots {
			emit(level, []string{a})
		}
		params := append([]string{}, m.params...)
		if m.varargs != "" {
			params = append(params, m.varargs)
		}
		sig := ""
		hasBody := true
		if f.TypeKind == "annotation-type" {
			ret := m.ret
			if ret == "void" {
				ret = "String"
			}
			dflt := ""
			if ret == "String" && r.Bool() {
				dflt = " default \"\""
			}
			emit(level, []string{ret + " " + m.name + "()" + dflt + ";"})
			return
		}
		switch {
		case f.TypeKind == "interface":
			if len(m.body) == 0 {
				hasBody = false
			} else {
				sig = "default "
			}
		case abstractOK && len(m.body) == 0 && r.Bool():
			sig = r.Pick([]string{"public abstract ", "protected abstract ", "abstract "})
			hasBody = false
		default:
			sig = r.Pick([]string{"public ", "public ", "private ", "protected ", "", "public static ", "public final "})
		}
		if m.typeParams != "" {
			sig += m.typeParams + " "
		}
		sig += m.ret + " " + m.name + "(" + strings.Join(params, ", ") + ")"
		if len(m.throws) > 0 {
			sig += " throws " + strings.Join(m.throws, ", ")
		}
		if !hasBody {
			emit(level, []string{sig + ";"})
			return
		}
		open(level, sig)
		emit(level+1, m.body)
		if z := zero(m.ret); z != "" {
			emit(level+1, []string{z})
		}
		emit(level, []string{"}"})
	}
	for i, m := range fg.methods {
		if i == nestedFrom {
			sep()
			open(1, r.Pick([]string{"static class ", "private static final class ", "class "})+fg.id("Inner"))
		}
		if i >= nestedFrom {
			if i > nestedFrom {
				add("")
			}
			renderMethod(2, m, false)
			continue
		}
		sep()
		if r.Chance(1, 10) {
			emit(1, []string{r.Pick([]string{"// ---- operations ----", "/* helper */", "/** Does the work. */"})})
		}
		renderMethod(1, m, f.TypeKind == "abstract-class")
	}
	if nestedFrom < len(fg.methods) {
		emit(1, []string{"}"})
	}
	for _, mb := range fg.members {
		sep()
		emit(1, mb)
	}
	add("}")

	f.CRLF = r.Chance(1, 12)
	f.FinalNL = !r.Chance(1, 12)
	nl := "\n"
	if f.CRLF {
		nl = "\r\n"
		shape = append(shape, "crlf")
	}
	f.Text = strings.Join(lines, nl)
	if f.FinalNL {
		f.Text += nl
	}
	if f.CRLF {
		for i := range f.Imports {
			f.Imports[i].Src += "\r"
		}
	}
	f.shape = strings.Join(shape, ",")
}

// ---------------------------------------------------------------------------------------------------------------
// self-check: an independent lexical scan of the rendered text must agree with the planted record

type tokenAt struct {
	text string
	line int
	code bool // false: inside a comment or a string / char literal
}

func isIdentStart(c byte) bool {
	return c == '_' || c == '$' || (c >= 'a' && c <= 'z') || (c >= 'A' && c <= 'Z') || c >= 0x80 // UTF-8 bytes of non-ASCII letters
}

func isIdentPart(c byte) bool { return isIdentStart(c) || (c >= '0' && c <= '9') }

// scan returns every identifier-shaped word with its line and whether it is code.
func scan(text string) []tokenAt {
	var out []tokenAt
	line := 1
	const (
		sCode = iota
		sLine
		sBlock
		sStr
		sChar
	)
	st := sCode
	i := 0
	for i < len(text) {
		c := text[i]
		if c == '\n' {
			line++
			if st == sLine {
				st = sCode
			}
			i++
			continue
		}
		switch st {
		case sCode:
			switch {
			case c == '/' && i+1 < len(text) && text[i+1] == '/':
				st = sLine
				i += 2
				continue
			case c == '/' && i+1 < len(text) && text[i+1] == '*':
				st = sBlock
				i += 2
				continue
			case c == '"':
				st = sStr
				i++
				continue
			case c == '\'':
				st = sChar
				i++
				continue
			}
		case sBlock:
			if c == '*' && i+1 < len(text) && text[i+1] == '/' {
				st = sCode
				i += 2
				continue
			}
		case sStr:
			if c == '\\' {
				i += 2
				continue
			}
			if c == '"' {
				st = sCode
				i++
				continue
			}
		case sChar:
			if c == '\\' {
				i += 2
				continue
			}
			if c == '\'' {
				st = sCode
				i++
				continue
			}
		}
		if isIdentStart(c) && (i == 0 || !isIdentPart(text[i-1])) {
			j := i
			for j < len(text) && isIdentPart(text[j]) {
				j++
			}
			out = append(out, tokenAt{text[i:j], line, st == sCode})
			i = j
			continue
		}
		i++
	}
	return out
}

// SelfCheck verifies the planted record against the rendered text.
func SelfCheck(p *Project) error {
	rels := map[string]bool{}
	for fi := range p.Files {
		f := &p.Files[fi]
		if rels[f.Rel] {
			return fmt.Errorf("duplicate path %s", f.Rel)
		}
		rels[f.Rel] = true
		if fi > 0 && !walkLess(p.Files[fi-1].Rel, f.Rel) {
			return fmt.Errorf("files not in walk order")
		}
		if byName := strings.HasSuffix(f.Rel, "Test.java") || strings.HasSuffix(f.Rel, "Tests.java"); byName != f.Bystander || strings.Contains(f.Rel, "src/test/java/") {
			return fmt.Errorf("%s: test-source status by name (%v) differs from the planted one (%v)", f.Rel, byName, f.Bystander)
		}
		lines := strings.Split(f.Text, "\n")
		srcSeen := map[string]bool{}
		importLine := map[int]bool{}
		pkgLine := 0
		for li, l := range lines {
			if strings.HasPrefix(strings.TrimSpace(l), "package ") && pkgLine == 0 {
				pkgLine = li + 1
			}
		}
		if pkgLine == 0 {
			return fmt.Errorf("%s: no package line", f.Rel)
		}
		prev := 0
		for i := range f.Imports {
			im := &f.Imports[i]
			if im.Line <= pkgLine || im.Line <= prev || im.Line > len(lines) {
				return fmt.Errorf("%s: import %s at line %d (package line %d, previous import %d)", f.Rel, im.Name, im.Line, pkgLine, prev)
			}
			prev = im.Line
			if lines[im.Line-1] != im.Src {
				return fmt.Errorf("%s: line %d is %q, planted %q", f.Rel, im.Line, lines[im.Line-1], im.Src)
			}
			if srcSeen[im.Src] {
				return fmt.Errorf("%s: duplicate import line %q", f.Rel, im.Src)
			}
			srcSeen[im.Src] = true
			importLine[im.Line] = true
			squeezed := strings.Join(strings.Fields(strings.TrimSuffix(strings.SplitN(im.Src, ";", 2)[0], " ")), " ")
			want := "import " + im.Name
			if strings.HasPrefix(im.Kind, "static") {
				want = "import static " + im.Name
			}
			if squeezed != want {
				return fmt.Errorf("%s: line %d reads %q, want %q", f.Rel, im.Line, squeezed, want)
			}
			if !im.IsWildcard() && !strings.HasSuffix(im.Name, "."+im.Simple) {
				return fmt.Errorf("%s: simple name %q is not the last segment of %q", f.Rel, im.Simple, im.Name)
			}
		}
		// no other line may look like an import declaration
		for li, l := range lines {
			if strings.HasPrefix(strings.TrimSpace(l), "import ") && !importLine[li+1] {
				return fmt.Errorf("%s: unplanted import line %d", f.Rel, li+1)
			}
		}
		toks := scan(f.Text)
		for i := range f.Imports {
			im := &f.Imports[i]
			if im.IsWildcard() {
				continue
			}
			code, other, decl := 0, 0, 0
			for _, t := range toks {
				if t.text != im.Simple || t.line == im.Line {
					continue
				}
				switch {
				case t.line == pkgLine || importLine[t.line]:
					decl++
				case t.code:
					code++
				default:
					other++
				}
			}
			if decl > 0 {
				return fmt.Errorf("%s: simple name %s also occurs in the package line or another import", f.Rel, im.Simple)
			}
			if (code > 0) != (len(im.Roles) > 0) {
				return fmt.Errorf("%s: %s planted with roles %v but occurs %d times in code", f.Rel, im.Simple, im.Roles, code)
			}
			if len(im.Roles) > 0 && code < len(im.Roles) {
				return fmt.Errorf("%s: %s planted with %d roles but occurs only %d times", f.Rel, im.Simple, len(im.Roles), code)
			}
			if len(im.Roles) == 0 && (other > 0) != (len(im.Mentions) > 0) {
				return fmt.Errorf("%s: %s planted with mentions %v but occurs %d times in comments/strings", f.Rel, im.Simple, im.Mentions, other)
			}
		}
	}
	return nil
}
