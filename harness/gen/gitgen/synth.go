package gitgen

import (
	"fmt"
	"sort"
	"strings"

	"verifharness/run"
)

// SynthChange / SynthCommit: a directly synthesised commit list of exactly the shape coca's parser produces for
// `git log --numstat --summary`: File is the numstat path (rename notation for a rename pair, printed by the port of
// git's pprint_rename), Mode is "create" / "delete" / "" (a rename has no create/delete summary line).
type SynthChange struct {
	Added   int    `json:"Added"`
	Deleted int    `json:"Deleted"`
	File    string `json:"File"`
	Mode    string `json:"Mode"`
	Old     string `json:"old,omitempty"` // planted: rename source
	New     string `json:"new,omitempty"` // planted: rename target
	Sim     int    `json:"-"`
}

type SynthCommit struct {
	Rev     string        `json:"Rev"`
	Author  string        `json:"Author"`
	Date    string        `json:"Date"`
	Message string        `json:"Message"`
	Changes []SynthChange `json:"Changes"`
}

type SynthOpts struct {
	MaxCommits, MaxAuthors, MaxFiles, MaxChain int
	// NonMonotoneDates: in a third of the histories about every 6th commit carries a date 1-60 days EARLIER than its
	// predecessor's (a cherry-picked / rebased commit, a merged long-lived branch). Such a commit only creates files,
	// so for every file the first commit (in list order) is also its earliest-dated commit and "first-commit date"
	// stays unambiguous.
	NonMonotoneDates bool
	// DoubleCreate: now and then an existing path gets a second change of mode "create" with no deletion in between
	// (the linear log of two merged branches that both added the file).
	DoubleCreate bool
}

type SynthStats struct {
	Renames, Deletes, Recreates, MaxChain, IntoSub, OutOfSub, FullPath, Brace, RenameBack int
	RootIntoDirBrace, DirToRootBrace                                                      int // `{ => cmd}/main.go`, `{src => }/app.go`
	TwinAuthors                                                                           int // two authors that differ only in letter case
	DipCommits, DoubleCreates                                                             int
}

// synthTwins: distinct author names (git compares them byte-wise) that a case-folding key would merge.
var synthTwins = [][2]string{{"Phodal Huang", "Phodal HUANG"}, {"bob", "Bob"}, {"Ada L", "ada l"}, {"José Álvarez", "JOSÉ ÁLVAREZ"}, {"team-bot", "Team-Bot"}}

var synthAuthors = []string{"Ann Lee", "dev42", "R2 D2", "Phodal Huang", "José Álvarez", "王小明", "bob", "Zoe Q",
	"Carl von Ossietzky", "m.k", "Ada L", "team-bot", "Ng Wei", "Olu 7"}
var synthDirs = []string{"", "src", "src/main", "docs", "pkg/util", "cmd"}
var synthSubs = []string{"sub", "internal", "v2"}
var synthSubjects = []string{"update %s", "Merge pull request #7 from %s", "fix typo in %s", "WIP %s", "bump version (%s)"}

type sfile struct {
	path  string
	chain int
}

// SynthHistory draws a history. Inside a commit every existing file is touched at most once, rename sources are
// existing files that are not otherwise touched, rename/creation targets do not exist before the commit and are
// distinct - the only shapes git itself can print (a path present before and after a commit is a modification, never
// a rename source or target), so the expected summaries do not depend on the order of changes inside a commit.
func SynthHistory(r *run.Rand, o SynthOpts) ([]SynthCommit, SynthStats) {
	var st SynthStats
	n := r.Range(0, o.MaxCommits)
	if r.Chance(1, 3) {
		n = r.Range(0, 6)
	}
	nAuth := r.Range(1, o.MaxAuthors)
	authors := append([]string(nil), synthAuthors...)
	for i, j := range r.Perm(len(authors)) {
		authors[i], authors[j] = authors[j], authors[i]
	}
	authors = authors[:nAuth]
	if r.Chance(1, 3) && o.MaxAuthors >= 2 {
		tw := synthTwins[r.Intn(len(synthTwins))]
		var rest []string
		for _, a := range authors {
			if a != tw[0] && a != tw[1] {
				rest = append(rest, a)
			}
		}
		if len(rest) > o.MaxAuthors-2 {
			rest = rest[:o.MaxAuthors-2]
		}
		authors = append([]string{tw[0], tw[1]}, rest...)
		st.TwinAuthors = 1
	}
	day := r.Range(0, 300)
	var live []*sfile
	var dead []string // paths that existed once and do not now
	created := 0
	seq := 0
	everUsed := map[string]bool{}
	has := func(p string) bool {
		for _, f := range live {
			if f.path == p {
				return true
			}
		}
		return false
	}
	fresh := func() string {
		for {
			seq++
			p := join(r.Pick(synthDirs), fmt.Sprintf("%s%d.go", r.Pick(words), seq))
			if !has(p) && !everUsed[p] {
				return p
			}
		}
	}
	var out []SynthCommit
	dips := o.NonMonotoneDates && r.Chance(1, 3)
	for i := 0; i < n; i++ {
		if !r.Chance(2, 5) { // ties in dates are frequent
			day += r.Range(1, 40)
		}
		cday := day
		dip := dips && i > 0 && created < o.MaxFiles && r.Chance(1, 6)
		if dip {
			cday = day - r.Range(1, 60)
			st.DipCommits++
		}
		c := SynthCommit{Rev: fmt.Sprintf("%07x", 0x1000000+i*7919+r.Intn(7000)), Author: authors[r.Intn(len(authors))], Date: shortDate(1546300800+int64(cday)*86400, "+0000")}
		w := r.Pick(words)
		if r.Chance(3, 5) {
			t := r.Pick(ccTypes)
			if r.Chance(1, 3) {
				t += "(" + r.Pick(ccScopes) + ")"
			}
			c.Message = t + ": adjust " + w
		} else {
			c.Message = fmt.Sprintf(r.Pick(synthSubjects), w)
		}
		k := r.Range(1, 4)
		if r.Chance(1, 8) {
			k = r.Range(1, 8)
		}
		touched := map[*sfile]bool{}
		newInCommit := map[string]bool{}
		vacated := map[string]bool{}             // paths deleted or renamed away inside this commit
		deadBefore := dead[:len(dead):len(dead)] // paths vacated inside this commit are no targets of this commit
		for len(c.Changes) < k {
			var cand []*sfile
			for _, f := range live {
				if !touched[f] {
					cand = append(cand, f)
				}
			}
			kind := "create"
			if len(cand) > 0 {
				switch x := r.Intn(100); {
				case x < 22:
					kind = "create"
				case x < 55:
					kind = "modify"
				case x < 68:
					kind = "delete"
				default:
					kind = "rename"
				}
				if o.DoubleCreate && r.Chance(1, 25) {
					kind = "create-again"
				}
			}
			if dip {
				kind = "create" // a commit with an earlier date touches no file that existed before it
			}
			if kind == "create" && created >= o.MaxFiles {
				if len(cand) == 0 {
					break
				}
				kind = "modify"
			}
			switch kind {
			case "create-again":
				// the path exists and is "created" once more (added on two branches that were merged): one more
				// revision and author of the same, still existing file
				f := cand[r.Intn(len(cand))]
				touched[f] = true
				st.DoubleCreates++
				c.Changes = append(c.Changes, SynthChange{Added: r.Range(0, 40), File: f.path, Mode: "create"})
			case "create":
				p := ""
				if len(deadBefore) > 0 && r.Chance(1, 2) {
					p = deadBefore[r.Intn(len(deadBefore))]
					if has(p) || newInCommit[p] {
						p = ""
					} else {
						st.Recreates++
					}
				}
				if p == "" {
					p = fresh()
				}
				f := &sfile{path: p}
				everUsed[p] = true
				live = append(live, f)
				touched[f] = true
				newInCommit[p] = true
				created++
				c.Changes = append(c.Changes, SynthChange{Added: r.Range(0, 40), File: p, Mode: "create"})
			case "modify":
				f := cand[r.Intn(len(cand))]
				touched[f] = true
				ch := SynthChange{Added: r.Range(0, 30), Deleted: r.Range(0, 30), File: f.path}
				if r.Chance(1, 10) {
					ch.Added, ch.Deleted = 0, 0 // binary
				}
				c.Changes = append(c.Changes, ch)
			case "delete":
				f := cand[r.Intn(len(cand))]
				touched[f] = true
				for j, g := range live {
					if g == f {
						live = append(live[:j], live[j+1:]...)
					}
				}
				dead = append(dead, f.path)
				vacated[f.path] = true
				st.Deletes++
				c.Changes = append(c.Changes, SynthChange{Deleted: r.Range(0, 40), File: f.path, Mode: "delete"})
			case "rename":
				var rc []*sfile
				for _, f := range cand {
					if f.chain < o.MaxChain {
						rc = append(rc, f)
					}
				}
				if len(rc) == 0 {
					k--
					continue
				}
				f := rc[r.Intn(len(rc))]
				to := ""
				dir, base := splitPath(f.path)
				for try := 0; try < 8 && to == ""; try++ {
					switch r.Intn(8) {
					case 0, 1:
						seq++
						to = join(dir, fmt.Sprintf("%s%d.go", r.Pick(words), seq))
					case 2:
						to = join(join(dir, r.Pick(synthSubs)), base)
					case 3:
						if dir != "" {
							up, _ := splitPath(dir)
							to = join(up, base)
						}
					case 4:
						if dir != "" {
							to = base
						}
					case 5:
						if d := r.Pick(synthDirs); d != dir {
							to = join(d, base)
						}
					case 6:
						if len(deadBefore) > 0 { // back to a name that existed before (a => b => a)
							to = deadBefore[r.Intn(len(deadBefore))]
						}
					case 7:
						parts := strings.Split(f.path, "/")
						if len(parts) >= 2 {
							parts[0] = "core"
							to = strings.Join(parts, "/")
						}
					}
					if to == f.path || has(to) || newInCommit[to] || vacated[to] {
						to = ""
					}
				}
				if to == "" {
					k--
					continue
				}
				for _, d := range deadBefore {
					if d == to {
						st.RenameBack++
						break
					}
				}
				touched[f] = true
				newInCommit[to] = true
				vacated[f.path] = true
				everUsed[to] = true
				dead = append(dead, f.path)
				ch := SynthChange{File: PprintRename(f.path, to), Old: f.path, New: to, Sim: 100}
				if r.Chance(1, 2) {
					ch.Added, ch.Deleted, ch.Sim = r.Range(0, 5), r.Range(0, 5), r.Range(50, 99)
				}
				// A move between the repository root and a directory: git 2.39 prints it in the full-path form
				// (`main.go => cmd/main.go`); the brace form with an empty common prefix and one empty side
				// (`{ => cmd}/main.go`, `{src => }/app.go`) is the same pair in the in-directory notation and is
				// synthesised for half of these moves (input of the rename decoder only, never expected from git).
				if dirO, baseO := splitPath(f.path); RenameShape(ch.File) == "full-path" && r.Bool() {
					dirN, baseN := splitPath(to)
					switch {
					case dirO == "" && dirN != "" && baseN == baseO:
						ch.File = "{ => " + dirN + "}/" + baseO
						st.RootIntoDirBrace++
					case dirN == "" && dirO != "" && baseN == baseO:
						ch.File = "{" + dirO + " => }/" + baseO
						st.DirToRootBrace++
					}
				}
				switch RenameShape(ch.File) {
				case "brace-empty-old":
					st.IntoSub++
				case "brace-empty-new":
					st.OutOfSub++
				case "full-path":
					st.FullPath++
				default:
					st.Brace++
				}
				f.path = to
				f.chain++
				if f.chain > st.MaxChain {
					st.MaxChain = f.chain
				}
				st.Renames++
				c.Changes = append(c.Changes, ch)
			}
		}
		// dead must not list paths that exist again
		var nd []string
		for _, d := range dead {
			if !has(d) {
				nd = append(nd, d)
			}
		}
		dead = nd
		if len(c.Changes) == 0 {
			continue
		}
		// the parser collects changes in a map: their order inside a commit is arbitrary
		p := r.Perm(len(c.Changes))
		sh := make([]SynthChange, len(c.Changes))
		for a, b := range p {
			sh[a] = c.Changes[b]
		}
		c.Changes = sh
		out = append(out, c)
	}
	return out, st
}

// RenderLog prints a synthesised history the way
// git log --pretty=format:[%h] %aN %ad %s --date=short --numstat --reverse --summary
// prints a real one (numstat block and summary block sorted by path, blank line between commits).
func RenderLog(cs []SynthCommit) string {
	var sb strings.Builder
	for i, c := range cs {
		if i > 0 {
			sb.WriteString("\n")
		}
		fmt.Fprintf(&sb, "[%s] %s %s %s\n", c.Rev, c.Author, c.Date, c.Message)
		chs := append([]SynthChange(nil), c.Changes...)
		key := func(ch SynthChange) string {
			if ch.New != "" {
				return ch.New
			}
			return ch.File
		}
		sort.Slice(chs, func(a, b int) bool { return key(chs[a]) < key(chs[b]) })
		for _, ch := range chs {
			fmt.Fprintf(&sb, "%d\t%d\t%s\n", ch.Added, ch.Deleted, ch.File)
		}
		for _, ch := range chs {
			switch {
			case ch.Mode == "create":
				fmt.Fprintf(&sb, " create mode 100644 %s\n", ch.File)
			case ch.Mode == "delete":
				fmt.Fprintf(&sb, " delete mode 100644 %s\n", ch.File)
			case ch.New != "":
				fmt.Fprintf(&sb, " rename %s (%d%%)\n", ch.File, ch.Sim)
			}
		}
	}
	return sb.String()
}

// SynthCrowd draws a history in which one file is touched by K = 100..130 distinct authors, one revision each
// (K revisions, K authors), while 1-3 other files are revised K+1 .. K+3 times by a single author each, and a few more
// files are touched now and then. The commits of the different files are interleaved; dates are non-decreasing.
func SynthCrowd(r *run.Rand) []SynthCommit {
	k := r.Range(100, 130)
	type job struct {
		path, author string
		left         int
		crowd        bool
	}
	jobs := []*job{{path: join(r.Pick(synthDirs), "everyone.go"), left: k, crowd: true}}
	nSolo := r.Range(1, 3)
	for i := 0; i < nSolo; i++ {
		d := 1
		if r.Chance(1, 2) {
			d = r.Range(1, 3)
		}
		jobs = append(jobs, &job{path: join(r.Pick(synthDirs), fmt.Sprintf("solo%d.go", i+1)), author: synthAuthors[r.Intn(len(synthAuthors))], left: k + d})
	}
	for i, n := 0, r.Range(0, 4); i < n; i++ {
		jobs = append(jobs, &job{path: join(r.Pick(synthDirs), fmt.Sprintf("%s%d.go", r.Pick(words), i+1)), author: synthAuthors[r.Intn(len(synthAuthors))], left: r.Range(1, 40)})
	}
	created := map[string]bool{}
	crowdNo := 0
	day := r.Range(0, 200)
	var out []SynthCommit
	for i := 0; ; i++ {
		var open []*job
		for _, j := range jobs {
			if j.left > 0 {
				open = append(open, j)
			}
		}
		if len(open) == 0 {
			break
		}
		j := open[r.Intn(len(open))]
		j.left--
		author := j.author
		if j.crowd {
			crowdNo++
			author = fmt.Sprintf("contributor %03d", crowdNo)
		}
		if r.Chance(1, 3) {
			day++
		}
		c := SynthCommit{Rev: fmt.Sprintf("%07x", 0x2000000+i*13+r.Intn(12)), Author: author, Date: shortDate(1546300800+int64(day)*86400, "+0000")}
		if r.Chance(1, 2) {
			c.Message = r.Pick(ccTypes) + ": touch " + r.Pick(words)
		} else {
			c.Message = "update " + r.Pick(words)
		}
		ch := SynthChange{Added: r.Range(0, 9), Deleted: r.Range(0, 9), File: j.path}
		if !created[j.path] {
			created[j.path] = true
			ch.Mode, ch.Deleted = "create", 0
		}
		c.Changes = []SynthChange{ch}
		out = append(out, c)
	}
	return out
}
