package gitgen

import (
	"fmt"
	"regexp"
	"sort"
	"strconv"
	"strings"
)

// TruthChange is one file pair of a commit as git reports it on the -z channel.
type TruthChange struct {
	Status  string `json:"status"` // A D M R T (first letter of the --raw status)
	Old     string `json:"old,omitempty"`
	Path    string `json:"path"`    // the (new) path
	Display string `json:"display"` // the path as `git log --numstat` prints it (rename notation for R)
	Added   int    `json:"added"`
	Deleted int    `json:"deleted"`
	Binary  bool   `json:"binary,omitempty"`
}

// Mode is the create/delete mode the statement speaks of.
func (c TruthChange) Mode() string {
	switch c.Status {
	case "A":
		return "create"
	case "D":
		return "delete"
	}
	return ""
}

// TruthCommit is one commit of `git log --reverse`, in log order.
type TruthCommit struct {
	Rev     string        `json:"rev"` // %h
	Parents int           `json:"parents"`
	Author  string        `json:"author"`  // %aN
	Date    string        `json:"date"`    // %ad, --date=short
	Subject string        `json:"subject"` // %s
	Changes []TruthChange `json:"changes,omitempty"`
}

// Expected reports whether the statement requires an entry for this commit.
func (t TruthCommit) Expected() bool { return t.Parents <= 1 && len(t.Changes) > 0 }

var numstatTok = regexp.MustCompile(`^(\d+|-)\t(\d+|-)\t(.*)$`)

// ReadTruth reads the history back through
// git log --reverse -z --raw --numstat --format=%x01%h%x00%P%x00%aN%x00%ad%x00%s%x00 --date=short
// (DESIGN §3; %P added to recognise merges). No text of this output is ever split on characters that may occur in
// names: fields end with NUL, records start with 0x01, and git refuses NUL in author names, subjects and paths.
func ReadTruth(repo string) ([]TruthCommit, error) {
	out, err := Git(repo, nil, "log", "--reverse", "-z", "--raw", "--numstat",
		"--format=%x01%h%x00%P%x00%aN%x00%ad%x00%s%x00", "--date=short")
	if err != nil {
		return nil, err
	}
	var commits []TruthCommit
	recs := strings.Split(out, "\x01")
	for _, rec := range recs[1:] {
		toks := strings.Split(rec, "\x00")
		if len(toks) < 6 {
			return nil, fmt.Errorf("truth: short record %q", rec)
		}
		h := toks[0]
		c := TruthCommit{Rev: h, Author: toks[2], Date: toks[3], Subject: toks[4]}
		if strings.TrimSpace(toks[1]) != "" {
			c.Parents = len(strings.Fields(toks[1]))
		}
		rest := toks[5:]
		type rawEnt struct{ status, old, path string }
		var raws []rawEnt
		type numEnt struct {
			added, deleted string
			old, path      string
		}
		var nums []numEnt
		for i := 0; i < len(rest); i++ {
			t := strings.TrimLeft(rest[i], "\n")
			if t == "" {
				continue
			}
			if strings.HasPrefix(t, ":") {
				f := strings.Fields(t)
				if len(f) != 5 {
					return nil, fmt.Errorf("truth: raw entry %q", t)
				}
				st := f[4][:1]
				if st == "R" || st == "C" {
					if i+2 >= len(rest) {
						return nil, fmt.Errorf("truth: raw rename without paths")
					}
					raws = append(raws, rawEnt{st, rest[i+1], rest[i+2]})
					i += 2
				} else {
					if i+1 >= len(rest) {
						return nil, fmt.Errorf("truth: raw entry without path")
					}
					raws = append(raws, rawEnt{st, "", rest[i+1]})
					i++
				}
				continue
			}
			m := numstatTok.FindStringSubmatch(t)
			if m == nil {
				return nil, fmt.Errorf("truth: unexpected token %q in commit %s", t, h)
			}
			if m[3] == "" {
				if i+2 >= len(rest) {
					return nil, fmt.Errorf("truth: numstat rename without paths")
				}
				nums = append(nums, numEnt{m[1], m[2], rest[i+1], rest[i+2]})
				i += 2
			} else {
				nums = append(nums, numEnt{m[1], m[2], "", m[3]})
			}
		}
		if len(raws) != len(nums) {
			return nil, fmt.Errorf("truth: commit %s has %d raw and %d numstat entries", h, len(raws), len(nums))
		}
		byPath := map[string]rawEnt{}
		for _, r := range raws {
			byPath[r.path] = r
		}
		for _, n := range nums {
			r, ok := byPath[n.path]
			if !ok || r.old != n.old {
				return nil, fmt.Errorf("truth: commit %s: numstat entry %q/%q has no raw entry", h, n.old, n.path)
			}
			ch := TruthChange{Status: r.status, Old: n.old, Path: n.path, Display: n.path}
			if n.old != "" {
				ch.Display = PprintRename(n.old, n.path)
			}
			if n.added == "-" || n.deleted == "-" {
				ch.Binary = true
			} else {
				ch.Added, _ = strconv.Atoi(n.added)
				ch.Deleted, _ = strconv.Atoi(n.deleted)
			}
			c.Changes = append(c.Changes, ch)
		}
		commits = append(commits, c)
	}
	if err := selfCheck(repo, commits); err != nil {
		return nil, err
	}
	return commits, nil
}

// PprintRename is a port of git's pprint_rename (diff.c): how --numstat/--stat/--summary print a rename pair when no
// path needs quoting: `pfx{mid-a => mid-b}sfx`, `{pfx-a => pfx-b}sfx`, `pfx{sfx-a => sfx-b}`, `name-a => name-b`.
func PprintRename(a, b string) string {
	at := func(s string, i int) byte {
		if i >= len(s) {
			return 0
		}
		return s[i]
	}
	pfx := 0
	for i := 0; i < len(a) && i < len(b) && a[i] == b[i]; i++ {
		if a[i] == '/' {
			pfx = i + 1
		}
	}
	adj := 0
	if pfx > 0 {
		adj = 1
	}
	sfx := 0
	i, j := len(a), len(b)
	for pfx-adj <= i && pfx-adj <= j && at(a, i) == at(b, j) {
		if at(a, i) == '/' {
			sfx = len(a) - i
		}
		i--
		j--
		if i < 0 || j < 0 {
			break
		}
	}
	am := len(a) - pfx - sfx
	bm := len(b) - pfx - sfx
	if am < 0 {
		am = 0
	}
	if bm < 0 {
		bm = 0
	}
	var sb strings.Builder
	if pfx+sfx > 0 {
		sb.WriteString(a[:pfx])
		sb.WriteByte('{')
	}
	sb.WriteString(a[pfx : pfx+am])
	sb.WriteString(" => ")
	sb.WriteString(b[pfx : pfx+bm])
	if pfx+sfx > 0 {
		sb.WriteByte('}')
		sb.WriteString(a[len(a)-sfx:])
	}
	return sb.String()
}

// RenameShape classifies a printed rename (for coverage counters).
func RenameShape(display string) string {
	if !strings.Contains(display, " => ") {
		return "none"
	}
	o := strings.Index(display, "{")
	c := strings.LastIndex(display, "}")
	if o < 0 || c < 0 {
		return "full-path"
	}
	mid := display[o+1 : c]
	parts := strings.SplitN(mid, " => ", 2)
	switch {
	case parts[0] == "":
		return "brace-empty-old"
	case len(parts) > 1 && parts[1] == "":
		return "brace-empty-new"
	case o == 0:
		return "brace-no-prefix"
	case c == len(display)-1:
		return "brace-no-suffix"
	}
	return "brace-middle"
}

// selfCheck compares the display paths and counts derived from the -z channel with what git itself prints on the
// human channel of the same options (header lines made unambiguous with 0x01; numstat lines are split at their first
// two tabs, and generated paths contain neither tabs nor newlines nor characters git would quote).
func selfCheck(repo string, commits []TruthCommit) error {
	out, err := Git(repo, nil, "log", "--reverse", "--numstat", "--format=%x01%h")
	if err != nil {
		return err
	}
	recs := strings.Split(out, "\x01")
	if len(recs)-1 != len(commits) {
		return fmt.Errorf("self-check: %d commits on the text channel, %d on the -z channel", len(recs)-1, len(commits))
	}
	for k, rec := range recs[1:] {
		lines := strings.Split(rec, "\n")
		if lines[0] != commits[k].Rev {
			return fmt.Errorf("self-check: commit %d is %q on the text channel, %q on the -z channel", k, lines[0], commits[k].Rev)
		}
		var got []string
		for _, l := range lines[1:] {
			if l == "" {
				continue
			}
			f := strings.SplitN(l, "\t", 3)
			if len(f) != 3 {
				return fmt.Errorf("self-check: line %q", l)
			}
			got = append(got, f[0]+"\t"+f[1]+"\t"+f[2])
		}
		var want []string
		for _, c := range commits[k].Changes {
			a, d := strconv.Itoa(c.Added), strconv.Itoa(c.Deleted)
			if c.Binary {
				a, d = "-", "-"
			}
			want = append(want, a+"\t"+d+"\t"+c.Display)
		}
		sort.Strings(got)
		sort.Strings(want)
		if strings.Join(got, "\n") != strings.Join(want, "\n") {
			return fmt.Errorf("self-check: commit %s: numstat prints %q, derived %q", commits[k].Rev, got, want)
		}
	}
	return nil
}
