package gitgen

import (
	"bytes"
	"fmt"
	"os"
	"os/exec"
	"strings"

	"verifharness/run"
)

// BuildBig writes a linear history of n commits (n > 1000 is the point: more commits than any page size a log reader
// might use) with `git fast-import`: tiny text blobs, 1-3 paths per commit (create / modify / delete / exact rename),
// a few empty commits, strictly increasing dates, authors from the usual pool. No work tree is checked out (`git log`
// does not need one). As always the ground truth is read back from git (ReadTruth), not taken from here.
func BuildBig(r *run.Rand, repo string, n int) error {
	if err := os.MkdirAll(repo, 0o755); err != nil {
		return err
	}
	if _, err := Git(repo, nil, "init", "-q", "-b", "main", "."); err != nil {
		return err
	}
	tz := r.Pick([]string{"+0000", "+0800", "-0500", "+0530"})
	epoch := int64(1546300800 + r.Intn(300)*86400)
	var authors []string
	for _, i := range r.Perm(len(authorsPool))[:r.Range(2, 6)] {
		authors = append(authors, authorsPool[i])
	}
	var sb bytes.Buffer
	var live []string
	seq := 0
	blob := func(path, body string) {
		fmt.Fprintf(&sb, "M 100644 inline %s\ndata %d\n%s\n", path, len(body), body)
	}
	text := func() string {
		var ls []string
		for k := r.Range(1, 5); k > 0; k-- {
			seq++
			ls = append(ls, fmt.Sprintf("line %d %s %s", seq, r.Pick(words), r.Pick(words)))
		}
		return strings.Join(ls, "\n") + "\n"
	}
	for i := 1; i <= n; i++ {
		epoch += int64(r.Range(60, 7200))
		subject := fmt.Sprintf("step %d: %s %s", i, r.Pick(words), r.Pick(words))
		if r.Chance(1, 3) {
			subject = fmt.Sprintf("%s: step %d %s", r.Pick(ccTypes), i, r.Pick(words))
		}
		a := authors[r.Intn(len(authors))]
		fmt.Fprintf(&sb, "commit refs/heads/main\nmark :%d\nauthor %s <u%d@example.org> %d %s\ncommitter Committer Bot <ci@example.org> %d %s\ndata %d\n%s\n",
			i, a, r.Intn(20), epoch, tz, epoch, tz, len(subject), subject)
		if i > 1 {
			fmt.Fprintf(&sb, "from :%d\n", i-1)
		}
		if i > 1 && r.Chance(1, 40) {
			sb.WriteString("\n") // an empty commit
			continue
		}
		used := map[string]bool{}
		for k := r.Range(1, 3); k > 0; k-- {
			var cand []string
			for _, p := range live {
				if !used[p] {
					cand = append(cand, p)
				}
			}
			x := r.Intn(100)
			switch {
			case len(cand) == 0 || x < 35 && len(live) < 40:
				seq++
				p := fmt.Sprintf("%s/%s%d.txt", r.Pick([]string{"src", "docs", "pkg/util", "a/b"}), r.Pick(words), seq)
				blob(p, text())
				live = append(live, p)
				used[p] = true
			case x < 80:
				p := cand[r.Intn(len(cand))]
				blob(p, text())
				used[p] = true
			case x < 90:
				p := cand[r.Intn(len(cand))]
				fmt.Fprintf(&sb, "D %s\n", p)
				used[p] = true
				live = removeString(live, p)
			default:
				p := cand[r.Intn(len(cand))]
				seq++
				q := fmt.Sprintf("%s/%s%d.txt", r.Pick([]string{"src", "docs", "pkg/util", "moved"}), r.Pick(words), seq)
				fmt.Fprintf(&sb, "R %s %s\n", p, q)
				used[p], used[q] = true, true
				live = append(removeString(live, p), q)
			}
		}
		sb.WriteString("\n")
	}
	sb.WriteString("done\n")
	cmd := exec.Command("git", "fast-import", "--quiet", "--done")
	cmd.Dir = repo
	cmd.Env = baseEnv(repo)
	cmd.Stdin = &sb
	var se bytes.Buffer
	cmd.Stderr = &se
	if err := cmd.Run(); err != nil {
		return fmt.Errorf("git fast-import: %v: %s", err, strings.TrimSpace(se.String()))
	}
	return nil
}

func removeString(xs []string, x string) []string {
	var out []string
	for _, y := range xs {
		if y != x {
			out = append(out, y)
		}
	}
	return out
}
