// Package gitgen builds REAL git repositories from generated operation scripts (DESIGN §3, G-GIT) and reads the
// ground truth back from git itself through the machine-readable -z channel. It does not import coca.
//
// A script is a list of steps (commit / branch / checkout / merge). Every commit step carries its author, date,
// subject and a list of file operations with the complete new content of each file, so executing a script needs no
// randomness. The generator keeps a small model of the work tree only to emit operations that are valid; what the
// history "really" contains (which pairs git reports as renames, line counts, binary or not) is never taken from
// that model but from `git log -z --raw --numstat` (truth.go).
package gitgen

import (
	"bytes"
	"fmt"
	"io/ioutil"
	"os"
	"os/exec"
	"path/filepath"
	"strings"

	"verifharness/run"
)

// Op is one file operation inside a commit.
type Op struct {
	Kind    string `json:"op"` // create | modify | delete | rename
	Path    string `json:"path"`
	To      string `json:"to,omitempty"`
	Binary  bool   `json:"binary,omitempty"`
	Note    string `json:"note,omitempty"` // rename kind / "recreate" / "rename+edit"
	Bytes   int    `json:"bytes"`
	Content []byte `json:"-"` // complete new content (create, modify, rename+edit); nil = unchanged
}

// Step is one element of the script.
type Step struct {
	Kind   string `json:"step"` // commit | branch | checkout | merge
	Branch string `json:"branch,omitempty"`
	Author string `json:"author,omitempty"`
	Email  string `json:"email,omitempty"`
	Date   string `json:"date,omitempty"` // "<epoch> <tz>" (committer date; author date too unless AuthorDate is set)
	// AuthorDate, when set, is an author date EARLIER than the committer date and possibly in another time zone
	// (a rebased / cherry-picked / amended commit keeps its old author date): %ad then decreases along the log.
	AuthorDate  string `json:"author_date,omitempty"`
	Subject     string `json:"subject,omitempty"`
	SubjectKind string `json:"subject_kind,omitempty"`
	// Message, when set, is the complete commit message passed with `git commit -F` (a first paragraph of 70-100 KB
	// folded by %s into one subject line); Subject then only describes it (the full text is in the truth).
	Message string `json:"-"`
	Empty   bool   `json:"empty,omitempty"`
	Ops     []Op   `json:"ops,omitempty"`
}

type Script struct {
	Steps []Step `json:"steps"`
	TZ    string `json:"tz"`
}

type Opts struct {
	MinCommits, MaxCommits int
	MaxOps                 int  // paths per commit
	Plain                  bool // no spaces in paths, short ASCII authors (used where a table printer would wrap cells)
	Conventional           bool // mostly conventional-commit subjects (C15 CLI slice)
	LongSubject            bool // one ordinary commit gets a first message paragraph of 70-100 KB
	OldAuthorDates         bool // in a third of the scripts a quarter of the commits carry an older author date (other time zone)
	TailCollisions         bool // commits that create/delete P and modify Q where P ends with Q (docs/README.md + README.md)
}

// ---------------------------------------------------------------------------------------------------------------
// name pools

var authorsPool = []string{
	"Ann Lee", "Ann", "dev42", "R2 D2", "007", "José Álvarez", "王小明", "Jean-Luc Picard", "Build Bot 2", "x86 team",
	"Phodal Huang", "Мария Иванова", "Ann Lee Jr", "O'Neil 3rd", "a", "van der Berg",
}
var plainAuthors = []string{"Ann Lee", "dev42", "R2 D2", "Phodal Huang", "bob", "Build Bot 2", "Zoe"}

var dirsPool = []string{"", "", "src", "src/main", "src/main/java", "docs", "lib/core util", "a/b/c/d", "pkg", "my docs/user guide", "cmd", "docs/release  notes", "src/my  module"}
var plainDirs = []string{"", "src", "src/main", "docs", "a/b/c/d", "pkg", "cmd"}
var subDirs = []string{"sub", "internal", "v2", "old stuff", "impl", "two  blanks"}
var plainSubDirs = []string{"sub", "internal", "v2", "impl"}
var exts = []string{".txt", ".go", ".md", ".java", ".cfg"}
var words = []string{"alpha", "beta", "gamma", "delta", "omega", "kappa", "sigma", "theta", "lambda", "zeta"}

var hexWords = []string{"deadbeef", "cafebabe", "abc12", "1234567", "0ff1ce", "badc0ffee0dd", "9f8e7d6", "ab|cd1"}
var ccTypes = []string{"fix", "feat", "docs", "refactor", "chore", "test", "build"}
var ccScopes = []string{"parser", "core", "cli", "git log", "api/v2"}

type gen struct {
	r        *run.Rand
	o        Opts
	nextID   int
	epoch    int64
	tz       string
	oldDates bool
}

type file struct {
	path   string
	id     int
	binary bool
	lines  []string
	blob   []byte
	owner  int // 0 base, 1 side branch, 2 main line while a side branch is open
}

func (f *file) content() []byte {
	if f.binary {
		return f.blob
	}
	if len(f.lines) == 0 {
		return []byte{}
	}
	s := strings.Join(f.lines, "\n")
	if f.id%7 != 3 { // some text files have no trailing newline
		s += "\n"
	}
	return []byte(s)
}

type tree struct{ files []*file }

func (t *tree) clone() *tree {
	n := &tree{}
	for _, f := range t.files {
		c := *f
		c.lines = append([]string(nil), f.lines...)
		c.blob = append([]byte(nil), f.blob...)
		n.files = append(n.files, &c)
	}
	return n
}
func (t *tree) has(p string) bool {
	for _, f := range t.files {
		if f.path == p {
			return true
		}
	}
	return false
}
func (t *tree) remove(f *file) {
	for i, g := range t.files {
		if g == f {
			t.files = append(t.files[:i], t.files[i+1:]...)
			return
		}
	}
}

func (g *gen) pickDir() string {
	if g.o.Plain {
		return g.r.Pick(plainDirs)
	}
	return g.r.Pick(dirsPool)
}
func (g *gen) pickSub() string {
	if g.o.Plain {
		return g.r.Pick(plainSubDirs)
	}
	return g.r.Pick(subDirs)
}

func join(dir, base string) string {
	if dir == "" {
		return base
	}
	return dir + "/" + base
}

// freshBase returns a base name never used before in this script.
func (g *gen) freshBase() string {
	g.nextID++
	n := g.nextID
	w := g.r.Pick(words)
	ext := g.r.Pick(exts)
	if g.o.Plain {
		return fmt.Sprintf("%s%d%s", w, n, ext)
	}
	switch g.r.Intn(20) {
	case 0, 1, 2:
		return fmt.Sprintf("my %s %d%s", w, n, ext) // spaces
	case 3:
		return fmt.Sprintf("%s %d 2 3 v%s", w, n, ext) // space separated numbers (looks like a numstat prefix)
	case 4:
		return fmt.Sprintf("%s - %d - final%s", w, n, ext) // dashes
	case 5, 6:
		return fmt.Sprintf("%s_%d.tar.gz.txt", w, n)
	default:
		return fmt.Sprintf("%s%d%s", w, n, ext)
	}
}

func (g *gen) newText(f *file, n int) {
	f.lines = nil
	for i := 0; i < n; i++ {
		f.lines = append(f.lines, g.line(f))
	}
}

func (g *gen) line(f *file) string {
	g.nextID++
	return fmt.Sprintf("f%d line %d %s %s %s", f.id, g.nextID, g.r.Pick(words), g.r.Pick(words), g.r.Pick(words))
}

func (g *gen) newBlob(f *file) {
	n := g.r.Range(8, 200)
	b := make([]byte, n)
	for i := range b {
		b[i] = byte(g.r.Intn(256))
	}
	b[0], b[1], b[2] = 0, byte(f.id), 0 // NUL bytes make git treat it as binary
	f.blob = b
}

func (g *gen) subject(author string, dateShort string) (string, string) {
	r := g.r
	w := r.Pick(words)
	cc := func() string {
		t := r.Pick(ccTypes)
		if r.Chance(1, 3) {
			sc := r.Pick(ccScopes)
			if g.o.Plain {
				sc = r.Pick(ccScopes[:3])
			}
			return t + "(" + sc + "): "
		}
		return t + ": "
	}
	if g.o.Conventional {
		switch r.Intn(6) {
		case 0:
			return "update " + w + " handling", "plain"
		case 1:
			return "Merge pull request #12 from " + w, "plain"
		default:
			return cc() + "adjust " + w + " " + r.Pick(words), "conventional"
		}
	}
	switch r.Intn(19) {
	case 16:
		// git keeps leading blanks of the first message line (%s only drops trailing ASCII blanks)
		return r.Pick([]string{"   ", " ", "\t", "  \t "}) + "indented " + w + " note", "leading-blanks"
	case 17:
		return "\u3000" + w + " with an ideographic space in front", "leading-U+3000"
	case 18:
		return r.Pick([]string{"", "\u3000"}) + "update " + w + " handling" + r.Pick([]string{"\u00a0", "\u00a0\u00a0", "\u2003"}), "trailing-unicode-space"
	case 0:
		return "[" + r.Pick(hexWords) + "] backport " + w, "bracket-hex"
	case 1:
		return cc() + "cherry-pick [" + r.Pick(hexWords) + "] and [" + r.Pick(hexWords) + "]", "bracket-hex"
	case 2:
		return "see [JIRA-" + fmt.Sprint(r.Range(1, 999)) + "] (wip) {draft} <tmp> [x]", "brackets"
	case 3:
		return cc() + "rename " + w + " => " + r.Pick(words) + ": done", "arrow"
	case 4:
		return "release: v1.2 => v1.3 on " + dateShort, "commit-date"
	case 5:
		return "changelog for 2019-12-04 and 1999-01-31", "other-date"
	case 6:
		return "pairing with " + author + " on " + w, "author-name"
	case 7:
		return author + ": " + w + " again", "author-name"
	case 8:
		return cc() + "add 3 5 " + w + " table", "numstat-like"
	case 9:
		if r.Bool() {
			// an ordinary commit whose subject merely starts like a merge commit's
			return "Merge " + r.Pick([]string{"sort: first implementation of ", "the two " + w + " tables into ", "branch-like wording for "}) + w, "merge-like"
		}
		return "12 7 " + w + ".txt", "numstat-like"
	case 10:
		return "a: b: c :: " + w + " [" + w + "]", "colons"
	case 11:
		return "delete mode 100644 " + w + ".txt", "summary-like"
	case 12, 13:
		return cc() + "adjust " + w + " " + r.Pick(words), "conventional"
	default:
		return "update " + w + " handling", "plain"
	}
}

// Generate draws a script.
func Generate(r *run.Rand, o Opts) *Script {
	g := &gen{r: r, o: o}
	if o.MaxOps <= 0 {
		o.MaxOps = 12
		g.o.MaxOps = 12
	}
	g.tz = r.Pick([]string{"+0000", "+0800", "-0500", "+0530", "+0000"})
	g.epoch = 1546300800 + int64(r.Intn(400))*86400 // 2019-01-01 .. early 2020
	if o.OldAuthorDates {
		g.oldDates = r.Chance(1, 3)
	}
	n := r.Range(o.MinCommits, o.MaxCommits)
	if r.Chance(1, 2) && o.MinCommits+5 < o.MaxCommits {
		n = r.Range(o.MinCommits, o.MinCommits+5)
	}
	pool := authorsPool
	if o.Plain {
		pool = plainAuthors
	}
	var authors []string
	for _, i := range r.Perm(len(pool))[:r.Range(1, 5)] {
		authors = append(authors, pool[i])
	}
	sc := &Script{TZ: g.tz}
	main := &tree{}
	var side *tree
	onSide := false
	sideNo := 0
	var deleted []string // paths deleted earlier (candidates for re-creation)
	commits := 0
	for commits < n {
		// branch management
		if side == nil && commits >= 1 && commits < n-2 && r.Chance(1, 5) {
			sideNo++
			sc.Steps = append(sc.Steps, Step{Kind: "branch", Branch: fmt.Sprintf("topic%d", sideNo)})
			side = main.clone()
			for _, f := range side.files {
				f.owner = 0
			}
			for _, f := range main.files {
				f.owner = 0
			}
			onSide = true
		} else if side != nil {
			if commits >= n-1 || r.Chance(1, 3) {
				// merge the side branch into main
				if onSide {
					sc.Steps = append(sc.Steps, Step{Kind: "checkout", Branch: "main"})
					onSide = false
				}
				st := g.commitMeta(authors, "merge")
				st.Kind = "merge"
				st.Branch = fmt.Sprintf("topic%d", sideNo)
				st.Subject = "Merge branch '" + st.Branch + "'"
				if r.Chance(1, 3) {
					st.Subject = "Merge branch '" + st.Branch + "' into main [" + r.Pick(hexWords) + "]"
				}
				sc.Steps = append(sc.Steps, st)
				merged := side
				for _, f := range main.files {
					if f.owner == 2 {
						merged.files = append(merged.files, f)
					}
				}
				for _, f := range merged.files {
					f.owner = 0
				}
				main = merged
				side = nil
				commits++
				continue
			}
			want := r.Chance(2, 3)
			if want != onSide {
				onSide = want
				b := "main"
				if onSide {
					b = fmt.Sprintf("topic%d", sideNo)
				}
				sc.Steps = append(sc.Steps, Step{Kind: "checkout", Branch: b})
			}
		}
		st := g.commitMeta(authors, "")
		cur := main
		restrict := -1
		newOwner := 0
		if side != nil {
			if onSide {
				cur = side
				newOwner = 1
			} else {
				restrict = 2
				newOwner = 2
			}
		}
		if commits > 0 && r.Chance(1, 10) {
			st.Empty = true
		} else {
			st.Ops = g.ops(cur, restrict, newOwner, &deleted, side == nil)
		}
		sc.Steps = append(sc.Steps, st)
		commits++
	}
	if o.LongSubject {
		var idx []int
		for i, st := range sc.Steps {
			if st.Kind == "commit" && !st.Empty && i > 0 {
				idx = append(idx, i)
			}
		}
		if len(idx) > 0 {
			st := &sc.Steps[idx[r.Intn(len(idx))]]
			var sb strings.Builder
			target := r.Range(70000, 100000)
			for n := 0; sb.Len() < target; n++ {
				fmt.Fprintf(&sb, "%s %d %s %s %s %s %s %s\n", r.Pick(ccTypes), n, r.Pick(words), r.Pick(words), r.Pick(words), r.Pick(words), r.Pick(words), r.Pick(words))
			}
			st.Message = "long first paragraph: " + sb.String() + "\nsecond paragraph, not part of the subject\n"
			st.Subject = fmt.Sprintf("<first message paragraph of %d bytes in %d lines>", sb.Len()+22, strings.Count(sb.String(), "\n"))
			st.SubjectKind = "long-paragraph"
		}
	}
	return sc
}

func shortDate(epoch int64, tz string) string {
	// tz is +HHMM / -HHMM
	sign := int64(1)
	if tz[0] == '-' {
		sign = -1
	}
	hh := int64(tz[1]-'0')*10 + int64(tz[2]-'0')
	mm := int64(tz[3]-'0')*10 + int64(tz[4]-'0')
	t := epoch + sign*(hh*3600+mm*60)
	days := t / 86400
	// civil from days (Howard Hinnant)
	z := days + 719468
	era := z / 146097
	doe := z - era*146097
	yoe := (doe - doe/1460 + doe/36524 - doe/146096) / 365
	y := yoe + era*400
	doy := doe - (365*yoe + yoe/4 - yoe/100)
	mp := (5*doy + 2) / 153
	d := doy - (153*mp+2)/5 + 1
	m := mp + 3
	if m > 12 {
		m -= 12
		y++
	}
	return fmt.Sprintf("%04d-%02d-%02d", y, m, d)
}

func (g *gen) commitMeta(authors []string, kind string) Step {
	r := g.r
	g.epoch += []int64{3600, 86400, 3*86400 + 1800}[r.Intn(3)]
	a := authors[r.Intn(len(authors))]
	st := Step{Kind: "commit", Author: a, Email: fmt.Sprintf("u%d@example.org", r.Intn(50)), Date: fmt.Sprintf("%d %s", g.epoch, g.tz)}
	aEpoch, aTz := g.epoch, g.tz
	if g.oldDates && r.Chance(1, 4) {
		aTz = r.Pick([]string{"+0900", "-0600", "+0000", "+1200", "-1000"})
		aEpoch = g.epoch - int64(r.Range(0, 40))*86400 - int64(r.Range(600, 86000))
		st.AuthorDate = fmt.Sprintf("%d %s", aEpoch, aTz)
	}
	if kind == "" {
		st.Subject, st.SubjectKind = g.subject(a, shortDate(aEpoch, aTz))
	}
	return st
}

// ops draws the file operations of one commit. restrict >= 0: only files with that owner may be touched.
func (g *gen) ops(t *tree, restrict, newOwner int, deleted *[]string, mayRecreate bool) []Op {
	r := g.r
	k := 1 + r.Intn(3)
	if r.Chance(1, 4) {
		k = r.Range(1, g.o.MaxOps)
	}
	if len(t.files) == 0 {
		k = r.Range(1, 4)
	}
	touched := map[*file]bool{}
	var ops []Op
	usedPaths := 0
	avail := func() []*file {
		var out []*file
		for _, f := range t.files {
			if !touched[f] && (restrict < 0 || f.owner == restrict) {
				out = append(out, f)
			}
		}
		return out
	}
	for len(ops) < k && usedPaths < g.o.MaxOps {
		cand := avail()
		kind := "create"
		if len(cand) > 0 {
			switch x := r.Intn(100); {
			case x < 30:
				kind = "create"
			case x < 60:
				kind = "modify"
			case x < 72:
				kind = "delete"
			case x < 95:
				kind = "rename"
			default:
				kind = "recreate"
			}
			if g.o.TailCollisions && r.Chance(1, 12) {
				kind = "tail"
			}
		}
		switch kind {
		case "tail":
			// name-tail collision inside one commit: P is created or deleted, Q (P ends with Q's full path) is only modified
			modify := func(q *file) {
				touched[q] = true
				if q.binary {
					g.newBlob(q)
				} else {
					g.edit(q, false)
				}
				c := q.content()
				ops = append(ops, Op{Kind: "modify", Path: q.path, Binary: q.binary, Note: "tail-of-created-or-deleted-path", Bytes: len(c), Content: c})
				usedPaths++
			}
			var pp, qq *file
			for _, a := range cand {
				for _, b := range cand {
					if a != b && strings.HasSuffix(a.path, b.path) && pp == nil {
						pp, qq = a, b
					}
				}
			}
			if pp != nil && r.Bool() {
				modify(qq)
				touched[pp] = true
				t.remove(pp)
				*deleted = append(*deleted, pp.path)
				ops = append(ops, Op{Kind: "delete", Path: pp.path, Binary: pp.binary, Note: "name-ends-with-modified-path"})
				usedPaths++
				continue
			}
			q := cand[r.Intn(len(cand))]
			dir := r.Pick([]string{"docs", "legacy", "vendor/x", "d/e"})
			p := dir + "/" + q.path
			if !g.o.Plain && !strings.Contains(q.path, "/") && r.Bool() {
				p = dir + "/b " + q.path // `d/e/b c.txt` ends with `c.txt`
			}
			if t.has(p) || !free(t, p) {
				continue
			}
			modify(q)
			g.nextID++
			f := &file{path: p, id: g.nextID, owner: newOwner}
			g.newText(f, r.Range(1, 20))
			t.files = append(t.files, f)
			touched[f] = true
			c := f.content()
			ops = append(ops, Op{Kind: "create", Path: p, Note: "name-ends-with-modified-path", Bytes: len(c), Content: c})
			usedPaths++
		case "create", "recreate":
			var p string
			note := ""
			if kind == "recreate" && mayRecreate && len(*deleted) > 0 {
				p = (*deleted)[r.Intn(len(*deleted))]
				note = "recreate"
			}
			if p == "" || t.has(p) || !free(t, p) {
				p = join(g.pickDir(), g.freshBase())
				note = ""
			}
			if t.has(p) {
				continue
			}
			g.nextID++
			f := &file{path: p, id: g.nextID, owner: newOwner}
			switch x := r.Intn(12); {
			case x == 0:
				f.binary = true
				g.newBlob(f)
			case x == 1:
				// empty text file
			default:
				g.newText(f, r.Range(1, 30))
			}
			t.files = append(t.files, f)
			touched[f] = true
			c := f.content()
			ops = append(ops, Op{Kind: "create", Path: p, Binary: f.binary, Note: note, Bytes: len(c), Content: c})
			usedPaths++
		case "modify":
			f := cand[r.Intn(len(cand))]
			touched[f] = true
			if f.binary {
				g.newBlob(f)
			} else {
				g.edit(f, false)
			}
			c := f.content()
			ops = append(ops, Op{Kind: "modify", Path: f.path, Binary: f.binary, Bytes: len(c), Content: c})
			usedPaths++
		case "delete":
			f := cand[r.Intn(len(cand))]
			touched[f] = true
			t.remove(f)
			*deleted = append(*deleted, f.path)
			ops = append(ops, Op{Kind: "delete", Path: f.path, Binary: f.binary})
			usedPaths++
		case "rename":
			f := cand[r.Intn(len(cand))]
			to, note := g.renameTarget(f.path)
			if to == f.path || t.has(to) || !free(t, to) {
				continue
			}
			touched[f] = true
			op := Op{Kind: "rename", Path: f.path, To: to, Binary: f.binary, Note: note}
			if !f.binary && len(f.lines) >= 8 && r.Chance(2, 5) {
				g.edit(f, true)
				op.Content = f.content()
				op.Bytes = len(op.Content)
				op.Note += "+edit"
			}
			*deleted = append(*deleted, f.path)
			f.path = to
			ops = append(ops, op)
			usedPaths += 2
		}
	}
	return ops
}

// free: p must not collide with a directory, nor may one of its directories be an existing file.
func free(t *tree, p string) bool {
	for _, f := range t.files {
		if strings.HasPrefix(f.path, p+"/") || strings.HasPrefix(p, f.path+"/") {
			return false
		}
	}
	return true
}

// edit changes a text file; small keeps the change below ~20 % so that git still pairs a rename.
func (g *gen) edit(f *file, small bool) {
	r := g.r
	if len(f.lines) == 0 {
		f.lines = append(f.lines, g.line(f))
		return
	}
	n := 1
	if !small {
		n = r.Range(1, 1+len(f.lines)/2)
	}
	before := strings.Join(f.lines, "\n")
	defer func() {
		if strings.Join(f.lines, "\n") == before { // an insertion undone by a later deletion
			f.lines = append(f.lines, g.line(f))
		}
	}()
	for i := 0; i < n; i++ {
		switch x := r.Intn(3); {
		case x == 0 && len(f.lines) > 1:
			j := r.Intn(len(f.lines))
			f.lines = append(f.lines[:j], f.lines[j+1:]...)
		case x == 1:
			f.lines[r.Intn(len(f.lines))] = g.line(f)
		default:
			j := r.Intn(len(f.lines) + 1)
			f.lines = append(f.lines[:j], append([]string{g.line(f)}, f.lines[j:]...)...)
		}
	}
}

func splitPath(p string) (dir, base string) {
	if i := strings.LastIndex(p, "/"); i >= 0 {
		return p[:i], p[i+1:]
	}
	return "", p
}

// renameTarget picks a destination of one of the kinds named in the quantifier.
func (g *gen) renameTarget(p string) (string, string) {
	r := g.r
	dir, base := splitPath(p)
	for try := 0; try < 6; try++ {
		switch r.Intn(9) {
		case 0, 1: // same directory, new base name
			return join(dir, g.freshBase()), "same-dir"
		case 2: // into a sub-directory of its directory
			return join(join(dir, g.pickSub()), base), "into-subdir"
		case 3: // out of the last directory level (one level up); from a top-level directory this is "to the root"
			if dir == "" {
				continue
			}
			up, _ := splitPath(dir)
			if up == "" {
				return base, "to-root"
			}
			return join(up, base), "out-of-subdir"
		case 4: // to the root
			if dir == "" {
				continue
			}
			return base, "to-root"
		case 5: // across directories, same base name
			d := g.pickDir()
			if d == dir {
				continue
			}
			return join(d, base), "across-dirs"
		case 6: // across directories, new base name
			d := g.pickDir()
			if d == dir {
				continue
			}
			return join(d, g.freshBase()), "across-dirs-newname"
		case 7: // a middle directory level is replaced / removed / inserted
			parts := strings.Split(p, "/")
			if len(parts) < 3 {
				continue
			}
			i := 1 + r.Intn(len(parts)-2)
			q := append([]string(nil), parts...)
			if r.Bool() {
				q[i] = g.pickSub()
			} else {
				q = append(q[:i], q[i+1:]...)
			}
			return strings.Join(q, "/"), "mid-level"
		case 8: // first directory level replaced (`{src => core}/x/f`)
			parts := strings.Split(p, "/")
			if len(parts) < 2 {
				continue
			}
			q := append([]string(nil), parts...)
			q[0] = g.r.Pick([]string{"core", "legacy", "third party"})
			if g.o.Plain {
				q[0] = "core"
			}
			return strings.Join(q, "/"), "first-level"
		}
	}
	return join(dir, g.freshBase()), "same-dir"
}

// ---------------------------------------------------------------------------------------------------------------
// execution with the installed git

// Env is the environment every git process (ours and the one coca starts) runs in.
func Env(repo string) []string {
	return []string{
		"GIT_CONFIG_GLOBAL=/dev/null", "GIT_CONFIG_SYSTEM=/dev/null", "GIT_CONFIG_NOSYSTEM=1",
		"HOME=" + filepath.Dir(repo), "XDG_CONFIG_HOME=" + filepath.Dir(repo), "LC_ALL=C", "LANG=C", "TZ=UTC",
		"GIT_TERMINAL_PROMPT=0", "GIT_PAGER=cat", "PAGER=cat", "GIT_OPTIONAL_LOCKS=0",
	}
}

func baseEnv(repo string) []string {
	var env []string
	for _, kv := range os.Environ() {
		if strings.HasPrefix(kv, "GIT_") || strings.HasPrefix(kv, "HOME=") || strings.HasPrefix(kv, "LC_") || strings.HasPrefix(kv, "LANG=") || strings.HasPrefix(kv, "TZ=") {
			continue
		}
		env = append(env, kv)
	}
	return append(env, Env(repo)...)
}

// Git runs git in repo and returns stdout.
func Git(repo string, extraEnv []string, args ...string) (string, error) {
	cmd := exec.Command("git", args...)
	cmd.Dir = repo
	cmd.Env = append(baseEnv(repo), extraEnv...)
	var so, se bytes.Buffer
	cmd.Stdout = &so
	cmd.Stderr = &se
	if err := cmd.Run(); err != nil {
		return so.String(), fmt.Errorf("git %s: %v: %s", strings.Join(args, " "), err, strings.TrimSpace(se.String()))
	}
	return so.String(), nil
}

// Build executes the script in a fresh repository at repo. A merge conflict is returned as ErrConflict.
type ErrConflict struct{ Msg string }

func (e *ErrConflict) Error() string { return "merge conflict: " + e.Msg }

func Build(sc *Script, repo string) error {
	if err := os.MkdirAll(repo, 0o755); err != nil {
		return err
	}
	if _, err := Git(repo, nil, "init", "-q", "-b", "main", "."); err != nil {
		return err
	}
	for _, kv := range [][2]string{{"core.autocrlf", "false"}, {"commit.gpgsign", "false"}, {"gc.auto", "0"}, {"core.fsync", "none"}, {"advice.detachedHead", "false"}} {
		if _, err := Git(repo, nil, "config", kv[0], kv[1]); err != nil {
			return err
		}
	}
	for i, st := range sc.Steps {
		authorDate := st.Date
		if st.AuthorDate != "" {
			authorDate = st.AuthorDate
		}
		id := []string{"GIT_AUTHOR_NAME=" + st.Author, "GIT_AUTHOR_EMAIL=" + st.Email, "GIT_AUTHOR_DATE=" + authorDate,
			"GIT_COMMITTER_NAME=Committer Bot", "GIT_COMMITTER_EMAIL=ci@example.org", "GIT_COMMITTER_DATE=" + st.Date}
		switch st.Kind {
		case "branch":
			if _, err := Git(repo, nil, "checkout", "-q", "-b", st.Branch); err != nil {
				return err
			}
		case "checkout":
			if _, err := Git(repo, nil, "checkout", "-q", st.Branch); err != nil {
				return err
			}
		case "merge":
			if _, err := Git(repo, id, "-c", "merge.directoryRenames=false", "merge", "-q", "--no-ff", "--no-edit", "-m", st.Subject, st.Branch); err != nil {
				return &ErrConflict{Msg: fmt.Sprintf("step %d: %v", i, err)}
			}
		case "commit":
			for _, op := range st.Ops {
				if err := apply(repo, op); err != nil {
					return fmt.Errorf("step %d: %v", i, err)
				}
			}
			args := []string{"commit", "-q", "--no-verify", "-m", st.Subject}
			if st.Message != "" {
				msgFile := filepath.Join(filepath.Dir(repo), fmt.Sprintf("message-%d.txt", i))
				if err := ioutil.WriteFile(msgFile, []byte(st.Message), 0o644); err != nil {
					return err
				}
				args = []string{"commit", "-q", "--no-verify", "-F", msgFile}
			}
			if st.Empty {
				args = append(args, "--allow-empty")
			} else {
				if _, err := Git(repo, nil, "add", "-A", "."); err != nil {
					return err
				}
			}
			if _, err := Git(repo, id, args...); err != nil {
				return fmt.Errorf("step %d: %v", i, err)
			}
		}
	}
	return nil
}

func apply(repo string, op Op) error {
	abs := func(p string) string { return filepath.Join(repo, filepath.FromSlash(p)) }
	write := func(p string, b []byte) error {
		if err := os.MkdirAll(filepath.Dir(abs(p)), 0o755); err != nil {
			return err
		}
		return ioutil.WriteFile(abs(p), b, 0o644)
	}
	switch op.Kind {
	case "create":
		if _, err := os.Lstat(abs(op.Path)); err == nil {
			return fmt.Errorf("create: %s exists", op.Path)
		}
		return write(op.Path, op.Content)
	case "modify":
		if _, err := os.Lstat(abs(op.Path)); err != nil {
			return fmt.Errorf("modify: %s missing", op.Path)
		}
		return write(op.Path, op.Content)
	case "delete":
		if err := os.Remove(abs(op.Path)); err != nil {
			return err
		}
		pruneEmptyDirs(repo, filepath.Dir(abs(op.Path)))
		return nil
	case "rename":
		if _, err := os.Lstat(abs(op.To)); err == nil {
			return fmt.Errorf("rename: target %s exists", op.To)
		}
		if err := os.MkdirAll(filepath.Dir(abs(op.To)), 0o755); err != nil {
			return err
		}
		if err := os.Rename(abs(op.Path), abs(op.To)); err != nil {
			return err
		}
		pruneEmptyDirs(repo, filepath.Dir(abs(op.Path)))
		if op.Content != nil {
			return write(op.To, op.Content)
		}
		return nil
	}
	return fmt.Errorf("unknown op %q", op.Kind)
}

func pruneEmptyDirs(repo, dir string) {
	for dir != repo && strings.HasPrefix(dir, repo) {
		if err := os.Remove(dir); err != nil {
			return
		}
		dir = filepath.Dir(dir)
	}
}

// CocaLogArgs is the `git log` invocation documented for coca's parser (pkg/application/git/README.md) and used by
// cmd/git.go, as a shell would pass it: the format string WITHOUT surrounding quote characters.
var CocaLogArgs = []string{"log", "--pretty=format:[%h] %aN %ad %s", "--date=short", "--numstat", "--reverse", "--summary"}

// CocaLog returns the text coca's parser is meant to consume for this repository.
func CocaLog(repo string) (string, error) { return Git(repo, nil, CocaLogArgs...) }
