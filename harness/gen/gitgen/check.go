package gitgen

import (
	"fmt"
	"regexp"
	"strings"
)

// Parsed is the neutral form of one entry of coca's commit list (adapters convert into it).
type Parsed struct {
	Rev     string         `json:"Rev"`
	Author  string         `json:"Author"`
	Date    string         `json:"Date"`
	Message string         `json:"Message"`
	Changes []ParsedChange `json:"Changes"`
}

type ParsedChange struct {
	Added   int    `json:"Added"`
	Deleted int    `json:"Deleted"`
	File    string `json:"File"`
	Mode    string `json:"Mode"`
}

type Mismatch struct{ Sig, Msg string }

var (
	bracketHex  = regexp.MustCompile(`\[[0-9a-f|]{5,12}\]`)
	numstatLike = regexp.MustCompile(`[0-9-]+\s+[0-9-]+\s+\S`)
)

// Hazard names the first property of a commit's own planted text that is known to stress a line-oriented log parser;
// it only makes mismatch signatures narrower, it never decides a verdict.
func Hazard(t TruthCommit) string {
	switch {
	case len(t.Subject) > 65536:
		return "subject-over-64KiB"
	case t.Subject != strings.TrimSpace(t.Subject):
		return "subject-starts-or-ends-with-(unicode)-space"
	case bracketHex.MatchString(t.Subject):
		return "subject-has-[hex]"
	case strings.Contains(t.Subject, t.Author):
		return "subject-contains-author"
	case strings.Contains(t.Subject, t.Date):
		return "subject-contains-commit-date"
	case numstatLike.MatchString(t.Subject):
		return "subject-numstat-like"
	}
	for _, c := range t.Changes {
		if numstatLike.MatchString(c.Display) {
			return "path-numstat-like"
		}
	}
	if TailCollision(t) {
		return "created-or-deleted-path-ends-with-another-changed-path"
	}
	return ""
}

// TailCollision: the commit creates or deletes a path P and changes, without creating or deleting it, a path Q such
// that P ends with Q (README.md modified while docs/README.md is created).
func TailCollision(t TruthCommit) bool {
	for _, p := range t.Changes {
		if p.Status != "A" && p.Status != "D" {
			continue
		}
		for _, q := range t.Changes {
			if q.Display != p.Display && q.Status != p.Status && strings.HasSuffix(p.Display, q.Display) {
				return true
			}
		}
	}
	return false
}

func hazardAt(truth []TruthCommit, i int) string {
	if h := Hazard(truth[i]); h != "" {
		return h
	}
	// a commit directly after a hazardous one (in the printed log) inherits what the parser left behind
	for j := i - 1; j >= 0; j-- {
		if h := Hazard(truth[j]); h != "" {
			return "after-" + h
		}
		if truth[j].Expected() {
			break
		}
	}
	return "plain"
}

// Compare is the C14 oracle: got must be exactly the non-merge commits with >= 1 change, in log order, each with
// %h/%aN/%ad/%s and the SET of (numstat path, added, deleted, mode) of that commit.
func Compare(truth []TruthCommit, got []Parsed) []Mismatch {
	var out []Mismatch
	add := func(sig, format string, a ...interface{}) {
		out = append(out, Mismatch{sig, fmt.Sprintf(format, a...)})
	}

	idx := map[string]int{}
	for i, t := range truth {
		idx[t.Rev] = i
	}
	// which display paths belong to which commits (to recognise a change filed under a foreign commit)
	owner := map[string][]int{}
	for i, t := range truth {
		for _, c := range t.Changes {
			owner[c.Display] = append(owner[c.Display], i)
		}
	}
	seen := map[string]bool{}
	var gotOrder []int
	for k, p := range got {
		i, ok := idx[p.Rev]
		switch {
		case !ok:
			add("commit-unknown-rev", "entry %d has Rev %q, which is no %%h of this history (Author %q Date %q Message %q)", k, p.Rev, p.Author, p.Date, p.Message)
			continue
		case seen[p.Rev]:
			add("commit-duplicated/"+hazardAt(truth, i), "commit %s is listed twice", p.Rev)
			continue
		case truth[i].Parents > 1:
			add("commit-extra/merge", "merge commit %s (%q) is listed with %d changes", p.Rev, truth[i].Subject, len(p.Changes))
			seen[p.Rev] = true
			continue
		case len(truth[i].Changes) == 0:
			add("commit-extra/empty", "commit %s (%q) changes no file but is listed with %d changes", p.Rev, truth[i].Subject, len(p.Changes))
			seen[p.Rev] = true
			continue
		}
		seen[p.Rev] = true
		gotOrder = append(gotOrder, i)
		t := truth[i]
		hz := hazardAt(truth, i)
		chz := hz // change-level mismatches: a hazardous path of this commit is the narrower class
		for _, c := range t.Changes {
			if numstatLike.MatchString(c.Display) {
				chz = "path-numstat-like"
			}
		}
		if p.Author != t.Author {
			add("author-mismatch/"+hz, "commit %s: Author %q, git prints %%aN = %q (subject %q)", t.Rev, p.Author, t.Author, t.Subject)
		}
		if p.Date != t.Date {
			add("date-mismatch/"+hz, "commit %s: Date %q, git prints %%ad = %q", t.Rev, p.Date, t.Date)
		}
		if p.Message != t.Subject {
			add("message-mismatch/"+hz, "commit %s by %q on %s: Message %q, git prints %%s = %q", t.Rev, t.Author, t.Date, p.Message, t.Subject)
		}
		want := map[string]TruthChange{}
		for _, c := range t.Changes {
			want[c.Display] = c
		}
		have := map[string]bool{}
		for _, pc := range p.Changes {
			if have[pc.File] {
				add("change-duplicated/"+chz, "commit %s lists %q twice", t.Rev, pc.File)
				continue
			}
			have[pc.File] = true
			w, ok := want[pc.File]
			if !ok {
				foreign := ""
				for _, o := range owner[pc.File] {
					if o != i {
						foreign = truth[o].Rev
					}
				}
				if foreign != "" {
					add("change-foreign/"+chz, "commit %s (%q) lists %q (+%d -%d %q), which git reports under commit %s, not this one", t.Rev, t.Subject, pc.File, pc.Added, pc.Deleted, pc.Mode, foreign)
				} else {
					add("change-extra/"+chz, "commit %s (%q) lists %q (+%d -%d %q); git reports no such path for it (numstat paths: %s)", t.Rev, t.Subject, pc.File, pc.Added, pc.Deleted, pc.Mode, displays(t))
				}
				continue
			}
			phz := hz // mismatches of one change: narrowed by that path only
			if numstatLike.MatchString(w.Display) {
				phz = "path-numstat-like"
			}
			kind := "text"
			if w.Binary {
				kind = "binary"
			} else if w.Old != "" {
				kind = "rename"
			}
			if pc.Added != w.Added || pc.Deleted != w.Deleted {
				add("counts-mismatch/"+kind+"/"+phz, "commit %s, %q: +%d -%d, git reports +%d -%d (binary=%v)", t.Rev, pc.File, pc.Added, pc.Deleted, w.Added, w.Deleted, w.Binary)
			}
			// the statement fixes the create/delete mode only: a created path must carry "create", a deleted one "delete",
			// anything else (modified, renamed) must carry neither; other values (e.g. "rename") are left free
			wrong := pc.Mode != w.Mode()
			if w.Mode() == "" {
				wrong = pc.Mode == "create" || pc.Mode == "delete"
			}
			if wrong {
				add("mode-mismatch/"+w.Status+"/"+phz, "commit %s, %q: Mode %q, git status %s requires %s", t.Rev, pc.File, pc.Mode, w.Status, map[string]string{"create": `"create"`, "delete": `"delete"`, "": `neither "create" nor "delete"`}[w.Mode()])
			}
		}
		for _, c := range t.Changes {
			if !have[c.Display] {
				add("change-missing/"+chz, "commit %s (%q): no change for %q (status %s, +%d -%d); listed: %s", t.Rev, t.Subject, c.Display, c.Status, c.Added, c.Deleted, files(p))
			}
		}
	}
	for i, t := range truth {
		if t.Expected() && !seen[t.Rev] {
			pos := ""
			if i == firstExpected(truth) {
				pos = "/first"
			} else if i == lastExpected(truth) {
				pos = "/last"
			}
			add("commit-missing/"+hazardAt(truth, i)+pos, "commit %s by %q on %s %q with %d changes is not in the list", t.Rev, t.Author, t.Date, t.Subject, len(t.Changes))
		}
	}
	for k := 1; k < len(gotOrder); k++ {
		if gotOrder[k] < gotOrder[k-1] {
			sig := "order"
			if len(truth) > 1000 {
				sig = "order/history-over-1000-commits"
			}
			add(sig, "commit %s (entry %d of the list, commit %d of %d in `git log --reverse`) is listed after %s (commit %d of the log); the log has them the other way round",
				truth[gotOrder[k]].Rev, k, gotOrder[k]+1, len(truth), truth[gotOrder[k-1]].Rev, gotOrder[k-1]+1)
			break
		}
	}
	return out
}

func firstExpected(truth []TruthCommit) int {
	for i, t := range truth {
		if t.Expected() {
			return i
		}
	}
	return -1
}

func lastExpected(truth []TruthCommit) int {
	for i := len(truth) - 1; i >= 0; i-- {
		if truth[i].Expected() {
			return i
		}
	}
	return -1
}

func displays(t TruthCommit) string {
	var s []string
	for _, c := range t.Changes {
		s = append(s, fmt.Sprintf("%q", c.Display))
	}
	return strings.Join(s, ",")
}

func files(p Parsed) string {
	var s []string
	for _, c := range p.Changes {
		s = append(s, fmt.Sprintf("%q", c.File))
	}
	return strings.Join(s, ",")
}
