// Package archgen synthesises type-level code models (the part of coca's deps.json that `coca arch` reads)
// together with their ground truth: which types exist, in which package, and which relation of which kind
// was planted between which two names. It does not import coca; adapter/c13 converts a Model into
// []core_domain.CodeDataStruct and an identifier map.
//
// What is generated stays inside the quantifier of C13: types over package trees 1-5 deep,
// implements / extends / field / call relations to project types, to non-project types and to the type
// itself, an entry class `Main`, methods named `main`. Types of the default package (Pkg == "") are generated
// (when Opts.MinPkgDepth < 2): the node / edge / quotient clauses apply to them; only how they are DRAWN is
// left open and judged by nobody. Names include underscores and non-ASCII letters, arranged so that different
// full names become equal when every character outside [A-Za-z0-9_] (or every dot) is replaced by '_'.
// Deliberately NOT generated (the statement leaves them open): a type whose full name equals (a prefix of)
// another type's package, two types with the same full name, an identifier map that differs from the set of
// types, a default-package type named like one of the bare unresolved names.
package archgen

import (
	"fmt"
	"sort"
	"strings"

	"verifharness/run"
)

// Ref names the target of a relation.
type Ref struct {
	Pkg, Name string
	Raw       string // when set, the literal string coca sees (a bare or empty name); Pkg/Name unused
	IsRaw     bool
}

// Full is the name the relation points to, as it appears in the model.
func (r Ref) Full() string {
	if r.IsRaw {
		return r.Raw
	}
	return r.Pkg + "." + r.Name
}

type Method struct {
	Name  string
	Calls []Ref // receiver types of the calls in the body (Pkg=="" && Name=="" : unresolved receiver)
}

type Type struct {
	Pkg, Name  string
	Interface  bool
	Extends    *Ref
	Implements []Ref
	Fields     []Ref
	Methods    []Method
}

func (t *Type) Full() string { return t.Pkg + "." + t.Name }

// IsMain: the entry class of the statement.
func (t *Type) IsMain() bool { return t.Name == "Main" }

type Model struct {
	Types []*Type
	Mode  string
	// Planted key collision (informational): the two package pairs whose concatenations are equal.
	Collision [][2]string
	// Twins (informational): planted pairs of full names that are equal after replacing every character
	// outside [A-Za-z0-9_] by '_'.
	Twins [][2]string
}

// Opts bounds a model.
type Opts struct {
	MaxTypes    int
	MinPkgDepth int // 1 normally; 2 when the caller wants every package to have a parent segment
	// ForceTwins: always plant a pair of packages that differ only in '.' versus '_' at one position
	// (pre.db.v2 / pre.db_v2), so that a caller can use the dotted one as a filter word
	ForceTwins bool
}

var collideSegs = []string{"a", "ab", "abc", "b", "bc", "bcd", "c", "cd", "d", "abcd"}
var wordSegs = []string{"com", "org", "acme", "core", "web", "api", "svc", "util", "db", "io", "graph", "node", "edge", "strict", "subgraph", "digraph"}
var typeWords = []string{"Order", "User", "Cart", "Repo", "Service", "Ctl", "Mapper", "Util", "Gate", "Pay", "Stock", "Mail", "A", "B", "Ab", "Cd",
	// perfectly ordinary class names that happen to be DOT keywords (case-insensitively)
	"Node", "Edge", "Graph", "Digraph", "Subgraph", "Strict"}

// underscores, '$' (binary names of nested types) and non-ASCII letters (legal Java identifiers); the arranged pairs are planted in Generate (Model.Twins)
var exoticSegs = []string{"db_v2", "b_c", "c_d", "b_c_d", "io_", "büro", "bäro", "données", "größe", "倉庫"}
var exoticTypes = []string{"Db_Conn", "Order_V2", "v2_Conn", "_Tmp", "Conn_", "Cache$Entry", "Outer$Inner", "Map$1", "Größe", "Grüße", "Café", "Cafè", "Ärger", "Örger", "订单", "用户", "注文", "顧客"}
var twinWords = []string{"db", "v2", "io", "x1", "b", "c"}
var nonASCIITwinTypes = [][2]string{{"Größe", "Grüße"}, {"Café", "Cafè"}, {"订单", "用户"}, {"注文", "顧客"}, {"Ärger", "Örger"}, {"Niño", "Niñó"}}
var nonASCIITwinSegs = [][2]string{{"büro", "bäro"}, {"données", "donnèes"}, {"倉庫", "在庫"}}

var mainDecoys = []string{"MainView", "Maintenance", "MainImpl", "Main2", "DoMain"}
var methodWords = []string{"run", "save", "load", "find", "apply", "check", "send", "build", "init", "close"}
var mainMethodDecoys = []string{"mainLoop", "Main", "domain", "main2"}
var externalPkgs = []string{"java.util", "java.lang", "org.ext.lib", "javax.inject", "zz.vendor"}
var externalNames = []string{"List", "Map", "Object", "Runnable", "Inject", "Helper", "Ext"}
var bareNames = []string{"Base", "T", "Serializable", "Object"}

// collisionQuads: (s1,s2,s3,s4) with s1+s2 == s3+s4 and (s1,s2) != (s3,s4).
var collisionQuads = [][4]string{
	{"ab", "cd", "a", "bcd"},
	{"ab", "cd", "abc", "d"},
	{"a", "bcd", "abc", "d"},
	{"ab", "c", "a", "bc"},
	{"a", "bc", "ab", "c"},
	{"bc", "d", "b", "cd"},
	{"abc", "d", "ab", "cd"},
	{"abcd", "b", "abc", "db"},
}

func join(segs []string) string { return strings.Join(segs, ".") }

// Generate builds one model.
func Generate(r *run.Rand, o Opts) *Model {
	if o.MaxTypes <= 0 {
		o.MaxTypes = 30
	}
	if o.MinPkgDepth < 1 {
		o.MinPkgDepth = 1
	}
	m := &Model{}
	mode := r.Intn(6)
	alphabet := collideSegs
	switch r.Intn(4) {
	case 0:
		alphabet = wordSegs
	case 1:
		alphabet = append(append([]string{}, collideSegs...), wordSegs...)
	}
	exotic := r.Chance(1, 4)
	if exotic {
		alphabet = append(append([]string{}, alphabet...), exoticSegs...)
	}

	// ---- packages
	var pkgs []string
	havePkg := map[string]bool{}
	addPkg := func(p string) {
		if p != "" && !havePkg[p] {
			havePkg[p] = true
			pkgs = append(pkgs, p)
		}
	}
	nPk := r.Range(1, 7)
	planted := [][2]string{}
	if mode == 0 { // planted concatenation collision
		m.Mode = "collision"
		q := collisionQuads[r.Intn(len(collisionQuads))]
		var pre, suf string
		if o.MinPkgDepth >= 2 || r.Chance(1, 3) {
			pre = r.Pick(alphabet)
			if r.Chance(1, 3) {
				pre += "." + r.Pick(alphabet)
			}
			pre += "."
		}
		if r.Chance(1, 3) {
			suf = "." + r.Pick(alphabet)
		}
		p1, p2, p3, p4 := pre+q[0], q[1]+suf, pre+q[2], q[3]+suf
		if o.MinPkgDepth >= 2 {
			// the To side needs a parent segment too: give it one that keeps From+To equal
			p2, p4 = q[1]+".k"+suf, q[3]+".k"+suf
		}
		addPkg(p1)
		addPkg(p2)
		addPkg(p3)
		addPkg(p4)
		planted = append(planted, [2]string{p1, p2}, [2]string{p3, p4})
		m.Collision = planted
	}
	for len(pkgs) < nPk {
		depth := r.Range(o.MinPkgDepth, 5)
		if r.Chance(1, 2) && depth > 3 {
			depth = r.Range(o.MinPkgDepth, 3)
		}
		var segs []string
		if len(pkgs) > 0 && r.Chance(1, 2) {
			// nest under / next to an existing package: share a prefix
			base := strings.Split(pkgs[r.Intn(len(pkgs))], ".")
			keep := r.Range(1, len(base))
			segs = append(segs, base[:keep]...)
		}
		for len(segs) < depth {
			segs = append(segs, r.Pick(alphabet))
		}
		if len(segs) > 5 {
			segs = segs[:5]
		}
		before := len(pkgs)
		addPkg(join(segs))
		if len(pkgs) == before && r.Chance(1, 4) {
			break
		}
	}

	// planted twins: two full names that differ only in characters outside [A-Za-z0-9] (see Model.Twins)
	type forced struct{ pkg, name string }
	var forcedTypes []forced
	if tw := r.Chance(1, 6); tw || o.ForceTwins {
		pre := r.Pick(alphabet)
		if r.Chance(1, 3) {
			pre += "." + r.Pick(alphabet)
		}
		w1, w2 := r.Pick(twinWords), r.Pick(twinWords)
		tn := r.Pick(typeWords)
		var a, b forced
		kind := r.Intn(5)
		if o.ForceTwins && kind != 4 {
			kind = 0
		}
		switch kind {
		case 0: // an underscore lined up with a package boundary: pre.db_v2.T / pre.db.v2.T
			a, b = forced{pre + "." + w1 + "_" + w2, tn}, forced{pre + "." + w1 + "." + w2, tn}
		case 1: // ... with the boundary between package and type: pre.db_v2.Conn / pre.db.v2_Conn
			a, b = forced{pre + "." + w1 + "_" + w2, tn}, forced{pre + "." + w1, w2 + "_" + tn}
		case 2: // same-length non-ASCII type names in one package
			tw := nonASCIITwinTypes[r.Intn(len(nonASCIITwinTypes))]
			a, b = forced{pre + "." + w1, tw[0]}, forced{pre + "." + w1, tw[1]}
		case 3: // same-length non-ASCII package segments
			tw := nonASCIITwinSegs[r.Intn(len(nonASCIITwinSegs))]
			a, b = forced{pre + "." + tw[0], tn}, forced{pre + "." + tw[1], tn}
		default: // underscore inside the type name against a dot-free neighbour: pre.db.V_T / pre.db_V.T is not
			// conventional; use two underscore placements inside one package path instead: pre.b_c.d / pre.b.c_d
			a, b = forced{pre + "." + w1 + "_" + w2 + "." + "d", tn}, forced{pre + "." + w1 + "." + w2 + "_d", tn}
		}
		addPkg(a.pkg)
		addPkg(b.pkg)
		forcedTypes = append(forcedTypes, a, b)
		m.Twins = append(m.Twins, [2]string{a.pkg + "." + a.name, b.pkg + "." + b.name})
	}
	// the default package
	if o.MinPkgDepth < 2 && r.Chance(1, 5) {
		pos := r.Intn(len(pkgs) + 1)
		pkgs = append(pkgs, "")
		copy(pkgs[pos+1:], pkgs[pos:])
		pkgs[pos] = ""
	}

	// ---- types
	nT := r.Range(1, o.MaxTypes-len(forcedTypes))
	if r.Chance(1, 2) && nT > 10 {
		nT = r.Range(2, 10)
	}
	if nT < len(planted)*2 {
		nT = len(planted) * 2
	}
	used := map[string]bool{}
	newType := func(pkg, name string) *Type {
		base := name
		for k := 2; used[pkg+"."+name]; k++ {
			name = fmt.Sprintf("%s%d", base, k)
		}
		used[pkg+"."+name] = true
		t := &Type{Pkg: pkg, Name: name, Interface: r.Chance(1, 4)}
		m.Types = append(m.Types, t)
		return t
	}
	for i := 0; i < nT; i++ {
		pkg := pkgs[i%len(pkgs)]
		if i >= len(pkgs) {
			pkg = pkgs[r.Intn(len(pkgs))]
		}
		name := r.Pick(typeWords)
		if r.Chance(1, 12) {
			name = r.Pick(mainDecoys)
		} else if exotic && r.Chance(1, 3) {
			name = r.Pick(exoticTypes)
		}
		newType(pkg, name)
	}
	for _, f := range forcedTypes {
		if !used[f.pkg+"."+f.name] {
			t := newType(f.pkg, f.name)
			// somewhere in the middle
			pos := r.Intn(len(m.Types))
			copy(m.Types[pos+1:], m.Types[pos:len(m.Types)-1])
			m.Types[pos] = t
		}
	}
	// the entry class (sometimes two of them, in different packages)
	if r.Chance(1, 2) {
		for k := r.Range(1, 2); k > 0 && len(m.Types) < o.MaxTypes+2; k-- {
			pkg := pkgs[r.Intn(len(pkgs))]
			if !used[pkg+".Main"] {
				used[pkg+".Main"] = true
				t := &Type{Pkg: pkg, Name: "Main"}
				// not always last: coca must not depend on its position
				pos := r.Intn(len(m.Types) + 1)
				m.Types = append(m.Types, nil)
				copy(m.Types[pos+1:], m.Types[pos:])
				m.Types[pos] = t
			}
		}
	}

	all := m.Types
	n := len(all)
	refOf := func(t *Type) Ref { return Ref{Pkg: t.Pkg, Name: t.Name} }
	var namedPkgs []string
	for _, p := range pkgs {
		if p != "" {
			namedPkgs = append(namedPkgs, p)
		}
	}
	hasDefault := len(namedPkgs) < len(pkgs)
	external := func() Ref {
		k := r.Intn(10)
		if len(namedPkgs) == 0 && k <= 2 {
			if k == 0 {
				// the model only has the default package: a non-project type of that package
				return Ref{Pkg: "", Name: "Gen" + r.Pick(externalNames)}
			}
			k = 9
		}
		switch k {
		case 0: // a non-project type inside a project package (now and then the default package)
			if hasDefault && r.Chance(1, 5) {
				return Ref{Pkg: "", Name: "Gen" + r.Pick(externalNames)}
			}
			return Ref{Pkg: namedPkgs[r.Intn(len(namedPkgs))], Name: "Gen" + r.Pick(externalNames)}
		case 1: // a non-project type whose top-level segment is a project one
			top := strings.Split(namedPkgs[r.Intn(len(namedPkgs))], ".")[0]
			return Ref{Pkg: top + ".thirdparty", Name: r.Pick(externalNames)}
		case 2: // a non-project type directly in a top-level project segment
			top := strings.Split(namedPkgs[r.Intn(len(namedPkgs))], ".")[0]
			return Ref{Pkg: top, Name: "Gen" + r.Pick(externalNames)}
		default:
			return Ref{Pkg: r.Pick(externalPkgs), Name: r.Pick(externalNames)}
		}
	}
	// density by mode
	pProj, pExt, pSelf := 3, 2, 1 // out of 10 per slot
	switch mode {
	case 1:
		m.Mode = "sparse"
		pProj, pExt, pSelf = 1, 1, 1
	case 2:
		m.Mode = "dense"
		pProj, pExt, pSelf = 6, 2, 1
	case 3:
		m.Mode = "external-heavy"
		pProj, pExt, pSelf = 2, 6, 1
	case 4:
		m.Mode = "layered"
	case 5:
		m.Mode = "random"
	}
	// target chooser; in layered mode a type only points to types with a higher index (a DAG over packages
	// mostly), otherwise anywhere
	target := func(i int) (Ref, string) {
		x := r.Intn(10)
		switch {
		case x < pProj:
			j := r.Intn(n)
			if m.Mode == "layered" && i+1 < n {
				j = r.Range(i+1, n-1)
			}
			return refOf(all[j]), "project"
		case x < pProj+pExt:
			return external(), "external"
		case x < pProj+pExt+pSelf:
			return refOf(all[i]), "self"
		}
		return Ref{}, ""
	}
	for i, t := range all {
		// extends
		if r.Chance(1, 2) {
			if ref, kind := target(i); kind != "" {
				if kind == "self" && !r.Chance(1, 4) {
					// a type extending itself is rare in any model: keep it rare
				} else {
					rr := ref
					t.Extends = &rr
				}
			} else if r.Chance(1, 6) {
				t.Extends = &Ref{IsRaw: true, Raw: r.Pick(bareNames)}
			}
		}
		// implements
		for k := r.Intn(4); k > 0; k-- {
			if ref, kind := target(i); kind != "" {
				if kind == "self" && !r.Chance(1, 4) {
					continue
				}
				t.Implements = append(t.Implements, ref)
			} else if r.Chance(1, 8) {
				// an interface name the front-end could not resolve is recorded as the empty string
				t.Implements = append(t.Implements, Ref{IsRaw: true, Raw: ""})
			}
		}
		// fields
		for k := r.Intn(5); k > 0; k-- {
			if ref, kind := target(i); kind != "" {
				t.Fields = append(t.Fields, ref)
			}
		}
		// methods
		nm := r.Intn(5)
		if t.IsMain() && nm == 0 {
			nm = 1
		}
		for k := 0; k < nm; k++ {
			me := Method{Name: r.Pick(methodWords)}
			if r.Chance(1, 5) || (t.IsMain() && k == 0) {
				me.Name = "main"
			} else if r.Chance(1, 8) {
				me.Name = r.Pick(mainMethodDecoys)
			}
			for c := r.Intn(6); c > 0; c-- {
				if ref, kind := target(i); kind != "" {
					me.Calls = append(me.Calls, ref)
				} else if r.Chance(1, 4) {
					me.Calls = append(me.Calls, Ref{}) // unresolved receiver
				}
			}
			t.Methods = append(t.Methods, me)
		}
	}
	// planted collision relations: one type of p1 depends on one of p2, one of p3 on one of p4
	for _, pp := range planted {
		var from, to *Type
		for _, t := range all {
			if t.IsMain() {
				continue
			}
			if t.Pkg == pp[0] && from == nil {
				from = t
			}
			if t.Pkg == pp[1] && to == nil {
				to = t
			}
		}
		if from == nil || to == nil {
			continue
		}
		switch r.Intn(4) {
		case 0:
			rr := refOf(to)
			from.Extends = &rr
		case 1:
			from.Implements = append(from.Implements, refOf(to))
		case 2:
			from.Fields = append(from.Fields, refOf(to))
		default:
			from.Methods = append(from.Methods, Method{Name: "use" + to.Name, Calls: []Ref{refOf(to)}})
		}
	}
	return m
}

// Packages returns the sorted distinct packages of the non-Main and Main types alike.
func (m *Model) Packages() []string {
	set := map[string]bool{}
	for _, t := range m.Types {
		set[t.Pkg] = true
	}
	var out []string
	for p := range set {
		out = append(out, p)
	}
	sort.Strings(out)
	return out
}

// MinPkgDepth is the smallest number of segments of any package.
func (m *Model) MinPkgDepth() int {
	min := 99
	for _, t := range m.Types {
		if d := len(strings.Split(t.Pkg, ".")); d < min {
			min = d
		}
	}
	return min
}

// Describe renders the model compactly (samples / witnesses).
func (m *Model) Describe() []string {
	var out []string
	for _, t := range m.Types {
		var sb strings.Builder
		if t.Interface {
			sb.WriteString("interface ")
		} else {
			sb.WriteString("class ")
		}
		sb.WriteString(t.Full())
		if t.Extends != nil {
			fmt.Fprintf(&sb, " extends %q", t.Extends.Full())
		}
		if len(t.Implements) > 0 {
			sb.WriteString(" implements " + quoteRefs(t.Implements))
		}
		if len(t.Fields) > 0 {
			sb.WriteString(" fields " + quoteRefs(t.Fields))
		}
		for _, me := range t.Methods {
			sb.WriteString(" " + me.Name + "(){" + quoteRefs(me.Calls) + "}")
		}
		out = append(out, sb.String())
	}
	return out
}

func quoteRefs(rs []Ref) string {
	var xs []string
	for _, r := range rs {
		xs = append(xs, fmt.Sprintf("%q", r.Full()))
	}
	return "[" + strings.Join(xs, ",") + "]"
}

// ShapeKey is a structural description that does not contain the random names: packages by (depth,
// index of the longest other package that is a prefix), types by package index and relation targets by
// type index / x (non-project) / s (self).
func (m *Model) ShapeKey() string {
	pk := m.Packages()
	pidx := map[string]int{}
	for i, p := range pk {
		pidx[p] = i
	}
	var sb strings.Builder
	for _, p := range pk {
		parent := -1
		for j, q := range pk {
			if q != p && strings.HasPrefix(p, q+".") && (parent < 0 || len(q) > len(pk[parent])) {
				parent = j
			}
		}
		if p == "" {
			sb.WriteString("pDEFAULT;")
			continue
		}
		fmt.Fprintf(&sb, "p%d^%d;", len(strings.Split(p, ".")), parent)
	}
	tidx := map[string]int{}
	for i, t := range m.Types {
		tidx[t.Full()] = i
	}
	code := func(self string, r Ref) string {
		f := r.Full()
		if f == self {
			return "s"
		}
		if j, ok := tidx[f]; ok && !r.IsRaw {
			return fmt.Sprint(j)
		}
		return "x"
	}
	for _, t := range m.Types {
		fmt.Fprintf(&sb, "|%d", pidx[t.Pkg])
		if t.IsMain() {
			sb.WriteString("M")
		}
		if t.Extends != nil {
			sb.WriteString("e" + code(t.Full(), *t.Extends))
		}
		for _, r := range t.Implements {
			sb.WriteString("i" + code(t.Full(), r))
		}
		for _, r := range t.Fields {
			sb.WriteString("f" + code(t.Full(), r))
		}
		for _, me := range t.Methods {
			if me.Name == "main" {
				sb.WriteString("m!")
			} else {
				sb.WriteString("m")
			}
			for _, r := range me.Calls {
				sb.WriteString("c" + code(t.Full(), r))
			}
		}
	}
	return m.Mode + "/" + sb.String()
}
