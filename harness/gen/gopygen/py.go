package gopygen

import (
	"fmt"
	"strings"

	"verifharness/run"
)

// ---------------------------------------------------------------------------------------------------------------
// Python modules
//
// Quantifier (properties.jsonl C20): modules built from imports, (decorated) classes with methods, (decorated)
// functions, nested defs. Nothing else is generated at declaration level; bodies are simple statements.

type PyImportMod struct{ Name, Alias string } // `import Name [as Alias]`
type PyImportName struct{ Name, Alias string }

type PyImport struct {
	From   bool
	Mods   []PyImportMod  // plain import: one statement may name several modules
	Source string         // from-import: source exactly as written (".", "..", ".pkg", "a.b")
	Names  []PyImportName // from-import: imported names
	Paren  bool           // from a import (b, c)
	Multi  bool           // ... with one name per line inside the parentheses
	Comma  bool           // ... with a trailing comma inside the parentheses
	Star   bool           // from a import *
}

type PyDeco struct {
	Name string // dotted name
	Args string // "" or "(...)"
}

type PyStmt struct {
	Text string  // a simple statement (may span lines only inside brackets)
	Def  *PyFunc // or a nested def
}

type PyFunc struct {
	Name    string
	Async   bool
	Params  string // rendered parameter list
	Returns string // "" or " -> T"
	Decos   []PyDeco
	Body    []PyStmt
	OneLine bool // `def f(): pass`
}

type PyClassItem struct {
	Text   string
	Method *PyFunc
}

type PyClass struct {
	Name    string
	Bases   string // "", "()", "(Base)", ...
	Decos   []PyDeco
	Body    []PyClassItem
	OneLine bool // `class X: pass`
}

type PyItem struct {
	Import  *PyImport
	Class   *PyClass
	Func    *PyFunc
	Text    string // module-level simple statement
	Comment string // comment line
	Blank   int    // blank lines before the item
}

type PyModule struct {
	File          string
	Items         []PyItem
	Indent        string
	CRLF          bool
	BlankInBlocks bool // empty / blank-only lines between the statements of indented blocks
	// TrailIndent: the text ends with a last line that holds nothing but indentation and has no line break (what an
	// editor leaves behind); "" = no such line
	TrailIndent string
	// LongLine: the module has one physical line of LongLineBytes (>= 64 KiB: a long string literal or comment)
	LongLine      bool
	LongLineBytes int
	NoFinalNL     bool
	Large         bool
	Flat          bool // large module made of one-line declarations only
	Text          string
	// LexEvents = logical lines + INDENTs + DEDENTs: what coca's Python lexer has to queue (see DESIGN §2 on
	// generator rejects; the shipped lexer helper corrupts its token queue beyond 31 such events).
	LexEvents int
}

// PySmallBudget keeps a module inside what the shipped lexer helper can tokenise (measured: 31 passes, 32 fails).
const PySmallBudget = 30

func (m *PyModule) Classes() []*PyClass {
	var out []*PyClass
	for _, it := range m.Items {
		if it.Class != nil {
			out = append(out, it.Class)
		}
	}
	return out
}

func (m *PyModule) Funcs() []*PyFunc {
	var out []*PyFunc
	for _, it := range m.Items {
		if it.Func != nil {
			out = append(out, it.Func)
		}
	}
	return out
}

func (m *PyModule) Imports() []*PyImport {
	var out []*PyImport
	for _, it := range m.Items {
		if it.Import != nil {
			out = append(out, it.Import)
		}
	}
	return out
}

func (c *PyClass) Methods() []*PyFunc {
	var out []*PyFunc
	for _, it := range c.Body {
		if it.Method != nil {
			out = append(out, it.Method)
		}
	}
	return out
}

// StarOnlyDefs counts the defs whose parameter list has no plain parameter in front of `*args` / `**kwargs`:
// module-level functions, methods, and defs nested in either.
func (m *PyModule) StarOnlyDefs() (top, method, nested int) {
	var inner func(f *PyFunc)
	inner = func(f *PyFunc) {
		for _, s := range f.Body {
			if s.Def != nil {
				if pyStarOnly(s.Def.Params) {
					nested++
				}
				inner(s.Def)
			}
		}
	}
	for _, f := range m.Funcs() {
		if pyStarOnly(f.Params) {
			top++
		}
		inner(f)
	}
	for _, c := range m.Classes() {
		for _, me := range c.Methods() {
			if pyStarOnly(me.Params) {
				method++
			}
			inner(me)
		}
	}
	return
}

// NestedNames returns the names of all defs nested (at any depth) in f.
func (f *PyFunc) NestedNames() []string {
	var out []string
	for _, s := range f.Body {
		if s.Def != nil {
			out = append(out, s.Def.Name)
			out = append(out, s.Def.NestedNames()...)
		}
	}
	return out
}

func (f *PyFunc) nestedDepth() int {
	d := 0
	for _, s := range f.Body {
		if s.Def != nil {
			if k := 1 + s.Def.nestedDepth(); k > d {
				d = k
			}
		}
	}
	return d
}

// ---- generation -----------------------------------------------------------------------------------------------

type pyGen struct {
	r  *run.Rand
	nm *namer
	// noPinnedForms: do not write `import a, b` / `from a import b as c` (large modules: their mismatches carry
	// a size suffix, and these two forms have signatures of their own that must not depend on the size)
	noPinnedForms bool
}

func (g *pyGen) dotted(maxParts int) string {
	n := g.r.Range(1, maxParts)
	parts := make([]string, n)
	for i := range parts {
		parts[i] = g.nm.lower()
	}
	return strings.Join(parts, ".")
}

func (g *pyGen) importStmt() *PyImport {
	r := g.r
	im := &PyImport{}
	switch k := r.Intn(20); {
	case k < 4: // import a
		im.Mods = []PyImportMod{{Name: g.dotted(1)}}
	case k < 6: // import a.b.c
		im.Mods = []PyImportMod{{Name: g.dotted(3)}}
	case k < 9: // import a.b as c
		im.Mods = []PyImportMod{{Name: g.dotted(3), Alias: g.nm.lower()}}
	case k < 10 && !g.noPinnedForms: // import a, b   (one statement, several modules)
		n := r.Range(2, 3)
		for i := 0; i < n; i++ {
			m := PyImportMod{Name: g.dotted(2)}
			if r.Chance(1, 4) {
				m.Alias = g.nm.lower()
			}
			im.Mods = append(im.Mods, m)
		}
	default:
		im.From = true
		switch s := r.Intn(10); {
		case s < 5:
			im.Source = g.dotted(3)
		case s < 7:
			im.Source = r.Pick([]string{".", "..", "..."})
		default:
			im.Source = r.Pick([]string{".", ".."}) + g.dotted(2)
		}
		if r.Chance(1, 14) {
			im.Star = true
			break
		}
		n := r.Range(1, 3)
		for i := 0; i < n; i++ {
			nmx := PyImportName{Name: g.nm.lower()}
			if r.Chance(1, 2) {
				nmx.Name = capitalize(nmx.Name)
			}
			if r.Chance(1, 12) && !g.noPinnedForms {
				nmx.Alias = g.nm.lower()
			}
			im.Names = append(im.Names, nmx)
		}
		im.Paren = r.Chance(1, 5)
		if im.Paren {
			im.Multi = r.Chance(1, 2)
			im.Comma = r.Chance(1, 3)
		}
	}
	return im
}

func (g *pyGen) deco() PyDeco {
	r := g.r
	d := PyDeco{}
	switch r.Intn(4) {
	case 0:
		d.Name = g.nm.lower()
	case 1:
		d.Name = g.nm.snakeVerb()
	case 2:
		d.Name = g.nm.lower() + "." + g.nm.verb()
	default:
		d.Name = g.nm.lower() + "." + g.nm.lower() + "." + g.nm.verb()
	}
	switch r.Intn(6) {
	case 0:
		d.Args = "()"
	case 1:
		d.Args = "(1, k=2)"
	case 2:
		d.Args = `("/` + r.Pick(lowerWords) + `")`
	case 3:
		d.Args = "(int, " + r.Pick(lowerWords) + "=None)"
	}
	return d
}

func (g *pyGen) decos(max int) []PyDeco {
	r := g.r
	n := 0
	if r.Chance(1, 2) {
		n = r.Range(1, max)
	}
	var ds []PyDeco
	for i := 0; i < n; i++ {
		ds = append(ds, g.deco())
	}
	return ds
}

var pyParamSets = []string{"", "a", "a, b", "a, b=1", "x, *args", "x, **kw", "a, *args, **kw", "a: int", "a: int, b: str = \"q\"", "*, key=None", "items, n=0",
	// parameter lists without a leading plain parameter (the forwarding wrapper of a decorator, option bags)
	"*args, **kwargs", "*args", "**kwargs", "*a", "**kw", "*, key", "*args, key=None, **kw", "*items: int", "**options: str"}

// pyStarOnly: the parameter list starts with `*name` / `**name` (no plain parameter, no bare `*`, in front).
func pyStarOnly(params string) bool {
	return strings.HasPrefix(params, "*") && !strings.HasPrefix(params, "*,")
}

func (g *pyGen) simpleStmt(method bool) string {
	r := g.r
	opts := []string{
		"pass",
		"x = 1",
		"y = a + 1",
		"total = compute(1, 2)",
		"return None",
		"return 1",
		"value = {\"k\": 1}",
		"names = [n for n in range(3)]",
		"raise ValueError(\"bad\")",
		"assert True",
		"x += 2",
		"\"\"\"doc: class Fake: def nope(): pass\"\"\"",
		"text = \"def not_a_function(): # no\"",
		"result = helper(\n        1,\n        2)",
		"data = {\n    \"a\": 1,\n    \"b\": [1, 2],\n}",
		"x = 1  # trailing comment: def nope()",
		"a = 1; b = 2",
		"del x",
		"global counter",
	}
	if method {
		opts = append(opts, "self.value = 1", "self.run(1)", "return self", "cls.count = 0")
	}
	return r.Pick(opts)
}

func (g *pyGen) funcDef(method bool, depthLeft int, maxBody int, allowNested bool) *PyFunc {
	r := g.r
	f := &PyFunc{}
	switch r.Intn(4) {
	case 0:
		f.Name = g.nm.verb()
	case 1:
		f.Name = g.nm.snakeVerb()
	case 2:
		f.Name = "_" + g.nm.snakeVerb()
	default:
		f.Name = g.nm.camelVerb(r.Chance(1, 2)) // capitalised names are valid Python too (and are what the flattened model keeps)
	}
	if method && r.Chance(1, 10) {
		f.Name = "__" + g.nm.verb() + "__"
	}
	f.Async = r.Chance(1, 12)
	f.Params = r.Pick(pyParamSets)
	if method {
		self := r.Pick([]string{"self", "self", "self", "cls"})
		if pyStarOnly(f.Params) && r.Bool() {
			// a method that takes whatever it is given (static / forwarding method): no self in front
		} else if f.Params == "" || strings.HasPrefix(f.Params, "*,") {
			if f.Params == "" {
				f.Params = self
			} else {
				f.Params = self + ", " + f.Params
			}
		} else {
			f.Params = self + ", " + f.Params
		}
	}
	if r.Chance(1, 8) {
		f.Returns = " -> " + r.Pick([]string{"int", "str", "None", "bool"})
	}
	f.Decos = g.decos(3)
	if r.Chance(1, 8) && maxBody <= 2 {
		f.OneLine = true
		f.Body = []PyStmt{{Text: "pass"}}
		return f
	}
	n := r.Range(1, maxBody)
	nestedAt := -1
	if allowNested && depthLeft > 0 && r.Chance(1, 3) {
		nestedAt = r.Intn(n)
	}
	for i := 0; i < n; i++ {
		if i == nestedAt {
			f.Body = append(f.Body, PyStmt{Def: g.funcDef(false, depthLeft-1, 2, true)})
			continue
		}
		f.Body = append(f.Body, PyStmt{Text: g.simpleStmt(method)})
	}
	// a body must not consist of a `global` / `del` alone in a way that matters? both are fine syntactically.
	return f
}

func (g *pyGen) classDef(maxMethods, maxBody int, allowNested bool) *PyClass {
	r := g.r
	c := &PyClass{Name: g.nm.typ()}
	if r.Chance(1, 10) {
		c.Name = g.nm.lower() // lower-case class names are valid
	}
	c.Bases = r.Pick([]string{"", "", "()", "(object)", "(Base)", "(pkg.Base, Mixin)", "(Base, metaclass=Meta)"})
	c.Decos = g.decos(2)
	nm := r.Range(0, maxMethods)
	if nm == 0 && r.Chance(1, 2) {
		c.OneLine = true
		return c
	}
	if r.Chance(1, 4) {
		c.Body = append(c.Body, PyClassItem{Text: "\"\"\"" + r.Pick(lowerWords) + " class. def nothing(): pass\"\"\""})
	}
	if r.Chance(1, 4) {
		c.Body = append(c.Body, PyClassItem{Text: r.Pick(lowerWords) + " = " + r.Pick([]string{"1", "None", "\"x\"", "[]"})})
	}
	for i := 0; i < nm; i++ {
		c.Body = append(c.Body, PyClassItem{Method: g.funcDef(true, 2, maxBody, allowNested)})
		if r.Chance(1, 10) {
			c.Body = append(c.Body, PyClassItem{Text: r.Pick(lowerWords) + "_flag = True"})
		}
	}
	if len(c.Body) == 0 {
		c.Body = append(c.Body, PyClassItem{Text: "pass"})
	}
	return c
}

// GenPy builds one module. large=false keeps the module within PySmallBudget lexer events.
// idBase offsets the ids of the planted names, so that several files of one case never share a name.
func GenPy(r *run.Rand, file string, large bool, idBase int) *PyModule {
	g := &pyGen{r: r, nm: &namer{r: r, n: idBase}, noPinnedForms: large}
	m := &PyModule{File: file, Large: large}
	m.Indent = r.Pick([]string{"    ", "    ", "    ", "  ", "\t"})
	m.CRLF = r.Chance(1, 8)
	// blank lines inside indented blocks (between the statements of a body, between class members), some of them
	// consisting of blanks only
	m.BlankInBlocks = r.Chance(1, 3)
	// CRLF modules carry a signature suffix of their own: keep the two pinned import forms out of them
	g.noPinnedForms = large || m.CRLF
	m.NoFinalNL = r.Chance(1, 8)
	if !large && r.Chance(1, 16) {
		m.NoFinalNL = true
		m.TrailIndent = strings.Repeat(m.Indent, r.Range(1, 2))
	}
	m.LongLine = !large && r.Chance(1, 30)
	if m.TrailIndent != "" || m.LongLine {
		g.noPinnedForms = true // these modules carry a signature suffix of their own
	}

	if large && r.Bool() {
		g.flatLarge(m)
		return m
	}
	nImp, nCls, nFn, maxMeth, maxBody := r.Range(0, 4), r.Range(0, 2), r.Range(0, 2), 3, 2
	if large {
		nImp, nCls, nFn, maxMeth, maxBody = r.Range(2, 10), r.Range(1, 5), r.Range(1, 6), 6, 5
	}
	if nCls+nFn == 0 {
		if r.Bool() {
			nCls = 1
		} else {
			nFn = 1
		}
	}
	var items []PyItem
	for i := 0; i < nImp; i++ {
		items = append(items, PyItem{Import: g.importStmt()})
	}
	// definitions in random order
	var defs []PyItem
	for i := 0; i < nCls; i++ {
		defs = append(defs, PyItem{Class: g.classDef(maxMeth, maxBody, true)})
	}
	for i := 0; i < nFn; i++ {
		defs = append(defs, PyItem{Func: g.funcDef(false, 2, maxBody, true)})
	}
	for _, p := range r.Perm(len(defs)) {
		it := defs[p]
		it.Blank = r.Range(0, 2)
		items = append(items, it)
		if r.Chance(1, 8) {
			items = append(items, PyItem{Text: r.Pick([]string{"counter = 0", "__all__ = [\"x\"]", "main()", "VERSION = \"1.0\""})})
		}
		if r.Chance(1, 10) {
			items = append(items, PyItem{Import: g.importStmt()}) // an import between definitions
		}
		if r.Chance(1, 8) {
			items = append(items, PyItem{Comment: "# " + r.Pick(lowerWords) + ": def commented_out(): pass"})
		}
	}
	m.Items = items
	m.render()
	if !large {
		m.shrinkTo(PySmallBudget)
	}
	if m.TrailIndent != "" && r.Chance(1, 3) {
		// a module that consists of a single class / function
		for i := len(m.Items) - 1; i >= 0; i-- {
			if m.Items[i].Class != nil || m.Items[i].Func != nil {
				m.Items = []PyItem{m.Items[i]}
				break
			}
		}
		m.render()
	}
	if m.LongLine {
		g.addLongLine(m)
	}
	return m
}

// addLongLine puts one physical line of 64 KiB or more (embedded data) into the first half of the module, so that
// declarations follow it: a module-level assignment of a long string literal, a one-line def returning it, or a
// comment line.
func (g *pyGen) addLongLine(m *PyModule) {
	r := g.r
	n := 65536 + r.Intn(9000)
	unit := r.Pick([]string{"A", "x7", "data-", "0123456789abcdef"})
	blob := strings.Repeat(unit, n/len(unit)+1)[:n]
	var it PyItem
	switch r.Intn(4) {
	case 0:
		it = PyItem{Func: &PyFunc{Name: g.nm.snakeVerb(), OneLine: true, Body: []PyStmt{{Text: "return \"" + blob + "\""}}}}
	case 1:
		it = PyItem{Comment: "# " + blob}
	default:
		it = PyItem{Text: strings.ToUpper(r.Pick(lowerWords)) + "_" + g.nm.id() + " = \"" + blob + "\""}
	}
	at := r.Intn(len(m.Items)/2 + 1)
	m.Items = append(m.Items[:at], append([]PyItem{it}, m.Items[at:]...)...)
	m.render()
	m.LongLineBytes = n
}

// flatLarge fills m with 33-70 one-line declarations at module level: more than 31 lexer events without a single
// INDENT. Half of these modules repeat one kind of line, the others mix all kinds.
func (g *pyGen) flatLarge(m *PyModule) {
	r := g.r
	m.Flat = true
	n := r.Range(33, 70)
	uniform := r.Bool()
	kind := r.Intn(7)
	for i := 0; i < n; i++ {
		k := kind
		if !uniform {
			k = r.Intn(7)
		}
		switch k {
		case 0:
			m.Items = append(m.Items, PyItem{Import: &PyImport{Mods: []PyImportMod{{Name: g.dotted(2)}}}})
		case 1:
			m.Items = append(m.Items, PyItem{Import: &PyImport{Mods: []PyImportMod{{Name: g.dotted(2), Alias: g.nm.lower()}}}})
		case 2:
			m.Items = append(m.Items, PyItem{Import: &PyImport{From: true, Source: g.dotted(2), Names: []PyImportName{{Name: g.nm.lower()}}}})
		case 3, 4:
			f := &PyFunc{Name: g.nm.snakeVerb(), OneLine: true, Body: []PyStmt{{Text: "pass"}}}
			if k == 4 {
				f.Params = "a, b"
				f.Body[0].Text = "return a"
			}
			if !uniform && r.Chance(1, 4) {
				f.Decos = []PyDeco{g.deco()}
			}
			m.Items = append(m.Items, PyItem{Func: f})
		default:
			c := &PyClass{Name: g.nm.typ(), OneLine: true}
			if k == 6 {
				c.Bases = "(Base)"
			}
			if !uniform && r.Chance(1, 4) {
				c.Decos = []PyDeco{g.deco()}
			}
			m.Items = append(m.Items, PyItem{Class: c})
		}
	}
	m.render()
}

// shrinkTo removes material (deterministically, from the end) until the module fits the lexer budget.
func (m *PyModule) shrinkTo(budget int) {
	for guard := 0; m.LexEvents > budget && guard < 500; guard++ {
		if m.trimOnce() {
			m.render()
			continue
		}
		break
	}
}

func trimFunc(f *PyFunc) bool {
	// first nested defs (deepest cost), then extra statements
	for i := len(f.Body) - 1; i >= 0; i-- {
		if f.Body[i].Def != nil {
			if trimFunc(f.Body[i].Def) {
				return true
			}
			if len(f.Body) > 1 {
				f.Body = append(f.Body[:i], f.Body[i+1:]...)
			} else {
				f.Body[i] = PyStmt{Text: "pass"}
			}
			return true
		}
	}
	if len(f.Body) > 1 {
		f.Body = f.Body[:len(f.Body)-1]
		return true
	}
	return false
}

func (m *PyModule) trimOnce() bool {
	// 1. shorten bodies, last definition first
	for i := len(m.Items) - 1; i >= 0; i-- {
		it := &m.Items[i]
		if it.Func != nil && trimFunc(it.Func) {
			return true
		}
		if it.Class != nil {
			for j := len(it.Class.Body) - 1; j >= 0; j-- {
				if me := it.Class.Body[j].Method; me != nil && trimFunc(me) {
					return true
				}
			}
		}
	}
	// 2. drop non-declaration items, then the last method of the largest class, then whole items (keep >= 1)
	for i := len(m.Items) - 1; i >= 0; i-- {
		if m.Items[i].Text != "" {
			m.Items = append(m.Items[:i], m.Items[i+1:]...)
			return true
		}
	}
	best, bestN := -1, 1
	for i, it := range m.Items {
		if it.Class != nil && len(it.Class.Body) > bestN {
			best, bestN = i, len(it.Class.Body)
		}
	}
	if best >= 0 {
		c := m.Items[best].Class
		c.Body = c.Body[:len(c.Body)-1]
		return true
	}
	if len(m.Items) > 1 {
		// drop from the middle outwards so that imports, classes and functions all keep a chance to survive
		k := len(m.Items) / 2
		m.Items = append(m.Items[:k], m.Items[k+1:]...)
		return true
	}
	return false
}

// ---- rendering ------------------------------------------------------------------------------------------------

type pyOut struct {
	sb     strings.Builder
	indent string
	blanks bool // write blank lines inside blocks
	nblank int
}

// blank writes an empty line inside a block (every third one consists of the block's indentation only).
func (o *pyOut) blank(level int) {
	if !o.blanks {
		return
	}
	o.nblank++
	if o.nblank%3 == 0 {
		o.sb.WriteString(strings.Repeat(o.indent, level))
	}
	o.sb.WriteString("\n")
}

func (o *pyOut) line(level int, s string) {
	// a statement may contain newlines (inside brackets): continuation lines keep their own indentation
	o.sb.WriteString(strings.Repeat(o.indent, level))
	o.sb.WriteString(s)
	o.sb.WriteString("\n")
}

func (im *PyImport) String() string {
	if !im.From {
		var ps []string
		for _, m := range im.Mods {
			if m.Alias != "" {
				ps = append(ps, m.Name+" as "+m.Alias)
			} else {
				ps = append(ps, m.Name)
			}
		}
		return "import " + strings.Join(ps, ", ")
	}
	if im.Star {
		return "from " + im.Source + " import *"
	}
	var ps []string
	for _, n := range im.Names {
		if n.Alias != "" {
			ps = append(ps, n.Name+" as "+n.Alias)
		} else {
			ps = append(ps, n.Name)
		}
	}
	if im.Paren {
		tail := ""
		if im.Comma {
			tail = ","
		}
		if im.Multi {
			return "from " + im.Source + " import (\n    " + strings.Join(ps, ",\n    ") + tail + "\n)"
		}
		return "from " + im.Source + " import (" + strings.Join(ps, ", ") + tail + ")"
	}
	return "from " + im.Source + " import " + strings.Join(ps, ", ")
}

func (o *pyOut) decos(level int, ds []PyDeco) {
	for _, d := range ds {
		o.line(level, "@"+d.Name+d.Args)
	}
}

func (o *pyOut) fn(level int, f *PyFunc) {
	o.decos(level, f.Decos)
	head := "def " + f.Name + "(" + f.Params + ")" + f.Returns + ":"
	if f.Async {
		head = "async " + head
	}
	if f.OneLine {
		o.line(level, head+" "+f.Body[0].Text)
		return
	}
	o.line(level, head)
	for i, s := range f.Body {
		if i > 0 {
			o.blank(level + 1)
		}
		if s.Def != nil {
			o.fn(level+1, s.Def)
		} else {
			o.line(level+1, s.Text)
		}
	}
}

func (o *pyOut) class(level int, c *PyClass) {
	o.decos(level, c.Decos)
	head := "class " + c.Name + c.Bases + ":"
	if c.OneLine {
		o.line(level, head+" pass")
		return
	}
	o.line(level, head)
	first := true
	for _, it := range c.Body {
		if it.Method != nil {
			if !first {
				o.sb.WriteString("\n")
			}
			o.fn(level+1, it.Method)
		} else {
			if !first {
				o.blank(level + 1)
			}
			o.line(level+1, it.Text)
		}
		first = false
	}
}

// CanonicalText is the same module in the plainest layout (LF line ends, 4 blanks, final newline, no blank lines
// inside blocks): the same declarations, only the layout differs from Text.
func (m *PyModule) CanonicalText() string {
	c := *m
	c.Indent, c.CRLF, c.NoFinalNL, c.BlankInBlocks, c.TrailIndent = "    ", false, false, false, ""
	c.render()
	return c.Text
}

func (m *PyModule) render() {
	o := &pyOut{indent: m.Indent, blanks: m.BlankInBlocks}
	for _, it := range m.Items {
		for i := 0; i < it.Blank; i++ {
			o.sb.WriteString("\n")
		}
		switch {
		case it.Import != nil:
			o.line(0, it.Import.String())
		case it.Class != nil:
			o.class(0, it.Class)
		case it.Func != nil:
			o.fn(0, it.Func)
		case it.Comment != "":
			o.line(0, it.Comment)
		default:
			o.line(0, it.Text)
		}
	}
	t := o.sb.String()
	if m.NoFinalNL {
		t = strings.TrimRight(t, "\n")
	}
	if m.TrailIndent != "" {
		t += "\n" + m.TrailIndent
	}
	m.LexEvents = pyLexEvents(t)
	if m.CRLF {
		t = strings.ReplaceAll(t, "\n", "\r\n")
	}
	m.Text = t
}

// pyLexEvents counts logical lines + INDENT + DEDENT tokens of a text produced by render (indentation is
// consistent, brackets balanced, strings never contain brackets or '#' outside the shapes handled here).
func pyLexEvents(t string) int {
	events := 0
	depth := 0
	var stack []int
	inTriple := false
	for _, ln := range strings.Split(t, "\n") {
		trim := strings.TrimLeft(ln, " \t")
		if depth == 0 && !inTriple {
			if trim == "" || strings.HasPrefix(trim, "#") {
				continue
			}
			ind := 0
			for _, ch := range ln[:len(ln)-len(trim)] {
				if ch == '\t' {
					ind += 8 - ind%8
				} else {
					ind++
				}
			}
			events++ // LINE_BREAK
			top := 0
			if len(stack) > 0 {
				top = stack[len(stack)-1]
			}
			if ind > top {
				stack = append(stack, ind)
				events++
			} else {
				for len(stack) > 0 && stack[len(stack)-1] > ind {
					stack = stack[:len(stack)-1]
					events++
				}
			}
		}
		// bracket depth, ignoring string contents and comments
		inStr := byte(0)
		for i := 0; i < len(trim); i++ {
			ch := trim[i]
			if inTriple {
				if strings.HasPrefix(trim[i:], `"""`) {
					inTriple = false
					i += 2
				}
				continue
			}
			if inStr != 0 {
				if ch == '\\' {
					i++
				} else if ch == inStr {
					inStr = 0
				}
				continue
			}
			switch ch {
			case '"', '\'':
				if strings.HasPrefix(trim[i:], `"""`) {
					inTriple = true
					i += 2
				} else {
					inStr = ch
				}
			case '#':
				i = len(trim)
			case '(', '[', '{':
				depth++
			case ')', ']', '}':
				if depth > 0 {
					depth--
				}
			}
		}
	}
	events += len(stack) // DEDENTs at end of input
	return events
}

// Shape is a structural description without the random names.
func (m *PyModule) Shape() string {
	var sb strings.Builder
	fmt.Fprintf(&sb, "ind%q crlf%v nl%v flat%v blank%v trail%d long%v|", m.Indent, m.CRLF, m.NoFinalNL, m.Flat, m.BlankInBlocks, len(m.TrailIndent), m.LongLine)
	var fn func(f *PyFunc)
	fn = func(f *PyFunc) {
		fmt.Fprintf(&sb, "f(d%d a%v o%v p%d%v:", len(f.Decos), f.Async, f.OneLine, strings.Count(f.Params, ","), pyStarOnly(f.Params))
		for _, s := range f.Body {
			if s.Def != nil {
				fn(s.Def)
			} else {
				sb.WriteString("s")
			}
		}
		sb.WriteString(")")
	}
	for _, it := range m.Items {
		switch {
		case it.Import != nil:
			im := it.Import
			al := 0
			for _, x := range im.Mods {
				if x.Alias != "" {
					al++
				}
			}
			for _, x := range im.Names {
				if x.Alias != "" {
					al++
				}
			}
			fmt.Fprintf(&sb, "i(%v m%d n%d a%d p%v%v%v s%v dots%d)", im.From, len(im.Mods), len(im.Names), al, im.Paren, im.Multi, im.Comma, im.Star, strings.Count(im.Source, "."))
		case it.Class != nil:
			fmt.Fprintf(&sb, "c(d%d b%d o%v:", len(it.Class.Decos), len(it.Class.Bases), it.Class.OneLine)
			for _, b := range it.Class.Body {
				if b.Method != nil {
					fn(b.Method)
				} else {
					sb.WriteString("s")
				}
			}
			sb.WriteString(")")
		case it.Func != nil:
			fn(it.Func)
		case it.Comment != "":
			sb.WriteString("#")
		default:
			sb.WriteString("t")
		}
	}
	return sb.String()
}

// SharePyNames makes module b declare a class and/or a capitalised function under a name that module a declares
// too (two modules of one scan both with `class Meta`); methods and decorators stay b's own.
func SharePyNames(r *run.Rand, a, b *PyModule) []string {
	var shared []string
	if ac, bc := a.Classes(), b.Classes(); len(ac) > 0 && len(bc) > 0 {
		ca, cb := ac[r.Intn(len(ac))], bc[r.Intn(len(bc))]
		cb.Name = ca.Name
		shared = append(shared, "class "+ca.Name)
	}
	// a function both modules declare; it gets a capitalised name (the flattened model keeps those)
	var cand []*PyFunc
	for _, fn := range a.Funcs() {
		if c := fn.Name[0]; c >= 'a' && c <= 'z' || c >= 'A' && c <= 'Z' {
			cand = append(cand, fn)
		}
	}
	if bf := b.Funcs(); len(cand) > 0 && len(bf) > 0 && (r.Chance(1, 2) || len(shared) == 0) {
		fa, fb := cand[r.Intn(len(cand))], bf[r.Intn(len(bf))]
		fa.Name = capitalize(fa.Name)
		fb.Name = fa.Name
		shared = append(shared, "def "+fa.Name)
	}
	if len(shared) > 0 {
		a.render()
		b.render()
	}
	return shared
}
