// Package gopygen is G-GOPY: Python modules and Go source files with planted, uniquely named declarations
// (DESIGN §4 C20). It does not import coca; the text is produced together with the ground truth, the ground
// truth never comes from a parser.
//
// Every planted name carries a per-file counter ("id"), so an observation can be matched to exactly one planted
// event by name alone.
package gopygen

import (
	"strconv"

	"verifharness/run"
)

type namer struct {
	r *run.Rand
	n int
}

func (nm *namer) id() string {
	nm.n++
	return strconv.Itoa(nm.n)
}

var lowerWords = []string{"order", "item", "user", "cart", "price", "stock", "store", "index", "queue", "cache", "batch", "event",
	"route", "token", "field", "value", "entry", "shape", "point", "frame", "chunk", "block", "audit", "grant", "label", "match"}

var verbWords = []string{"load", "save", "build", "find", "parse", "apply", "close", "open", "flush", "merge", "check", "render",
	"update", "remove", "insert", "reset", "sync", "touch", "visit", "count", "emit", "fetch", "bind", "scan", "wrap", "trim"}

func capitalize(s string) string {
	if s == "" {
		return s
	}
	b := []byte(s)
	if b[0] >= 'a' && b[0] <= 'z' {
		b[0] -= 'a' - 'A'
	}
	return string(b)
}

// lower gives e.g. "stock17".
func (nm *namer) lower() string { return nm.r.Pick(lowerWords) + nm.id() }

// verb gives e.g. "flush9".
func (nm *namer) verb() string { return nm.r.Pick(verbWords) + nm.id() }

// Type gives e.g. "OrderStore4".
func (nm *namer) typ() string {
	return capitalize(nm.r.Pick(lowerWords)) + capitalize(nm.r.Pick(lowerWords)) + nm.id()
}

// camelVerb gives e.g. "loadIndex12" or "LoadIndex12".
func (nm *namer) camelVerb(exported bool) string {
	s := nm.r.Pick(verbWords) + capitalize(nm.r.Pick(lowerWords)) + nm.id()
	if exported {
		return capitalize(s)
	}
	return s
}

// snakeVerb gives e.g. "load_index12".
func (nm *namer) snakeVerb() string {
	return nm.r.Pick(verbWords) + "_" + nm.r.Pick(lowerWords) + nm.id()
}
