package gopygen

import (
	"fmt"
	"strings"

	"verifharness/run"
)

// ---------------------------------------------------------------------------------------------------------------
// Go source files
//
// Quantifier (properties.jsonl C20): files built from imports, 1..n struct and interface declarations, methods
// on value/pointer receivers (declared AFTER their receiver type, in the same file), free functions with
// parameters/results, bodies with call statements, defer, assignments and returns.
// The files only have to parse (go/parser); they are never type-checked, so every callee / import path can carry
// an id.

type GoImport struct {
	Path  string
	Alias string // "" = none
	// Qual is the qualifier a call through this import is written with (alias, or last path element).
	Qual string
	// Raw: the path is written as a raw string literal (`os`) instead of an interpreted one ("os")
	Raw bool
}

// GoField is one field / parameter declaration line: `a, b T`.
type GoField struct {
	Names    []string // empty = embedded field / unnamed parameter (not asserted)
	Type     string
	Tag      string
	Variadic bool
}

type GoStruct struct {
	Name    string
	Fields  []GoField
	Methods []*GoFunc // filled for convenience (ground truth: methods whose receiver is this struct)
}

type GoIfaceMethod struct {
	Name    string
	Params  string    // rendered
	Fields  []GoField // the same parameters, structured (names may be the blank identifier)
	Results string    // rendered
}

type GoIface struct {
	Name    string
	Methods []GoIfaceMethod
	Embeds  []string // embedded interface names (not asserted)
}

// GoStmt kinds.
const (
	StCallPkg  = "call-pkg"  // q.F(args)          asserted
	StCallRecv = "call-recv" // s.m(args)          asserted
	StCallBare = "call-bare" // f(args)            not asserted (statement speaks of package-qualified / receiver calls)
	StDefer    = "defer"     // defer q.F() / s.m() not asserted as a call statement, generated (quantifier)
	StAssign   = "assign"
	StReturn   = "return"
)

type GoStmt struct {
	Kind string
	Qual string // qualifier as written (package qualifier or receiver / parameter variable)
	Func string // callee name (unique id) for call kinds and defer
	Text string // full statement text
	// Inner: the statements of a function literal passed as the last argument of this call statement
	// (`r.Each(func(name string) { log.Println(name); r.Touch(name) })`); the call statements among them are call
	// statements of the enclosing function
	Inner []GoStmt
	// InCallback: this statement is written inside such a function literal
	InCallback bool
}

// AllStmts returns the statements of the body including, recursively, those written inside callbacks.
func (f *GoFunc) AllStmts() []GoStmt {
	var out []GoStmt
	var walk func(ss []GoStmt)
	walk = func(ss []GoStmt) {
		for _, s := range ss {
			out = append(out, s)
			walk(s.Inner)
		}
	}
	walk(f.Body)
	return out
}

type GoRecv struct {
	Var     string // "" = unnamed receiver
	Type    string
	Pointer bool
}

type GoFunc struct {
	// NoBody: a declaration without a body (`func ext(a int) int`, implemented outside Go); free functions only
	NoBody bool
	// AboveType: a method written above the declaration of its receiver type (set by the layout)
	AboveType bool
	Name      string
	Recv      *GoRecv
	Params    []GoField
	Results   string // rendered: "", " error", " (int, error)", " (n int, err error)"
	Body      []GoStmt
}

type GoDecl struct {
	Struct *GoStruct
	Iface  *GoIface
	Func   *GoFunc
	Group  []GoDecl // grouped type declaration: type ( A struct{..}; B interface{..} )
}

type GoFile struct {
	InlineIfaces int // interface types written in place (parameters, struct fields)
	File         string
	Pkg          string
	Imports      []GoImport
	ImportStyle  int // 0 grouped, 1 one line each, 2 mixed
	Decls        []GoDecl
	Text         string
}

func (f *GoFile) walk(fn func(d *GoDecl)) {
	for i := range f.Decls {
		d := &f.Decls[i]
		if d.Group != nil {
			for j := range d.Group {
				fn(&d.Group[j])
			}
			continue
		}
		fn(d)
	}
}

func (f *GoFile) Structs() []*GoStruct {
	var out []*GoStruct
	f.walk(func(d *GoDecl) {
		if d.Struct != nil {
			out = append(out, d.Struct)
		}
	})
	return out
}

func (f *GoFile) Ifaces() []*GoIface {
	var out []*GoIface
	f.walk(func(d *GoDecl) {
		if d.Iface != nil {
			out = append(out, d.Iface)
		}
	})
	return out
}

// Funcs returns the free functions; Methods the methods.
func (f *GoFile) Funcs() []*GoFunc {
	var out []*GoFunc
	f.walk(func(d *GoDecl) {
		if d.Func != nil && d.Func.Recv == nil {
			out = append(out, d.Func)
		}
	})
	return out
}

func (f *GoFile) Methods() []*GoFunc {
	var out []*GoFunc
	f.walk(func(d *GoDecl) {
		if d.Func != nil && d.Func.Recv != nil {
			out = append(out, d.Func)
		}
	})
	return out
}

type goGen struct {
	inline  int // inline interface types written so far
	r       *run.Rand
	nm      *namer
	imports []GoImport
	types   []string
}

var goBuiltin = []string{"int", "string", "bool", "int64", "float64", "byte", "error", "uint8", "rune"}

func (g *goGen) typeExpr() string {
	r := g.r
	base := r.Pick(goBuiltin)
	if len(g.types) > 0 && r.Chance(1, 4) {
		base = r.Pick(g.types)
	}
	q := ""
	if len(g.imports) > 0 && r.Chance(1, 4) {
		im := g.imports[r.Intn(len(g.imports))]
		if im.Qual != "" {
			q = im.Qual + "." + capitalize(r.Pick(lowerWords))
		}
	}
	if r.Chance(1, 14) {
		// an interface type written in place, with a method set of its own (not a declaration: nothing is demanded
		// for it, but the declared types around it must keep their entries)
		n := r.Range(1, 2)
		var ms []string
		for i := 0; i < n; i++ {
			ms = append(ms, g.nm.camelVerb(true)+"("+r.Pick([]string{"", "string", "int, error"})+")"+r.Pick([]string{"", " error", " int"}))
		}
		g.inline++
		return "interface{ " + strings.Join(ms, "; ") + " }"
	}
	switch r.Intn(16) {
	case 0, 1, 2, 3, 4, 5:
		return base
	case 6:
		return "*" + base
	case 7:
		return "[]" + base
	case 8:
		if q != "" {
			return q
		}
		return base
	case 9:
		if q != "" {
			return "*" + q
		}
		return "*" + base
	case 10:
		if q != "" {
			return "[]" + q
		}
		return "[]" + base
	case 11:
		return "map[string]" + base
	case 12:
		return "func(" + r.Pick(goBuiltin) + ") " + r.Pick(goBuiltin)
	case 13:
		return "interface{}"
	case 14:
		return "[]*" + base
	default:
		return "chan " + base
	}
}

func (g *goGen) fields(lo, hi int, allowEmbedded bool) []GoField {
	r := g.r
	n := r.Range(lo, hi)
	var fs []GoField
	for i := 0; i < n; i++ {
		fl := GoField{Type: g.typeExpr()}
		k := 1
		if r.Chance(1, 6) {
			k = r.Range(2, 3)
		}
		for j := 0; j < k; j++ {
			nm := g.nm.lower()
			if r.Chance(1, 3) {
				nm = capitalize(nm)
			}
			fl.Names = append(fl.Names, nm)
		}
		if allowEmbedded && r.Chance(1, 16) {
			fl.Names = nil
			fl.Type = capitalize(r.Pick(lowerWords)) + "Base" // embedded type from elsewhere in the package
			if len(g.imports) > 0 && r.Bool() {
				if q := g.imports[r.Intn(len(g.imports))].Qual; q != "" {
					fl.Type = "*" + q + "." + fl.Type
				}
			}
		}
		if allowEmbedded && len(fl.Names) > 0 && r.Chance(1, 10) {
			fl.Tag = "`json:\"" + strings.ToLower(fl.Names[0]) + "\"`"
		}
		if allowEmbedded && len(fl.Names) > 1 && r.Chance(1, 6) {
			fl.Names[r.Intn(len(fl.Names))] = "_" // `a, _ int`
		}
		fs = append(fs, fl)
	}
	if allowEmbedded && r.Chance(1, 10) {
		// a blank field (padding / "do not compare" marker)
		blank := GoField{Names: []string{"_"}, Type: r.Pick([]string{"[0]func()", "int", "[4]byte", "[0]func()"})}
		at := r.Intn(len(fs) + 1)
		fs = append(fs[:at], append([]GoField{blank}, fs[at:]...)...)
	}
	return fs
}

func (g *goGen) params() []GoField {
	r := g.r
	n := r.Range(0, 3)
	var fs []GoField
	for i := 0; i < n; i++ {
		fl := GoField{Type: g.typeExpr()}
		k := 1
		if r.Chance(1, 5) {
			k = 2
		}
		for j := 0; j < k; j++ {
			if r.Chance(1, 8) {
				fl.Names = append(fl.Names, "_") // an unused parameter is still a parameter
				continue
			}
			fl.Names = append(fl.Names, g.nm.lower())
		}
		if i == n-1 && r.Chance(1, 10) {
			fl.Variadic = true
			fl.Type = r.Pick(goBuiltin)
		}
		fs = append(fs, fl)
	}
	return fs
}

func (g *goGen) results() string {
	r := g.r
	switch r.Intn(6) {
	case 0, 1:
		return ""
	case 2:
		return " " + r.Pick(goBuiltin)
	case 3:
		return " (" + r.Pick(goBuiltin) + ", error)"
	case 4:
		return " (" + g.nm.lower() + " " + r.Pick(goBuiltin) + ", err error)"
	default:
		if len(g.types) > 0 {
			return " *" + r.Pick(g.types)
		}
		return " error"
	}
}

func renderParams(fs []GoField) string {
	var ps []string
	for _, f := range fs {
		t := f.Type
		if f.Variadic {
			t = "..." + t
		}
		if len(f.Names) == 0 {
			ps = append(ps, t)
		} else {
			ps = append(ps, strings.Join(f.Names, ", ")+" "+t)
		}
	}
	return strings.Join(ps, ", ")
}

func (g *goGen) args(vars []string) string {
	r := g.r
	n := r.Range(0, 3)
	var as []string
	for i := 0; i < n; i++ {
		switch r.Intn(7) {
		case 0:
			as = append(as, fmt.Sprint(r.Intn(100)))
		case 1:
			as = append(as, `"`+r.Pick(lowerWords)+`.run()"`) // call-looking text inside a string literal
		case 2, 3:
			if len(vars) > 0 {
				as = append(as, r.Pick(vars))
			} else {
				as = append(as, "nil")
			}
		case 4:
			if len(vars) > 0 {
				as = append(as, r.Pick(vars)+"."+capitalize(r.Pick(lowerWords)))
			} else {
				as = append(as, "true")
			}
		case 5:
			if len(vars) > 0 {
				as = append(as, "&"+r.Pick(vars))
			} else {
				as = append(as, "1.5")
			}
		default:
			as = append(as, "nil")
		}
	}
	return strings.Join(as, ", ")
}

// body builds 0-6 statements. recvVar is "" for free functions / unnamed receivers; callVars are the variables a
// receiver-style call may be written on (the method's receiver, or a parameter of a free function).
func (g *goGen) body(fn *GoFunc) []GoStmt {
	r := g.r
	var vars []string
	for _, p := range fn.Params {
		if !p.Variadic {
			for _, n := range p.Names {
				if n != "_" {
					vars = append(vars, n)
				}
			}
		}
	}
	var callVars []string
	if fn.Recv != nil && fn.Recv.Var != "" {
		callVars = append(callVars, fn.Recv.Var)
		vars = append(vars, fn.Recv.Var)
	} else if fn.Recv == nil && len(fn.Params) > 0 && !fn.Params[0].Variadic && fn.Params[0].Names[0] != "_" && r.Chance(1, 2) {
		callVars = append(callVars, fn.Params[0].Names[0])
	}
	var quals []string
	for _, im := range g.imports {
		if im.Qual != "" {
			quals = append(quals, im.Qual)
		}
	}
	n := r.Range(0, 6)
	var out []GoStmt
	for i := 0; i < n; i++ {
		k := r.Intn(12)
		switch {
		case k < 3 && len(quals) > 0:
			st := GoStmt{Kind: StCallPkg, Qual: r.Pick(quals), Func: g.nm.camelVerb(true)}
			g.finishCall(&st, vars, quals, callVars, 1)
			out = append(out, st)
		case k < 6 && len(callVars) > 0:
			st := GoStmt{Kind: StCallRecv, Qual: r.Pick(callVars), Func: g.nm.camelVerb(r.Bool())}
			g.finishCall(&st, vars, quals, callVars, 1)
			out = append(out, st)
		case k == 6:
			f := g.nm.camelVerb(false)
			out = append(out, GoStmt{Kind: StCallBare, Func: f, Text: f + "(" + g.args(vars) + ")"})
		case k == 7:
			var q string
			if len(quals) > 0 && r.Bool() {
				q = r.Pick(quals)
			} else if len(callVars) > 0 {
				q = r.Pick(callVars)
			}
			if q == "" {
				continue
			}
			f := g.nm.camelVerb(true)
			out = append(out, GoStmt{Kind: StDefer, Qual: q, Func: f, Text: "defer " + q + "." + f + "(" + g.args(vars) + ")"})
		case k < 10:
			v := g.nm.lower()
			var rhs string
			switch r.Intn(7) {
			case 0:
				rhs = fmt.Sprint(r.Intn(50))
			case 1:
				if len(vars) >= 2 {
					rhs = vars[0] + " + " + vars[1]
				} else {
					rhs = `"` + r.Pick(lowerWords) + `"`
				}
			case 2:
				if len(quals) > 0 {
					rhs = r.Pick(quals) + "." + g.nm.camelVerb(true) + "(" + g.args(vars) + ")" // a call, but not a call statement
				} else {
					rhs = "true"
				}
			case 3:
				if len(callVars) > 0 {
					rhs = r.Pick(callVars) + "." + g.nm.lower() // field read
				} else {
					rhs = "0"
				}
			case 4:
				if len(g.types) > 0 {
					rhs = r.Pick(g.types) + "{}"
				} else {
					rhs = "nil"
				}
			case 5:
				if len(callVars) > 0 {
					rhs = r.Pick(callVars) + "." + g.nm.camelVerb(false) + "(" + g.args(vars) + ")" // method call in an assignment
				} else {
					rhs = "1"
				}
			default:
				rhs = g.nm.camelVerb(false) + "(" + g.args(vars) + ")"
			}
			op := " := "
			if r.Chance(1, 5) && len(vars) > 0 {
				// plain assignment to an existing variable (never to the receiver / a call variable)
				cand := vars[r.Intn(len(vars))]
				isCallVar := false
				for _, cv := range callVars {
					if cv == cand {
						isCallVar = true
					}
				}
				if !isCallVar {
					v = cand
					op = " = "
				}
			}
			out = append(out, GoStmt{Kind: StAssign, Text: v + op + rhs})
			if op == " := " {
				vars = append(vars, v)
			}
		default:
			// a return ends the body (what follows would be dead but legal code; keep it realistic)
			out = append(out, g.returnStmt(fn, vars, quals, callVars))
			return out
		}
	}
	if fn.Results != "" {
		out = append(out, g.returnStmt(fn, vars, quals, callVars))
	}
	return out
}

// finishCall writes the argument list of a call statement; one call statement in five gets a function literal as
// its last argument whose body holds 1-3 statements (call statements, assignments; callbacks nest up to depth 2).
func (g *goGen) finishCall(st *GoStmt, vars, quals, callVars []string, depth int) {
	r := g.r
	args := g.args(vars)
	if depth <= 2 && r.Chance(1, 5) {
		p := g.nm.lower()
		innerVars := append(append([]string{}, vars...), p)
		onVars := append(append([]string{}, callVars...), p)
		n := r.Range(1, 3)
		var lines []string
		for i := 0; i < n; i++ {
			var in GoStmt
			switch k := r.Intn(6); {
			case k < 2 && len(quals) > 0:
				in = GoStmt{Kind: StCallPkg, Qual: r.Pick(quals), Func: g.nm.camelVerb(true)}
				g.finishCall(&in, innerVars, quals, callVars, depth+1)
			case k < 5:
				in = GoStmt{Kind: StCallRecv, Qual: r.Pick(onVars), Func: g.nm.camelVerb(r.Bool())}
				g.finishCall(&in, innerVars, quals, callVars, depth+1)
			default:
				in = GoStmt{Kind: StAssign, Text: g.nm.lower() + " := " + fmt.Sprint(r.Intn(9))}
			}
			in.InCallback = true
			st.Inner = append(st.Inner, in)
			lines = append(lines, strings.Repeat("\t", depth+1)+in.Text)
		}
		lit := "func(" + p + " " + r.Pick(goBuiltin) + ") {\n" + strings.Join(lines, "\n") + "\n" + strings.Repeat("\t", depth) + "}"
		if args != "" {
			args += ", "
		}
		args += lit
	}
	st.Text = st.Qual + "." + st.Func + "(" + args + ")"
}

func (g *goGen) returnStmt(fn *GoFunc, vars, quals, callVars []string) GoStmt {
	r := g.r
	if fn.Results == "" {
		return GoStmt{Kind: StReturn, Text: "return"}
	}
	nres := 1 + strings.Count(fn.Results, ",")
	var vals []string
	for i := 0; i < nres; i++ {
		switch r.Intn(6) {
		case 0:
			vals = append(vals, "nil")
		case 1:
			if len(vars) > 0 {
				vals = append(vals, r.Pick(vars))
			} else {
				vals = append(vals, "0")
			}
		case 2:
			if len(quals) > 0 {
				vals = append(vals, r.Pick(quals)+"."+g.nm.camelVerb(true)+"("+g.args(vars)+")")
			} else {
				vals = append(vals, "1")
			}
		case 3:
			if len(callVars) > 0 {
				vals = append(vals, r.Pick(callVars)+"."+g.nm.camelVerb(false)+"("+g.args(vars)+")")
			} else {
				vals = append(vals, `""`)
			}
		case 4:
			if len(vars) >= 2 {
				vals = append(vals, vars[0]+" + "+vars[1])
			} else {
				vals = append(vals, "nil")
			}
		default:
			vals = append(vals, fmt.Sprint(r.Intn(9)))
		}
	}
	return GoStmt{Kind: StReturn, Text: "return " + strings.Join(vals, ", ")}
}

// GenGo builds one Go file.
// idBase offsets the ids of the planted names, so that several files of one case never share a name.
func GenGo(r *run.Rand, file string, idBase int) *GoFile {
	g := &goGen{r: r, nm: &namer{r: r, n: idBase}}
	f := &GoFile{File: file, Pkg: r.Pick(lowerWords)}

	// imports
	nImp := r.Range(0, 5)
	std := []string{"fmt", "os", "strings", "net/http", "encoding/json", "io/ioutil", "sort", "time"}
	usedQual := map[string]bool{f.Pkg: true}
	for i := 0; i < nImp; i++ {
		im := GoImport{}
		if r.Chance(1, 3) {
			im.Path = r.Pick(std)
			parts := strings.Split(im.Path, "/")
			im.Qual = parts[len(parts)-1]
		} else {
			last := g.nm.lower()
			im.Path = r.Pick([]string{"example.org/", "code.example.com/team/", "internal.example/", ""}) + g.nm.lower() + "/" + last
			if r.Chance(1, 3) {
				im.Path = last
			}
			im.Qual = last
		}
		if r.Chance(1, 4) {
			im.Alias = g.nm.lower()
			im.Qual = im.Alias
		} else if r.Chance(1, 20) {
			im.Alias = "_"
			im.Qual = ""
		}
		im.Raw = r.Chance(1, 6)
		if im.Qual != "" && usedQual[im.Qual] {
			continue
		}
		dup := false
		for _, o := range f.Imports {
			if o.Path == im.Path {
				dup = true
			}
		}
		if dup {
			continue
		}
		usedQual[im.Qual] = true
		f.Imports = append(f.Imports, im)
	}
	g.imports = f.Imports
	f.ImportStyle = r.Intn(3)

	// type declarations
	nStruct := r.Range(1, 6)
	if r.Chance(1, 3) {
		nStruct = r.Range(1, 2)
	}
	nIface := r.Range(0, 3)
	var typeDecls []GoDecl
	for i := 0; i < nStruct; i++ {
		g.types = append(g.types, g.nm.typ())
	}
	for i := 0; i < nStruct; i++ {
		st := &GoStruct{Name: g.types[i]}
		if r.Chance(1, 10) {
			st.Name = strings.ToLower(st.Name[:1]) + st.Name[1:] // unexported struct
			g.types[i] = st.Name
		}
		if !r.Chance(1, 12) {
			st.Fields = g.fields(1, 5, true)
		}
		typeDecls = append(typeDecls, GoDecl{Struct: st})
	}
	for i := 0; i < nIface; i++ {
		it := &GoIface{Name: g.nm.typ()}
		nm := r.Range(1, 4)
		if r.Chance(1, 12) {
			nm = 0
		}
		for j := 0; j < nm; j++ {
			ps := g.params()
			it.Methods = append(it.Methods, GoIfaceMethod{Name: g.nm.camelVerb(!r.Chance(1, 5)), Params: renderParams(ps), Fields: ps, Results: g.results()})
		}
		if nm > 0 && r.Chance(1, 10) {
			it.Embeds = append(it.Embeds, r.Pick([]string{"fmt.Stringer", "io.Closer", capitalize(r.Pick(lowerWords)) + "er"}))
		}
		typeDecls = append(typeDecls, GoDecl{Iface: it})
	}
	// order of type declarations
	perm := r.Perm(len(typeDecls))
	ordered := make([]GoDecl, len(typeDecls))
	for i, p := range perm {
		ordered[i] = typeDecls[p]
	}
	typeDecls = ordered

	// methods and functions
	var structs []*GoStruct
	for _, d := range typeDecls {
		if d.Struct != nil {
			structs = append(structs, d.Struct)
		}
	}
	nMeth := r.Range(0, 2*len(structs))
	var methods []*GoFunc
	for i := 0; i < nMeth; i++ {
		st := structs[r.Intn(len(structs))]
		fn := &GoFunc{Name: g.nm.camelVerb(r.Bool())}
		fn.Recv = &GoRecv{Type: st.Name, Pointer: r.Bool(), Var: strings.ToLower(st.Name[:1])}
		if r.Chance(1, 4) {
			fn.Recv.Var = r.Pick([]string{"self", "this", "recv", "me"})
		}
		if r.Chance(1, 12) {
			fn.Recv.Var = ""
		}
		fn.Params = g.params()
		// a parameter must not reuse the receiver variable's name: names carry ids, receiver variables do not
		fn.Results = g.results()
		fn.Body = g.body(fn)
		st.Methods = append(st.Methods, fn)
		methods = append(methods, fn)
	}
	nFn := r.Range(0, 4)
	var funcs []*GoFunc
	for i := 0; i < nFn; i++ {
		fn := &GoFunc{Name: g.nm.camelVerb(r.Bool())}
		fn.Params = g.params()
		fn.Results = g.results()
		if r.Chance(1, 10) {
			fn.NoBody = true // implemented in assembly / linked in
		} else {
			fn.Body = g.body(fn)
		}
		funcs = append(funcs, fn)
	}

	// layout: either all types first (grouped or not), or interleaved; in the interleaved layout one method in four
	// is placed anywhere, i.e. possibly above the declaration of its receiver type
	grouped := len(typeDecls) >= 2 && r.Chance(1, 6)
	switch {
	case grouped:
		f.Decls = append(f.Decls, GoDecl{Group: typeDecls})
		rest := append(append([]*GoFunc{}, methods...), funcs...)
		for _, p := range r.Perm(len(rest)) {
			f.Decls = append(f.Decls, GoDecl{Func: rest[p]})
		}
	case r.Chance(1, 3):
		f.Decls = append(f.Decls, typeDecls...)
		rest := append(append([]*GoFunc{}, methods...), funcs...)
		for _, p := range r.Perm(len(rest)) {
			f.Decls = append(f.Decls, GoDecl{Func: rest[p]})
		}
	default:
		// interleave: insert every function at a random position, methods at a random position after their type
		// (or, one in four, at any position)
		decls := append([]GoDecl{}, typeDecls...)
		for _, fn := range funcs {
			at := r.Intn(len(decls) + 1)
			decls = append(decls[:at], append([]GoDecl{{Func: fn}}, decls[at:]...)...)
		}
		for _, me := range methods {
			pos := 0
			for i, d := range decls {
				if d.Struct != nil && d.Struct.Name == me.Recv.Type {
					pos = i + 1
				}
			}
			if r.Chance(1, 4) {
				pos = 0
			}
			at := pos + r.Intn(len(decls)-pos+1)
			decls = append(decls[:at], append([]GoDecl{{Func: me}}, decls[at:]...)...)
		}
		f.Decls = decls
	}
	f.markAboveType()
	f.render(r)
	return f
}

// markAboveType sets AboveType on every method that is written above the declaration of its receiver type.
func (f *GoFile) markAboveType() {
	declared := map[string]bool{}
	f.walk(func(d *GoDecl) {
		if d.Struct != nil {
			declared[d.Struct.Name] = true
		}
		if d.Func != nil && d.Func.Recv != nil {
			d.Func.AboveType = !declared[d.Func.Recv.Type]
		}
	})
}

func (f *GoFile) render(r *run.Rand) {
	var sb strings.Builder
	if r.Chance(1, 6) {
		sb.WriteString("// Package " + f.Pkg + " is generated: func Fake() {} type Nope struct{}\n")
	}
	sb.WriteString("package " + f.Pkg + "\n\n")
	imp := func(im GoImport) string {
		q := "\""
		if im.Raw {
			q = "`"
		}
		if im.Alias != "" {
			return im.Alias + " " + q + im.Path + q
		}
		return q + im.Path + q
	}
	if len(f.Imports) > 0 {
		switch f.ImportStyle {
		case 0:
			sb.WriteString("import (\n")
			for _, im := range f.Imports {
				sb.WriteString("\t" + imp(im) + "\n")
			}
			sb.WriteString(")\n\n")
		case 1:
			for _, im := range f.Imports {
				sb.WriteString("import " + imp(im) + "\n")
			}
			sb.WriteString("\n")
		default:
			sb.WriteString("import " + imp(f.Imports[0]) + "\n")
			if len(f.Imports) > 1 {
				sb.WriteString("import (\n")
				for _, im := range f.Imports[1:] {
					sb.WriteString("\t" + imp(im) + "\n")
				}
				sb.WriteString(")\n")
			}
			sb.WriteString("\n")
		}
	}
	typeBody := func(d *GoDecl, ind string) string {
		var b strings.Builder
		if d.Struct != nil {
			if len(d.Struct.Fields) == 0 {
				return d.Struct.Name + " struct{}\n"
			}
			b.WriteString(d.Struct.Name + " struct {\n")
			for _, fl := range d.Struct.Fields {
				b.WriteString(ind + "\t")
				if len(fl.Names) > 0 {
					b.WriteString(strings.Join(fl.Names, ", ") + " ")
				}
				b.WriteString(fl.Type)
				if fl.Tag != "" {
					b.WriteString(" " + fl.Tag)
				}
				b.WriteString("\n")
			}
			b.WriteString(ind + "}\n")
			return b.String()
		}
		it := d.Iface
		if len(it.Methods) == 0 && len(it.Embeds) == 0 {
			return it.Name + " interface{}\n"
		}
		b.WriteString(it.Name + " interface {\n")
		for _, e := range it.Embeds {
			b.WriteString(ind + "\t" + e + "\n")
		}
		for _, m := range it.Methods {
			b.WriteString(ind + "\t" + m.Name + "(" + m.Params + ")" + m.Results + "\n")
		}
		b.WriteString(ind + "}\n")
		return b.String()
	}
	for i := range f.Decls {
		d := &f.Decls[i]
		switch {
		case d.Group != nil:
			sb.WriteString("type (\n")
			for j := range d.Group {
				if r.Chance(1, 4) {
					sb.WriteString("\t// " + r.Pick(lowerWords) + " type\n")
				}
				sb.WriteString("\t" + typeBody(&d.Group[j], "\t"))
			}
			sb.WriteString(")\n\n")
		case d.Struct != nil || d.Iface != nil:
			if r.Chance(1, 5) {
				sb.WriteString("// doc comment: type Hidden struct { x int }\n")
			}
			sb.WriteString("type " + typeBody(d, "") + "\n")
		default:
			fn := d.Func
			sb.WriteString("func ")
			if fn.Recv != nil {
				t := fn.Recv.Type
				if fn.Recv.Pointer {
					t = "*" + t
				}
				if fn.Recv.Var != "" {
					sb.WriteString("(" + fn.Recv.Var + " " + t + ") ")
				} else {
					sb.WriteString("(" + t + ") ")
				}
			}
			if fn.NoBody {
				sb.WriteString(fn.Name + "(" + renderParams(fn.Params) + ")" + fn.Results + "\n\n")
				continue
			}
			sb.WriteString(fn.Name + "(" + renderParams(fn.Params) + ")" + fn.Results + " {\n")
			for _, s := range fn.Body {
				sb.WriteString("\t" + s.Text + "\n")
			}
			sb.WriteString("}\n\n")
		}
	}
	f.Text = sb.String()
	f.InlineIfaces = strings.Count(f.Text, "interface{ ")
}

// Shape is a structural description without the random names.
func (f *GoFile) Shape() string {
	var sb strings.Builder
	fmt.Fprintf(&sb, "imp%d/%d|", len(f.Imports), f.ImportStyle)
	for _, im := range f.Imports {
		if im.Alias != "" {
			sb.WriteString("a")
		} else {
			sb.WriteString("p")
		}
		if im.Raw {
			sb.WriteString("r")
		}
	}
	recvIdx := map[string]int{}
	var one func(d *GoDecl)
	one = func(d *GoDecl) {
		switch {
		case d.Group != nil:
			sb.WriteString("G(")
			for j := range d.Group {
				one(&d.Group[j])
			}
			sb.WriteString(")")
		case d.Struct != nil:
			recvIdx[d.Struct.Name] = len(recvIdx)
			sb.WriteString("S(")
			for _, fl := range d.Struct.Fields {
				fmt.Fprintf(&sb, "%d", len(fl.Names))
			}
			sb.WriteString(")")
		case d.Iface != nil:
			fmt.Fprintf(&sb, "I(%d,%d)", len(d.Iface.Methods), len(d.Iface.Embeds))
		default:
			fn := d.Func
			if fn.Recv != nil {
				fmt.Fprintf(&sb, "M(%d,%v,%v,%v;", recvIdx[fn.Recv.Type], fn.Recv.Pointer, fn.Recv.Var != "", fn.AboveType)
			} else {
				fmt.Fprintf(&sb, "F(%v", fn.NoBody)
			}
			for _, p := range fn.Params {
				fmt.Fprintf(&sb, "%d", len(p.Names))
				for _, n := range p.Names {
					if n == "_" {
						sb.WriteString("_")
					}
				}
			}
			sb.WriteString(";")
			for _, s := range fn.AllStmts() {
				sb.WriteString(s.Kind[:1] + s.Kind[len(s.Kind)-1:])
				if len(s.Inner) > 0 {
					fmt.Fprintf(&sb, "{%d}", len(s.Inner))
				}
			}
			sb.WriteString(")")
		}
	}
	for i := range f.Decls {
		one(&f.Decls[i])
	}
	return sb.String()
}

// ShareGoNames makes b declare some names that a declares too (a second directory of the same scan that happens to
// use the same names: two `package main` commands both with `type Options struct` and `func Run()`): one struct,
// and/or one interface, and/or one exported free function of b take the name of a declaration of the same kind in
// a. Members (fields, methods, interface methods, bodies) stay b's own, so the two declarations differ.
// samePkg: b also takes a's package clause. It returns the shared names; a and b are rendered again.
func ShareGoNames(r *run.Rand, a, b *GoFile, samePkg bool) []string {
	var shared []string
	if as, bs := a.Structs(), b.Structs(); len(as) > 0 && len(bs) > 0 && r.Chance(3, 4) {
		sa, sb := as[r.Intn(len(as))], bs[r.Intn(len(bs))]
		sb.Name = sa.Name
		for _, me := range sb.Methods {
			me.Recv.Type = sa.Name
		}
		shared = append(shared, "struct "+sa.Name)
	}
	if ai, bi := a.Ifaces(), b.Ifaces(); len(ai) > 0 && len(bi) > 0 && r.Chance(1, 2) {
		ia, ib := ai[r.Intn(len(ai))], bi[r.Intn(len(bi))]
		ib.Name = ia.Name
		shared = append(shared, "interface "+ia.Name)
	}
	// a function both files declare; it is made exported (the flattened model keeps exported functions)
	if af, bf := a.Funcs(), b.Funcs(); len(af) > 0 && len(bf) > 0 && (r.Chance(1, 2) || len(shared) == 0) {
		fa, fb := af[r.Intn(len(af))], bf[r.Intn(len(bf))]
		fa.Name = capitalize(fa.Name)
		fb.Name = fa.Name
		shared = append(shared, "func "+fa.Name)
	}
	if len(shared) == 0 {
		return nil
	}
	if samePkg {
		b.Pkg = a.Pkg
		if r.Chance(1, 3) {
			a.Pkg, b.Pkg = "main", "main"
		}
	}
	a.render(r)
	b.render(r)
	return shared
}
