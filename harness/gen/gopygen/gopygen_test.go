package gopygen

import (
	"go/parser"
	"go/token"
	"strings"
	"testing"

	"verifharness/run"
)

// Generator self-tests: Go files parse with go/parser, small Python modules stay within the lexer budget,
// generation is a pure function of the stream, planted names are unique within a file.
func TestGoFilesParse(t *testing.T) {
	above, nobody, raw := 0, 0, 0
	for i := 0; i < 500; i++ {
		f := GenGo(run.CaseRand("C20", 7, i), "x.go", 0)
		if _, err := parser.ParseFile(token.NewFileSet(), "x.go", f.Text, 0); err != nil {
			t.Fatalf("case %d: %v\n%s", i, err, f.Text)
		}
		g := GenGo(run.CaseRand("C20", 7, i), "x.go", 0)
		if g.Text != f.Text {
			t.Fatalf("case %d: generation is not deterministic", i)
		}
		seen := map[string]bool{}
		add := func(n string) {
			if seen[n] {
				t.Fatalf("case %d: name %s planted twice\n%s", i, n, f.Text)
			}
			seen[n] = true
		}
		for _, s := range f.Structs() {
			add(s.Name)
			for _, fl := range s.Fields {
				for _, n := range fl.Names {
					if n != "_" {
						add(n)
					}
				}
			}
		}
		for _, it := range f.Ifaces() {
			add(it.Name)
			for _, m := range it.Methods {
				add(m.Name)
			}
		}
		for _, fn := range append(f.Funcs(), f.Methods()...) {
			add(fn.Name)
			for _, s := range fn.Body {
				if s.Func != "" {
					add(s.Func)
				}
			}
		}
		// every method has its receiver type in the file; AboveType says whether it is written above it
		pos := map[string]int{}
		k := 0
		f.walk(func(d *GoDecl) {
			k++
			if d.Struct != nil {
				pos[d.Struct.Name] = k
			}
		})
		k = 0
		f.walk(func(d *GoDecl) {
			k++
			if d.Func != nil && d.Func.Recv != nil {
				p, ok := pos[d.Func.Recv.Type]
				if !ok {
					t.Fatalf("case %d: receiver type of %s is not declared in the file", i, d.Func.Name)
				}
				if (p > k) != d.Func.AboveType {
					t.Fatalf("case %d: AboveType of %s is wrong", i, d.Func.Name)
				}
				if d.Func.AboveType {
					above++
				}
			}
			if d.Func != nil && d.Func.NoBody {
				nobody++
			}
		})
		for _, im := range f.Imports {
			if im.Raw {
				raw++
				if !strings.Contains(f.Text, "`"+im.Path+"`") {
					t.Fatalf("case %d: raw import %s not rendered", i, im.Path)
				}
			}
		}
	}
	if above < 20 || nobody < 20 || raw < 50 {
		t.Fatalf("dimensions too rare: above=%d nobody=%d raw=%d", above, nobody, raw)
	}
}

func TestPyBudgetAndUniqueness(t *testing.T) {
	for i := 0; i < 2000; i++ {
		m := GenPy(run.CaseRand("C20", 7, i), "x.py", false, 0)
		if m.LexEvents > PySmallBudget+1 || (!m.LongLine && m.LexEvents > PySmallBudget) {
			t.Fatalf("case %d: small module has %d lexer events\n%s", i, m.LexEvents, m.Text)
		}
		if m2 := GenPy(run.CaseRand("C20", 7, i), "x.py", false, 0); m2.Text != m.Text {
			t.Fatalf("case %d: generation is not deterministic", i)
		}
		seen := map[string]bool{}
		add := func(n string) {
			if seen[n] {
				t.Fatalf("case %d: name %s planted twice\n%s", i, n, m.Text)
			}
			seen[n] = true
		}
		for _, c := range m.Classes() {
			add(c.Name)
			for _, d := range c.Decos {
				add("@" + d.Name)
			}
			for _, me := range c.Methods() {
				add(me.Name)
				for _, d := range me.Decos {
					add("@" + d.Name)
				}
				for _, n := range me.NestedNames() {
					add(n)
				}
			}
		}
		for _, f := range m.Funcs() {
			add(f.Name)
			for _, d := range f.Decos {
				add("@" + d.Name)
			}
			for _, n := range f.NestedNames() {
				add(n)
			}
		}
		if len(m.Classes())+len(m.Funcs())+len(m.Imports()) == 0 {
			t.Fatalf("case %d: empty module", i)
		}
		if strings.Contains(m.Text, "\t") && m.Indent != "\t" {
			t.Fatalf("case %d: stray tab", i)
		}
	}
	large := 0
	for i := 0; i < 300; i++ {
		m := GenPy(run.CaseRand("C20", 7, i), "x.py", true, 0)
		if m.LexEvents > PySmallBudget+1 {
			large++
		}
	}
	if large < 280 {
		t.Fatalf("only %d of 300 'large' modules exceed the lexer budget", large)
	}
}

// The same-name dimension: after sharing, both files still parse, each file keeps unique names of its own, and
// the shared names really occur in both.
func TestShareNames(t *testing.T) {
	sharedGo, sharedPy := 0, 0
	for i := 0; i < 300; i++ {
		r := run.CaseRand("C20", 9, i)
		a, b := GenGo(r.Fork(), "cmd/server/a.go", 0), GenGo(r.Fork(), "cmd/worker/b.go", 1000)
		names := ShareGoNames(r.Fork(), a, b, i%2 == 0)
		for _, f := range []*GoFile{a, b} {
			if _, err := parser.ParseFile(token.NewFileSet(), f.File, f.Text, 0); err != nil {
				t.Fatalf("case %d: %v\n%s", i, err, f.Text)
			}
			seen := map[string]bool{}
			for _, s := range f.Structs() {
				if seen[s.Name] {
					t.Fatalf("case %d: %s twice in one file", i, s.Name)
				}
				seen[s.Name] = true
				for _, me := range s.Methods {
					if me.Recv.Type != s.Name {
						t.Fatalf("case %d: receiver of %s not renamed", i, me.Name)
					}
				}
			}
		}
		for _, n := range names {
			sharedGo++
			word := n[strings.LastIndex(n, " ")+1:]
			if !strings.Contains(a.Text, word) || !strings.Contains(b.Text, word) {
				t.Fatalf("case %d: shared name %s not in both files", i, n)
			}
		}
		pa, pb := GenPy(r.Fork(), "a.py", false, 0), GenPy(r.Fork(), "b.py", false, 1000)
		for _, n := range SharePyNames(r.Fork(), pa, pb) {
			sharedPy++
			word := n[strings.LastIndex(n, " ")+1:]
			if !strings.Contains(pa.Text, word) || !strings.Contains(pb.Text, word) {
				t.Fatalf("case %d: shared name %s not in both modules", i, n)
			}
		}
		if pa.LexEvents > PySmallBudget+1 || pb.LexEvents > PySmallBudget+1 {
			t.Fatalf("case %d: sharing changed the lexer budget", i)
		}
	}
	if sharedGo < 200 || sharedPy < 100 {
		t.Fatalf("too few shared names: go %d, py %d", sharedGo, sharedPy)
	}
}
