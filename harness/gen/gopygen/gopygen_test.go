package gopygen

import (
	"go/parser"
	"go/token"
	"strings"
	"testing"

	"verifharness/run"
)

// Generator self-tests: Go files parse with go/parser, small Python modules stay within the lexer budget,
// generation is a pure function of the stream, planted names are unique within a file.
func TestGoFilesParse(t *testing.T) {
	for i := 0; i < 500; i++ {
		f := GenGo(run.CaseRand("C20", 7, i), "x.go", 0)
		if _, err := parser.ParseFile(token.NewFileSet(), "x.go", f.Text, 0); err != nil {
			t.Fatalf("case %d: %v\n%s", i, err, f.Text)
		}
		g := GenGo(run.CaseRand("C20", 7, i), "x.go", 0)
		if g.Text != f.Text {
			t.Fatalf("case %d: generation is not deterministic", i)
		}
		seen := map[string]bool{}
		add := func(n string) {
			if seen[n] {
				t.Fatalf("case %d: name %s planted twice\n%s", i, n, f.Text)
			}
			seen[n] = true
		}
		for _, s := range f.Structs() {
			add(s.Name)
			for _, fl := range s.Fields {
				for _, n := range fl.Names {
					add(n)
				}
			}
		}
		for _, it := range f.Ifaces() {
			add(it.Name)
			for _, m := range it.Methods {
				add(m.Name)
			}
		}
		for _, fn := range append(f.Funcs(), f.Methods()...) {
			add(fn.Name)
			for _, s := range fn.Body {
				if s.Func != "" {
					add(s.Func)
				}
			}
		}
		// a method is declared after its receiver type
		pos := map[string]int{}
		k := 0
		f.walk(func(d *GoDecl) {
			k++
			if d.Struct != nil {
				pos[d.Struct.Name] = k
			}
			if d.Func != nil && d.Func.Recv != nil {
				if p, ok := pos[d.Func.Recv.Type]; !ok || p > k {
					t.Fatalf("case %d: method %s before its receiver type", i, d.Func.Name)
				}
			}
		})
	}
}

func TestPyBudgetAndUniqueness(t *testing.T) {
	for i := 0; i < 2000; i++ {
		m := GenPy(run.CaseRand("C20", 7, i), "x.py", false, 0)
		if m.LexEvents > PySmallBudget {
			t.Fatalf("case %d: small module has %d lexer events\n%s", i, m.LexEvents, m.Text)
		}
		if m2 := GenPy(run.CaseRand("C20", 7, i), "x.py", false, 0); m2.Text != m.Text {
			t.Fatalf("case %d: generation is not deterministic", i)
		}
		seen := map[string]bool{}
		add := func(n string) {
			if seen[n] {
				t.Fatalf("case %d: name %s planted twice\n%s", i, n, m.Text)
			}
			seen[n] = true
		}
		for _, c := range m.Classes() {
			add(c.Name)
			for _, d := range c.Decos {
				add("@" + d.Name)
			}
			for _, me := range c.Methods() {
				add(me.Name)
				for _, d := range me.Decos {
					add("@" + d.Name)
				}
				for _, n := range me.NestedNames() {
					add(n)
				}
			}
		}
		for _, f := range m.Funcs() {
			add(f.Name)
			for _, d := range f.Decos {
				add("@" + d.Name)
			}
			for _, n := range f.NestedNames() {
				add(n)
			}
		}
		if len(m.Classes())+len(m.Funcs())+len(m.Imports()) == 0 {
			t.Fatalf("case %d: empty module", i)
		}
		if strings.Contains(m.Text, "\t") && m.Indent != "\t" {
			t.Fatalf("case %d: stray tab", i)
		}
	}
	large := 0
	for i := 0; i < 300; i++ {
		m := GenPy(run.CaseRand("C20", 7, i), "x.py", true, 0)
		if m.LexEvents > PySmallBudget+1 {
			large++
		}
	}
	if large < 280 {
		t.Fatalf("only %d of 300 'large' modules exceed the lexer budget", large)
	}
}
