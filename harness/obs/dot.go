// Package obs holds readers for coca's output formats. No coca imports.
package obs

import (
	"fmt"
	"strings"
)

type Edge struct{ From, To string }

type dotTok struct {
	kind string // id, str, arrow, semi, lbrace, rbrace, eq
	text string
}

func dotLex(s string) ([]dotTok, error) {
	var toks []dotTok
	i := 0
	for i < len(s) {
		c := s[i]
		switch {
		case c == ' ' || c == '\t' || c == '\n' || c == '\r':
			i++
		case c == '"':
			j := i + 1
			var sb strings.Builder
			closed := false
			for j < len(s) {
				if s[j] == '\\' && j+1 < len(s) && s[j+1] == '"' {
					sb.WriteByte('"')
					j += 2
					continue
				}
				if s[j] == '"' {
					closed = true
					break
				}
				sb.WriteByte(s[j])
				j++
			}
			if !closed {
				return nil, fmt.Errorf("unterminated string at offset %d", i)
			}
			toks = append(toks, dotTok{"str", sb.String()})
			i = j + 1
		case c == '-' && i+1 < len(s) && s[i+1] == '>':
			toks = append(toks, dotTok{"arrow", "->"})
			i += 2
		case c == ';':
			toks = append(toks, dotTok{"semi", ";"})
			i++
		case c == '{':
			toks = append(toks, dotTok{"lbrace", "{"})
			i++
		case c == '}':
			toks = append(toks, dotTok{"rbrace", "}"})
			i++
		case c == '=':
			toks = append(toks, dotTok{"eq", "="})
			i++
		case c == '_' || c >= 'a' && c <= 'z' || c >= 'A' && c <= 'Z' || c >= '0' && c <= '9' || c >= 0x80:
			j := i
			for j < len(s) && (s[j] == '_' || s[j] >= 'a' && s[j] <= 'z' || s[j] >= 'A' && s[j] <= 'Z' || s[j] >= '0' && s[j] <= '9' || s[j] >= 0x80) {
				j++
			}
			toks = append(toks, dotTok{"id", s[i:j]})
			i = j
		default:
			return nil, fmt.Errorf("unexpected character %q at offset %d", c, i)
		}
	}
	return toks, nil
}

// ParseEdgeListDot parses the `digraph G { [attr = value;] "a" -> "b"; ... }` dialect that the call,
// rcall and api reports use. It returns the edge lines in order, or an error if the text is not
// well-formed in that dialect.
func ParseEdgeListDot(s string) ([]Edge, error) {
	toks, err := dotLex(s)
	if err != nil {
		return nil, err
	}
	p := 0
	next := func() dotTok {
		if p < len(toks) {
			t := toks[p]
			p++
			return t
		}
		return dotTok{"eof", ""}
	}
	peek := func() dotTok {
		if p < len(toks) {
			return toks[p]
		}
		return dotTok{"eof", ""}
	}
	if t := next(); t.kind != "id" || t.text != "digraph" {
		return nil, fmt.Errorf("expected 'digraph', got %q", t.text)
	}
	if t := next(); t.kind != "id" && t.kind != "str" {
		return nil, fmt.Errorf("expected graph name, got %q", t.text)
	}
	if t := next(); t.kind != "lbrace" {
		return nil, fmt.Errorf("expected '{', got %q", t.text)
	}
	var edges []Edge
	for {
		t := next()
		switch t.kind {
		case "rbrace":
			if peek().kind != "eof" {
				return nil, fmt.Errorf("text after closing brace: %q", peek().text)
			}
			return edges, nil
		case "semi":
			continue
		case "id", "str":
			op := next()
			switch op.kind {
			case "eq":
				if v := next(); v.kind != "id" && v.kind != "str" {
					return nil, fmt.Errorf("expected attribute value, got %q", v.text)
				}
			case "arrow":
				to := next()
				if to.kind != "id" && to.kind != "str" {
					return nil, fmt.Errorf("expected edge target, got %q (%s)", to.text, to.kind)
				}
				edges = append(edges, Edge{t.text, to.text})
			default:
				return nil, fmt.Errorf("expected '->' or '=' after %q, got %q (%s)", t.text, op.text, op.kind)
			}
			if e := next(); e.kind != "semi" {
				return nil, fmt.Errorf("expected ';' after statement, got %q (%s)", e.text, e.kind)
			}
		default:
			return nil, fmt.Errorf("unexpected token %q (%s)", t.text, t.kind)
		}
	}
}

func EdgeSet(es []Edge) map[Edge]int {
	m := map[Edge]int{}
	for _, e := range es {
		m[e]++
	}
	return m
}
