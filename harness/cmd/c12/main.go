package main

import (
	"verifharness/adapter/c12"
	"verifharness/run"
)

func main() { run.Main(c12.Check) }
