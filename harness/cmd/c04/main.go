package main

import (
	"verifharness/adapter/c04"
	"verifharness/run"
)

func main() { run.Main(c04.Check) }
