package main

import (
	"verifharness/adapter/c14"
	"verifharness/run"
)

func main() { run.Main(c14.Check) }
