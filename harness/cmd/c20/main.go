package main

import (
	"os"

	"verifharness/adapter/c20"
	"verifharness/run"
)

func main() {
	// hidden child modes (fresh-process Python parses, see adapter/c20)
	if c20.FreshMain(os.Args[1:]) {
		return
	}
	run.Main(c20.Check)
}
