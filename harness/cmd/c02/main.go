package main

import (
	"verifharness/adapter/c02"
	"verifharness/run"
)

func main() { run.Main(c02.Check) }
