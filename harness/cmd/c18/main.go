package main

import (
	"verifharness/adapter/c18"
	"verifharness/run"
)

func main() { run.Main(c18.Check) }
