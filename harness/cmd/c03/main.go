package main

import (
	"verifharness/adapter/c03"
	"verifharness/run"
)

func main() { run.Main(c03.Check) }
