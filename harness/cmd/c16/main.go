package main

import (
	"verifharness/adapter/c16"
	"verifharness/run"
)

func main() { run.Main(c16.Check) }
