package main

import (
	"verifharness/adapter/c15"
	"verifharness/run"
)

func main() { run.Main(c15.Check) }
