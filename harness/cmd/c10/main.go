package main

import (
	"verifharness/adapter/c10"
	"verifharness/run"
)

func main() { run.Main(c10.Check) }
