package main

import (
	"verifharness/adapter/c17"
	"verifharness/run"
)

func main() { run.Main(c17.Check) }
