package main

import (
	"verifharness/adapter/c07"
	"verifharness/run"
)

func main() { run.Main(c07.Check) }
