// javadump prints one generated project (debugging aid).
package main

import (
	"fmt"
	"os"
	"strconv"

	"verifharness/adapter/common"
	"verifharness/gen/javagen"
	"verifharness/run"
)

func main() {
	seed := 1
	if len(os.Args) > 1 {
		seed, _ = strconv.Atoi(os.Args[1])
	}
	n := 1
	if len(os.Args) > 2 {
		n, _ = strconv.Atoi(os.Args[2])
	}
	bad := 0
	for i := 0; i < n; i++ {
		r := run.CaseRand("dump", int64(seed), i)
		p := javagen.Generate(r, javagen.Opts{MinFiles: 1, MaxFiles: 4, MaxMethods: 6, MaxParams: 5, MaxFields: 4, Interfaces: true, Generics: true, Annotations: true, Ctors: true,
			Overloads: true, Excluded: true, Bodies: true, MaxStmts: 6, MaxSites: 25, Shadowing: true, SuffixImports: true, SameNameTwoPkgs: true, Lambdas: true, LongNames: true, MultiByte: n == 1})
		if err := javagen.SelfCheck(p); err != nil {
			fmt.Println("SELF-CHECK:", err)
			bad++
		}
		for _, f := range p.Files {
			if f.Type != nil {
				if ne, first := common.JavaSyntaxErrors(f.Text); ne > 0 {
					bad++
					fmt.Printf("SYNTAX ERRORS %d in case %d %s: %s\n%s\n", ne, i, f.RelPath, first, f.Text)
				}
			}
			if n == 1 {
				fmt.Printf("==== %s [%s]\n%s", f.RelPath, f.Role, f.Text)
			}
		}
	}
	fmt.Println("bad:", bad)
}
