package main

import (
	"verifharness/adapter/c01"
	"verifharness/run"
)

func main() { run.Main(c01.Check) }
