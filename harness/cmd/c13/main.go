package main

import (
	"verifharness/adapter/c13"
	"verifharness/run"
)

func main() { run.Main(c13.Check) }
