package main

import (
	"verifharness/adapter/c08"
	"verifharness/run"
)

func main() { run.Main(c08.Check) }
