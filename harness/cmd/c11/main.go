package main

import (
	"verifharness/adapter/c11"
	"verifharness/run"
)

func main() { run.Main(c11.Check) }
