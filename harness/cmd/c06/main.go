package main

import (
	"verifharness/adapter/c06"
	"verifharness/run"
)

func main() { run.Main(c06.Check) }
