package main

import (
	"verifharness/adapter/c09"
	"verifharness/run"
)

func main() { run.Main(c09.Check) }
