package main

import (
	"verifharness/adapter/c05"
	"verifharness/run"
)

func main() { run.Main(c05.Check) }
