package main

import (
	"verifharness/adapter/c19"
	"verifharness/run"
)

func main() { run.Main(c19.Check) }
