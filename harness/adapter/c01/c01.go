// Package c01 checks that every declared Java type and method appears exactly once in the code model
// (identifier pass and full pass; API and `coca analysis`).
package c01

import (
	"encoding/json"
	"io/ioutil"
	"path/filepath"
	"strings"

	"github.com/modernizing/coca/pkg/application/analysis/javaapp"
	"github.com/modernizing/coca/pkg/domain/core_domain"

	"verifharness/adapter/common"
	"verifharness/gen/javagen"
	"verifharness/oracle"
	"verifharness/run"
)

func cases(tier string) int {
	if tier == "thorough" {
		return 10000
	}
	return 800
}

func cliEvery(tier string) int {
	if tier == "thorough" {
		return 21
	}
	return 15
}

var Check = &run.Check{
	ID:    "C01",
	Level: "exploration",
	Rule: "case = generated conventional Java tree (1-12 main files in flat / nested / Maven layouts; classes and interfaces; generic types and generic class methods; arrays; final/annotated parameters; 0-7 parameters; " +
		"constructors; overloads, also starting on one line; abstract and interface methods; class annotations in marker/single/pairs/array forms; identifier lengths 1-40; random layout policy incl. members sharing lines, wrapped parameter lists, " +
		"comments between members; test files by name and by directory, .gitignore patterns, non-Java decoys) run through JavaIdentifierApp.AnalysisPath + JavaFullApp.AnalysisPath, every Nth case through `coca analysis -p DIR`; " +
		"non-trivial = >= 2 main types, >= 1 excluded file, >= 1 function with >= 2 parameters; distinct = hash of the abstract project shape (kinds, member counts, parameter counts, roles, layout)",
	Assumptions: []string{
		"every generated file is accepted by coca's own Java parser (rejects are counted as inconclusive)",
		"the identifier pass's record carries no parameter list and no file path by construction; those two attributes are checked on the full pass",
		"Extend may be the declared text or its fully-qualified resolution; order of Functions, Override, Modifiers, Implements, Fields, Imports are not asserted",
	},
	Cases: cases,
	Floor: func(tier string) int {
		if tier == "thorough" {
			return 500
		}
		return 30
	},
	Run: runCase,
}

var opts = javagen.Opts{AccessorNames: true, DeepLayout: true, ExoticNames: true, MinFiles: 1, MaxFiles: 12, MaxMethods: 10, MaxParams: 7, MaxFields: 4, Interfaces: true, Generics: true, Annotations: true, Ctors: true,
	Overloads: true, Excluded: true, Bodies: true, MaxStmts: 4, MaxSites: 10, LongNames: true, Lambdas: true, CStyleArrays: true, SuffixImports: true, SameNameTwoPkgs: true}

func shape(p *javagen.Project) string {
	var sb strings.Builder
	sb.WriteString(p.Layout)
	for _, f := range p.Files {
		sb.WriteString("|" + f.Role)
		if f.Type != nil {
			sb.WriteString(":" + f.Type.Kind)
			for _, m := range f.Type.Methods() {
				sb.WriteString("," + string(rune('0'+len(m.Params))))
				if m.IsCtor {
					sb.WriteString("c")
				}
			}
		}
	}
	return sb.String()
}

func runCase(c *run.Ctx, o *run.Outcome) {
	o2 := opts
	if c.Index%3 == 0 {
		o2.MaxFiles = 4
	}
	p := javagen.Generate(c.Rng, o2)
	if err := javagen.SelfCheck(p); err != nil {
		o.SetInconclusive("generator self-check: " + err.Error())
		return
	}
	nMain, nExcl, multiParam, sameLine := 0, 0, false, 0
	for _, f := range p.Files {
		if f.Role == javagen.RoleMain {
			nMain++
		} else {
			nExcl++
		}
		if f.Type != nil {
			if ne, first := common.JavaSyntaxErrors(f.Text); ne > 0 {
				o.SetInconclusive("generated file rejected by coca's Java parser: " + first)
				return
			}
			for _, m := range f.Type.Methods() {
				if len(m.Params) >= 2 {
					multiParam = true
				}
				if m.SameLineAsPrev && f.Role == javagen.RoleMain {
					sameLine++
				}
			}
		}
	}
	o.Shape = run.ShapeHash(shape(p))
	o.NonTrivial = nMain >= 2 && nExcl >= 1 && multiParam
	o.Count("files_main", nMain)
	o.Count("files_excluded", nExcl)
	o.Count("members_sharing_a_line", sameLine)
	o.Seen("layouts", p.Layout)
	dir := filepath.Join(c.Scratch(), "proj")
	if _, err := common.WriteProject(dir, p); err != nil {
		o.SetInconclusive("cannot write project: " + err.Error())
		return
	}
	files := map[string]string{}
	for _, f := range p.Files {
		files[f.RelPath] = f.Text
	}
	o.Witness = map[string]interface{}{"files": files, "gitignore": p.GitIgnore, "layout": p.Layout}
	pathOf := func(rel string) string { return filepath.Join(dir, filepath.FromSlash(rel)) }

	var ident, full []core_domain.CodeDataStruct
	cliKind := ""
	useCLI := c.CocaBin != "" && c.Index%cliEvery(c.Tier) == 0
	if useCLI {
		o.Count("cli_cases", 1)
		// the directory is named in one of the legal ways a user may name it (absolute, relative, ".", "..", trailing slash)
		cwd, arg, kind := common.SpellRoot(c.Index/cliEvery(c.Tier), dir, c.Scratch())
		o.Count("cli_root_spelled_"+kind, 1)
		res := common.RunCLI(c.CocaBin, cwd, nil, "analysis", "-p", arg)
		if res.TimedOut {
			o.SetInconclusive("cli watchdog")
			return
		}
		if res.ExitCode != 0 || strings.Contains(res.Stderr, "panic:") {
			o.Violate("cli-crash/root="+kind, "`coca analysis -p %s` exit %d: %s", arg, res.ExitCode, first(res.Stderr))
			return
		}
		ib, err1 := ioutil.ReadFile(filepath.Join(cwd, "coca_reporter", "identify.json"))
		fb, err2 := ioutil.ReadFile(filepath.Join(cwd, "coca_reporter", "deps.json"))
		if err1 != nil || err2 != nil || json.Unmarshal(ib, &ident) != nil || json.Unmarshal(fb, &full) != nil {
			o.Violate("cli-no-output/root="+kind, "`coca analysis -p %s` did not write readable identify.json / deps.json", arg)
			return
		}
		// paths in the report are relative to the working directory when the argument was
		for i := range full {
			full[i].FilePath = common.AbsFrom(cwd, full[i].FilePath)
		}
		for i := range ident {
			if ident[i].FilePath != "" {
				ident[i].FilePath = common.AbsFrom(cwd, ident[i].FilePath)
			}
		}
		cliKind = "/cli-root=" + kind
	} else {
		panicked, val, site := run.Guard(func() {
			ia := javaapp.NewJavaIdentifierApp()
			ident = ia.AnalysisPath(dir)
			fa := javaapp.NewJavaFullApp()
			full = fa.AnalysisPath(dir, ident)
		})
		if panicked {
			o.Violate("panic@"+site, "analysis panicked: %s", val)
			return
		}
	}
	ms, planted, matched := oracle.CheckDeclarations(p, common.ToObserved(ident), false, pathOf)
	o.Count("ident_types_planted", planted)
	o.Count("ident_types_matched", matched)
	ms2, planted2, matched2 := oracle.CheckDeclarations(p, common.ToObserved(full), true, pathOf)
	o.Count("full_types_planted", planted2)
	o.Count("full_types_matched", matched2)
	nf := 0
	for _, f := range p.Files {
		if f.Role == javagen.RoleMain {
			nf += len(f.Type.Methods())
		}
	}
	o.Count("functions_planted", nf)
	for _, m := range append(ms, ms2...) {
		o.Violate(m.Sig+cliKind, "%s", m.Msg)
	}
	// second history step (in-process cases): edit the tree in place without changing any file's length (a method
	// gets a new name of the same length), analyse the same paths again in the same process and decide again
	if !useCLI && len(o.Violations) == 0 {
		edited := 0
		for _, f := range p.Files {
			if f.Role != javagen.RoleMain || f.Type == nil || c.Rng.Chance(1, 3) {
				continue
			}
			var ms []*javagen.Method
			for _, m := range f.Type.Methods() {
				if !m.IsCtor && len(m.Name) >= 2 {
					ms = append(ms, m)
				}
			}
			if len(ms) == 0 {
				continue
			}
			m := ms[c.Rng.Intn(len(ms))]
			// same byte length (the file size does not change), so only ASCII positions are redrawn
			nb := []byte(m.Name)
			for i := 1; i < len(nb); i++ {
				if nb[i] < 0x80 {
					nb[i] = "abcdefghijklmnopqrstuvwxyz"[c.Rng.Intn(26)]
				}
			}
			nn := string(nb)
			clash := nn == m.Name || javaKeywords[nn]
			for _, other := range f.Type.Methods() {
				if other.Name == nn {
					clash = true
				}
			}
			if clash {
				continue
			}
			f.Text = f.Text[:m.NameByteOff] + nn + f.Text[m.NameByteOff+len(m.Name):]
			m.Name = nn
			ioutil.WriteFile(pathOf(f.RelPath), []byte(f.Text), 0o644)
			edited++
		}
		if edited > 0 {
			o.Count("second_step_files_edited_in_place", edited)
			var ident2, full2 []core_domain.CodeDataStruct
			panicked, val, site := run.Guard(func() {
				ia := javaapp.NewJavaIdentifierApp()
				ident2 = ia.AnalysisPath(dir)
				fa := javaapp.NewJavaFullApp()
				full2 = fa.AnalysisPath(dir, ident2)
			})
			if panicked {
				o.Violate("panic@"+site, "second analysis panicked: %s", val)
				return
			}
			a, _, _ := oracle.CheckDeclarations(p, common.ToObserved(ident2), false, pathOf)
			b, _, _ := oracle.CheckDeclarations(p, common.ToObserved(full2), true, pathOf)
			for _, m := range append(a, b...) {
				o.Violate("after-in-place-edit/"+m.Sig, "second analysis of the same paths after an in-place edit: %s", m.Msg)
			}
			o.Count("second_step_analyses", 1)
		}
	}
	if c.Index < 64 {
		var names []string
		for _, f := range p.Files {
			names = append(names, f.RelPath+" ["+f.Role+"]")
		}
		smp := map[string]interface{}{"files": names, "ident_types": len(ident), "full_types": len(full)}
		if len(p.Files) > 0 && p.Files[0].Type != nil && len(p.Files[0].Text) < 3000 {
			smp["first_file_text"] = p.Files[0].Text
		}
		o.Sample = smp
	}
}

// reserved words a randomly drawn same-length method name must not hit
var javaKeywords = func() map[string]bool {
	m := map[string]bool{}
	for _, k := range strings.Fields("abstract assert boolean break byte case catch char class const continue default do double else enum extends final finally float for goto if implements import instanceof int interface long native new package private protected public return short static strictfp super switch synchronized this throw throws transient try void volatile while true false null var") {
		m[k] = true
	}
	return m
}()

func first(s string) string {
	s = strings.TrimSpace(s)
	if len(s) > 300 {
		s = s[:300]
	}
	return strings.ReplaceAll(s, "\n", " / ")
}
