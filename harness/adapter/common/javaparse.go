package common

import (
	"io/ioutil"
	"os"
	"path/filepath"

	"github.com/antlr/antlr4/runtime/Go/antlr/v4"
	parser "github.com/modernizing/coca/languages/java"

	"verifharness/gen/javagen"
)

type countingListener struct {
	*antlr.DefaultErrorListener
	n     int
	first string
}

func (c *countingListener) SyntaxError(recognizer antlr.Recognizer, offendingSymbol interface{}, line, column int, msg string, e antlr.RecognitionException) {
	if c.n == 0 {
		c.first = msg
	}
	c.n++
}

// JavaSyntaxErrors parses text with the Java grammar coca ships and returns the number of syntax errors
// (parser-acceptance filter: texts the tool's own parser rejects are outside every quantifier).
func JavaSyntaxErrors(text string) (int, string) {
	cl := &countingListener{DefaultErrorListener: antlr.NewDefaultErrorListener()}
	is := antlr.NewInputStream(text)
	lexer := parser.NewJavaLexer(is)
	lexer.RemoveErrorListeners()
	lexer.AddErrorListener(cl)
	stream := antlr.NewCommonTokenStream(lexer, antlr.TokenDefaultChannel)
	p := parser.NewJavaParser(stream)
	p.RemoveErrorListeners()
	p.AddErrorListener(cl)
	p.CompilationUnit()
	return cl.n, cl.first
}

// WriteProject materialises a generated project under dir and returns the absolute paths of its main
// Java files in generation order.
func WriteProject(dir string, p *javagen.Project) (mainFiles []string, err error) {
	for _, f := range p.Files {
		path := filepath.Join(dir, filepath.FromSlash(f.RelPath))
		if err := os.MkdirAll(filepath.Dir(path), 0o755); err != nil {
			return nil, err
		}
		if err := ioutil.WriteFile(path, []byte(f.Text), 0o644); err != nil {
			return nil, err
		}
		if f.Role == javagen.RoleMain {
			mainFiles = append(mainFiles, path)
		}
	}
	if p.GitIgnore != "" {
		if err := ioutil.WriteFile(filepath.Join(dir, ".gitignore"), []byte(p.GitIgnore), 0o644); err != nil {
			return nil, err
		}
	}
	return mainFiles, nil
}
