// Package common holds the helpers shared by the adapters (the only packages that import coca).
package common

import (
	"bytes"
	"context"
	"encoding/json"
	"io/ioutil"
	"os"
	"os/exec"
	"path/filepath"
	"time"

	"github.com/awalterschulze/gographviz"
	"github.com/modernizing/coca/pkg/domain/core_domain"

	"verifharness/gen/modelgen"
)

// ToCoca converts a synthetic model to coca's code model.
func ToCoca(m *modelgen.Model) []core_domain.CodeDataStruct {
	var out []core_domain.CodeDataStruct
	for _, c := range m.Classes {
		ds := core_domain.CodeDataStruct{NodeName: c.Name, Package: c.Pkg, Type: c.Kind, Extend: c.Extend, FilePath: c.Pkg + "/" + c.Name + ".java"}
		for _, me := range c.Methods {
			fn := core_domain.CodeFunction{Name: me.Name, ReturnType: "void", IsConstructor: me.IsCtor}
			for _, call := range me.Calls {
				fn.FunctionCalls = append(fn.FunctionCalls, core_domain.CodeCall{Package: call.Pkg, NodeName: call.Class, FunctionName: call.Name,
					Position: core_domain.CodePosition{StartLine: call.Line, StopLine: call.Line}})
			}
			ds.Functions = append(ds.Functions, fn)
		}
		out = append(out, ds)
	}
	return out
}

// GraphvizParses uses the third-party DOT parser coca already depends on as an independent judge of
// well-formedness.
func GraphvizParses(dot string) error {
	_, err := gographviz.Parse([]byte(dot))
	return err
}

func WriteJSON(path string, v interface{}) error {
	b, err := json.MarshalIndent(v, "", "\t")
	if err != nil {
		return err
	}
	os.MkdirAll(filepath.Dir(path), 0o755)
	return ioutil.WriteFile(path, b, 0o644)
}

type CLIResult struct {
	Stdout, Stderr string
	ExitCode       int
	TimedOut       bool
}

// RunCLI runs a binary with cwd=dir. The timeout is a watchdog only (its firing is inconclusive).
func RunCLI(bin, dir string, env []string, args ...string) CLIResult {
	ctx, cancel := context.WithTimeout(context.Background(), 300*time.Second)
	defer cancel()
	cmd := exec.CommandContext(ctx, bin, args...)
	cmd.Dir = dir
	// coca starts a CPU profile into a fresh $TMPDIR/profile*/ on every invocation and never removes it: give each
	// invocation a temporary directory of its own (outside the analysed tree) and remove it afterwards
	tmp, terr := ioutil.TempDir("", "vfcli-")
	cmd.Env = append(os.Environ(), env...)
	if terr == nil {
		cmd.Env = append(cmd.Env, "TMPDIR="+tmp)
		defer os.RemoveAll(tmp)
	}
	var so, se bytes.Buffer
	cmd.Stdout = &so
	cmd.Stderr = &se
	err := cmd.Run()
	res := CLIResult{Stdout: so.String(), Stderr: se.String()}
	if ctx.Err() != nil {
		res.TimedOut = true
	}
	if err != nil {
		if ee, ok := err.(*exec.ExitError); ok {
			res.ExitCode = ee.ExitCode()
		} else {
			res.ExitCode = -1
		}
	}
	return res
}

// SpellRoot chooses one of the legal ways a user may name the directory absDir on a command line and returns the
// working directory to start the command in and the argument to pass. The same directory is meant in every case:
//
//	abs            /x/proj                 (cwd = fallbackCwd)
//	abs-slash      /x/proj/                (cwd = fallbackCwd)
//	rel            proj                    (cwd = /x)
//	dot-rel        ./proj                  (cwd = /x)
//	rel-slash      proj/                   (cwd = /x)
//	dot            .                       (cwd = /x/proj)
//	dotdot         ..                      (cwd = /x/proj/<an existing or newly created empty sub-directory>)
//	sub-dotdot     /x/proj/<sub>/..        (cwd = fallbackCwd)
//	via-sibling    ../proj                 (cwd = /x/<newly created empty sibling>)
//
// Commands that write coca_reporter/ into the working directory then write it into cwd: callers read the report
// from filepath.Join(cwd, "coca_reporter"). File paths in a report are relative to cwd when arg is relative:
// resolve them with AbsFrom(cwd, p). pick in [0, 9) selects the kind (callers pass r.Intn(9) or a fixed rotation).
func SpellRoot(pick int, absDir, fallbackCwd string) (cwd, arg, kind string) {
	parent, name := filepath.Dir(absDir), filepath.Base(absDir)
	emptySub := func() string {
		sub := filepath.Join(absDir, "zzcwd")
		os.MkdirAll(sub, 0o755)
		return sub
	}
	switch pick % 9 {
	case 1:
		return fallbackCwd, absDir + string(filepath.Separator), "abs-slash"
	case 2:
		return parent, name, "rel"
	case 3:
		return parent, "." + string(filepath.Separator) + name, "dot-rel"
	case 4:
		return parent, name + string(filepath.Separator), "rel-slash"
	case 5:
		return absDir, ".", "dot"
	case 6:
		return emptySub(), "..", "dotdot"
	case 7:
		return fallbackCwd, filepath.Join(emptySub()) + string(filepath.Separator) + "..", "sub-dotdot"
	case 8:
		sib := filepath.Join(parent, "zzsibling")
		os.MkdirAll(sib, 0o755)
		return sib, ".." + string(filepath.Separator) + name, "via-sibling"
	}
	return fallbackCwd, absDir, "abs"
}

// AbsFrom resolves a path printed by a command that was started in cwd.
func AbsFrom(cwd, p string) string {
	if filepath.IsAbs(p) {
		return filepath.Clean(p)
	}
	return filepath.Clean(filepath.Join(cwd, p))
}
